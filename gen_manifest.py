#!/usr/bin/env python3
"""Regenerates MANIFEST.json from the properties registered in the analyzer
(`specterlint -list`) and from NOT_APPLICABLE.json (property -> reason)."""
import json, subprocess, os
here = os.path.dirname(os.path.abspath(__file__))
reg = json.loads(subprocess.check_output([os.path.join(here, "bin/specterlint"), "-list"]))
na = json.load(open(os.path.join(here, "NOT_APPLICABLE.json")))
tech = json.load(open(os.path.join(here, "TECHNIQUES.json")))
ids = [json.loads(l)["id"] for l in open(os.path.join(here, "properties.jsonl"))]
checks, notapp = [], []
regd = {r["id"]: r for r in reg}
for pid in ids:
    if pid in regd:
        r = regd[pid]
        cat = "proof" if r["level"] == "proof" else "other"
        checks.append({
            "property_id": pid,
            "quick_cmd": f"./run.sh {pid} quick",
            "thorough_cmd": f"./run.sh {pid} thorough",
            "evidence_file": f"/verif/evidence/{pid}.json",
            "replay_cmd_template": "cat {path}",
            "engine": "specterlint",
            "level_claimed": {
                "category": cat,
                "text": ("Static all-paths / all-order-types decision over the type-checked source. Decides: " + r["decides"]),
                "design_ref": f"DESIGN.md section 5, {pid}",
            },
            "level_note": "Trusted: go/types, go/packages, x/tools go/cfg, the rule tables in /verif/analyzer, and the stated semantics of the third-party APIs each rule names (listed in the evidence 'assumptions'). NOT decided: " + r["not_decided"],
            "technique": tech.get(pid, "static analysis: custom go/types + go/cfg rules"),
        })
    else:
        notapp.append({"property_id": pid, "reason": na.get(pid, "rule not built yet (see DESIGN.md section 8)")})
m = {
    "version": 1,
    "setup_cmd": "./setup.sh",
    "hooks": {"guard": "verif", "enable": "none needed: the checks read the source only (no hooks, no instrumentation)",
              "baseline_off_cmd": json.load(open("/root/.vp/BASELINE.json"))["cmd"] if os.path.exists("/root/.vp/BASELINE.json") else "",
              "source_commits": [], "add_only": True},
    "engines": [{"name": "specterlint", "path": "analyzer/", "serves_properties": sorted(regd),
                 "kind_free_text": "repository-specific static analyzer (go/packages, go/types, go/cfg): path-facts must-analysis (edge-cut / must-pass-through, locksets, typestate), finite order-type evaluation, interval+congruence abstract interpretation, registry/sibling agreement, in-memory mutant self-tests"}],
    "checks": checks,
    "not_applicable": notapp,
    "notes": "Technique family: static analysis only. Every check re-parses and re-type-checks /repo's working tree; nothing of /repo is executed. See DESIGN.md.",
}
json.dump(m, open(os.path.join(here, "MANIFEST.json"), "w"), indent=1)
print(f"{len(checks)} checks, {len(notapp)} not_applicable")
