#!/bin/bash
# Builds /verif/bin/specterlint from /verif/analyzer, offline.
set -eu
HERE="$(cd "$(dirname "${BASH_SOURCE[0]}")" && pwd)"
export PATH=/opt/veriftools/go1.26.8/bin:$PATH
export GOFLAGS=-mod=mod GOPROXY=off GOSUMDB=off GOTOOLCHAIN=local
unset GOWORK
mkdir -p "$HERE/bin" "$HERE/evidence"
cd "$HERE/analyzer"
go build -o "$HERE/bin/specterlint" .
