#!/usr/bin/env python3
"""Rewrites the generated blocks of DESIGN.md (between <!-- BEGIN:x --> / <!-- END:x -->):
seeded changes (from seeded/*/meta.json) and findings (from KNOWN_FINDINGS.json)."""
import json, glob, os, re
root = os.path.dirname(os.path.dirname(os.path.abspath(__file__)))
d = open(os.path.join(root, "DESIGN.md")).read()
rows = ["| seed | breaks | what the change does | needs, to manifest | detected by |", "|---|---|---|---|---|"]
for f in sorted(glob.glob(os.path.join(root, "seeded/*/meta.json"))):
    m = json.load(open(f)); name = os.path.basename(os.path.dirname(f))
    clean = lambda s: re.sub(r"\s+", " ", str(s)).replace("|", "\\|")
    rows.append(f"| {name} | {m['property']} | {clean(m.get('breaks',''))[:260]} | {clean(m.get('needs_to_manifest',''))[:200]} | {clean(m.get('detected_by',''))} |")
seed_tbl = "\n".join(rows)
k = json.load(open(os.path.join(root, "KNOWN_FINDINGS.json")))
rows = ["| property | status | commit | rule @ construct | failing input / schedule / history |", "|---|---|---|---|---|"]
for e in k:
    rows.append(f"| {e['property']} | {e['status']} | {e.get('commit','')} | `{e['rule']}@{e['construct']}` | {e['what'].replace('|','/')} |")
find_tbl = "\n".join(rows)
def put(tag, body, d):
    pat = re.compile(rf"<!-- BEGIN:{tag} -->.*?<!-- END:{tag} -->", re.S)
    rep = f"<!-- BEGIN:{tag} -->\n{body}\n<!-- END:{tag} -->"
    if pat.search(d): return pat.sub(lambda m: rep, d)
    return d + "\n" + rep + "\n"
d = put("seeds", seed_tbl, d); d = put("findings", find_tbl, d)
open(os.path.join(root, "DESIGN.md"), "w").write(d)
print("tables updated")
