#!/bin/bash
# usage: refcheck_wt.sh <worktree> [props...] - runs the quick checks against a scratch worktree
# (VERIF_REPO) instead of /repo; evidence goes to /tmp/seed_evidence. Prints the checks that fire.
set -u
export VERIF_EVIDENCE_DIR=/tmp/seed_evidence_$$; mkdir -p $VERIF_EVIDENCE_DIR
export VERIF_REPO="$1"; shift
cd /verif
PROPS="$@"
[ -z "$PROPS" ] && PROPS=$(./bin/specterlint -list | python3 -c "import json,sys; print(' '.join(p['id'] for p in json.load(sys.stdin)))")
for p in $PROPS; do
  out=$(./run.sh $p quick 2>&1); rc=$?
  if [ $rc -ne 0 ]; then echo "== $p FIRES (exit $rc)"; echo "$out" | grep -v "^C[0-9]* quick" | head -8; fi
done
rm -rf $VERIF_EVIDENCE_DIR
echo "-- done $VERIF_REPO"
