#!/bin/bash
# usage: all_seeds.sh   - applies every kept seeded change to /repo in turn, runs the quick
# check of the property it breaks, reverts, and prints DETECTED / MISSED per seed.
# Exit 1 if any kept seed is no longer detected (or no longer applies).
set -u
export VERIF_EVIDENCE_DIR=/tmp/seed_evidence; mkdir -p $VERIF_EVIDENCE_DIR
export PATH=/opt/veriftools/go1.26.8/bin:$PATH GOFLAGS=-mod=mod GOPROXY=off GOSUMDB=off GOTOOLCHAIN=local; unset GOWORK
cd /verif && ./setup.sh >/dev/null 2>&1
if [ -n "$(git -C /repo status --porcelain)" ]; then echo "/repo is not clean"; exit 2; fi
trap 'git -C /repo checkout -- . ; git -C /repo clean -fdq' EXIT
bad=0
for d in /verif/seeded/*/; do
  name=$(basename $d)
  prop=$(python3 -c "import json;print(json.load(open('$d/meta.json'))['property'])")
  if ! git -C /repo apply $d/patch.diff 2>/dev/null; then echo "$name ($prop): PATCH DOES NOT APPLY"; bad=1; continue; fi
  out=$(/verif/run.sh $prop quick 2>&1); rc=$?
  git -C /repo checkout -- . ; git -C /repo clean -fdq
  if [ $rc -eq 1 ] && echo "$out" | grep -q "^VIOLATION property=$prop"; then
    echo "$name ($prop): DETECTED  $(echo "$out" | grep -E ': rule ' | grep -v 'rule floor' | head -1 | sed 's/^[^:]*:[0-9]*: //' | cut -c1-110)"
  else
    echo "$name ($prop): MISSED (exit $rc)"; bad=1
  fi
done
exit $bad
