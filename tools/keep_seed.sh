#!/bin/bash
# usage: keep_seed.sh <srcdir> <name> <property> "<caught_by>"
# stores a confirmed seeded change under /verif/seeded/<name>/
set -eu
SRC="$1"; NAME="$2"; PROP="$3"; CAUGHT="$4"
D=/verif/seeded/$NAME; mkdir -p "$D"
cp "$SRC/patch.diff" "$D/patch.diff"
DEMO=$(tr -d '\n' < "$SRC/demo_path.txt")
cp "$SRC/$(basename "$DEMO")" "$D/$(basename "$DEMO")"
python3 - "$SRC" "$D" "$PROP" "$DEMO" "$CAUGHT" "$NAME" <<'PY'
import json,sys
src,d,prop,demo,caught,name=sys.argv[1:7]
try: m=json.load(open(src+'/meta.json'))
except Exception: m={}
res=open(f'/tmp/confirm_{name}.result').read() if __import__('os').path.exists(f'/tmp/confirm_{name}.result') else ''
out={"property":prop,"breaks":m.get("summary",""),"needs_to_manifest":m.get("needs_to_manifest",""),
 "files_changed":m.get("files_changed",[]),"demo_path":demo,"demo_cmd":m.get("demo_cmd",""),
 "origin":"written by an independent sub-agent given only the property text and a scratch worktree",
 "confirmed":{"how":"tools/confirm_seed.sh in a fresh scratch worktree of /repo HEAD: demo passes without the change, fails with it; existing suite (go test -skip TestSeedDemo ./...) passes with the change applied","result":res.strip()},
 "detected_by":caught}
json.dump(out,open(d+'/meta.json','w'),indent=1)
PY
echo kept $NAME
