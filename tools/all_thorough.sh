#!/bin/bash
cd /verif
export VERIF_EVIDENCE_DIR=/tmp/thorough_evidence; mkdir -p $VERIF_EVIDENCE_DIR
rm -f /tmp/thorough_results.txt
run() { p=$1; ./run.sh $p thorough > /tmp/thorough_$p.out 2>&1; echo "$p rc=$? $(grep -v '^  ' /tmp/thorough_$p.out | grep -v KNOWN | head -1)" >> /tmp/thorough_results.txt; }
export -f run
jq -r '.checks[].property_id' MANIFEST.json | xargs -P 3 -I{} bash -c 'run {}'
echo ALLDONE >> /tmp/thorough_results.txt
