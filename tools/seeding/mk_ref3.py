import sys, subprocess
for id in sys.argv[1:]:
    t=open('/tmp/seed/REFACTOR_PROMPT.md').read()
    prop=open(f'/tmp/seed/out/{id}.prop.txt').read()
    t=t.replace('WORKTREE',f'/tmp/seed/{id}ref3').replace('OUTDIR',f'/tmp/seed/out/{id}ref3').replace('PROPERTY_TEXT',prop).replace('"property": "ID"',f'"property": "{id}"')
    t=t.replace('2. Refactor that code','2. (Prefer transformations of control flow and data flow - merging or splitting conditions, early returns, loop restructuring, replacing a flag by a direct return, standard-library equivalents, renaming - over merely moving code into a new helper.) Refactor that code')
    open(f'/tmp/seed/out/{id}ref3.prompt.md','w').write(t)
    r=subprocess.run(['git','-C','/repo','worktree','add','--detach',f'/tmp/seed/{id}ref3','HEAD'],capture_output=True)
    print(id, 'ok' if r.returncode==0 else r.stderr.decode()[-200:])
