import sys, subprocess
for id in sys.argv[1:]:
    t=open('/tmp/seed/REFACTOR_PROMPT.md').read()
    prop=open(f'/tmp/seed/out/{id}.prop.txt').read()
    t=t.replace('WORKTREE',f'/tmp/seed/{id}ref').replace('OUTDIR',f'/tmp/seed/out/{id}ref').replace('PROPERTY_TEXT',prop).replace('"property": "ID"',f'"property": "{id}"')
    open(f'/tmp/seed/out/{id}ref.prompt.md','w').write(t)
    r=subprocess.run(['git','-C','/repo','worktree','add','--detach',f'/tmp/seed/{id}ref','HEAD'],capture_output=True)
    print(id, 'ok' if r.returncode==0 else r.stderr.decode()[-200:])
