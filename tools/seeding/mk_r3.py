import sys, subprocess
focus = {
 "C04": "Every KV operation issued during membership churn either fails with a retryable error (and has no effect) or takes effect atomically at a single point in time.",
 "C05": "no node holds keys it does not own",
 "C32": "Renewal succeeds only for certificates issued by the client CA with a version-2 subject, when the proof is made with the certificate's own key",
 "C34": "IP addresses or hosts with fewer labels are refused",
 "C38": "bytes written after it remain unread and intact for the next reader",
 "C40": "when either side ends both streams are closed and the pipe reports completion",
 "C43": "only auto-generated (dot-free) registered hostnames not used by another tunnel are reused before new ones are requested",
 "C45": "the file on disk is afterwards either the previous or the new configuration",
 "C47": "removes duplicates while keeping first-seen order, rejects non-IP hosts other than the special Fly host",
 "C50": "has at most three entries",
 "C51": "each taken from that node's published destination record, and fails if any of those records cannot be found",
 "C08": "never crashes the node or returns a non-retryable internal error for a valid joiner",
 "C09": "returns a node or an error in bounded time in every state reachable by the join protocol",
 "C12": "keeps the candidates' relative order, skips missing entries, and never exceeds the requested length",
 "C13": "the reported state always equals the last recorded one",
 "C14": "Unknown errors stay non-retryable.",
 "C16": "the simple and prefix keyspaces of a key are independent, and listings report exactly the kinds of data present (in the SQLite or append-only-log backend, not the memory one)",
 "C20": "The recovered simple values and prefix children then equal the result of some prefix of the issued mutations that contains every acknowledged mutation",
 "C21": "including after rejected mutations, imports and key removals",
 "C22": "It never yields values that no prefix of the history produces.",
 "C25": "and a refused call changes nothing in the DHT",
 "C29": "A hostname bound to one client can never be bound to another through validation.",
 "C41": "a cached connection that one peer reuses is never closed by the negotiation",
 "C10": "and nothing else",
 "C01": "including identifiers equal to a member id and those that wrap past the largest id",

 "C02": "its successor list lists its true successors in ring order",
 "C03": "no deleted or removed data reappears",
 "C06": "When an attempt is refused or fails cleanly, the nodes it touched return to serving requests.",
 "C15": "at most the configured number of attempts, and returns the first success or the last error",
 "C17": "Exporting keys and importing them into an empty store reproduces their simple values, prefix children and lease tokens exactly",
 "C18": "concurrent lease acquisitions of a free lease succeed exactly once",
 "C19": "a renewal succeeds only with the current unexpired token and a release only with the current token",
 "C26": "A successful publish stores, for each of at most three distinct requested servers, a route naming the caller's verified identity and that server under the hostname's route slots 1..k.",
 "C27": "and carries H to the client",
 "C28": "Negative and failed results are cached for shorter times than positive ones.",
 "C30": "signing additionally requires a supported hash and a digest of exactly that hash's length",
 "C31": "has not expired and expires within the allowed window",
 "C35": "Client-supplied True-Client-IP, X-Real-IP and X-Forwarded-* values are never passed through.",
 "C36": "For raw TCP and HTTP CONNECT, the caller receives a failure status (no-direct or error) before the stream is closed, and a success status only when a client connection exists.",
 "C37": "when no credentials are configured, the internal prefix is not served at all",
 "C39": "deadlines unblock waiting calls with a timeout, and no call blocks forever once the other end closes",
 "C42": "a stream with no matching handler is closed",
 "C46": "returns only after every task has finished, even when the shared context is cancelled",
 "C48": "names more than one label below the zone are answered as authoritative name errors with the SOA, and a storage failure yields a server failure",
 "C49": "while one storage instance holds a lock no other instance sharing the DHT obtains it until it is unlocked or its lease expires",
 "C44": "Hostnames removed from the configuration are no longer forwarded, including for connections that arrive while the change is being applied.",
 "C33": "Challenge record targets are distinct for distinct client tokens.",
 "C24": "or refuses to open without modifying the file (for a file from a newer version or a partially initialised one)",
 "C23": "Its key listings stay consistent with its stored data.",
}
for id in sys.argv[1:]:
    t=open('/tmp/seed/PROMPT.md').read()
    prop=open(f'/tmp/seed/out/{id}.prop.txt').read()
    prop += "\n\nFocus: break specifically this part of the statement, leaving the other parts true: \"" + focus[id] + "\""
    t=t.replace('WORKTREE',f'/tmp/seed/{id}r3').replace('OUTDIR',f'/tmp/seed/out/{id}r3').replace('PROPERTY_TEXT',prop).replace('"property": "ID"',f'"property": "{id}"')
    open(f'/tmp/seed/out/{id}r3.prompt.md','w').write(t)
    r=subprocess.run(['git','-C','/repo','worktree','add','--detach',f'/tmp/seed/{id}r3','HEAD'],capture_output=True)
    print(id, 'ok' if r.returncode==0 else r.stderr.decode()[-200:])
