#!/bin/bash
# usage: seedcheck.sh <patch.diff> [prop ...]   - applies a seeded change to /repo, runs the
# quick checks (all registered ones by default), reverts. Prints which properties fire.
set -u
export VERIF_EVIDENCE_DIR=/tmp/seed_evidence; mkdir -p $VERIF_EVIDENCE_DIR
P="$1"; shift
cd /verif
git -C /repo diff --quiet || { echo "/repo is dirty"; exit 2; }
git -C /repo apply "$P" || { echo "patch does not apply"; exit 3; }
trap 'git -C /repo checkout -- . ; git -C /repo clean -fdq' EXIT
PROPS="$@"
[ -z "$PROPS" ] && PROPS=$(./bin/specterlint -list | python3 -c "import json,sys; print(' '.join(p['id'] for p in json.load(sys.stdin)))")
for p in $PROPS; do
  out=$(./run.sh $p quick 2>&1); rc=$?
  if [ $rc -ne 0 ]; then echo "== $p FIRES (exit $rc)"; echo "$out" | grep -v "^C[0-9]* quick" | head -8; fi
done
echo "-- done"
