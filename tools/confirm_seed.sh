#!/bin/bash
# usage: confirm_seed.sh <dir with patch.diff, demo test, demo_path.txt> <name>
# Confirms a seeded change in a fresh scratch worktree of /repo HEAD:
#   demo passes without the change, fails with it, and the existing suite still passes.
set -u
export PATH=/opt/veriftools/go1.26.8/bin:$PATH GOFLAGS=-mod=mod GOPROXY=off GOSUMDB=off GOTOOLCHAIN=local; unset GOWORK
SRC="$1"; NAME="$2"; WT=/tmp/confirm/$NAME
rm -rf "$WT"; mkdir -p /tmp/confirm
git -C /repo worktree add --detach "$WT" HEAD >/dev/null 2>&1 || { echo "worktree failed"; exit 2; }
trap 'git -C /repo worktree remove --force "$WT" >/dev/null 2>&1; rm -rf "$WT"' EXIT
DEMO=$(cat "$SRC/demo_path.txt" | tr -d '\n')
PKG=./$(dirname "$DEMO")
cp "$SRC/$(basename "$DEMO")" "$WT/$DEMO"
cd "$WT"
if echo "$PKG" | grep -q "tun/client"; then mkdir -p tun/client/ui/build && echo placeholder > tun/client/ui/build/index.html; fi
go test -vet=off -count=1 -run 'TestSeedDemo' "$PKG" >/tmp/confirm/$NAME.without.log 2>&1; W=$?
git apply "$SRC/patch.diff" || { echo "PATCH DOES NOT APPLY"; exit 3; }
go build ./... >/dev/null 2>&1
go test -vet=off -count=1 -run 'TestSeedDemo' "$PKG" >/tmp/confirm/$NAME.with.log 2>&1; X=$?
go test -vet=off -count=1 -skip 'TestSeedDemo' -timeout 6m ./... >/tmp/confirm/$NAME.suite.log 2>&1
# the suite has load-sensitive tests (gateway TestH*ApexIndex, chord TestConcurrent*): a
# package that failed in the full run is re-run alone, up to twice, before it counts
for pkg in $(grep -E "^FAIL\s" /tmp/confirm/$NAME.suite.log | grep -v "\[setup failed\]\|\[build failed\]" | awk '{print $2}' | sort -u); do
  rel=./${pkg#go.miragespace.co/specter/}
  okp=1
  for try in 1 2; do
    if go test -vet=off -count=1 -skip 'TestSeedDemo' -timeout 10m "$rel" >/tmp/confirm/$NAME.retry.log 2>&1; then okp=0; break; fi
  done
  if [ $okp -eq 0 ]; then
    echo "note: $pkg failed in the full run (load-sensitive) and passed when re-run alone"
    grep -v -E "^(FAIL|---\s*FAIL|ok|\s)" /tmp/confirm/$NAME.suite.log >/dev/null
    sed -i "\|$pkg|d;/^--- FAIL/d;/^FAIL$/d" /tmp/confirm/$NAME.suite.log
  fi
done
FAILS=$(grep -E "^(FAIL|---\s*FAIL)" /tmp/confirm/$NAME.suite.log | grep -v "\[setup failed\]\|\[build failed\]" | grep -v "^FAIL$" | head -5)
echo "seed=$NAME demo_without_change_exit=$W (want 0) demo_with_change_exit=$X (want !=0)"
echo "suite failures (excluding unbuildable embed packages): ${FAILS:-none}"
grep -E "^FAIL.*(setup failed|build failed)" /tmp/confirm/$NAME.suite.log | wc -l | xargs echo "unbuildable packages:"
