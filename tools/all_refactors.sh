#!/bin/bash
# usage: all_refactors.sh  - applies every kept behaviour-preserving refactoring
# (/verif/refactors/<id>/patch.diff, written by independent sub-agents given only the
# property text) to /repo in turn, runs ALL quick checks (6 at a time), reverts, and prints
# every check that raises an alarm. Any alarm is a false alarm. Exit 1 if there is one.
set -u
export VERIF_EVIDENCE_DIR=/tmp/seed_evidence; mkdir -p $VERIF_EVIDENCE_DIR
export PATH=/opt/veriftools/go1.26.8/bin:$PATH GOFLAGS=-mod=mod GOPROXY=off GOSUMDB=off GOTOOLCHAIN=local; unset GOWORK
cd /verif && ./setup.sh >/dev/null 2>&1
if [ -n "$(git -C /repo status --porcelain)" ]; then echo "/repo is not clean"; exit 2; fi
trap 'git -C /repo checkout -- . ; git -C /repo clean -fdq' EXIT
PROPS=$(./bin/specterlint -list | python3 -c "import json,sys; print(' '.join(p['id'] for p in json.load(sys.stdin)))")
one() { p=$1; out=$(/verif/run.sh $p quick 2>&1); rc=$?; if [ $rc -ne 0 ]; then echo "ALARM $p"; echo "$out" | grep -E ': rule ' | head -3 | sed "s/^/    [$p] /"; fi; }
export -f one
bad=0
for d in /verif/refactors/*/; do
  name=$(basename $d)
  if ! git -C /repo apply $d/patch.diff 2>/dev/null; then echo "$name: PATCH DOES NOT APPLY"; bad=1; continue; fi
  res=$(echo $PROPS | tr ' ' '\n' | xargs -P 6 -I{} bash -c 'one {}')
  git -C /repo checkout -- . ; git -C /repo clean -fdq
  if echo "$res" | grep -q '^ALARM'; then echo "$name: FALSE ALARM in $(echo "$res" | grep '^ALARM' | cut -d' ' -f2 | tr '\n' ' ')"; echo "$res" | grep -v '^ALARM' | sed "s/^/   [$name]/"; bad=1; else echo "$name: silent"; fi
done
exit $bad
