package main

import (
	"fmt"
	"go/token"
	"os"
	"path/filepath"
	"runtime"
	"runtime/debug"
	"strings"
	"sync"
)

// A mutation is a one-site edit of the repository source, applied in memory (go/packages
// overlay) during thorough runs: the property's rules must report it. It keeps every rule
// demonstrably alive on the real code, not only on fixtures. A mutation whose Old text is
// no longer present exactly once (the source was edited) is skipped and noted, never failed.
type mutation struct {
	Name   string
	File   string // repo-relative
	Old    string
	New    string
	Expect string // substring of the obligation key that must be violated
}

// mutExtra: optional second edit in the same file (e.g. an added import), by mutation name.
var mutExtra = map[string][2]string{}

var selfTests = map[string][]mutation{}

func addSelfTests(prop string, m ...mutation) { selfTests[prop] = append(selfTests[prop], m...) }

func runSelfTests(c *Ctx, pd *propDef) {
	muts := selfTests[pd.ID]
	ran, skipped := 0, 0
	var results []map[string]string
	type outcome struct {
		res   map[string]string
		ran   bool
		fired bool
		det   string
	}
	outs := make([]outcome, len(muts))
	sem := make(chan struct{}, 6)
	var wg sync.WaitGroup
	for mi, m := range muts {
		wg.Add(1)
		sem <- struct{}{}
		go func(mi int, m mutation) {
			defer wg.Done()
			defer func() { <-sem }()
			outs[mi] = runOneMutant(c, pd, m)
		}(mi, m)
	}
	wg.Wait()
	for mi, m := range muts {
		o := outs[mi]
		results = append(results, o.res)
		if !o.ran {
			skipped++
			continue
		}
		ran++
		c.Ob("selftest", m.Name, token.NoPos, o.fired, o.det)
	}
	c.Extra("selftest_mutants", results)
	c.Extra("selftest_ran", ran)
	c.Extra("selftest_skipped", skipped)
}

func runOneMutant(c *Ctx, pd *propDef, m mutation) (out struct {
	res   map[string]string
	ran   bool
	fired bool
	det   string
}) {
	{
		path := filepath.Join(c.Repo, m.File)
		src, err := os.ReadFile(path)
		if err != nil || strings.Count(string(src), m.Old) != 1 {
			out.res = map[string]string{"mutation": m.Name, "result": "skipped: anchor text not present exactly once (source changed)"}
			return
		}
		mutated := strings.Replace(string(src), m.Old, m.New, 1)
		if x, ok := mutExtra[m.Name]; ok {
			mutated = strings.Replace(mutated, x[0], x[1], 1)
		}
		sub := newCtx(pd.ID, "quick", c.Repo, c.Verif)
		loadFailed := ""
		broken := ""
		func() {
			defer func() {
				if r := recover(); r != nil {
					if cf, ok := r.(checkFailure); ok {
						if !sub.loaded {
							loadFailed = cf.msg
						} else {
							broken = cf.msg
						}
					} else {
						broken = fmt.Sprintf("panic: %v\n%s", r, debug.Stack())
					}
				}
			}()
			sub.load("", map[string][]byte{path: []byte(mutated)})
			pd.Run(sub)
		}()
		if loadFailed != "" {
			out.res = map[string]string{"mutation": m.Name, "result": "skipped: mutant does not type-check: " + loadFailed}
			return
		}
		out.ran = true
		fired := false
		var firedKeys []string
		if broken != "" {
			// an undecided site counts as a report
			firedKeys = append(firedKeys, "check-integrity: "+broken)
			if m.Expect == "" || strings.Contains(broken, m.Expect) || m.Expect == "*" {
				fired = true
			}
		}
		for _, o := range sub.obs {
			if o.Verdict == "violated" {
				firedKeys = append(firedKeys, o.Key)
				if m.Expect == "*" || (!strings.HasPrefix(m.Expect, "!") && strings.Contains(o.Key, m.Expect)) {
					fired = true
				}
			}
		}
		if strings.HasPrefix(m.Expect, "!") {
			// a behaviour-preserving (or repairing) variant: the rule must stay silent
			quiet := true
			want := m.Expect[1:]
			for _, k := range firedKeys {
				if want == "" || strings.Contains(k, want) {
					quiet = false
				}
			}
			res := "silent (as required)"
			if !quiet {
				res = "FALSE ALARM"
			}
			out.res = map[string]string{"mutation": m.Name, "result": res, "violations": strings.Join(firedKeys, "; ")}
			out.fired = quiet
			out.det = fmt.Sprintf("behaviour-preserving/repairing variant of %s must NOT be reported under %q; reported: %v", m.File, want, firedKeys)
			return
		}
		res := "reported"
		if !fired {
			res = "NOT reported"
		}
		out.res = map[string]string{"mutation": m.Name, "result": res, "violations": strings.Join(firedKeys, "; ")}
		out.fired = fired
		out.det = fmt.Sprintf("in-memory mutant of %s (%q -> %q) must be reported under %q; reported: %v", m.File, m.Old, m.New, m.Expect, firedKeys)
		sub = nil
		runtime.GC()
	}
	return
}
