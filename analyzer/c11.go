package main

import (
	"fmt"
	"go/ast"
	"go/types"
	"math/big"
	"strings"
)

func init() {
	register(&propDef{
		ID: "C11", Level: "proof",
		Decides: "for ALL inputs: chord.Between equals circular-interval membership (open / right-closed, full circle when low==high) - by checking that its operands are touched only through comparisons and evaluating the body on every order type (13 weak orderings x inclusive); chord.ModuloSum equals (x+y) mod 2^48 with no uint64 overflow in any intermediate - by interval + congruence abstract interpretation of its body (locals, compound assignments, branches on comparisons with constants refine the interval); chord.Hash lies in [0, 2^48) and depends only on its argument.",
		NotDecided: "nothing about xxh3 itself (trusted to be a deterministic function of its argument).",
		Run:        runC11,
	})
	addSelfTests("C11",
		mutation{"between-open-at-high", "spec/chord/chord.go", "return low < target || target < high || (inclusive && target == high)", "return low < target || target <= high", "between-table"},
		mutation{"between-strict-low", "spec/chord/chord.go", "return (low < target && target < high) || (inclusive && target == high)", "return (low <= target && target < high) || (inclusive && target == high)", "between-table"},
		mutation{"between-wrap-branch", "spec/chord/chord.go", "if high > low {", "if high >= low {", "between-table"},
		mutation{"modulosum-overflow", "spec/chord/chord.go", "return (x%MaxIdentitifer + y%MaxIdentitifer) % MaxIdentitifer", "return (x + y) % MaxIdentitifer", "modulosum"},
		mutation{"modulosum-conditional-subtract", "spec/chord/chord.go", "	return (x%MaxIdentitifer + y%MaxIdentitifer) % MaxIdentitifer", "	sum := x%MaxIdentitifer + y%MaxIdentitifer\n	if sum >= MaxIdentitifer {\n		sum -= MaxIdentitifer\n	}\n	return sum", "!modulosum"},
		mutation{"modulosum-conditional-subtract-off-by-one", "spec/chord/chord.go", "	return (x%MaxIdentitifer + y%MaxIdentitifer) % MaxIdentitifer", "	sum := x%MaxIdentitifer + y%MaxIdentitifer\n	if sum > MaxIdentitifer {\n		sum -= MaxIdentitifer\n	}\n	return sum", "modulosum-range"},
		mutation{"modulosum-subtract-unreduced", "spec/chord/chord.go", "	return (x%MaxIdentitifer + y%MaxIdentitifer) % MaxIdentitifer", "	sum := x%MaxIdentitifer + y\n	if sum >= MaxIdentitifer {\n		sum -= MaxIdentitifer\n	}\n	return sum", "modulosum"},
		mutation{"modulosum-half", "spec/chord/chord.go", "return (x%MaxIdentitifer + y%MaxIdentitifer) % MaxIdentitifer", "return (x%MaxIdentitifer + y) % MaxIdentitifer", "modulosum"},
		mutation{"modulus-constant", "spec/chord/chord.go", "MaxIdentitifer           uint64 = 1 << MaxFingerEntries", "MaxIdentitifer           uint64 = 1<<MaxFingerEntries - 1", "ring-size"},
		mutation{"hash-unreduced", "spec/chord/chord.go", "return xxh3.Hash(b) % MaxIdentitifer", "return xxh3.Hash(b)", "hash-range"},
	)
}

// refBetween is circular-interval membership, written from the definition (DESIGN.md A.1):
// walk clockwise from low; the open interval is everything strictly before high is met
// again; when low == high that is the whole circle except low. The closed form adds high.
func refBetween(l, t, h *big.Int, incl bool) bool {
	var open bool
	switch l.Cmp(h) {
	case -1:
		open = l.Cmp(t) < 0 && t.Cmp(h) < 0
	case 1:
		open = t.Cmp(l) > 0 || t.Cmp(h) < 0
	default:
		open = t.Cmp(l) != 0
	}
	if incl {
		return open || t.Cmp(h) == 0
	}
	return open
}

// tableA1 is the hand-derived table of DESIGN.md Appendix A.1, by rank vector (l,t,h).
var tableA1 = map[[3]int][2]bool{
	{0, 1, 2}: {true, true}, {0, 2, 1}: {false, false}, {1, 0, 2}: {false, false}, {1, 2, 0}: {true, true},
	{2, 0, 1}: {true, true}, {2, 1, 0}: {false, false}, {0, 0, 1}: {false, false}, {1, 1, 0}: {false, false},
	{0, 1, 1}: {false, true}, {1, 0, 0}: {false, true}, {0, 1, 0}: {true, true}, {1, 0, 1}: {true, true},
	{0, 0, 0}: {false, true},
}

func runC11(c *Ctx) {
	between := c.Func("spec/chord", "", "Between")
	var ps []types.Object
	for _, fld := range between.Type.Params.List {
		for _, nm := range fld.Names {
			ps = append(ps, between.Info.Defs[nm])
		}
	}
	if len(ps) != 4 {
		c.Failf("Between: expected 4 parameters (low, target, high, inclusive), found %d", len(ps))
	}
	for i := 0; i < 3; i++ {
		if b, ok := ps[i].Type().Underlying().(*types.Basic); !ok || b.Info()&types.IsInteger == 0 {
			c.Failf("Between: parameter %d is not an integer", i)
		}
	}
	bad, why := between.onlyCompared(map[types.Object]bool{ps[0]: true, ps[1]: true, ps[2]: true}, 0)
	c.Ob("comparison-only", "spec/chord.Between", between.Decl.Pos(), bad == nil,
		fmt.Sprintf("E1 precondition: low/target/high may only be operands of comparisons (then the result depends only on their order type); offending use: %v %s", nodeStr(c, bad), why))
	if bad != nil {
		return
	}
	n := 0
	for _, ord := range weakOrderings(3) {
		for _, incl := range []bool{false, true} {
			l, t, h := rankVal(ord[0]), rankVal(ord[1]), rankVal(ord[2])
			res, err := between.EvalFn([]Val{l, t, h, incl}, nil)
			if err != nil {
				c.Failf("Between not evaluable: %v", err)
			}
			got, ok := res[0].(bool)
			if !ok {
				c.Failf("Between did not return a bool")
			}
			want := refBetween(l, t, h, incl)
			row, okRow := tableA1[[3]int{ord[0], ord[1], ord[2]}]
			if !okRow {
				c.Failf("internal: order type %v missing from table A.1", ord)
			}
			idx := 0
			if incl {
				idx = 1
			}
			if row[idx] != want {
				c.Failf("internal: table A.1 and refBetween disagree at %v incl=%v", ord, incl)
			}
			n++
			c.Ob("between-table", fmt.Sprintf("ordertype(l,t,h)=%v,inclusive=%v", ord, incl), between.Decl.Pos(), got == want,
				fmt.Sprintf("Between(low=%v,target=%v,high=%v,%v) evaluates to %v; circular interval membership is %v", l, t, h, incl, got, want))
			if n <= 2 {
				c.Sample(map[string]any{"order_type_ranks_low_target_high": ord, "inclusive": incl, "between_body_evaluates_to": got, "reference": want})
			}
		}
	}
	c.Extra("exhaustive", true)
	c.Extra("order_types_evaluated", n)

	// ring size constants
	sc := c.P("spec/chord").Types.Scope()
	mConst, _ := sc.Lookup("MaxIdentitifer").(*types.Const)
	fConst, _ := sc.Lookup("MaxFingerEntries").(*types.Const)
	if mConst == nil || fConst == nil {
		c.Failf("anchor unresolved: chord.MaxIdentitifer / MaxFingerEntries")
	}
	Mv, _ := constToVal(mConst.Val()).(*big.Int)
	Fv, _ := constToVal(fConst.Val()).(*big.Int)
	two48 := new(big.Int).Lsh(big.NewInt(1), 48)
	c.Ob("ring-size", "MaxIdentitifer==2^48==1<<MaxFingerEntries", mConst.Pos(),
		Mv != nil && Fv != nil && Mv.Cmp(two48) == 0 && Fv.Cmp(big.NewInt(48)) == 0,
		fmt.Sprintf("MaxIdentitifer=%v MaxFingerEntries=%v", Mv, Fv))
	if Mv == nil || Mv.Sign() <= 0 {
		return
	}

	// ModuloSum
	ms := c.Func("spec/chord", "", "ModuloSum")
	var mp []types.Object
	for _, fld := range ms.Type.Params.List {
		for _, nm := range fld.Names {
			mp = append(mp, ms.Info.Defs[nm])
		}
	}
	if len(mp) != 2 {
		c.Failf("ModuloSum: expected (x, y uint64) uint64")
	}
	// the body is executed abstractly (locals, compound assignments, branches on a
	// comparison with a constant refine the interval): a single return expression and a
	// reduce-then-conditionally-subtract form are decided alike
	abs, mrets, err := ms.evalModBody(mp[0], mp[1], Mv, nil)
	mpos := ms.Decl.Pos()
	if len(mrets) > 0 {
		mpos = mrets[len(mrets)-1].Pos()
	}
	undecided := err != nil && !strings.Contains(err.Error(), "overflow") && !strings.Contains(err.Error(), "underflow")
	if undecided {
		c.Failf("ModuloSum: body not decided by the interval/congruence interpretation: %v", err)
	}
	c.Ob("modulosum-no-overflow", "spec/chord.ModuloSum", mpos, err == nil,
		fmt.Sprintf("interval evaluation of the body over x,y in [0,2^64): %v", err))
	if err == nil {
		inRange := abs.lo.Sign() >= 0 && abs.hi.Cmp(new(big.Int).Sub(Mv, big.NewInt(1))) <= 0
		c.Ob("modulosum-range", "spec/chord.ModuloSum", mpos, inRange, fmt.Sprintf("result interval [%v,%v] must lie in [0,2^48-1]", abs.lo, abs.hi))
		one := big.NewInt(1)
		lin := abs.linOK && new(big.Int).Mod(abs.cx, Mv).Cmp(one) == 0 && new(big.Int).Mod(abs.cy, Mv).Cmp(one) == 0 && abs.c0.Sign() == 0
		c.Ob("modulosum-congruence", "spec/chord.ModuloSum", mpos, lin,
			fmt.Sprintf("result must be congruent to 1*x + 1*y + 0 modulo 2^48 (then, being in range, it IS (x+y) mod 2^48); found linOK=%v cx=%v cy=%v c0=%v", abs.linOK, abs.cx, abs.cy, abs.c0))
		c.Sample(map[string]any{"function": "ModuloSum", "returns": len(mrets), "interval": []string{abs.lo.String(), abs.hi.String()}})
	}

	// Hash
	hf := c.Func("spec/chord", "", "Hash")
	hret := soleReturn(c, hf)
	var hp types.Object
	for _, fld := range hf.Type.Params.List {
		for _, nm := range fld.Names {
			hp = hf.Info.Defs[nm]
		}
	}
	var hashCalls []*ast.CallExpr
	habs, herr := hf.evalMod(hret.Results[0], nil, nil, Mv, func(call *ast.CallExpr) bool {
		hashCalls = append(hashCalls, call)
		return true
	})
	okRange := herr == nil && habs.lo.Sign() >= 0 && habs.hi.Cmp(new(big.Int).Sub(Mv, big.NewInt(1))) <= 0
	c.Ob("hash-range", "spec/chord.Hash", hret.Pos(), okRange, fmt.Sprintf("result interval must lie in [0,2^48-1]: %v [%v,%v]", herr, habs.lo, habs.hi))
	dep := len(hashCalls) == 1 && len(hashCalls[0].Args) == 1 && hf.ObjOf(hashCalls[0].Args[0]) == hp && hp != nil
	c.Ob("hash-deterministic", "spec/chord.Hash", hret.Pos(), dep, "the only non-constant input of the result is one hash call over exactly the parameter")
	c.Trust("xxh3.Hash is a deterministic function of its argument")
}

func soleReturn(c *Ctx, f *Fn) *ast.ReturnStmt {
	if len(f.Body.List) != 1 {
		c.Failf("%s: body is not a single return statement (undecided by the expression rules)", f.Name)
	}
	r, ok := f.Body.List[0].(*ast.ReturnStmt)
	if !ok {
		c.Failf("%s: body is not a single return statement", f.Name)
	}
	return r
}

func nodeStr(c *Ctx, n ast.Node) string {
	if n == nil || (fmt.Sprintf("%v", n) == "<nil>") {
		return "none"
	}
	if e, ok := n.(ast.Expr); ok {
		return types.ExprString(e) + " at " + c.pos(n.Pos())
	}
	return c.pos(n.Pos())
}
