package main

import (
	"go/ast"
	"go/types"
)

// Effects: "this statement performs E", where E is a call matched by a rule predicate,
// either directly or through a helper - a local closure variable (h := func(){...}; h())
// or a function of the same package - up to depth 3. Extracting a helper therefore does
// not change what the rules see.

type effPred func(g *Fn, call *ast.CallExpr) bool

// helperOf resolves a call to a helper body: a closure bound once to a local variable, or
// a declared function of the repository.
func (f *Fn) helperOf(call *ast.CallExpr) *Fn {
	if id, ok := ast.Unparen(call.Fun).(*ast.Ident); ok {
		if v := f.varOf(id); v != nil {
			defs := f.defsOf(v)
			if len(defs) == 1 {
				if lit, ok := ast.Unparen(defs[0].rhs).(*ast.FuncLit); ok {
					return f.root().enclosing(lit).Closure(lit)
				}
			}
			return nil
		}
	}
	if o := f.Callee(call); o != nil {
		if h := f.C.FnOfObj(o); h != nil && h.Pkg == f.Pkg && !f.C.noFollow[h.Name] {
			return h
		}
	}
	return nil
}

// isHelperClosure: g is a literal bound to a local variable that is only ever called.
func (g *Fn) helperVar() *types.Var {
	if g.Lit == nil || g.Parent == nil {
		return nil
	}
	var out *types.Var
	root := g.root()
	ast.Inspect(root.Body, func(n ast.Node) bool {
		switch x := n.(type) {
		case *ast.AssignStmt:
			for i, r := range x.Rhs {
				if ast.Unparen(r) == ast.Expr(g.Lit) && i < len(x.Lhs) {
					out = root.varOf(x.Lhs[i])
				}
			}
		case *ast.ValueSpec:
			for i, r := range x.Values {
				if ast.Unparen(r) == ast.Expr(g.Lit) && i < len(x.Names) {
					if v, ok := root.Info.Defs[x.Names[i]].(*types.Var); ok {
						out = v
					}
				}
			}
		}
		return true
	})
	return out
}

// mayPerform: some call in h's body (helpers followed) matches eff.
func (h *Fn) mayPerform(eff effPred, depth int) bool {
	found := false
	ast.Inspect(h.Body, func(n ast.Node) bool {
		if found {
			return false
		}
		call, ok := n.(*ast.CallExpr)
		if !ok {
			return true
		}
		g := h.enclosing(call)
		if eff(g, call) {
			found = true
			return false
		}
		if depth < 3 {
			if hh := g.helperOf(call); hh != nil && hh != h && hh.mayPerform(eff, depth+1) {
				found = true
			}
		}
		return true
	})
	return found
}

// nodePerforms: CFG node n of g performs eff (directly or through helpers). With must,
// a helper counts only if every path through it performs eff.
func (g *Fn) nodePerforms(n ast.Node, eff effPred, must bool, depth int) bool {
	for _, call := range shallowCalls(n) {
		if eff(g, call) {
			return true
		}
		if depth >= 3 {
			continue
		}
		h := g.helperOf(call)
		if h == nil {
			continue
		}
		if !must {
			if h.mayPerform(eff, depth+1) {
				return true
			}
			continue
		}
		_, exits := h.Reach(nil, func(m ast.Node) bool { return h.nodePerforms(m, eff, true, depth+1) }, nil)
		if len(exits) == 0 {
			return true
		}
	}
	return false
}

type effSite struct {
	g    *Fn
	call *ast.CallExpr // the call in g that (transitively) performs the effect
	via  string
}

// effectSites lists where, in root (literals included), eff is performed, attributing an
// effect inside a helper to the helper's call sites.
func (root *Fn) effectSites(eff effPred) []effSite {
	var out []effSite
	ast.Inspect(root.Body, func(n ast.Node) bool {
		call, ok := n.(*ast.CallExpr)
		if !ok {
			return true
		}
		g := root.enclosing(call)
		// effects inside a helper closure are attributed to its call sites
		for h := g; h != nil && h.Lit != nil; h = h.Parent {
			if h.helperVar() != nil {
				return true
			}
		}
		if eff(g, call) {
			out = append(out, effSite{g: g, call: call})
			return true
		}
		if h := g.helperOf(call); h != nil && h != root && h.mayPerform(eff, 1) {
			out = append(out, effSite{g: g, call: call, via: h.Name})
		}
		return true
	})
	return out
}
