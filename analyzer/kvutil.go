package main

import (
	"fmt"
	"go/ast"
	"go/token"
	"go/types"
	"math/big"
	"os"
	"path/filepath"
	"regexp"
	"sort"
	"strings"
)

// ---------------------------------------------------------------------------------------
// prepared statement table of kv/sqlite3

type sqlStmt struct {
	field string // statements.<field>
	db    string // reader | writer
	query string
	verb  string // SELECT INSERT UPDATE DELETE
	table string
	pos   token.Pos
}

var reTable = regexp.MustCompile("(?i)(?:INTO|FROM|UPDATE)\\s+`([a-z_]+)`")

func classifySQL(q string) (verb, table string) {
	f := strings.Fields(q)
	if len(f) > 0 {
		verb = strings.ToUpper(f[0])
	}
	if m := reTable.FindStringSubmatch(q); m != nil {
		table = m[1]
	}
	return
}

// sqliteStatements extracts {db, query constant, &s.field} rows of prepareStatements and
// the alias assignments s.a = s.b.
func sqliteStatements(c *Ctx) map[string]*sqlStmt {
	fn := c.Func("kv/sqlite3", "", "prepareStatements")
	out := map[string]*sqlStmt{}
	ast.Inspect(fn.Body, func(n ast.Node) bool {
		cl, ok := n.(*ast.CompositeLit)
		if !ok || len(cl.Elts) != 3 {
			return true
		}
		u, ok := cl.Elts[2].(*ast.UnaryExpr)
		if !ok || u.Op != token.AND {
			return true
		}
		se, ok := u.X.(*ast.SelectorExpr)
		if !ok {
			return true
		}
		q, ok := fn.ConstVal(cl.Elts[1])
		if !ok {
			return true
		}
		q = strings.Trim(q, "\"")
		if tv, ok := fn.Info.Types[cl.Elts[1]]; ok && tv.Value != nil {
			q = constantString(tv)
		}
		db := fn.Str(cl.Elts[0])
		v, t := classifySQL(q)
		out[se.Sel.Name] = &sqlStmt{field: se.Sel.Name, db: db, query: q, verb: v, table: t, pos: cl.Pos()}
		return true
	})
	ast.Inspect(fn.Body, func(n ast.Node) bool {
		as, ok := n.(*ast.AssignStmt)
		if !ok || len(as.Lhs) != 1 || len(as.Rhs) != 1 {
			return true
		}
		l, ok1 := as.Lhs[0].(*ast.SelectorExpr)
		r, ok2 := as.Rhs[0].(*ast.SelectorExpr)
		if ok1 && ok2 && fn.FieldKey(l) != "" && fn.FieldKey(r) != "" {
			if src := out[r.Sel.Name]; src != nil && out[l.Sel.Name] == nil {
				cp := *src
				cp.field = l.Sel.Name
				out[l.Sel.Name] = &cp
			}
		}
		return true
	})
	if len(out) < 20 {
		c.Failf("prepareStatements: only %d statement definitions recognised (undecided)", len(out))
	}
	return out
}

func constantString(tv types.TypeAndValue) string {
	s := tv.Value.ExactString()
	if u, err := strconvUnquote(s); err == nil {
		return u
	}
	return s
}

func strconvUnquote(s string) (string, error) {
	if len(s) >= 2 && s[0] == '"' {
		var out strings.Builder
		for i := 1; i < len(s)-1; i++ {
			if s[i] == '\\' && i+1 < len(s)-1 {
				i++
				switch s[i] {
				case 'n':
					out.WriteByte('\n')
				case 't':
					out.WriteByte('\t')
				default:
					out.WriteByte(s[i])
				}
				continue
			}
			out.WriteByte(s[i])
		}
		return out.String(), nil
	}
	return s, fmt.Errorf("not quoted")
}

// stmtOfExec resolves tx.StmtContext(ctx, s.stmts.X).Exec(...) / s.stmts.X.QueryRowContext(...)
// to the statement field name X ("" if the call is not on a prepared statement).
// callArgs lists the argument expressions of a call from position first on; a spread slice
// (`f(xs...)`) whose only definition is a slice literal is expanded to the literal's elements
// (what a variadic helper's parameter looks like once the helper is inlined). nil when the
// arguments cannot be listed.
func callArgs(g *Fn, call *ast.CallExpr, first int) []ast.Expr {
	if !call.Ellipsis.IsValid() {
		if first > len(call.Args) {
			return nil
		}
		return call.Args[first:]
	}
	if len(call.Args) != first+1 {
		return nil
	}
	last := ast.Unparen(call.Args[first])
	if cl, ok := last.(*ast.CompositeLit); ok {
		return cl.Elts
	}
	if v := g.varOf(last); v != nil {
		if defs := g.defsOf(v); len(defs) == 1 && !defs[0].multi && defs[0].rhs != nil {
			if cl, ok := ast.Unparen(defs[0].rhs).(*ast.CompositeLit); ok {
				return cl.Elts
			}
		}
	}
	return nil
}

func stmtFieldOfCall(f *Fn, call *ast.CallExpr) string {
	se, ok := ast.Unparen(call.Fun).(*ast.SelectorExpr)
	if !ok {
		return ""
	}
	var find func(e ast.Expr) string
	find = func(e ast.Expr) string {
		switch x := ast.Unparen(e).(type) {
		case *ast.SelectorExpr:
			if f.FieldKey(x) != "" && strings.HasPrefix(f.FieldKey(x), "kv/sqlite3.statements.") {
				return x.Sel.Name
			}
		case *ast.CallExpr:
			if s2, ok := x.Fun.(*ast.SelectorExpr); ok && s2.Sel.Name == "StmtContext" && len(x.Args) == 2 {
				return find(x.Args[1])
			}
		case *ast.Ident:
			if v := f.varOf(x); v != nil {
				var r []string
				for _, d := range f.defsOf(v) {
					if s := find(d.rhs); s != "" {
						r = append(r, s)
					}
				}
				sort.Strings(r)
				return strings.Join(r, "|")
			}
		}
		return ""
	}
	return find(se.X)
}

// ---------------------------------------------------------------------------------------
// SQL WHERE evaluation (comparisons of columns with placeholders, AND/OR, parentheses)

type sqlTok struct{ s string }

var reSQLTok = regexp.MustCompile("`[a-z_]+`|\\?|<=|>=|<>|!=|[<>=()]|[A-Za-z_]+|[0-9]+")

type sqlEval struct {
	toks []string
	p    int
	cols map[string]*big.Int
	args []*big.Int
	ph   int // index of the next placeholder
	err  error
}

// evalWhere evaluates the WHERE clause of query q. args are the values bound to the
// placeholders of the WHOLE statement, in order.
func evalWhere(q string, cols map[string]*big.Int, args []*big.Int) (bool, error) {
	up := strings.ToUpper(q)
	i := strings.LastIndex(up, " WHERE ")
	if i < 0 {
		return false, fmt.Errorf("no WHERE clause")
	}
	before, where := q[:i], q[i+7:]
	for _, stop := range []string{" ORDER BY ", " LIMIT "} {
		if j := strings.Index(strings.ToUpper(where), stop); j >= 0 {
			where = where[:j]
		}
	}
	e := &sqlEval{toks: reSQLTok.FindAllString(where, -1), cols: cols, args: args, ph: strings.Count(before, "?")}
	v := e.or()
	if e.err == nil && e.p != len(e.toks) {
		e.err = fmt.Errorf("trailing tokens in WHERE: %v", e.toks[e.p:])
	}
	return v, e.err
}

func (e *sqlEval) peek() string {
	if e.p < len(e.toks) {
		return e.toks[e.p]
	}
	return ""
}

func (e *sqlEval) or() bool {
	v := e.and()
	for strings.EqualFold(e.peek(), "OR") {
		e.p++
		r := e.and()
		v = v || r
	}
	return v
}

func (e *sqlEval) and() bool {
	v := e.factor()
	for strings.EqualFold(e.peek(), "AND") {
		e.p++
		r := e.factor()
		v = v && r
	}
	return v
}

func (e *sqlEval) operand() *big.Int {
	t := e.peek()
	e.p++
	switch {
	case t == "?":
		if e.ph >= len(e.args) {
			e.err = fmt.Errorf("more placeholders than bound arguments")
			return big.NewInt(0)
		}
		v := e.args[e.ph]
		e.ph++
		return v
	case strings.HasPrefix(t, "`"):
		v, ok := e.cols[strings.Trim(t, "`")]
		if !ok {
			e.err = fmt.Errorf("unknown column %s", t)
			return big.NewInt(0)
		}
		return v
	case t != "" && t[0] >= '0' && t[0] <= '9':
		v, _ := new(big.Int).SetString(t, 10)
		return v
	}
	e.err = fmt.Errorf("unexpected token %q", t)
	return big.NewInt(0)
}

func (e *sqlEval) factor() bool {
	if e.peek() == "(" {
		e.p++
		v := e.or()
		if e.peek() != ")" {
			e.err = fmt.Errorf("missing )")
		}
		e.p++
		return v
	}
	l := e.operand()
	op := e.peek()
	e.p++
	r := e.operand()
	c := l.Cmp(r)
	switch op {
	case "<":
		return c < 0
	case "<=":
		return c <= 0
	case ">":
		return c > 0
	case ">=":
		return c >= 0
	case "=":
		return c == 0
	case "<>", "!=":
		return c != 0
	}
	if e.err == nil {
		e.err = fmt.Errorf("unexpected operator %q", op)
	}
	return false
}

// ---------------------------------------------------------------------------------------
// sentinel sets

// sentinelsOf over-approximates the chord sentinels a function can return: those named in
// its own return statements (literals nested in it included) and those of the repo
// functions it calls statically (depth <= 3).
func sentinelsOf(c *Ctx, fn *Fn, depth int, seen map[*Fn]bool, out map[string]bool) {
	if fn == nil || seen[fn] || depth > 3 {
		return
	}
	seen[fn] = true
	ast.Inspect(fn.Body, func(n ast.Node) bool {
		switch x := n.(type) {
		case *ast.ReturnStmt:
			g := fn.enclosing(x)
			for _, r := range x.Results {
				if t := typeOf(g.Info, r); t != nil && isErrorType(t) {
					for _, alt := range strings.Split(g.Prov(r), "|") {
						if strings.HasPrefix(alt, "global:spec/chord.Err") {
							out[strings.TrimPrefix(alt, "global:spec/chord.")] = true
						}
					}
				}
			}
		case *ast.AssignStmt:
			// err = chord.ErrX (named results)
			g := fn.enclosing(x)
			for i, l := range x.Lhs {
				if i < len(x.Rhs) && len(x.Lhs) == len(x.Rhs) {
					if t := typeOf(g.Info, l); t != nil && isErrorType(t) {
						if pv := g.Prov(x.Rhs[i]); strings.HasPrefix(pv, "global:spec/chord.Err") {
							out[strings.TrimPrefix(pv, "global:spec/chord.")] = true
						}
					}
				}
			}
		case *ast.CallExpr:
			g := fn.enclosing(x)
			if o := g.Callee(x); o != nil {
				if h := c.FnOfObj(o); h != nil {
					sentinelsOf(c, h, depth+1, seen, out)
					// a sentinel handed to a helper that returns that parameter
					for i, a := range x.Args {
						if pv := g.Prov(a); strings.HasPrefix(pv, "global:spec/chord.Err") && errParamReturned(h, i) {
							out[strings.TrimPrefix(pv, "global:spec/chord.")] = true
						}
					}
				}
			}
		}
		return true
	})
}

// errParamReturned: function h returns its i-th parameter (an error) on some path.
func errParamReturned(h *Fn, i int) bool {
	want := fmt.Sprintf("param#%d", i)
	for _, r := range h.Returns() {
		for _, res := range r.Results {
			for _, alt := range strings.Split(h.Prov(res), "|") {
				if alt == want {
					return true
				}
			}
		}
	}
	return false
}

// rowsAffectedHelper recognises a helper h(res sql.Result, ..., errNone error) error that
// answers errNone exactly when RowsAffected() is zero: it returns the index of errNone.
func rowsAffectedHelper(h *Fn) (int, bool) {
	if h == nil {
		return 0, false
	}
	isZero := func(g *Fn, e ast.Expr, truth bool) (zero, ok bool) {
		be, isBin := ast.Unparen(e).(*ast.BinaryExpr)
		if !isBin || (be.Op != token.EQL && be.Op != token.NEQ) {
			return false, false
		}
		v, _ := g.ConstVal(be.Y)
		if v != "0" || !strings.HasSuffix(g.Prov(be.X), ".RowsAffected()#0") {
			return false, false
		}
		return (be.Op == token.EQL) == truth, true
	}
	idx, found := 0, false
	for _, r := range h.Returns() {
		if len(r.Results) != 1 {
			return 0, false
		}
		fs := h.FactsAt(r)
		pv := h.Prov(r.Results[0])
		switch {
		case strings.HasPrefix(pv, "param#") && !strings.Contains(pv, "|") && !strings.Contains(pv, "."):
			// errNone: only under rows == 0
			if !fs.Cmp(func(e, tag ast.Expr, truth bool, fa *Fact) bool { z, ok := isZero(h, e, truth); return ok && tag == nil && z }) {
				return 0, false
			}
			fmt.Sscanf(pv, "param#%d", &idx)
			found = true
		case isNilIdent(h.Info, r.Results[0]):
			// success: only under rows != 0
			if !fs.Cmp(func(e, tag ast.Expr, truth bool, fa *Fact) bool { z, ok := isZero(h, e, truth); return ok && tag == nil && !z }) {
				return 0, false
			}
		}
	}
	return idx, found
}

func setStr(m map[string]bool) string {
	var s []string
	for k := range m {
		s = append(s, k)
	}
	sort.Strings(s)
	return "{" + strings.Join(s, ",") + "}"
}

// readRepoFile reads a file of the repository under analysis (used for embedded SQL).
func readRepoGlob(c *Ctx, pattern string) map[string]string {
	out := map[string]string{}
	m, _ := filepath.Glob(filepath.Join(c.Repo, pattern))
	for _, p := range m {
		b, err := os.ReadFile(p)
		if err == nil {
			rel, _ := filepath.Rel(c.Repo, p)
			out[rel] = string(b)
		}
	}
	return out
}

// kvMethods is the KVProvider method set in a fixed order.
var kvMutators = []string{"Put", "Delete", "PrefixAppend", "PrefixRemove", "Acquire", "Renew", "Release", "Import", "RemoveKeys"}
var kvReaders = []string{"Get", "PrefixList", "PrefixContains", "ListKeys", "Export", "RangeKeys"}

// strAlternatives enumerates the strings expression e can evaluate to, as far as the
// syntax tells: constants, concatenations, single-definition locals, and the fields of
// the element variable of a `range` over a package-level slice literal (all fields of one
// element are taken together). Anything else contributes the opaque piece "?".
func strAlternatives(g *Fn, e ast.Expr) []string {
	// range variables over package-level literals mentioned in e (through locals)
	type rng struct {
		v     *types.Var
		elems []*ast.CompositeLit
	}
	var rngs []rng
	seenVar := map[*types.Var]bool{}
	var collect func(e ast.Expr, depth int)
	collect = func(e ast.Expr, depth int) {
		if depth > 6 {
			return
		}
		ast.Inspect(e, func(n ast.Node) bool {
			id, ok := n.(*ast.Ident)
			if !ok {
				return true
			}
			v := g.varOf(id)
			if v == nil || seenVar[v] {
				return true
			}
			seenVar[v] = true
			for _, d := range g.defsOf(v) {
				if d.multi && d.idx == 1 {
					// range value: is the ranged expression a package-level literal?
					if gv, ok := g.ObjOf(d.rhs).(*types.Var); ok && gv.Parent() == gv.Pkg().Scope() {
						if lit := globalInit(g.C, gv); lit != nil {
							var elems []*ast.CompositeLit
							for _, el := range lit.Elts {
								if cl, ok := el.(*ast.CompositeLit); ok {
									elems = append(elems, cl)
								}
							}
							rngs = append(rngs, rng{v, elems})
						}
					}
				} else if !d.multi && d.rhs != nil {
					collect(d.rhs, depth+1)
				}
			}
			return true
		})
	}
	collect(e, 0)
	var out []string
	var eval func(e ast.Expr, env map[*types.Var]*ast.CompositeLit, depth int) []string
	eval = func(e ast.Expr, env map[*types.Var]*ast.CompositeLit, depth int) []string {
		e = ast.Unparen(e)
		if depth > 8 {
			return []string{"?"}
		}
		if tv, ok := g.Info.Types[e]; ok && tv.Value != nil {
			return []string{constantString(tv)}
		}
		switch x := e.(type) {
		case *ast.BinaryExpr:
			if x.Op == token.ADD {
				var res []string
				for _, l := range eval(x.X, env, depth+1) {
					for _, r := range eval(x.Y, env, depth+1) {
						if len(res) < 64 {
							res = append(res, l+r)
						}
					}
				}
				return res
			}
		case *ast.Ident:
			if v := g.varOf(x); v != nil {
				defs := g.defsOf(v)
				if len(defs) == 1 && !defs[0].multi && defs[0].rhs != nil {
					return eval(defs[0].rhs, env, depth+1)
				}
			}
		case *ast.SelectorExpr:
			if v := g.varOf(x.X); v != nil {
				if el := env[v]; el != nil {
					// field by name or by position
					st, _ := g.Info.Types[x.X].Type.Underlying().(*types.Struct)
					for i, fe := range el.Elts {
						if kv, ok := fe.(*ast.KeyValueExpr); ok {
							if id, ok := kv.Key.(*ast.Ident); ok && id.Name == x.Sel.Name {
								return eval(kv.Value, env, depth+1)
							}
							continue
						}
						if st != nil && i < st.NumFields() && st.Field(i).Name() == x.Sel.Name {
							return eval(fe, env, depth+1)
						}
					}
				}
			}
		}
		return []string{"?"}
	}
	var rec func(i int, env map[*types.Var]*ast.CompositeLit)
	rec = func(i int, env map[*types.Var]*ast.CompositeLit) {
		if i == len(rngs) {
			out = append(out, eval(e, env, 0)...)
			return
		}
		for _, el := range rngs[i].elems {
			env[rngs[i].v] = el
			rec(i+1, env)
		}
		delete(env, rngs[i].v)
	}
	rec(0, map[*types.Var]*ast.CompositeLit{})
	return out
}

// globalInit returns the composite literal a package-level variable is initialised with.
func globalInit(c *Ctx, v *types.Var) *ast.CompositeLit {
	for _, p := range c.All {
		if p.Types != v.Pkg() {
			continue
		}
		for _, f := range p.Syntax {
			for _, d := range f.Decls {
				gd, ok := d.(*ast.GenDecl)
				if !ok {
					continue
				}
				for _, sp := range gd.Specs {
					vs, ok := sp.(*ast.ValueSpec)
					if !ok {
						continue
					}
					for i, nm := range vs.Names {
						if p.TypesInfo.Defs[nm] == types.Object(v) && i < len(vs.Values) {
							if cl, ok := vs.Values[i].(*ast.CompositeLit); ok {
								return cl
							}
						}
					}
				}
			}
		}
	}
	return nil
}

var reWhereCol = regexp.MustCompile("(?i)WHERE\\s+`?([a-z_]+)`?\\s*(?:=|IN)")

// trackerDropAfterCount: the key tracker is what ListKeys / RangeKeys read. Removing one
// prefix child must not drop the PREFIX flag (or the whole tracker row) while other
// children remain, so the decision to delete or rewrite the tracker comes only after the
// remaining children were counted: with the edges on which no prefix removal was asked
// (removeFlags&PrefixFlag == 0) cut, every path from the entry of updateKeyTracker to the
// tracker DELETE / UPDATE passes the prefixCount query.
func trackerDropAfterCount(c *Ctx, rule string) {
	ut := c.Func("kv/sqlite3", "SqliteKV", "updateKeyTracker")
	var count []*ast.CallExpr
	targets := map[string][]*ast.CallExpr{}
	for _, call := range ut.Calls(false, func(call *ast.CallExpr) bool { return true }) {
		switch stmtFieldOfCall(ut, call) {
		case "prefixCount":
			count = append(count, call)
		case "trackerDelete":
			targets["delete"] = append(targets["delete"], call)
		case "trackerUpdate":
			targets["update"] = append(targets["update"], call)
		}
	}
	c.Floor("updateKeyTracker children-count sites", len(count), 1)
	isPrefixAsked := func(e ast.Expr) bool {
		// removeFlags&PrefixFlag != 0
		be, ok := ast.Unparen(e).(*ast.BinaryExpr)
		if !ok || be.Op != token.NEQ {
			return false
		}
		and, ok := ast.Unparen(be.X).(*ast.BinaryExpr)
		if !ok || and.Op != token.AND {
			return false
		}
		v, _ := ut.ConstVal(be.Y)
		isParam := func(e ast.Expr) bool {
			o := ut.ObjOf(e)
			return o != nil && ut.paramIndex(o) >= 0
		}
		return v == "0" && (constName(ut, and.Y) == "PrefixFlag" && isParam(and.X) || constName(ut, and.X) == "PrefixFlag" && isParam(and.Y))
	}
	reached, _ := ut.Reach(nil, func(m ast.Node) bool {
		for _, cc := range count {
			if containsNode(m, cc) {
				return true
			}
		}
		return false
	}, func(b *cfgBlock, si int) bool {
		for _, at := range ut.edgeAtoms(b, si) {
			if at.tag == nil && isPrefixAsked(at.e) && !at.truth {
				return true
			}
		}
		return false
	})
	n := 0
	for kind, calls := range targets {
		for _, call := range calls {
			n++
			early := false
			for _, m := range reached {
				if containsNode(m, call) {
					// reached without passing the count (the stop nodes themselves are in
					// `reached`, but a target is never inside the count query node)
					early = true
				}
			}
			c.Ob(rule, "updateKeyTracker#tracker-"+kind+"-only-after-children-counted", call.Pos(), !early, "when a prefix removal is being recorded, the tracker row is deleted / rewritten only after the remaining children were counted (otherwise removing one of several children makes the key vanish from listings while its children are still stored)")
		}
	}
	c.Floor("updateKeyTracker tracker write sites", n, 2)
}

// shallowNodes lists every node inside n that is not inside a function literal.
func shallowNodes(n ast.Node) []ast.Node {
	var out []ast.Node
	ast.Inspect(n, func(m ast.Node) bool {
		if m == nil {
			return true
		}
		if _, ok := m.(*ast.FuncLit); ok {
			return false
		}
		out = append(out, m)
		return true
	})
	return out
}

// onlyCalledFrom computes the functions of package relpkg that run only on behalf of the
// given roots: the roots themselves plus every function all of whose callers (in the
// package, static calls) are already in the set. A helper extracted from a root is in the
// set; a function that also has a caller outside it is not.
func onlyCalledFrom(c *Ctx, relpkg string, roots ...string) map[string]bool {
	set := map[string]bool{}
	for _, r := range roots {
		set[r] = true
	}
	fns := c.AllFuncs(relpkg)
	callers := map[string]map[string]bool{}
	for _, fn := range fns {
		for _, call := range fn.Calls(true, func(*ast.CallExpr) bool { return true }) {
			o := fn.enclosing(call).Callee(call)
			if o == nil {
				continue
			}
			if h := c.FnOfObj(o); h != nil && h.Pkg == fn.Pkg {
				if callers[h.Name] == nil {
					callers[h.Name] = map[string]bool{}
				}
				callers[h.Name][fn.Name] = true
			}
		}
	}
	for changed := true; changed; {
		changed = false
		for _, fn := range fns {
			if set[fn.Name] || len(callers[fn.Name]) == 0 {
				continue
			}
			all := true
			for cl := range callers[fn.Name] {
				if !set[cl] {
					all = false
				}
			}
			if all {
				set[fn.Name] = true
				changed = true
			}
		}
	}
	return set
}

// aofWriterSites lists the calls to the given DiskKV method made on the single-writer path
// (Start and the helpers only it uses), with the function each call sits in.
type fnCall struct {
	g    *Fn
	call *ast.CallExpr
}

func aofWriterSites(c *Ctx, key string) []fnCall {
	w := onlyCalledFrom(c, "kv/aof", "kv/aof.(DiskKV).Start")
	var out []fnCall
	for _, fn := range c.AllFuncs("kv/aof") {
		if !w[fn.Name] {
			continue
		}
		for _, call := range fn.CallsTo(true, key) {
			out = append(out, fnCall{fn.enclosing(call), call})
		}
	}
	return out
}

// valueSite is a place where a value is produced: the expression itself where it is used,
// or - when the expression is a call of a known literal (an inlined helper) - each return of
// that literal. Rules that decide "value X is chosen exactly when condition C holds" read the
// path facts at these sites.
type valueSite struct {
	g   *Fn
	at  ast.Node
	val ast.Expr
}

func valueSites(fn *Fn, at ast.Node, val ast.Expr) []valueSite {
	g := fn.enclosing(at)
	fromLit := func(lc *ast.CallExpr, idx int) []valueSite {
		lit := g.litOfCallee(lc)
		if lit == nil {
			return nil
		}
		h := g.enclosing(lit).Closure(lit)
		var out []valueSite
		for _, r := range h.Returns() {
			if idx >= len(r.Results) {
				return nil
			}
			if idx != len(r.Results)-1 && h.returnsFailure(r) {
				continue // the value that accompanies a failure is not used
			}
			out = append(out, valueSites(h, r, r.Results[idx])...)
		}
		return out
	}
	if lc, ok := ast.Unparen(val).(*ast.CallExpr); ok {
		if out := fromLit(lc, 0); len(out) > 0 {
			return out
		}
	}
	// a local that holds one result of such a call
	if v := g.varOf(val); v != nil {
		if defs := g.defsOf(v); len(defs) == 1 && defs[0].rhs != nil {
			if lc, ok := ast.Unparen(defs[0].rhs).(*ast.CallExpr); ok {
				if out := fromLit(lc, defs[0].idx); len(out) > 0 {
					return out
				}
			}
		}
	}
	return []valueSite{{g, at, val}}
}
