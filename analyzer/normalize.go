package main

// Normalisation of extracted helpers.
//
// The rules are anchored in the functions of the pinned tree (BASELINE_FUNCS.json lists
// them). A behaviour-preserving clean-up typically moves part of such a function into a
// new helper; the rules, which read one function's paths, then no longer see the test or
// the call they require. Before the rules run, every call (from a baseline function) to a
// function that is NOT in the baseline is inlined with the gopls inliner
// (golang.org/x/tools/internal/refactor/inline - a sound source-to-source transformation;
// this module's path lies under golang.org/x/tools precisely so that it may import it),
// the result is loaded as an overlay, and the rules analyse that program. A helper with
// several returns becomes an immediately invoked literal, whose exit facts the path
// analysis imports (facts.go). A call the inliner refuses is left alone (and is then
// reported by whichever rule cannot see through it - never silently accepted).

import (
	"go/types"
	"encoding/json"
	"fmt"
	"go/ast"
	"go/token"
	"os"
	"path/filepath"
	"sort"
	"strings"

	"golang.org/x/tools/go/packages"
	"golang.org/x/tools/go/types/typeutil"
	"golang.org/x/tools/internal/refactor"
	"golang.org/x/tools/internal/refactor/inline"
)

func funcKeyOf(fd *ast.FuncDecl, pkgRel string) string {
	r := recvName(fd)
	if r != "" {
		return pkgRel + ".(" + r + ")." + fd.Name.Name
	}
	return pkgRel + "." + fd.Name.Name
}

// declaredFuncs lists the functions declared in non-test, non-generated files of the repo.
func (c *Ctx) declaredFuncs() map[string]*ast.FuncDecl {
	out := map[string]*ast.FuncDecl{}
	for _, p := range c.All {
		if !strings.HasPrefix(p.PkgPath, M) {
			continue
		}
		for _, f := range p.Syntax {
			name := c.Fset.File(f.Pos()).Name()
			if strings.HasSuffix(name, "_test.go") || isGenerated(name) {
				continue
			}
			for _, d := range f.Decls {
				if fd, ok := d.(*ast.FuncDecl); ok && fd.Body != nil {
					out[funcKeyOf(fd, relPkg(p.PkgPath))] = fd
				}
			}
		}
	}
	return out
}

func (c *Ctx) baselineFuncs() map[string]bool {
	b, err := os.ReadFile(filepath.Join(c.Verif, "BASELINE_FUNCS.json"))
	if err != nil {
		return nil
	}
	var names []string
	if json.Unmarshal(b, &names) != nil {
		return nil
	}
	out := map[string]bool{}
	for _, n := range names {
		out[n] = true
	}
	return out
}

// normalize inlines calls to non-baseline helpers; it returns the overlay to analyse (nil
// when there is nothing to do) and a description of what was done.
func (c *Ctx) normalize(overlay map[string][]byte) (map[string][]byte, []string) {
	base := c.baselineFuncs()
	if base == nil {
		return nil, nil
	}
	var log []string
	cur := map[string][]byte{}
	for k, v := range overlay {
		cur[k] = v
	}
	changed := false
	closuresDone := false
	for round := 0; round < 16; round++ {
		if !closuresDone {
			// local closures called as statements, first in the tree as written and once
			// more after the helpers were inlined
			if ch, l := c.inlineLocalClosures(cur); ch {
				changed = true
				log = append(log, l...)
				c.fns = map[ast.Node]*Fn{}
				c.nfuncs = map[*Fn]bool{}
				c.load("", cur)
			}
			closuresDone = true
		}
		decls := c.declaredFuncs()
		newFns := map[string]*ast.FuncDecl{}
		for k, fd := range decls {
			if !base[k] {
				newFns[k] = fd
			}
		}
		if len(newFns) == 0 {
			break
		}
		// one call site per file per round (the last one, so that earlier offsets stay valid)
		type site struct {
			p    *packagesPkg
			file *ast.File
			call *ast.CallExpr
			key  string
		}
		perFile := map[string][]*site{}
		for _, p := range c.All {
			if !strings.HasPrefix(p.PkgPath, M) {
				continue
			}
			for _, f := range p.Syntax {
				fname := c.Fset.File(f.Pos()).Name()
				if strings.HasSuffix(fname, "_test.go") || isGenerated(fname) {
					continue
				}
				for _, d := range f.Decls {
					fd, ok := d.(*ast.FuncDecl)
					if !ok || fd.Body == nil || !base[funcKeyOf(fd, relPkg(p.PkgPath))] {
						continue // only call sites inside baseline functions
					}
					ast.Inspect(fd.Body, func(n ast.Node) bool {
						call, ok := n.(*ast.CallExpr)
						if !ok {
							return true
						}
						fn := typeutil.StaticCallee(p.TypesInfo, call)
						if fn == nil || fn.Pkg() == nil || !strings.HasPrefix(fn.Pkg().Path(), M) {
							return true
						}
						recv := ""
						if sig := fn.Signature(); sig != nil && sig.Recv() != nil {
							t := sig.Recv().Type().String()
							t = strings.TrimPrefix(t, "*")
							if i := strings.LastIndex(t, "."); i >= 0 {
								t = t[i+1:]
							}
							if i := strings.Index(t, "["); i >= 0 {
								t = t[:i]
							}
							recv = t
						}
						key := relPkg(fn.Pkg().Path()) + "." + fn.Name()
						if recv != "" {
							key = relPkg(fn.Pkg().Path()) + ".(" + recv + ")." + fn.Name()
						}
						if _, isNew := newFns[key]; !isNew {
							return true
						}
						perFile[fname] = append(perFile[fname], &site{p: p, file: f, call: call, key: key})
						return true
					})
				}
			}
		}
		if len(perFile) == 0 {
			break
		}
		progressed := false
		snapshot := map[string][]byte{}
		for k, v := range cur {
			snapshot[k] = v
		}
		roundKeys := map[string]bool{}
		var fnames []string
		for k := range perFile {
			fnames = append(fnames, k)
		}
		sort.Strings(fnames)
		for _, fname := range fnames {
			content := cur[fname]
			if content == nil {
				content, _ = os.ReadFile(fname)
			}
			// every site of the file whose edits do not collide with those of a site already
			// accepted in this round (all edits refer to the same, current, content)
			var accepted []refactorEdit
			sites := perFile[fname]
			sort.Slice(sites, func(i, j int) bool { return sites[i].call.Pos() > sites[j].call.Pos() })
			for _, s := range sites {
				decl := newFns[s.key]
				// the package that declares the callee
				var dp *packagesPkg
				for _, p := range c.All {
					for _, f := range p.Syntax {
						if f.Pos() <= decl.Pos() && decl.End() <= f.End() {
							dp = p
						}
					}
				}
				if dp == nil {
					continue
				}
				dfile := c.Fset.File(decl.Pos()).Name()
				dcontent := cur[dfile]
				if dcontent == nil {
					dcontent, _ = os.ReadFile(dfile)
				}
				callee, err := inline.AnalyzeCallee(func(string, ...any) {}, c.Fset, dp.Types, dp.TypesInfo, decl, dcontent)
				if err != nil {
					log = append(log, fmt.Sprintf("%s: not inlinable (%v)", s.key, err))
					base[s.key] = true // treat as given from now on
					continue
				}
				caller := &inline.Caller{Fset: c.Fset, Types: s.p.Types, Info: s.p.TypesInfo, File: s.file, Call: s.call}
				res, err := inline.Inline(caller, callee, &inline.Options{Recover: true})
				var edits []refactorEdit
				what := ""
				if err != nil && strings.Contains(err.Error(), "type parameter inference") {
					// the inliner wants the instantiation spelled out: write the inferred type
					// arguments at the call site and let the next round inline it
					if txt := explicitTypeArgs(s.p, s.call); txt != "" {
						off := c.Fset.Position(s.call.Fun.End()).Offset
						edits = []refactorEdit{{start: off, end: off, text: []byte(txt)}}
						what = fmt.Sprintf("instantiated %s%s at %s", s.key, txt, c.pos(s.call.Pos()))
						err = nil
					}
				} else if err == nil {
					edits = toEdits(c.Fset, res.Edits)
					what = fmt.Sprintf("inlined %s at %s (literalized=%v)", s.key, c.pos(s.call.Pos()), res.Literalized)
				}
				if err != nil {
					log = append(log, fmt.Sprintf("%s at %s: inliner refused (%v)", s.key, c.pos(s.call.Pos()), err))
					base[s.key] = true
					continue
				}
				collide := false
				var fresh []refactorEdit
				for _, e := range edits {
					if e.start < 0 || e.end > len(content) || e.start > e.end {
						collide = true
						break
					}
					dup := false
					for _, a := range accepted {
						if a.start == e.start && a.end == e.end && string(a.text) == string(e.text) {
							dup = true // the same import edit
						} else if e.start < a.end && a.start < e.end || e.start == e.end && a.start == a.end && e.start == a.start {
							collide = true
						}
					}
					if !dup {
						fresh = append(fresh, e)
					}
				}
				if collide {
					continue // next round
				}
				accepted = append(accepted, fresh...)
				roundKeys[s.key] = true
				log = append(log, what)
			}
			if len(accepted) == 0 {
				continue
			}
			sort.Slice(accepted, func(i, j int) bool { return accepted[i].start > accepted[j].start })
			out := content
			for _, e := range accepted {
				out = append(append(append([]byte{}, out[:e.start]...), e.text...), out[e.end:]...)
			}
			cur[fname] = out
			progressed = true
			changed = true
		}
		if !progressed {
			break
		}
		// reload with the overlay for the next round (new call sites may have appeared). If
		// the rewritten program does not load (the inliner produced something the compiler
		// rejects, e.g. a literal with type parameters), this round is undone and the
		// helpers it touched are treated as given.
		c.fns = map[ast.Node]*Fn{}
		c.nfuncs = map[*Fn]bool{}
		if err := c.tryLoad(cur); err != "" {
			log = append(log, fmt.Sprintf("round undone: the rewritten program does not load (%s)", firstLine(err)))
			for k := range roundKeys {
				base[k] = true
			}
			cur = snapshot
			c.fns = map[ast.Node]*Fn{}
			c.nfuncs = map[*Fn]bool{}
			c.load("", cur)
		}
	}
	if !changed {
		return nil, log
	}
	if d := os.Getenv("VERIF_DUMP_NORMALISED"); d != "" {
		// debugging aid: the normalised source of every rewritten file
		for k, v := range cur {
			os.WriteFile(d+"/"+strings.ReplaceAll(strings.TrimPrefix(k, "/"), "/", "_"), v, 0o644)
		}
	}
	return cur, log
}

type refactorEdit struct {
	start, end int
	text       []byte
}

// toEdits converts the inliner's position-based edits into byte offsets of their file.
func toEdits(fset *token.FileSet, edits []refactor.Edit) []refactorEdit {
	var out []refactorEdit
	for _, e := range edits {
		tf := fset.File(e.Pos)
		if tf == nil {
			out = append(out, refactorEdit{-1, -1, nil})
			continue
		}
		end := e.End
		if !end.IsValid() {
			end = e.Pos
		}
		out = append(out, refactorEdit{tf.Offset(e.Pos), tf.Offset(end), e.NewText})
	}
	return out
}

type packagesPkg = packages.Package

// explicitTypeArgs renders the type arguments the type checker inferred for a call of a
// generic function as "[T1, T2]" in the caller's package, or "" when they cannot be written
// there (a type of a package the file may not import).
func explicitTypeArgs(p *packagesPkg, call *ast.CallExpr) string {
	var id *ast.Ident
	switch f := ast.Unparen(call.Fun).(type) {
	case *ast.Ident:
		id = f
	case *ast.SelectorExpr:
		id = f.Sel
	default:
		return ""
	}
	inst, ok := p.TypesInfo.Instances[id]
	if !ok || inst.TypeArgs == nil || inst.TypeArgs.Len() == 0 {
		return ""
	}
	bad := false
	var parts []string
	for i := 0; i < inst.TypeArgs.Len(); i++ {
		parts = append(parts, types.TypeString(inst.TypeArgs.At(i), func(q *types.Package) string {
			if q == p.Types {
				return ""
			}
			for _, imp := range p.Types.Imports() {
				if imp == q {
					return q.Name()
				}
			}
			bad = true
			return q.Name()
		}))
	}
	if bad {
		return ""
	}
	return "[" + strings.Join(parts, ", ") + "]"
}

// tryLoad loads the program with the overlay and reports a load failure instead of aborting.
func (c *Ctx) tryLoad(overlay map[string][]byte) (failure string) {
	defer func() {
		if r := recover(); r != nil {
			if cf, ok := r.(checkFailure); ok {
				failure = cf.msg
				return
			}
			panic(r)
		}
	}()
	c.load("", overlay)
	return ""
}

func firstLine(s string) string {
	if i := strings.Index(s, "\n"); i >= 0 {
		s = s[:i]
	}
	if len(s) > 200 {
		s = s[:200]
	}
	return s
}
