package main

import (
	"fmt"
	"go/ast"
	"go/token"
	"go/types"
	"os"
	"strings"
)

func init() {
	register(&propDef{ID: "C10", Level: "other",
		Decides:    "the listing pipeline's structure: each backend's ListKeys emits exactly one entry per key kind, each guarded by the datum of that kind (memory: non-empty simple value / non-empty child set / non-zero lease; sqlite: the SIMPLE/PREFIX/LEASE flag bit) and only after the prefix filter; LocalNode.ListKeys' collector goroutine is joined before its result is read (resultCh closed only after every per-node listing finished, the reader waited for before the result is signalled, keys read only after that signal); the ring walk lists every visited node once and the receiver last; the direct-target branch lists the local store under the KV gate (C04).",
		NotDecided: "the exact multiset returned on a real ring.",
		Run:        runC10})
	register(&propDef{ID: "C12", Level: "other",
		Decides:    "the loop obligations of MakeSuccListByID and MakeSuccListByAddress: the result starts as [immediate] whose key is marked seen; inside the loop the length bound is tested (and breaks) before anything is appended, nil is tested before the key is computed, the key tested is the key inserted, and the only growth is append(list, loop element) - for maxLen >= 1 these imply: length <= maxLen, first element = immediate, no duplicate key, input order preserved; the two functions agree up to the key function (ID() vs Identity().GetAddress()).",
		NotDecided: "nothing beyond these obligations.",
		Run:        runC12})
	addSelfTests("C10",
		mutation{"memory-lease-as-prefix", "kv/memory/kv.go", "			if v.lease.Load() != 0 {\n				keys = append(keys, &protocol.KeyComposite{\n					Type: protocol.KeyComposite_LEASE,", "			if v.lease.Load() != 0 {\n				keys = append(keys, &protocol.KeyComposite{\n					Type: protocol.KeyComposite_PREFIX,", "kind-pairing"},
		mutation{"sqlite-wrong-flag", "kv/sqlite3/provider.go", "		if flags&PrefixFlag != 0 {\n			keys = append(keys, &protocol.KeyComposite{\n				Type: protocol.KeyComposite_PREFIX,", "		if flags&SimpleFlag != 0 {\n			keys = append(keys, &protocol.KeyComposite{\n				Type: protocol.KeyComposite_PREFIX,", "kind-pairing"},
		mutation{"memory-no-prefix-filter", "kv/memory/kv.go", "			if !strings.HasPrefix(key, string(prefix)) {\n				return true\n			}\n", "			_ = strings.HasPrefix\n", "kind-pairing"},
		mutation{"result-before-reader-done", "chord/local_kv.go", "		close(resultCh)\n		readWg.Wait()\n		gErr <- err", "		close(resultCh)\n		gErr <- err\n		readWg.Wait()", "collector"},
		mutation{"close-before-wait", "chord/local_kv.go", "		err := g.Wait()\n		close(resultCh)", "		close(resultCh)\n		err := g.Wait()", "collector"},
		mutation{"self-not-listed", "chord/local_kv.go", "		if next.ID() == n.ID() {\n			nodes = append(nodes, n)\n			break\n		}", "		if next.ID() == n.ID() {\n			break\n		}", "ring-walk"},
	)
	addSelfTests("C12",
		mutation{"bound-after-append", "spec/chord/chord.go", "	for _, succ := range successors {\n		if len(succList) >= maxLen {\n			break\n		}\n		if succ == nil || seen[succ.ID()] {\n			continue\n		}\n		seen[succ.ID()] = true\n		succList = append(succList, succ)\n	}", "	for _, succ := range successors {\n		if succ == nil || seen[succ.ID()] {\n			continue\n		}\n		seen[succ.ID()] = true\n		succList = append(succList, succ)\n		if len(succList) >= maxLen {\n			break\n		}\n	}", "succlist"},
		mutation{"immediate-not-marked", "spec/chord/chord.go", "	seen[immediate.ID()] = true\n", "", "succlist"},
		mutation{"address-dedup-by-id", "spec/chord/chord.go", "		if succ == nil || seen[succ.Identity().GetAddress()] {\n			continue\n		}\n		seen[succ.Identity().GetAddress()] = true", "		if succ == nil || seen[succ.Identity().GetAddress()] {\n			continue\n		}\n		seen[succ.Identity().GetAddress()+\" \"] = true", "succlist"},
		mutation{"bound-off-by-one", "spec/chord/chord.go", "	seen[immediate.Identity().GetAddress()] = true\n\n	for _, succ := range successors {\n		if len(succList) >= maxLen {", "	seen[immediate.Identity().GetAddress()] = true\n\n	for _, succ := range successors {\n		if len(succList) > maxLen {", "succlist"},
	)
}

func runC12(c *Ctx) {
	keys := map[string]string{}
	for _, name := range []string{"MakeSuccListByID", "MakeSuccListByAddress"} {
		keys[name] = succListObligations(c, "succlist", name)
	}
	c.Ob("succlist", "siblings-agree-up-to-key", 0, keys["MakeSuccListByID"] == "ID" && keys["MakeSuccListByAddress"] == "GetAddress", fmt.Sprintf("ByID de-duplicates by ID(), ByAddress by Identity().GetAddress(); found %v", keys))
}

// succListObligations checks one successor-list builder and returns its key selector.
func succListObligations(c *Ctx, rule, name string) string {
	{
		fn := c.Func("spec/chord", "", name)
		ok, det, sel := dedupLoop(fn, 1)
		c.Ob(rule, name+"#loop-obligations", fn.Decl.Pos(), ok, det)
		// initial list [immediate]; K(immediate) is put into the seen set before the loop
		okInit := false
		for _, n := range shallowNodes(fn.Body) {
			var rhs []ast.Expr
			switch x := n.(type) {
			case *ast.AssignStmt:
				rhs = x.Rhs
			case *ast.ValueSpec:
				rhs = x.Values
			}
			for _, r := range rhs {
				if cl, ok := ast.Unparen(r).(*ast.CompositeLit); ok && len(cl.Elts) == 1 && fn.Prov(cl.Elts[0]) == "param#0" {
					okInit = true
				}
			}
		}
		c.Ob(rule, name+"#starts-with-immediate", fn.Decl.Pos(), okInit, "the result starts as [immediate]")
		// the key function applied to the immediate node is the one applied to the elements
		var rs *ast.RangeStmt
		for _, n := range shallowNodes(fn.Body) {
			if r, ok := n.(*ast.RangeStmt); ok && rs == nil {
				rs = r
			}
		}
		immKey := ""
		for _, in := range fn.seenInserts(fn.Body) {
			if rs != nil && rs.Pos() <= in.at.Pos() && in.at.End() <= rs.End() {
				continue
			}
			if strings.HasPrefix(in.key, "param#0.") {
				immKey = strings.TrimPrefix(in.key, "param#0.")
			}
		}
		c.Ob(rule, name+"#immediate-marked-with-same-key", fn.Decl.Pos(), immKey != "" && immKey == sel, fmt.Sprintf("K(immediate) is in the seen set before the loop, with the same key function as the elements (immediate: %s, elements: %s)", immKey, sel))
		// bound test dominates the append and breaks
		if rs != nil {
			var ap *ast.CallExpr
			ast.Inspect(rs.Body, func(n ast.Node) bool {
				if call, ok := n.(*ast.CallExpr); ok {
					if id, ok := call.Fun.(*ast.Ident); ok && id.Name == "append" {
						ap = call
					}
				}
				return true
			})
			okBound := false
			if ap != nil {
				okBound = fn.FactsAt(ap).Cmp(func(e, tag ast.Expr, truth bool, fa *Fact) bool {
					be, ok := e.(*ast.BinaryExpr)
					if !ok || tag != nil {
						return false
					}
					isLen := isLenOf(fn, be.X, func(x ast.Expr) bool { return true })
					return isLen && fn.Prov(be.Y) == "param#2" && ((be.Op == token.GEQ && !truth) || (be.Op == token.LSS && truth))
				})
			}
			if !okBound && os.Getenv("VERIF_DEBUG_FACTS") != "" && ap != nil {
				fmt.Fprintf(os.Stderr, "facts at append in %s: %s\n", name, fn.FactsAt(ap).String())
			}
			c.Ob(rule, name+"#bound-before-append", fn.Decl.Pos(), okBound, "len(list) < maxLen holds on every path to the append (the bound test comes first and leaves the loop)")
			// the bound branch breaks (does not continue: a continue would still be correct for the bound but breaks order only if appends could follow; require break/return)
			okBreak := false
			ast.Inspect(rs.Body, func(n ast.Node) bool {
				ifs, ok := n.(*ast.IfStmt)
				if !ok {
					return true
				}
				if be, ok := ifs.Cond.(*ast.BinaryExpr); ok && be.Op == token.GEQ && fn.Prov(be.Y) == "param#2" {
					for _, st := range ifs.Body.List {
						if br, ok := st.(*ast.BranchStmt); ok && br.Tok == token.BREAK {
							okBreak = true
						}
						if _, ok := st.(*ast.ReturnStmt); ok {
							okBreak = true
						}
					}
				}
				return true
			})
			c.Ob(rule, name+"#full-list-stops", fn.Decl.Pos(), okBreak, "once the list is full the loop stops")
		}
		// returns the list
		for _, r := range fn.Returns() {
			c.Ob(rule, name+"#returns-the-list", r.Pos(), strings.Contains(fn.Prov(r.Results[0]), "lit:[]VNode"), "the built list is returned; found "+fn.Prov(r.Results[0]))
		}
		// the selector the siblings are compared by: the last method of the key chain
		return lastSelector(sel)
	}
}

func runC10(c *Ctx) {
	// (a) memory
	mk := c.Func("kv/memory", "MemoryKV", "ListKeys")
	kinds := map[string]string{"KeyComposite_SIMPLE": ".simple.Load()", "KeyComposite_PREFIX": ".children.Len()", "KeyComposite_LEASE": ".lease.Load()"}
	checkAppends := func(fn *Fn, backend string, guardOK func(g *Fn, kind string, fs *FactSet, cn func(ast.Expr) string) bool, prefixOK func(g *Fn, fs *FactSet) bool) {
		seen := map[string]int{}
		for _, call := range fn.Calls(true, func(call *ast.CallExpr) bool {
			id, ok := call.Fun.(*ast.Ident)
			return ok && id.Name == "append"
		}) {
			g := fn.enclosing(call)
			kind := ""
			ast.Inspect(call, func(n ast.Node) bool {
				if kv, ok := n.(*ast.KeyValueExpr); ok {
					if id, ok := kv.Key.(*ast.Ident); ok && id.Name == "Type" {
						kind = constName(g, kv.Value)
					}
				}
				// the entry may be built by a small constructor: f(KIND, key) whose only
				// statement returns &KeyComposite{Type: <that parameter>, ...}
				if cc, ok := n.(*ast.CallExpr); ok && cc != call {
					if h := c.FnOfObj(g.Callee(cc)); h != nil && len(h.Body.List) == 1 {
						if r, ok := h.Body.List[0].(*ast.ReturnStmt); ok && len(r.Results) == 1 {
							ast.Inspect(r.Results[0], func(m ast.Node) bool {
								if kv, ok := m.(*ast.KeyValueExpr); ok {
									if id, ok := kv.Key.(*ast.Ident); ok && id.Name == "Type" {
										if i := h.paramIndex(h.ObjOf(kv.Value)); i >= 0 && i < len(cc.Args) {
											kind = constName(g, cc.Args[i])
										}
									}
								}
								return true
							})
						}
					}
				}
				return true
			})
			if kind == "" {
				// table-driven: the kind is a field of the element of a loop over a
				// package-level table; the site stands for one emission per row, each judged
				// with the constants of that row
				var typeVal ast.Expr
				ast.Inspect(call, func(n ast.Node) bool {
					if kv, ok := n.(*ast.KeyValueExpr); ok {
						if id, ok := kv.Key.(*ast.Ident); ok && id.Name == "Type" {
							typeVal = kv.Value
						}
					}
					return true
				})
				rows, rowVar := tableRowsOf(c, g, typeVal)
				for _, row := range rows {
					cn := func(e ast.Expr) string { return rowConst(g, e, rowVar, row) }
					k := cn(typeVal)
					if k == "" {
						continue
					}
					seen[k]++
					fs := g.FactsAt(call)
					c.Ob("kind-pairing", fmt.Sprintf("%s.ListKeys#%s-guarded-by-its-datum", backend, k), call.Pos(), guardOK(g, k, fs, cn), "an entry of this kind is emitted only when the key holds data of that kind")
					c.Ob("kind-pairing", fmt.Sprintf("%s.ListKeys#%s-after-prefix-filter", backend, k), call.Pos(), prefixOK(g, fs), "entries are emitted only for keys that start with the requested prefix")
				}
				continue
			}
			seen[kind]++
			fs := g.FactsAt(call)
			plain := func(e ast.Expr) string { return constName(g, e) }
			c.Ob("kind-pairing", fmt.Sprintf("%s.ListKeys#%s-guarded-by-its-datum", backend, kind), call.Pos(), guardOK(g, kind, fs, plain), "an entry of this kind is emitted only when the key holds data of that kind")
			c.Ob("kind-pairing", fmt.Sprintf("%s.ListKeys#%s-after-prefix-filter", backend, kind), call.Pos(), prefixOK(g, fs), "entries are emitted only for keys that start with the requested prefix")
		}
		for k := range kinds {
			c.Ob("kind-pairing", fmt.Sprintf("%s.ListKeys#one-append-for-%s", backend, k), fn.Decl.Pos(), seen[k] == 1, fmt.Sprintf("exactly one emission site per kind (found %d)", seen[k]))
		}
	}
	checkAppends(mk, "memory", func(g *Fn, kind string, fs *FactSet, _ func(ast.Expr) string) bool {
		want := kinds[kind]
		return fs.Cmp(func(e, tag ast.Expr, truth bool, fa *Fact) bool {
			be, ok := e.(*ast.BinaryExpr)
			if !ok || !truth || fa.Inherited {
				return false
			}
			v, _ := g.ConstVal(be.Y)
			if v != "0" || (be.Op != token.GTR && be.Op != token.NEQ) {
				return false
			}
			pv := g.Prov(be.X)
			return strings.Contains(pv, want)
		})
	}, func(g *Fn, fs *FactSet) bool {
		return fs.Has(func(fa *Fact) bool {
			return fa.Kind == FTrue && g.IsCall(fa.Call, "strings.HasPrefix") && g.Prov(fa.Call.Args[0]) == "lit.param#0"
		})
	})
	sq := c.Func("kv/sqlite3", "SqliteKV", "ListKeys")
	flags := map[string]string{"KeyComposite_SIMPLE": "SimpleFlag", "KeyComposite_PREFIX": "PrefixFlag", "KeyComposite_LEASE": "LeaseFlag"}
	checkAppends(sq, "sqlite", func(g *Fn, kind string, fs *FactSet, cn func(ast.Expr) string) bool {
		return fs.Cmp(func(e, tag ast.Expr, truth bool, fa *Fact) bool {
			be, ok := ast.Unparen(e).(*ast.BinaryExpr)
			if !ok || tag != nil || !(be.Op == token.NEQ && truth || be.Op == token.EQL && !truth) {
				return false
			}
			and, ok := ast.Unparen(be.X).(*ast.BinaryExpr)
			v, _ := g.ConstVal(be.Y)
			if !ok || and.Op != token.AND || v != "0" {
				return false
			}
			return cn(and.Y) == flags[kind] || cn(and.X) == flags[kind]
		})
	}, func(g *Fn, fs *FactSet) bool {
		return fs.Has(func(fa *Fact) bool {
			return fa.Kind == FTrue && g.IsCall(fa.Call, "bytes.HasPrefix") && g.Prov(fa.Call.Args[1]) == "param#1"
		})
	})

	// (c) collector join in LocalNode.ListKeys
	lk := chordFn(c, "LocalNode", "ListKeys")
	// Roles: the *collector* is the goroutine literal that ranges over a channel and appends
	// to the result; that channel is the *result channel*. The collector announces that it is
	// done by a deferred WaitGroup.Done or a deferred close of a *done channel*; whoever
	// closes the result channel (the function itself or a helper goroutine) must do so after
	// the errgroup Wait, then wait for the collector (WaitGroup.Wait / receive from the done
	// channel); the keys are returned only after that, and only when the listings succeeded.
	after := func(g *Fn, first ast.Node, second ast.Node) bool {
		if first == nil || second == nil {
			return false
		}
		// second is unreachable from the entry without passing first
		reached, _ := g.Reach(nil, func(n ast.Node) bool { return containsNode(n, first) }, nil)
		for _, n := range reached {
			if containsNode(n, second) && !containsNode(n, first) {
				return false
			}
		}
		return true
	}
	var collector *Fn
	var resultCh *types.Var
	for _, lit := range lk.Lits() {
		g := lk.Closure(lit)
		for _, nd := range shallowNodes(lit.Body) {
			if rs, ok := nd.(*ast.RangeStmt); ok {
				if v := g.varOf(rs.X); v != nil {
					if _, isChan := v.Type().Underlying().(*types.Chan); isChan {
						collector, resultCh = g, v
					}
				}
			}
		}
	}
	if collector == nil {
		c.Failf("ListKeys: collector goroutine (a literal ranging over the result channel) not found (undecided)")
	}
	// how the collector says it is done
	var doneWG, doneCh *types.Var
	for _, nd := range shallowNodes(collector.Body) {
		d, ok := nd.(*ast.DeferStmt)
		if !ok {
			continue
		}
		if se, ok := d.Call.Fun.(*ast.SelectorExpr); ok && se.Sel.Name == "Done" {
			doneWG = collector.varOf(se.X)
		}
		if id, ok := d.Call.Fun.(*ast.Ident); ok && id.Name == "close" && len(d.Call.Args) == 1 {
			doneCh = collector.varOf(d.Call.Args[0])
		}
	}
	// who closes the result channel
	var closeCall *ast.CallExpr
	var closerFn *Fn
	for _, g := range append([]*Fn{lk}, func() []*Fn {
		var out []*Fn
		for _, lit := range lk.Lits() {
			out = append(out, lk.Closure(lit))
		}
		return out
	}()...) {
		for _, call := range g.Calls(false, func(call *ast.CallExpr) bool {
			id, ok := call.Fun.(*ast.Ident)
			return ok && id.Name == "close" && len(call.Args) == 1 && g.enclosing(call) == g && g.varOf(call.Args[0]) == resultCh
		}) {
			closeCall, closerFn = call, g
		}
	}
	if closerFn == nil {
		c.Failf("ListKeys: the close of the result channel not found (undecided)")
	}
	var gWait *ast.CallExpr
	var join ast.Node // waiting for the collector, in the closer
	for _, call := range methodCalls(closerFn, false, "Wait") {
		if closerFn.enclosing(call) != closerFn {
			continue
		}
		pv := closerFn.Prov(call.Fun.(*ast.SelectorExpr).X)
		if strings.Contains(pv, "errgroup.WithContext()#0") {
			gWait = call
		} else if doneWG != nil && closerFn.varOf(call.Fun.(*ast.SelectorExpr).X) == doneWG {
			join = call
		}
	}
	if doneCh != nil {
		for _, nd := range shallowNodes(closerFn.Body) {
			if u, ok := nd.(*ast.UnaryExpr); ok && u.Op == token.ARROW && closerFn.varOf(u.X) == doneCh {
				join = u
			}
		}
	}
	var nGW, nCC ast.Node
	if gWait != nil {
		nGW = gWait
	}
	if closeCall != nil {
		nCC = closeCall
	}
	c.Ob("collector", "ListKeys#close-after-all-listings", closerFn.Body.Pos(), after(closerFn, nGW, nCC), "the result channel is closed only after every per-node listing finished (errgroup Wait)")
	// the completion signal towards the function's own return: the closer IS the function
	// (then the join itself), or a goroutine that sends the outcome on a channel after the join
	var sendErr *ast.SendStmt
	if closerFn != lk {
		for _, nd := range shallowNodes(closerFn.Body) {
			if snd, ok := nd.(*ast.SendStmt); ok {
				sendErr = snd
			}
		}
	}
	okJoin := join != nil && after(closerFn, nCC, join)
	if closerFn != lk {
		okJoin = okJoin && sendErr != nil && after(closerFn, join, sendErr)
	}
	c.Ob("collector", "ListKeys#reader-joined-before-signal", closerFn.Body.Pos(), okJoin, "the collector goroutine is waited for (after the channel was closed) before the completion signal is sent")
	// keys returned only after the signal, and only when the listings succeeded
	for _, r := range successReturns(lk) {
		if lk.enclosing(r) != lk || len(r.Results) != 2 || !strings.Contains(lk.Prov(r.Results[0]), "builtin:make") {
			continue
		}
		okErr := lk.FactsAt(r).Cmp(func(e, tag ast.Expr, truth bool, fa *Fact) bool {
			be, ok := ast.Unparen(e).(*ast.BinaryExpr)
			if !ok || tag != nil || !isNilIdent(lk.Info, be.Y) {
				return false
			}
			return be.Op == token.NEQ && !truth || be.Op == token.EQL && truth
		})
		recvd := false
		if closerFn == lk {
			recvd = join != nil && after(lk, join, r)
		} else {
			ast.Inspect(lk.Body, func(n ast.Node) bool {
				if u, ok := n.(*ast.UnaryExpr); ok && u.Op == token.ARROW && sendErr != nil && types_ExprString(u.X) == types_ExprString(sendErr.Chan) {
					recvd = after(lk, u, r)
				}
				return true
			})
		}
		c.Ob("collector", "ListKeys#keys-read-after-signal", r.Pos(), okErr && recvd, "the collected keys are returned only after the completion signal was received and carried no error")
	}
	// the collector appends what it receives
	okCollect := false
	for _, lit := range lk.Lits() {
		g := lk.Closure(lit)
		ast.Inspect(lit.Body, func(n ast.Node) bool {
			if rs, ok := n.(*ast.RangeStmt); ok && strings.Contains(g.Prov(rs.X), "builtin:make") {
				for _, call := range g.Calls(false, func(call *ast.CallExpr) bool {
					id, ok := call.Fun.(*ast.Ident)
					return ok && id.Name == "append"
				}) {
					if call.Ellipsis.IsValid() && containsNode(rs.Body, call) {
						okCollect = true
					}
				}
			}
			return true
		})
	}
	c.Ob("collector", "ListKeys#collector-appends-every-batch", lk.Decl.Pos(), okCollect, "the collector appends every batch it receives from the channel")
	// every node's batch is sent or the listing fails
	for _, lit := range lk.Lits() {
		g := lk.Closure(lit)
		for _, call := range methodCalls(g, false, "ListKeys") {
			if g.Prov(call.Fun.(*ast.SelectorExpr).X) == "recv.kv" {
				continue // the direct-target branch (gated by C04)
			}
			okSend := false
			ast.Inspect(lit.Body, func(n ast.Node) bool {
				if s, ok := n.(*ast.SendStmt); ok {
					okSend = g.FactsAt(s).Has(func(fa *Fact) bool { return fa.Kind == FCallOK && fa.Call == call }) && strings.Contains(g.Prov(s.Value), ".ListKeys()#0")
				}
				return true
			})
			c.Ob("collector", "ListKeys#batch-sent-or-error", call.Pos(), okSend, "a node's keys are forwarded to the collector when its listing succeeded; a failure fails the whole listing")
			c.Ob("collector", "ListKeys#per-node-prefix", call.Pos(), g.Prov(call.Args[1]) == "param#1", "every node is asked for the same prefix")
		}
	}
	// ring walk: nodes appended once per visit, self last
	var loop *ast.ForStmt
	ast.Inspect(lk.Body, func(n ast.Node) bool {
		if f, ok := n.(*ast.ForStmt); ok && f.Cond == nil && loop == nil {
			loop = f
		}
		return true
	})
	if loop == nil {
		c.Failf("ListKeys: ring walk loop not found")
	}
	nself, nother := 0, 0
	// the node list: what the walk appends to; an append to it after the loop (reached only
	// through the loop's break) is a site of the walk as well
	var nodesVar *types.Var
	for _, call := range lk.Calls(false, func(call *ast.CallExpr) bool {
		id, ok := call.Fun.(*ast.Ident)
		return ok && id.Name == "append" && containsNode(loop.Body, call)
	}) {
		if nodesVar == nil {
			nodesVar = lk.varOf(call.Args[0])
		}
	}
	for _, call := range lk.Calls(false, func(call *ast.CallExpr) bool {
		id, ok := call.Fun.(*ast.Ident)
		if !ok || id.Name != "append" {
			return false
		}
		return containsNode(loop.Body, call) || call.Pos() > loop.End() && nodesVar != nil && len(call.Args) == 2 && lk.varOf(call.Args[0]) == nodesVar
	}) {
		fs := lk.FactsAt(call)
		backAtSelf := fs.Cmp(func(e, tag ast.Expr, truth bool, fa *Fact) bool {
			be, ok := e.(*ast.BinaryExpr)
			return ok && truth && be.Op == token.EQL && lk.Prov(be.Y) == pSelf
		})
		if lk.Prov(call.Args[1]) == "recv" {
			nself++
			c.Ob("ring-walk", "ListKeys#self-listed-when-walk-closes", call.Pos(), backAtSelf, "the receiver is added when the walk is back at it")
		} else {
			nother++
			// the node's id is known absent from a map (the visited set) indexed by an id
			notSeen := false
			for _, nd := range shallowNodes(loop.Body) {
				ix, ok := nd.(*ast.IndexExpr)
				if !ok {
					continue
				}
				if m := lk.varOf(ix.X); m != nil {
					if _, isMap := m.Type().Underlying().(*types.Map); isMap && lk.notInSeen(fs, m, lk.Prov(ix.Index)) {
						notSeen = true
					}
				}
			}
			c.Ob("ring-walk", "ListKeys#each-node-once", call.Pos(), notSeen, "another node is added only if it was not visited before")
		}
	}
	c.Ob("ring-walk", "ListKeys#lists-self-and-others", loop.Pos(), nself == 1 && nother == 1, fmt.Sprintf("one site adds the receiver, one adds the other nodes (found %d / %d)", nself, nother))
}

// tableRowsOf: e is `rv.field` where rv is the element variable of a `range` over a
// package-level array/slice whose initialiser is a literal of struct literals; it returns the
// row literals and rv.
func tableRowsOf(c *Ctx, g *Fn, e ast.Expr) ([]*ast.CompositeLit, *types.Var) {
	se, ok := ast.Unparen(e).(*ast.SelectorExpr)
	if !ok {
		return nil, nil
	}
	rv := g.varOf(se.X)
	if rv == nil {
		return nil, nil
	}
	var rows []*ast.CompositeLit
	ast.Inspect(g.root().Body, func(n ast.Node) bool {
		rs, ok := n.(*ast.RangeStmt)
		if !ok || rs.Value == nil || g.varOf(rs.Value) != rv {
			return true
		}
		gv, ok := g.ObjOf(rs.X).(*types.Var)
		if !ok || gv.Pkg() == nil || gv.Parent() != gv.Pkg().Scope() {
			return true
		}
		if lit := globalInit(c, gv); lit != nil {
			for _, el := range lit.Elts {
				if kv, ok := el.(*ast.KeyValueExpr); ok {
					el = kv.Value
				}
				if cl, ok := ast.Unparen(el).(*ast.CompositeLit); ok {
					rows = append(rows, cl)
				}
			}
		}
		return true
	})
	return rows, rv
}

// rowConst names the constant expression e denotes when the table's element variable rv
// stands for the given row: a field of rv is looked up in the row (by key, or by position
// against the struct type); anything else is an ordinary constant name.
func rowConst(g *Fn, e ast.Expr, rv *types.Var, row *ast.CompositeLit) string {
	se, ok := ast.Unparen(e).(*ast.SelectorExpr)
	if !ok || rv == nil || g.varOf(se.X) != rv {
		return constName(g, e)
	}
	st, ok := rv.Type().Underlying().(*types.Struct)
	if !ok {
		return ""
	}
	idx := -1
	for i := 0; i < st.NumFields(); i++ {
		if st.Field(i).Name() == se.Sel.Name {
			idx = i
		}
	}
	// the row literal lives in the package that declares the table
	pf := g
	for i, el := range row.Elts {
		if kv, ok := el.(*ast.KeyValueExpr); ok {
			if id, ok := kv.Key.(*ast.Ident); ok && id.Name == se.Sel.Name {
				return constName(pf, kv.Value)
			}
			continue
		}
		if i == idx {
			return constName(pf, el)
		}
	}
	return ""
}
