// specterlint decides properties of zllovesuki/specter by static analysis of the
// source under -repo. Nothing of the repository is executed.
package main

import (
	"encoding/json"
	"flag"
	"fmt"
	"go/ast"
	"go/token"
	"go/types"
	"os"
	"path/filepath"
	"runtime/debug"
	"sort"
	"strings"
	"time"

	"golang.org/x/tools/go/packages"
)

// M is the module path of the repository under analysis.
const M = "go.miragespace.co/specter"

// Obligation is one rule instance, keyed by rule + construct (never by line).
type Obligation struct {
	Key     string `json:"key"`
	Rule    string `json:"rule"`
	Site    string `json:"site"`
	Verdict string `json:"verdict"` // discharged | violated | known
	Detail  string `json:"detail,omitempty"`
}

// KnownFinding is one entry of KNOWN_FINDINGS.json.
type KnownFinding struct {
	Property  string `json:"property"`
	Rule      string `json:"rule"`
	Construct string `json:"construct"`
	Status    string `json:"status"` // known | fixed
	Commit    string `json:"commit,omitempty"`
	What      string `json:"what"`
}

// Ctx carries the loaded program and collects obligations for one property run.
type Ctx struct {
	Prop    string
	Tier    string
	Repo    string
	Verif   string
	Fset    *token.FileSet
	Pkgs    map[string]*packages.Package
	All     []*packages.Package
	Toler   []string // tolerated load errors
	obs     []*Obligation
	seen    map[string]int
	floors  map[string][2]int
	notes   []string
	assume  []string
	trusted []string
	samples []any
	extra   map[string]any
	fns     map[ast.Node]*Fn
	nfuncs  map[*Fn]bool
	GOOS    string
	loaded  bool
	noFollow map[string]bool // functions the effect engine must not treat as helpers (they are rule roots themselves)
	normalised bool           // the program is the normalised form (helpers inlined)
	deadFns    map[*ast.FuncDecl]bool
}

type propDef struct {
	ID         string
	Level      string // proof | other
	Decides    string
	NotDecided string
	Run        func(c *Ctx)
}

var props = map[string]*propDef{}

func register(p *propDef) { props[p.ID] = p }

type checkFailure struct{ msg string }

// Failf aborts the run as a broken check (unresolved anchor, load error, unknown idiom):
// never a pass.
func (c *Ctx) Failf(format string, a ...any) {
	panic(checkFailure{fmt.Sprintf(format, a...)})
}

func (c *Ctx) pos(p token.Pos) string {
	if !p.IsValid() {
		return "-"
	}
	pp := c.Fset.Position(p)
	rel, err := filepath.Rel(c.Repo, pp.Filename)
	if err != nil || strings.HasPrefix(rel, "..") {
		rel = pp.Filename
	}
	return fmt.Sprintf("%s:%d", rel, pp.Line)
}

// Ob records one obligation. key = rule + "@" + construct.
func (c *Ctx) Ob(rule, construct string, p token.Pos, ok bool, detail string) bool {
	key := rule + "@" + construct
	if n := c.seen[key]; n > 0 {
		c.seen[key] = n + 1
		key = fmt.Sprintf("%s#%d", key, n+1)
	} else {
		c.seen[key] = 1
	}
	v := "discharged"
	if !ok {
		v = "violated"
	}
	c.obs = append(c.obs, &Obligation{Key: key, Rule: rule, Site: c.pos(p), Verdict: v, Detail: detail})
	return ok
}

// Floor records an instance floor: a rule that finds fewer sites than confirmed by hand
// fails the check instead of passing vacuously.
func (c *Ctx) Floor(name string, found, floor int) {
	c.floors[name] = [2]int{found, floor}
	c.Ob("floor", name, token.NoPos, found >= floor, fmt.Sprintf("found %d, floor %d", found, floor))
}

func (c *Ctx) Note(format string, a ...any)   { c.notes = append(c.notes, fmt.Sprintf(format, a...)) }
func (c *Ctx) Assume(s string)                { c.assume = append(c.assume, s) }
func (c *Ctx) Trust(s string)                 { c.trusted = append(c.trusted, s) }
func (c *Ctx) Sample(v any)                   { c.samples = append(c.samples, v) }
func (c *Ctx) Extra(k string, v any)          { c.extra[k] = v }
func (c *Ctx) Thorough() bool                 { return c.Tier == "thorough" }
func (c *Ctx) P(rel string) *packages.Package { return c.Pkg(M + "/" + rel) }

func (c *Ctx) Pkg(path string) *packages.Package {
	p := c.Pkgs[path]
	if p == nil {
		c.Failf("anchor unresolved: package %s not loaded", path)
	}
	return p
}

func newCtx(prop, tier, repo, verif string) *Ctx {
	return &Ctx{Prop: prop, Tier: tier, Repo: repo, Verif: verif, seen: map[string]int{}, floors: map[string][2]int{},
		extra: map[string]any{}, noFollow: map[string]bool{}, fns: map[ast.Node]*Fn{}, nfuncs: map[*Fn]bool{}, Pkgs: map[string]*packages.Package{}}
}

// load parses and type-checks every package of the repository's current working tree.
func (c *Ctx) load(goos string, overlay map[string][]byte, patterns ...string) {
	if len(patterns) == 0 {
		patterns = []string{"./..."}
	}
	env := append(os.Environ(), "GOFLAGS=-mod=mod", "GOPROXY=off", "GOSUMDB=off", "GOTOOLCHAIN=local", "GOWORK=off")
	if goos != "" {
		env = append(env, "GOOS="+goos, "CGO_ENABLED=0")
	}
	c.GOOS = goos
	c.Fset = token.NewFileSet()
	cfg := &packages.Config{
		Mode: packages.NeedName | packages.NeedFiles | packages.NeedCompiledGoFiles | packages.NeedImports |
			packages.NeedTypes | packages.NeedTypesSizes | packages.NeedSyntax | packages.NeedTypesInfo | packages.NeedModule,
		Dir: c.Repo, Env: env, Fset: c.Fset, Overlay: overlay,
	}
	pkgs, err := packages.Load(cfg, patterns...)
	if err != nil {
		c.Failf("packages.Load: %v", err)
	}
	if len(pkgs) == 0 {
		c.Failf("no packages loaded from %s", c.Repo)
	}
	c.Pkgs = map[string]*packages.Package{}
	c.All = nil
	for _, p := range pkgs {
		for _, e := range p.Errors {
			// The git-ignored UI bundle makes //go:embed fail in tun/client; the package still
			// type-checks completely. Tolerate exactly that list error.
			if e.Kind == packages.ListError && strings.Contains(e.Msg, "no matching files found") && strings.Contains(e.Msg, "pattern") {
				c.Toler = append(c.Toler, p.PkgPath+": "+e.Msg)
				continue
			}
			c.Failf("package %s does not load: %v", p.PkgPath, e)
		}
		if p.Types == nil || p.TypesInfo == nil || !p.Types.Complete() {
			c.Failf("package %s is ill-typed", p.PkgPath)
		}
		c.Pkgs[p.PkgPath] = p
		c.All = append(c.All, p)
	}
	sort.Slice(c.All, func(i, j int) bool { return c.All[i].PkgPath < c.All[j].PkgPath })
	c.loaded = true
}

type evidence struct {
	PropertyID  string         `json:"property_id"`
	Tier        string         `json:"tier"`
	Seed        int            `json:"seed"`
	Level       string         `json:"level"`
	Coverage    map[string]any `json:"coverage"`
	Assumptions []string       `json:"assumptions"`
	WallS       float64        `json:"wall_s"`
	Violations  int            `json:"violations"`
}

func loadKnown(path string) []KnownFinding {
	b, err := os.ReadFile(path)
	if err != nil {
		return nil
	}
	var k []KnownFinding
	if err := json.Unmarshal(b, &k); err != nil {
		fmt.Fprintf(os.Stderr, "KNOWN_FINDINGS.json unreadable: %v\n", err)
		os.Exit(2)
	}
	return k
}

func main() {
	prop := flag.String("prop", "", "property id (C01..C51)")
	tier := flag.String("tier", "quick", "quick|thorough")
	repo := flag.String("repo", "/repo", "repository to analyse")
	verif := flag.String("verif", "/verif", "verif directory (evidence, known findings)")
	seed := flag.Int("seed", 0, "echoed into the evidence; the analysis is deterministic")
	list := flag.Bool("list", false, "list registered properties as JSON")
	dumpFuncs := flag.Bool("dump-funcs", false, "print the functions declared in the repository (to regenerate BASELINE_FUNCS.json)")
	dumpProv := flag.String("dump-prov", "", "debugging aid: relpkg:Recv:Name - print the provenance of the expressions of that function (with -normalised: after the normalisation pre-pass)")
	normalised := flag.Bool("normalised", false, "with -dump-prov: analyse the normalised program")
	flag.Parse()
	if *dumpProv != "" {
		parts := strings.Split(*dumpProv, ":")
		c := newCtx("", "quick", *repo, *verif)
		c.load("", nil)
		if *normalised {
			if ov, _ := c.normalize(nil); ov != nil {
				c = newCtx("", "quick", *repo, *verif)
				c.load("", ov)
			}
		}
		fn := c.Func(parts[0], parts[1], parts[2])
		ast.Inspect(fn.Body, func(n ast.Node) bool {
			if e, ok := n.(ast.Expr); ok {
				if _, isLit := e.(*ast.FuncLit); !isLit {
					g := fn.enclosing(e)
					fmt.Printf("%s: %-40s %s\n", c.pos(e.Pos()), types.ExprString(e), g.Prov(e))
				}
			}
			return true
		})
		return
	}
	if *dumpFuncs {
		c := newCtx("", "quick", *repo, *verif)
		c.load("", nil)
		var names []string
		for k := range c.declaredFuncs() {
			names = append(names, k)
		}
		sort.Strings(names)
		b, _ := json.MarshalIndent(names, "", " ")
		fmt.Println(string(b))
		return
	}
	if *list {
		var out []map[string]string
		var ids []string
		for id := range props {
			ids = append(ids, id)
		}
		sort.Strings(ids)
		for _, id := range ids {
			p := props[id]
			out = append(out, map[string]string{"id": id, "level": p.Level, "decides": p.Decides, "not_decided": p.NotDecided})
		}
		b, _ := json.MarshalIndent(out, "", " ")
		fmt.Println(string(b))
		return
	}
	pd := props[*prop]
	if pd == nil {
		fmt.Fprintf(os.Stderr, "unknown property %q\n", *prop)
		os.Exit(2)
	}
	if *tier != "quick" && *tier != "thorough" {
		fmt.Fprintf(os.Stderr, "unknown tier %q\n", *tier)
		os.Exit(2)
	}
	os.Exit(runProp(pd, *tier, *repo, *verif, *seed))
}

func runProp(pd *propDef, tier, repo, verif string, seed int) int {
	start := time.Now()
	known := loadKnown(filepath.Join(verif, "KNOWN_FINDINGS.json"))
	// analyse runs the property's rules on the repository as loaded with the given overlay
	analyse := func(overlay map[string][]byte, selftests bool) *Ctx {
		c := newCtx(pd.ID, tier, repo, verif)
		broken := ""
		func() {
			defer func() {
				if r := recover(); r != nil {
					if cf, ok := r.(checkFailure); ok {
						broken = cf.msg
					} else {
						broken = fmt.Sprintf("analyzer panic: %v\n%s", r, debug.Stack())
					}
				}
			}()
			c.load("", overlay)
			c.normalised = overlay != nil
			pd.Run(c)
			if selftests && tier == "thorough" {
				runSelfTests(c, pd)
			}
		}()
		if broken != "" {
			// an undecided site / unresolved anchor is a failure of the check, reported as such.
			c.Ob("check-integrity", "undecided", token.NoPos, false, broken)
		}
		return c
	}
	unknownViolations := func(c *Ctx) int {
		n := 0
		for _, o := range c.obs {
			if o.Verdict != "violated" {
				continue
			}
			isKnown := false
			for _, k := range known {
				if k.Property == pd.ID && k.Status == "known" && k.Rule+"@"+k.Construct == o.Key {
					isKnown = true
				}
			}
			if !isKnown {
				n++
			}
		}
		return n
	}
	c := analyse(nil, true)
	if nv := unknownViolations(c); nv > 0 {
		// The tree may differ from the pinned one only by helpers extracted from the
		// functions the rules are anchored in. Normalise (inline every call to a function
		// the baseline does not know) and decide that - equivalent - program as well; the
		// property's structural conditions hold if they hold for either form.
		var ov map[string][]byte
		var nlog []string
		func() {
			defer func() {
				if r := recover(); r != nil {
					nlog = append(nlog, fmt.Sprintf("normalisation abandoned: %v", r))
					ov = nil
				}
			}()
			nc := newCtx(pd.ID, tier, repo, verif)
			nc.load("", nil)
			ov, nlog = nc.normalize(nil)
		}()
		adopted := false
		if ov != nil {
			c2 := analyse(ov, false)
			for _, l := range nlog {
				c2.Note("normalisation: %s", l)
			}
			c2.Note("decided on the normalised program (helpers unknown to the baseline inlined); the tree as written had %d undischarged obligations", nv)
			if unknownViolations(c2) < nv {
				c = c2
				adopted = true
			}
		}
		if !adopted {
			for _, l := range nlog {
				c.Note("normalisation (not adopted): %s", l)
			}
		}
	}

	nviol, nknown, ndis := 0, 0, 0
	var report []string
	var knownLines []string
	matched := []string{}
	for _, o := range c.obs {
		switch o.Verdict {
		case "discharged":
			ndis++
		case "violated":
			base := o.Key
			if i := strings.LastIndex(base, "#"); i > 0 && !strings.Contains(base[i:], "@") {
				// numbered duplicates share the base key only if explicitly listed
			}
			isKnown := false
			for _, k := range known {
				if k.Property == pd.ID && k.Status == "known" && k.Rule+"@"+k.Construct == o.Key {
					isKnown = true
					knownLines = append(knownLines, fmt.Sprintf("KNOWN-FINDING: property=%s %s [%s at %s]", pd.ID, k.What, o.Key, o.Site))
					matched = append(matched, o.Key)
				}
			}
			if isKnown {
				o.Verdict = "known"
				nknown++
			} else {
				nviol++
				report = append(report, fmt.Sprintf("%s: rule %s: %s\n    %s", o.Site, o.Rule, o.Key, o.Detail))
			}
		}
	}
	cov := map[string]any{
		"explanation":            "static analysis of the type-checked source (go/packages + go/cfg); decides: " + pd.Decides + " NOT decided: " + pd.NotDecided,
		"obligations":            len(c.obs),
		"discharged":             ndis,
		"known_findings_matched": matched,
		"checker_cmd":            fmt.Sprintf("/verif/run.sh %s %s", pd.ID, tier),
		"trusted_base":           append([]string{"go/types+go/packages of the Go toolchain running the check", "golang.org/x/tools v0.50.0 go/cfg", "the rule tables in /verif/analyzer"}, c.trusted...),
		"packages_analysed":      len(c.All),
		"functions_analysed":     len(c.nfuncs),
		"functions":              c.fnNames(),
		"rule_instances":         c.obs,
		"floors":                 c.floorMap(),
		"notes":                  c.notes,
		"tolerated_load_errors":  c.Toler,
		"not_decided":            pd.NotDecided,
		"rule":                   "one obligation per rule instance (rule + construct); an instance is discharged when the rule holds on every path / for every abstract input at that construct",
	}
	smp := c.samples
	for i := 0; i < len(c.obs) && i < 3; i++ {
		smp = append(smp, c.obs[i])
	}
	cov["samples"] = smp
	for k, v := range c.extra {
		cov[k] = v
	}
	ev := evidence{PropertyID: pd.ID, Tier: tier, Seed: seed, Level: pd.Level, Coverage: cov, Assumptions: c.assume,
		WallS: time.Since(start).Seconds(), Violations: nviol}
	if ev.Assumptions == nil {
		ev.Assumptions = []string{}
	}
	b, _ := json.MarshalIndent(ev, "", " ")
	// VERIF_EVIDENCE_DIR redirects the evidence of experiments (seeded changes applied to
	// /repo by tools/seedcheck.sh) away from /verif/evidence, which describes the real tree
	evDir := filepath.Join(verif, "evidence")
	if d := os.Getenv("VERIF_EVIDENCE_DIR"); d != "" {
		evDir = d
	}
	evPath := filepath.Join(evDir, pd.ID+".json")
	os.MkdirAll(filepath.Dir(evPath), 0o755)
	if err := os.WriteFile(evPath, append(b, '\n'), 0o644); err != nil {
		fmt.Fprintf(os.Stderr, "cannot write evidence: %v\n", err)
		return 2
	}
	fmt.Printf("%s %s: %d obligations, %d discharged, %d known, %d violated; %d packages, %d functions; %.1fs\n",
		pd.ID, tier, len(c.obs), ndis, nknown, nviol, len(c.All), len(c.nfuncs), time.Since(start).Seconds())
	for _, l := range knownLines {
		fmt.Println(l)
	}
	if nviol > 0 {
		rp := filepath.Join(evDir, pd.ID+".report.txt")
		os.WriteFile(rp, []byte(strings.Join(report, "\n")+"\n"), 0o644)
		for _, r := range report {
			fmt.Println(r)
		}
		fmt.Printf("VIOLATION property=%s replay=%s\n", pd.ID, rp)
		return 1
	}
	return 0
}

func (c *Ctx) floorMap() map[string]map[string]int {
	m := map[string]map[string]int{}
	for k, v := range c.floors {
		m[k] = map[string]int{"found": v[0], "floor": v[1]}
	}
	return m
}

func (c *Ctx) fnNames() []string {
	var s []string
	for f := range c.nfuncs {
		s = append(s, f.Name)
	}
	sort.Strings(s)
	return s
}

// typeOf is a nil-safe shorthand.
func typeOf(info *types.Info, e ast.Expr) types.Type {
	if tv, ok := info.Types[e]; ok {
		return tv.Type
	}
	if id, ok := e.(*ast.Ident); ok {
		if o := info.ObjectOf(id); o != nil {
			return o.Type()
		}
	}
	return nil
}
