package main

import (
	"fmt"
	"go/ast"
	"go/token"
	"go/types"
	"strings"

	"golang.org/x/tools/go/cfg"
	"golang.org/x/tools/go/packages"
	"golang.org/x/tools/go/types/typeutil"
)

// Fn is a function body under analysis: a declaration or a function literal.
type Fn struct {
	C      *Ctx
	Name   string
	Pkg    *packages.Package
	Info   *types.Info
	Decl   *ast.FuncDecl // nil for literals
	Lit    *ast.FuncLit  // nil for declarations
	Body   *ast.BlockStmt
	Type   *ast.FuncType
	Obj    *types.Func // nil for literals
	Parent *Fn         // enclosing function for literals
	g      *cfg.CFG
	fa     *factAnalysis
	caseOf map[ast.Expr]ast.Expr // case expression -> switch tag
}

// Func resolves a declared function by package (relative to the module), receiver type
// name ("" for plain functions) and name. Unresolved anchors fail the check.
func (c *Ctx) Func(relpkg, recv, name string) *Fn {
	f := c.FuncOpt(relpkg, recv, name)
	if f == nil {
		c.Failf("anchor unresolved: func %s.(%s).%s", relpkg, recv, name)
	}
	return f
}

func (c *Ctx) FuncOpt(relpkg, recv, name string) *Fn {
	p := c.Pkgs[M+"/"+relpkg]
	if relpkg == "" {
		p = c.Pkgs[M]
	}
	if p == nil {
		return nil
	}
	for _, file := range p.Syntax {
		for _, d := range file.Decls {
			fd, ok := d.(*ast.FuncDecl)
			if !ok || fd.Name.Name != name || fd.Body == nil {
				continue
			}
			if recvName(fd) != recv {
				continue
			}
			return c.fnOfDecl(p, fd)
		}
	}
	return nil
}

func recvName(fd *ast.FuncDecl) string {
	if fd.Recv == nil || len(fd.Recv.List) == 0 {
		return ""
	}
	t := fd.Recv.List[0].Type
	for {
		switch x := t.(type) {
		case *ast.StarExpr:
			t = x.X
			continue
		case *ast.IndexExpr:
			t = x.X
			continue
		case *ast.IndexListExpr:
			t = x.X
			continue
		case *ast.ParenExpr:
			t = x.X
			continue
		case *ast.Ident:
			return x.Name
		}
		return ""
	}
}

func relPkg(path string) string {
	if path == M {
		return ""
	}
	return strings.TrimPrefix(path, M+"/")
}

func (c *Ctx) fnOfDecl(p *packages.Package, fd *ast.FuncDecl) *Fn {
	if f := c.fns[fd]; f != nil {
		return f
	}
	name := relPkg(p.PkgPath) + "."
	if r := recvName(fd); r != "" {
		name += "(" + r + ")."
	}
	name += fd.Name.Name
	obj, _ := p.TypesInfo.Defs[fd.Name].(*types.Func)
	f := &Fn{C: c, Name: name, Pkg: p, Info: p.TypesInfo, Decl: fd, Body: fd.Body, Type: fd.Type, Obj: obj}
	c.fns[fd] = f
	c.nfuncs[f] = true
	return f
}

// FnOfObj finds the declaration of a repo function object.
func (c *Ctx) FnOfObj(o *types.Func) *Fn {
	if o == nil || o.Pkg() == nil {
		return nil
	}
	p := c.Pkgs[o.Pkg().Path()]
	if p == nil {
		return nil
	}
	for _, file := range p.Syntax {
		for _, d := range file.Decls {
			if fd, ok := d.(*ast.FuncDecl); ok && fd.Body != nil && p.TypesInfo.Defs[fd.Name] == o {
				return c.fnOfDecl(p, fd)
			}
		}
	}
	return nil
}

// Closure returns the Fn of a function literal lexically inside f.
func (f *Fn) Closure(lit *ast.FuncLit) *Fn {
	if g := f.C.fns[lit]; g != nil {
		return g
	}
	// find the innermost enclosing Fn
	parent := f
	g := &Fn{C: f.C, Name: fmt.Sprintf("%s$lit@%s", f.root().Name, f.C.pos(lit.Pos())), Pkg: f.Pkg, Info: f.Info, Lit: lit, Body: lit.Body, Type: lit.Type, Parent: parent}
	f.C.fns[lit] = g
	f.C.nfuncs[g] = true
	return g
}

func (f *Fn) root() *Fn {
	for f.Parent != nil {
		f = f.Parent
	}
	return f
}

// enclosing returns the innermost function literal (as Fn) of f that contains node n,
// or f itself.
func (f *Fn) enclosing(n ast.Node) *Fn {
	cur := f
	for {
		var inner *ast.FuncLit
		ast.Inspect(cur.Body, func(x ast.Node) bool {
			if x == nil || inner != nil {
				return false
			}
			if l, ok := x.(*ast.FuncLit); ok {
				if l.Pos() <= n.Pos() && n.End() <= l.End() && ast.Node(l) != n {
					inner = l
				}
				return false
			}
			return true
		})
		if inner == nil {
			return cur
		}
		cur = cur.Closure(inner)
	}
}

func (f *Fn) CFG() *cfg.CFG {
	if f.g == nil {
		f.g = cfg.New(f.Body, func(call *ast.CallExpr) bool { return f.mayReturn(call) })
		// go/cfg lists every select communication in the block before the choice (operand
		// evaluation order). For path reasoning a communication happens only on its own
		// branch: move each comm statement to the head of its case body.
		comms := map[ast.Stmt]*ast.CommClause{}
		ast.Inspect(f.Body, func(n ast.Node) bool {
			if l, ok := n.(*ast.FuncLit); ok && l != f.Lit {
				return false
			}
			if cc, ok := n.(*ast.CommClause); ok && cc.Comm != nil {
				comms[cc.Comm] = cc
			}
			return true
		})
		if len(comms) > 0 {
			moved := map[*ast.CommClause]ast.Node{}
			for _, b := range f.g.Blocks {
				var keep []ast.Node
				for _, n := range b.Nodes {
					if st, ok := n.(ast.Stmt); ok {
						if cc := comms[st]; cc != nil {
							moved[cc] = n
							continue
						}
					}
					// expression form (e.g. `<-done` appears as the expression of an ExprStmt comm)
					hit := false
					for st, cc := range comms {
						if es, ok := st.(*ast.ExprStmt); ok && ast.Node(es.X) == n {
							moved[cc] = n
							hit = true
						}
						if as, ok := st.(*ast.AssignStmt); ok && len(as.Rhs) == 1 && ast.Node(as.Rhs[0]) == n {
							moved[cc] = st
							hit = true
						}
					}
					if !hit {
						keep = append(keep, n)
					}
				}
				b.Nodes = keep
			}
			for _, b := range f.g.Blocks {
				if b.Kind == cfg.KindSelectCaseBody {
					if cc, ok := b.Stmt.(*ast.CommClause); ok {
						if n := moved[cc]; n != nil {
							b.Nodes = append([]ast.Node{n}, b.Nodes...)
						}
					}
				}
			}
		}
		f.caseOf = map[ast.Expr]ast.Expr{}
		ast.Inspect(f.Body, func(n ast.Node) bool {
			if l, ok := n.(*ast.FuncLit); ok && l != f.Lit {
				return false
			}
			if sw, ok := n.(*ast.SwitchStmt); ok && sw.Tag != nil {
				for _, cl := range sw.Body.List {
					for _, e := range cl.(*ast.CaseClause).List {
						f.caseOf[e] = sw.Tag
					}
				}
			}
			return true
		})
	}
	return f.g
}

func (f *Fn) mayReturn(call *ast.CallExpr) bool {
	if id, ok := call.Fun.(*ast.Ident); ok && id.Name == "panic" {
		if _, isBuiltin := f.Info.Uses[id].(*types.Builtin); isBuiltin {
			return false
		}
	}
	if o := f.Callee(call); o != nil && o.Pkg() != nil {
		full := o.Pkg().Path() + "." + o.Name()
		switch full {
		case "os.Exit", "log.Fatal", "log.Fatalf", "log.Fatalln", "runtime.Goexit":
			return false
		}
	}
	return true
}

// Callee resolves the called function or method through type information.
func (f *Fn) Callee(call *ast.CallExpr) *types.Func {
	o, _ := typeutil.Callee(f.Info, call).(*types.Func)
	return o
}

// calleeKey renders a callee as "pkg.Func" or "pkg.Recv.Method" (repo packages relative).
func calleeKey(o *types.Func) string {
	if o == nil {
		return ""
	}
	pkg := ""
	if o.Pkg() != nil {
		pkg = relPkg(o.Pkg().Path())
	}
	sig, _ := o.Type().(*types.Signature)
	if sig != nil && sig.Recv() != nil {
		t := sig.Recv().Type()
		if p, ok := t.(*types.Pointer); ok {
			t = p.Elem()
		}
		if n, ok := t.(*types.Named); ok {
			if n.Obj().Pkg() != nil {
				pkg = relPkg(n.Obj().Pkg().Path())
			}
			return pkg + "." + n.Obj().Name() + "." + o.Name()
		}
		if a, ok := t.(*types.Alias); ok {
			return pkg + "." + a.Obj().Name() + "." + o.Name()
		}
		return pkg + ".?." + o.Name()
	}
	return pkg + "." + o.Name()
}

// CallKey renders the callee of call ("" when not a static/interface callee).
func (f *Fn) CallKey(call *ast.CallExpr) string { return calleeKey(f.Callee(call)) }

// IsCall reports whether call's callee key equals one of keys. A key ending in ".Name"
// with a leading "*" (e.g. "*.Put") matches any receiver/package.
func (f *Fn) IsCall(call *ast.CallExpr, keys ...string) bool {
	k := f.CallKey(call)
	if k == "" {
		return false
	}
	for _, want := range keys {
		if want == k {
			return true
		}
		if strings.HasPrefix(want, "*.") && strings.HasSuffix(k, want[1:]) {
			return true
		}
	}
	return false
}

// Calls lists call expressions in f's body matching pred; with deep, literals nested in
// f are searched as well.
func (f *Fn) Calls(deep bool, pred func(call *ast.CallExpr) bool) []*ast.CallExpr {
	var out []*ast.CallExpr
	// a literal that is invoked on the spot (`func() error {...}()`, the shape an inlined
	// helper takes) is part of the function's own straight-line code
	iife := map[*ast.FuncLit]bool{}
	ast.Inspect(f.Body, func(n ast.Node) bool {
		if call, ok := n.(*ast.CallExpr); ok {
			if l, ok := ast.Unparen(call.Fun).(*ast.FuncLit); ok {
				iife[l] = true
			}
		}
		if l, ok := n.(*ast.FuncLit); ok && l != f.Lit && !deep && !iife[l] {
			return false
		}
		if call, ok := n.(*ast.CallExpr); ok && pred(call) {
			out = append(out, call)
		}
		return true
	})
	return out
}

func (f *Fn) CallsTo(deep bool, keys ...string) []*ast.CallExpr {
	return f.Calls(deep, func(call *ast.CallExpr) bool { return f.IsCall(call, keys...) })
}

// Lits lists function literals directly or deeply nested in f.
func (f *Fn) Lits() []*ast.FuncLit {
	var out []*ast.FuncLit
	ast.Inspect(f.Body, func(n ast.Node) bool {
		if l, ok := n.(*ast.FuncLit); ok && l != f.Lit {
			out = append(out, l)
		}
		return true
	})
	return out
}

func (f *Fn) Str(e ast.Node) string {
	if e == nil {
		return "<nil>"
	}
	if x, ok := e.(ast.Expr); ok {
		return types.ExprString(x)
	}
	return fmt.Sprintf("%T@%s", e, f.C.pos(e.Pos()))
}

// Returns lists the return statements of f (not of nested literals).
func (f *Fn) Returns() []*ast.ReturnStmt {
	var out []*ast.ReturnStmt
	ast.Inspect(f.Body, func(n ast.Node) bool {
		if l, ok := n.(*ast.FuncLit); ok && l != f.Lit {
			return false
		}
		if r, ok := n.(*ast.ReturnStmt); ok {
			out = append(out, r)
		}
		return true
	})
	return out
}

// ConstVal evaluates a constant expression through go/types.
func (f *Fn) ConstVal(e ast.Expr) (string, bool) {
	if tv, ok := f.Info.Types[e]; ok && tv.Value != nil {
		return tv.Value.ExactString(), true
	}
	return "", false
}

// ObjOf returns the object an identifier or selector refers to.
func (f *Fn) ObjOf(e ast.Expr) types.Object {
	switch x := ast.Unparen(e).(type) {
	case *ast.Ident:
		return f.Info.ObjectOf(x)
	case *ast.SelectorExpr:
		if s := f.Info.Selections[x]; s != nil {
			return s.Obj()
		}
		return f.Info.ObjectOf(x.Sel)
	}
	return nil
}

// FieldKey renders a field selection as "pkg.Type.field" ("" if e is not a field).
func (f *Fn) FieldKey(e ast.Expr) string {
	se, ok := ast.Unparen(e).(*ast.SelectorExpr)
	if !ok {
		return ""
	}
	s := f.Info.Selections[se]
	if s == nil || s.Kind() != types.FieldVal {
		return ""
	}
	t := s.Recv()
	if p, ok := t.(*types.Pointer); ok {
		t = p.Elem()
	}
	// walk embedded path to the struct that declares the field
	idx := s.Index()
	for i := 0; i < len(idx)-1; i++ {
		st, ok := t.Underlying().(*types.Struct)
		if !ok {
			break
		}
		t = st.Field(idx[i]).Type()
		if p, ok := t.(*types.Pointer); ok {
			t = p.Elem()
		}
	}
	if n, ok := t.(*types.Named); ok && n.Obj().Pkg() != nil {
		return relPkg(n.Obj().Pkg().Path()) + "." + n.Obj().Name() + "." + se.Sel.Name
	}
	return "?." + se.Sel.Name
}

// AllFuncs iterates over every declared function with a body in the given packages
// (all repo packages when none are given), excluding generated protobuf/twirp files.
func (c *Ctx) AllFuncs(relpkgs ...string) []*Fn {
	var out []*Fn
	want := map[string]bool{}
	for _, r := range relpkgs {
		want[M+"/"+r] = true
	}
	for _, p := range c.All {
		if len(want) > 0 && !want[p.PkgPath] {
			continue
		}
		for _, file := range p.Syntax {
			if isGenerated(c.Fset.Position(file.Pos()).Filename) {
				continue
			}
			for _, d := range file.Decls {
				if fd, ok := d.(*ast.FuncDecl); ok && fd.Body != nil {
					if c.normalised && c.inlinedAway(fd) {
						continue
					}
					out = append(out, c.fnOfDecl(p, fd))
				}
			}
		}
	}
	return out
}

// inlinedAway: in the normalised program, a function the baseline does not know and that
// nothing refers to any more (every call was inlined) is not part of the program the rules
// look at - its body now lives at its former call sites.
func (c *Ctx) inlinedAway(fd *ast.FuncDecl) bool {
	if c.deadFns == nil {
		c.deadFns = map[*ast.FuncDecl]bool{}
		base := c.baselineFuncs()
		if base == nil {
			return false
		}
		cand := map[types.Object]*ast.FuncDecl{}
		for _, p := range c.All {
			if !strings.HasPrefix(p.PkgPath, M) {
				continue
			}
			for _, f := range p.Syntax {
				name := c.Fset.File(f.Pos()).Name()
				if strings.HasSuffix(name, "_test.go") || isGenerated(name) {
					continue
				}
				for _, d := range f.Decls {
					if g, ok := d.(*ast.FuncDecl); ok && g.Body != nil && !base[funcKeyOf(g, relPkg(p.PkgPath))] && !g.Name.IsExported() {
						if o := p.TypesInfo.Defs[g.Name]; o != nil {
							cand[o] = g
						}
					}
				}
			}
		}
		used := map[types.Object]bool{}
		for _, p := range c.All {
			if !strings.HasPrefix(p.PkgPath, M) {
				continue
			}
			for id, o := range p.TypesInfo.Uses {
				if strings.HasSuffix(c.Fset.File(id.Pos()).Name(), "_test.go") {
					continue
				}
				if f, ok := o.(*types.Func); ok {
					o = f.Origin()
				}
				if g := cand[o]; g != nil && !(g.Pos() <= id.Pos() && id.Pos() < g.End()) {
					used[o] = true
				}
			}
		}
		for o, g := range cand {
			if !used[o] {
				c.deadFns[g] = true
			}
		}
	}
	return c.deadFns[fd]
}

func isGenerated(filename string) bool {
	return strings.HasSuffix(filename, ".pb.go") || strings.HasSuffix(filename, ".twirp.go") || strings.HasSuffix(filename, "_string.go")
}

func isTestFile(fset *token.FileSet, p token.Pos) bool {
	return strings.HasSuffix(fset.Position(p).Filename, "_test.go")
}

// FileOf returns the repo-relative file of a node.
func (c *Ctx) FileOf(n ast.Node) string {
	s := c.pos(n.Pos())
	if i := strings.LastIndex(s, ":"); i > 0 {
		return s[:i]
	}
	return s
}

// paramOrResult: the root identifier of e is a named result of f (e.g. `ret.Value.err` in a
// function declared with `(ret T, err error)`).
func (f *Fn) paramOrResult(e ast.Expr) bool {
	id := rootIdent(e)
	if id == nil || f.Type == nil || f.Type.Results == nil {
		return false
	}
	o := f.Info.ObjectOf(id)
	for _, fld := range f.Type.Results.List {
		for _, nm := range fld.Names {
			if f.Info.Defs[nm] == o {
				return true
			}
		}
	}
	return false
}

// FnOfCallee: the repository function a call statically resolves to (generic instances map
// to their origin), or nil.
func (f *Fn) FnOfCallee(call *ast.CallExpr) *Fn {
	g := f.enclosing(call)
	o := g.Callee(call)
	if o == nil {
		return nil
	}
	return f.C.FnOfObj(o.Origin())
}
