package main

import (
	"fmt"
	"go/ast"
	"go/token"
	"go/types"
	"math/big"
	"sort"
	"strings"
)

type vdef struct {
	rhs   ast.Expr
	idx   int  // result index when rhs is a multi-valued call
	multi bool // rhs yields several values
	pos   token.Pos
}

// defsOf lists every assignment to local variable v in the root function (closures
// included), flow-insensitively.
func (f *Fn) defsOf(v *types.Var) []vdef {
	root := f.root()
	var out []vdef
	ast.Inspect(root.Body, func(n ast.Node) bool {
		switch x := n.(type) {
		case *ast.AssignStmt:
			if len(x.Rhs) == 1 && len(x.Lhs) > 1 {
				for i, l := range x.Lhs {
					if root.varOf(l) == v {
						out = append(out, vdef{rhs: x.Rhs[0], idx: i, multi: true, pos: x.Pos()})
					}
				}
				return true
			}
			for i, l := range x.Lhs {
				if root.varOf(l) == v && i < len(x.Rhs) {
					out = append(out, vdef{rhs: x.Rhs[i], pos: x.Pos()})
				}
			}
		case *ast.ValueSpec:
			for i, nm := range x.Names {
				if root.Info.Defs[nm] == types.Object(v) {
					if len(x.Values) == 1 && len(x.Names) > 1 {
						out = append(out, vdef{rhs: x.Values[0], idx: i, multi: true, pos: x.Pos()})
					} else if i < len(x.Values) {
						out = append(out, vdef{rhs: x.Values[i], pos: x.Pos()})
					}
				}
			}
		case *ast.RangeStmt:
			if x.Key != nil && root.varOf(x.Key) == v {
				out = append(out, vdef{rhs: x.X, idx: 0, multi: true, pos: x.Pos()})
			}
			if x.Value != nil && root.varOf(x.Value) == v {
				out = append(out, vdef{rhs: x.X, idx: 1, multi: true, pos: x.Pos()})
			}
		}
		return true
	})
	return out
}

// paramIndex returns the position of v among the parameters of fn (receiver = -1), or
// -2 when v is not a parameter of fn.
func (f *Fn) paramIndex(v types.Object) int {
	if f.Decl != nil && f.Decl.Recv != nil {
		for _, fld := range f.Decl.Recv.List {
			for _, nm := range fld.Names {
				if f.Info.Defs[nm] == v {
					return -1
				}
			}
		}
	}
	i := 0
	for _, fld := range f.Type.Params.List {
		if len(fld.Names) == 0 {
			i++
			continue
		}
		for _, nm := range fld.Names {
			if f.Info.Defs[nm] == v {
				return i
			}
			i++
		}
	}
	return -2
}

// Prov renders where the value of e comes from, through the type-checked program and not
// through variable names: "recv", "param#i", "lit@N.param#i", field and getter chains,
// "call:<callee>()#k", constants. Locals are replaced by the provenance of their
// definitions (several definitions are joined with "|").
func (f *Fn) Prov(e ast.Expr) string { return f.prov(e, 0, map[*types.Var]bool{}) }

func (f *Fn) prov(e ast.Expr, depth int, busy map[*types.Var]bool) string {
	e = ast.Unparen(e)
	if depth > 14 {
		return "?"
	}
	if tv, ok := f.Info.Types[e]; ok && tv.Value != nil {
		return "const:" + tv.Value.ExactString()
	}
	switch x := e.(type) {
	case *ast.Ident:
		o := f.Info.ObjectOf(x)
		switch o := o.(type) {
		case *types.Nil:
			return "nil"
		case *types.Const:
			return "const:" + o.Val().ExactString()
		case *types.Var:
			if o.Pkg() != nil && o.Parent() == o.Pkg().Scope() {
				return "global:" + relPkg(o.Pkg().Path()) + "." + o.Name()
			}
			for g := f; g != nil; g = g.Parent {
				if pi := g.paramIndex(o); pi != -2 {
					pre := ""
					if g.Lit != nil {
						pre = "lit."
					}
					if pi == -1 {
						return "recv"
					}
					base := fmt.Sprintf("%sparam#%d", pre, pi)
					// a parameter that is reassigned in the body can also hold those values
					if busy[o] {
						return base
					}
					defs := g.defsOf(o)
					if len(defs) == 0 {
						return base
					}
					busy[o] = true
					set := map[string]bool{base: true}
					for _, d := range defs {
						s := g.provDef(d, depth, busy)
						for _, alt := range strings.Split(s, "|") {
							set[alt] = true
						}
					}
					delete(busy, o)
					var ss []string
					for s := range set {
						ss = append(ss, s)
					}
					sort.Strings(ss)
					return strings.Join(ss, "|")
				}
			}
			if busy[o] {
				return "loop"
			}
			busy[o] = true
			defer delete(busy, o)
			defs := f.defsOf(o)
			if len(defs) == 0 {
				return "zero"
			}
			set := map[string]bool{}
			for _, d := range defs {
				set[f.provDef(d, depth, busy)] = true
			}
			var ss []string
			for s := range set {
				ss = append(ss, s)
			}
			sort.Strings(ss)
			return strings.Join(ss, "|")
		}
		return "ident:" + x.Name
	case *ast.SelectorExpr:
		if sel := f.Info.Selections[x]; sel != nil {
			return distribute(f.prov(x.X, depth, busy), "."+x.Sel.Name)
		}
		// qualified identifier
		if o := f.Info.ObjectOf(x.Sel); o != nil && o.Pkg() != nil {
			return "global:" + relPkg(o.Pkg().Path()) + "." + o.Name()
		}
	case *ast.CallExpr:
		if tv, ok := f.Info.Types[x.Fun]; ok && tv.IsType() && len(x.Args) == 1 {
			return f.prov(x.Args[0], depth, busy) // conversion
		}
		if se, ok := ast.Unparen(x.Fun).(*ast.SelectorExpr); ok {
			if sel := f.Info.Selections[se]; sel != nil {
				return distribute(f.prov(se.X, depth, busy), "."+se.Sel.Name+"()")
			}
		}
		if id, ok := ast.Unparen(x.Fun).(*ast.Ident); ok {
			if _, isB := f.Info.ObjectOf(id).(*types.Builtin); isB {
				a := ""
				if len(x.Args) > 0 {
					a = f.prov(x.Args[0], depth+1, busy)
				}
				return "builtin:" + id.Name + "(" + a + ")"
			}
		}
		if lit := f.litOfCallee(x); lit != nil {
			if s, ok := f.provLitCall(x, lit, 0, depth+1, busy); ok {
				return s
			}
		}
		if k := f.CallKey(x); k != "" {
			if provTransparent[k] && len(x.Args) == 1 {
				return f.prov(x.Args[0], depth, busy)
			}
			return "call:" + k + "()"
		}
		return "call:?()"
	case *ast.SliceExpr:
		return distribute(f.prov(x.X, depth, busy), "[:]")
	case *ast.TypeAssertExpr:
		return distribute(f.prov(x.X, depth, busy), ".(type)")
	case *ast.StarExpr:
		return f.prov(x.X, depth, busy)
	case *ast.UnaryExpr:
		return x.Op.String() + f.prov(x.X, depth, busy)
	case *ast.IndexExpr:
		return distribute(f.prov(x.X, depth, busy), "["+f.prov(x.Index, depth+1, busy)+"]")
	case *ast.BinaryExpr:
		return "(" + f.prov(x.X, depth+1, busy) + x.Op.String() + f.prov(x.Y, depth+1, busy) + ")"
	case *ast.CompositeLit:
		return "lit:" + types.ExprString(x.Type)
	case *ast.FuncLit:
		return "funclit"
	}
	return "?" + fmt.Sprintf("%T", e)
}

// provDef renders the value one definition gives its variable.
func (f *Fn) provDef(d vdef, depth int, busy map[*types.Var]bool) string {
	g := f.enclosing(d.rhs)
	if call, ok := ast.Unparen(d.rhs).(*ast.CallExpr); ok && d.multi {
		if lit := g.litOfCallee(call); lit != nil {
			if s, ok := g.provLitCall(call, lit, d.idx, depth+1, busy); ok {
				return s
			}
		}
	}
	s := g.prov(d.rhs, depth+1, busy)
	if d.multi {
		s += fmt.Sprintf("#%d", d.idx)
	}
	return s
}

// litOfCallee: the function literal a call runs, when that is known syntactically - an
// immediately invoked literal (what an inlined helper looks like), or a local variable that
// is defined exactly once, by a literal.
func (f *Fn) litOfCallee(call *ast.CallExpr) *ast.FuncLit {
	switch fun := ast.Unparen(call.Fun).(type) {
	case *ast.FuncLit:
		return fun
	case *ast.Ident:
		v, ok := f.Info.ObjectOf(fun).(*types.Var)
		if !ok || v.Pkg() == nil || v.Parent() == v.Pkg().Scope() || v.IsField() {
			return nil
		}
		for g := f; g != nil; g = g.Parent {
			if g.paramIndex(v) != -2 {
				return nil
			}
		}
		defs := f.defsOf(v)
		if len(defs) != 1 || defs[0].multi {
			return nil
		}
		lit, _ := ast.Unparen(defs[0].rhs).(*ast.FuncLit)
		return lit
	}
	return nil
}

// returnsFailure: the last result of return statement r is of type error and certainly not
// nil: an error constructed on the spot, a sentinel, or a variable the path facts know to hold
// the failure of the call it was bound to.
func (h *Fn) returnsFailure(r *ast.ReturnStmt) bool {
	if len(r.Results) == 0 {
		return false
	}
	last := ast.Unparen(r.Results[len(r.Results)-1])
	if t := typeOf(h.Info, last); t == nil || !isErrorType(t) {
		return false
	}
	if isNilIdent(h.Info, last) {
		return false
	}
	if call, ok := last.(*ast.CallExpr); ok {
		k := h.CallKey(call)
		return k == "fmt.Errorf" || k == "errors.New" || strings.HasPrefix(k, "github.com/twitchtv/twirp.") || strings.HasPrefix(k, "spec/rpc.Wrap")
	}
	if v := h.varOf(last); v != nil {
		fs := h.localFactsAt(r)
		if b, ok := fs.bind[v]; ok {
			return fs.Has(func(fa *Fact) bool { return fa.Kind == FCallFail && fa.Call == b.call && fa.Idx == b.idx })
		}
		return false
	}
	return strings.HasPrefix(h.Prov(last), "global:")
}

// provLitCall: the provenance of result #idx of a call of a known literal is the join over
// the literal's return statements, with the literal's parameters replaced by the arguments.
func (f *Fn) provLitCall(call *ast.CallExpr, lit *ast.FuncLit, idx, depth int, busy map[*types.Var]bool) (string, bool) {
	if depth > 12 {
		return "", false
	}
	owner := f.enclosing(lit)
	h := owner.Closure(lit)
	rets := h.Returns()
	if len(rets) == 0 {
		return "", false
	}
	set := map[string]bool{}
	used := 0
	for _, r := range rets {
		if idx >= len(r.Results) {
			return "", false // bare return of named results
		}
		// the value that accompanies a failure is not the value of the call as far as its
		// users are concerned (they test the error first; the rules check that they do)
		if idx != len(r.Results)-1 && h.returnsFailure(r) {
			continue
		}
		used++
		for _, alt := range splitAlts(h.prov(r.Results[idx], depth+1, busy)) {
			set[alt] = true
		}
	}
	if used == 0 {
		return "", false
	}
	// parameters -> arguments
	np := 0
	if lit.Type.Params != nil {
		for _, fld := range lit.Type.Params.List {
			n := len(fld.Names)
			if n == 0 {
				n = 1
			}
			np += n
		}
	}
	var ss []string
	for alt := range set {
		if np > 0 && strings.Contains(alt, "lit.param#") {
			if np != len(call.Args) {
				return "", false
			}
			for i := np - 1; i >= 0; i-- {
				tag := fmt.Sprintf("lit.param#%d", i)
				if strings.Contains(alt, tag) {
					arg := f.prov(call.Args[i], depth+1, busy)
					if strings.Contains(arg, "|") {
						return "", false
					}
					alt = strings.ReplaceAll(alt, tag, arg)
				}
			}
		}
		ss = append(ss, alt)
	}
	sort.Strings(ss)
	return strings.Join(ss, "|"), true
}

// ---------------------------------------------------------------------------------------
// ring-interval sites

type betweenSite struct {
	f     *Fn
	call  *ast.CallExpr
	roles [3]string // provenance of low, target, high
	incl  bool
	neg   bool // site is written !Between(...)
}

// betweenSites lists the calls of chord.Between in f (closures included).
func (f *Fn) betweenSites() []*betweenSite {
	var out []*betweenSite
	parents := map[ast.Node]ast.Node{}
	var stack []ast.Node
	ast.Inspect(f.Body, func(n ast.Node) bool {
		if n == nil {
			stack = stack[:len(stack)-1]
			return true
		}
		if len(stack) > 0 {
			parents[n] = stack[len(stack)-1]
		}
		stack = append(stack, n)
		return true
	})
	for _, call := range f.CallsTo(true, "spec/chord.Between") {
		if len(call.Args) != 4 {
			f.C.Failf("Between call with %d arguments at %s", len(call.Args), f.C.pos(call.Pos()))
		}
		g := f.enclosing(call)
		s := &betweenSite{f: g, call: call}
		for i := 0; i < 3; i++ {
			s.roles[i] = g.Prov(call.Args[i])
		}
		v, ok := g.ConstVal(call.Args[3])
		if !ok {
			f.C.Failf("Between call with non-constant inclusive flag at %s (undecided)", f.C.pos(call.Pos()))
		}
		s.incl = v == "true"
		p := parents[call]
		for {
			if pe, ok := p.(*ast.ParenExpr); ok {
				p = parents[pe]
				continue
			}
			break
		}
		if u, ok := p.(*ast.UnaryExpr); ok && u.Op == token.NOT {
			s.neg = true
		}
		out = append(out, s)
	}
	return out
}

// sameSet: the site's effective predicate, as a function of the three values playing
// roles (lowRole, targetRole, highRole) of the expectation, equals
// refBetween(low,target,high,incl) XOR neg on every order type. The site's arguments may
// be permuted or complemented as long as the selected set is identical.
func (s *betweenSite) sameSet(c *Ctx, between *Fn, low, target, high string, incl, neg bool) (bool, string) {
	roleIdx := map[string]int{low: 0, target: 1, high: 2}
	if len(roleIdx) != 3 {
		return false, "internal: expectation roles not distinct"
	}
	for _, r := range s.roles {
		if _, ok := roleIdx[r]; !ok {
			return false, fmt.Sprintf("argument of unexpected provenance %q (expected roles %q, %q, %q)", r, low, target, high)
		}
	}
	for _, ord := range weakOrderings(3) {
		vals := [3]*big.Int{rankVal(ord[0]), rankVal(ord[1]), rankVal(ord[2])}
		res, err := between.EvalFn([]Val{vals[roleIdx[s.roles[0]]], vals[roleIdx[s.roles[1]]], vals[roleIdx[s.roles[2]]], s.incl}, nil)
		if err != nil {
			c.Failf("Between not evaluable: %v", err)
		}
		got := res[0].(bool) != s.neg
		want := refBetween(vals[0], vals[1], vals[2], incl) != neg
		if got != want {
			return false, fmt.Sprintf("for order type %v of (%s, %s, %s) the site selects %v, the ownership rule requires %v", ord, low, target, high, got, want)
		}
	}
	return true, ""
}

func (s *betweenSite) String() string {
	n := ""
	if s.neg {
		n = "!"
	}
	return fmt.Sprintf("%sBetween(%s, %s, %s, %v)", n, s.roles[0], s.roles[1], s.roles[2], s.incl)
}

// findSite picks the site whose role set is exactly {a,b,c}.
func findSite(sites []*betweenSite, a, b, c string) *betweenSite {
	want := map[string]bool{a: true, b: true, c: true}
	for _, s := range sites {
		got := map[string]bool{s.roles[0]: true, s.roles[1]: true, s.roles[2]: true}
		if len(got) != len(want) {
			continue
		}
		ok := true
		for r := range got {
			if !want[r] {
				ok = false
			}
		}
		if ok {
			return s
		}
	}
	return nil
}

// ---------------------------------------------------------------------------------------
// nil-guard rule (E6)

// nonNilAt reports whether expression target (an identifier or field path) is known
// non-nil when `use` executes: by a dominating test on every path, or by short-circuit
// position inside the same condition.
func (f *Fn) nonNilAt(use ast.Node, target ast.Expr, nilable func(prov string) bool) bool {
	g := f.enclosing(use)
	want := types.ExprString(ast.Unparen(target))
	if g.shortCircuitNonNil(use, want) {
		return true
	}
	if v := g.varOf(target); v != nil && nilable != nil {
		bad, ok := g.CutFromDefs(use, v, nilable, func(at atom) bool {
			if at.tag != nil {
				return isNilIdent(g.Info, at.e) && types.ExprString(ast.Unparen(at.tag)) == want && !at.truth
			}
			be, ok := at.e.(*ast.BinaryExpr)
			if !ok || (be.Op != token.EQL && be.Op != token.NEQ) {
				return false
			}
			var other ast.Expr
			if isNilIdent(g.Info, be.Y) {
				other = be.X
			} else if isNilIdent(g.Info, be.X) {
				other = be.Y
			} else {
				return false
			}
			return types.ExprString(ast.Unparen(other)) == want && (be.Op == token.NEQ) == at.truth
		}, func(def ast.Node, rhs ast.Expr) (bool, bool) {
			rv := g.varOf(rhs)
			if rv == nil || rv == v {
				return false, false
			}
			for h := g; h != nil; h = h.Parent {
				if h.paramIndex(rv) != -2 {
					return false, false
				}
			}
			return true, g.nonNilAt(def, rhs, nilable)
		})
		if ok {
			return bad == nil
		}
	}
	fs := g.FactsAt(use)
	if fs.Cmp(func(e ast.Expr, tag ast.Expr, truth bool, fa *Fact) bool {
		if tag != nil {
			return isNilIdent(g.Info, e) && types.ExprString(ast.Unparen(tag)) == want && !truth
		}
		be, ok := e.(*ast.BinaryExpr)
		if !ok || (be.Op != token.EQL && be.Op != token.NEQ) {
			return false
		}
		var other ast.Expr
		if isNilIdent(g.Info, be.Y) {
			other = be.X
		} else if isNilIdent(g.Info, be.X) {
			other = be.Y
		} else {
			return false
		}
		if types.ExprString(ast.Unparen(other)) != want {
			return false
		}
		return (be.Op == token.NEQ) == truth
	}) {
		return true
	}
	return g.shortCircuitNonNil(use, want)
}

// shortCircuitNonNil: use sits in the right operand of `t != nil && ...` or of
// `t == nil || ...` within one expression.
func (f *Fn) shortCircuitNonNil(use ast.Node, want string) bool {
	found := false
	var visit func(e ast.Expr, known bool)
	visit = func(e ast.Expr, known bool) {
		e = ast.Unparen(e)
		if found {
			return
		}
		if be, ok := e.(*ast.BinaryExpr); ok && (be.Op == token.LAND || be.Op == token.LOR) {
			visit(be.X, known)
			k := known
			var ats []atom
			collectAtoms(be.X, be.Op == token.LAND, &ats)
			for _, at := range ats {
				if b, ok := at.e.(*ast.BinaryExpr); ok && (b.Op == token.EQL || b.Op == token.NEQ) {
					var other ast.Expr
					if isNilIdent(f.Info, b.Y) {
						other = b.X
					} else if isNilIdent(f.Info, b.X) {
						other = b.Y
					}
					if other != nil && types.ExprString(ast.Unparen(other)) == want && (b.Op == token.NEQ) == at.truth {
						k = true
					}
				}
			}
			visit(be.Y, k)
			return
		}
		if known && containsNode(e, use) {
			found = true
		}
	}
	// find the outermost boolean expression containing use
	ast.Inspect(f.Body, func(n ast.Node) bool {
		if found {
			return false
		}
		if be, ok := n.(*ast.BinaryExpr); ok && (be.Op == token.LAND || be.Op == token.LOR) && containsNode(be, use) {
			visit(be, false)
			return false
		}
		return true
	})
	return found
}

// provTransparent lists value-preserving helpers Prov looks through.
var provTransparent = map[string]bool{
	"kv/sqlite3.bindUint64AsInt64": true,
	"kv/sqlite3.scanInt64AsUint64": true,
}

// distribute appends suffix to every alternative of a provenance ("a|b" + ".x" = "a.x|b.x").
func distribute(base, suffix string) string {
	if !strings.Contains(base, "|") {
		return base + suffix
	}
	parts := strings.Split(base, "|")
	for i := range parts {
		parts[i] += suffix
	}
	return strings.Join(parts, "|")
}

// flowsOnlyVia decides, flow-insensitively over the definitions of locals, whether every
// data path from a source expression into e passes through a sanitizer call. Calls that
// are not sanitizers pass their receiver and every argument on to their result (the
// conservative choice for the string helpers this is used on). It returns the first raw
// path found.
func (f *Fn) flowsOnlyVia(e ast.Expr, isSource func(ast.Expr) bool, isSanitizer func(*ast.CallExpr) bool) (bool, string) {
	busy := map[*types.Var]bool{}
	var walk func(e ast.Expr, depth int) (bool, string)
	walk = func(e ast.Expr, depth int) (bool, string) {
		e = ast.Unparen(e)
		if e == nil || depth > 24 {
			return true, ""
		}
		if isSource(e) {
			return false, f.Str(e)
		}
		switch x := e.(type) {
		case *ast.Ident:
			v := f.varOf(x)
			if v == nil || busy[v] {
				return true, ""
			}
			busy[v] = true
			defer delete(busy, v)
			for _, d := range f.defsOf(v) {
				if ok, w := walk(d.rhs, depth+1); !ok {
					return false, x.Name + " <- " + w
				}
			}
			return true, ""
		case *ast.CallExpr:
			if isSanitizer(x) {
				return true, ""
			}
			if tv, ok := f.Info.Types[x.Fun]; ok && tv.IsType() {
				return walk(x.Args[0], depth+1)
			}
			if sel, ok := ast.Unparen(x.Fun).(*ast.SelectorExpr); ok {
				if _, isPkg := f.Info.ObjectOf(rootIdentOrNil(sel.X)).(*types.PkgName); !isPkg {
					if ok, w := walk(sel.X, depth+1); !ok {
						return false, f.Str(x.Fun) + "(..) <- " + w
					}
				}
			}
			for _, a := range x.Args {
				if ok, w := walk(a, depth+1); !ok {
					return false, f.Str(x.Fun) + "(..) <- " + w
				}
			}
			return true, ""
		case *ast.BinaryExpr:
			if ok, w := walk(x.X, depth+1); !ok {
				return false, w
			}
			return walk(x.Y, depth+1)
		case *ast.UnaryExpr:
			return walk(x.X, depth+1)
		case *ast.StarExpr:
			return walk(x.X, depth+1)
		case *ast.IndexExpr:
			return walk(x.X, depth+1)
		case *ast.SliceExpr:
			return walk(x.X, depth+1)
		case *ast.SelectorExpr:
			return walk(x.X, depth+1)
		case *ast.TypeAssertExpr:
			return walk(x.X, depth+1)
		case *ast.CompositeLit:
			for _, el := range x.Elts {
				if kv, ok := el.(*ast.KeyValueExpr); ok {
					el = kv.Value
				}
				if ok, w := walk(el, depth+1); !ok {
					return false, w
				}
			}
		}
		return true, ""
	}
	return walk(e, 0)
}

func rootIdentOrNil(e ast.Expr) *ast.Ident {
	if id, ok := ast.Unparen(e).(*ast.Ident); ok {
		return id
	}
	return &ast.Ident{Name: "_"}
}

// conjuncts splits e at its top-level && operators.
func conjuncts(e ast.Expr) []ast.Expr {
	e = ast.Unparen(e)
	if be, ok := e.(*ast.BinaryExpr); ok && be.Op == token.LAND {
		return append(conjuncts(be.X), conjuncts(be.Y)...)
	}
	return []ast.Expr{e}
}
