package main

import (
	"fmt"
	"go/ast"
	"go/token"
	"go/types"
	"strings"
)

func init() {
	register(&propDef{ID: "C48", Level: "other",
		Decides:    "the responder's name discipline and decision list: every test of a query name against the zone is label-aligned (equality, a \".\"+zone suffix, or dns.IsSubDomain) - never a raw suffix/substring - and the label is cut relative to that aligned suffix; names are lower-cased before the record-map lookup and the storage lookup; answer() yields NameError+authoritative when the name is not an immediate child, NotImplemented for ANY, ServerFailure on a storage error and NameError when nothing matched; only non-empty stored values become TXT records; the solver stores and removes challenges under the same key function the responder reads.",
		NotDecided: "miekg/dns message encoding.",
		Run:        runC48})
	register(&propDef{ID: "C49", Level: "other",
		Decides:    "the storage adapter's structure: Lock loops only on ErrKVLeaseConflict (classified safely), returns any other error, and starts renewal only after a successful Acquire with that token; Unlock removes the holder, cancels and waits for the renewal goroutine before Release with the latest token; renewal stores the new token atomically; Load/Stat map a nil value to fs.ErrNotExist; every key goes through kvKeyName; List is separator-aligned: a key is treated as lying under the listed directory only after a HasPrefix test against prefix+\"/\" (raw ListKeys matches by string prefix), in the recursive and the non-recursive branch, considers only SIMPLE keys and de-duplicates children.",
		NotDecided: "lock exclusion over time (C19 + the DHT).",
		Run:        runC49})
	addSelfTests("C48",
		mutation{"raw-suffix-zone-test", "acme/dns.go", "	return (qname == d.domain || strings.HasSuffix(qname, \".\"+d.domain)) &&", "	return strings.HasSuffix(qname, d.domain) &&", "label-aligned"},
		mutation{"label-by-first-index", "acme/dns.go", "	if !strings.HasSuffix(qname, \".\"+d.domain) {\n		return ra, nil\n	}\n	subdomain := strings.TrimSuffix(qname, \".\"+d.domain)", "	if !strings.HasSuffix(qname, \".\"+d.domain) {\n		return ra, nil\n	}\n	subdomain := qname[:strings.Index(qname, d.domain)]", "label-aligned"},
		mutation{"case-sensitive-lookup", "acme/dns.go", "	qname := strings.ToLower(q.Name)\n	defined := d.records[qname]", "	qname := q.Name\n	defined := d.records[qname]", "lower-cased"},
		mutation{"storage-error-as-nxdomain", "acme/dns.go", "		if err != nil {\n			rcode = dns.RcodeServerFailure\n		} else {", "		if err != nil {\n			rcode = dns.RcodeNameError\n		} else {", "rcode"},
		mutation{"empty-values-answered", "acme/dns.go", "		if len(v) > 0 {\n			r := new(dns.TXT)", "		if len(v) >= 0 {\n			r := new(dns.TXT)", "txt-values"},
		mutation{"label-by-split-after-caller-guard", "acme/dns.go", "	qname := strings.ToLower(q.Name)\n	// the label in front of the zone, cut at the label boundary\n	if !strings.HasSuffix(qname, \".\"+d.domain) {\n		return ra, nil\n	}\n	subdomain := strings.TrimSuffix(qname, \".\"+d.domain)\n	if subdomain == \"\" {\n		return ra, nil\n	}", "	labels := dns.SplitDomainName(strings.ToLower(q.Name))\n	if len(labels) <= dns.CountLabel(d.domain) {\n		return ra, nil\n	}\n	subdomain := labels[0]", "!label-aligned"},
		mutation{"label-keeps-query-case", "acme/dns.go", "	subdomain := strings.TrimSuffix(qname, \".\"+d.domain)", "	subdomain := q.Name[:len(q.Name)-len(\".\"+d.domain)]", "lower-cased"},
		mutation{"equivalent-issubdomain", "acme/dns.go", "	return (qname == d.domain || strings.HasSuffix(qname, \".\"+d.domain)) &&", "	return dns.IsSubDomain(d.domain, qname) &&", "!label-aligned"},
	)
	addSelfTests("C49",
		mutation{"list-unaligned-prefix", "acme/storage.go", "			if !strings.HasPrefix(string(key.GetKey()), prefix) {\n				continue\n			}\n			sub := strings.TrimPrefix(string(key.GetKey()), prefix)", "			sub := strings.TrimPrefix(string(key.GetKey()), prefix)", "separator-aligned"},
		mutation{"lock-retries-every-error", "acme/storage.go", "		default:\n			c.Logger.Error(\"Error acquiring lease\", zap.String(\"key\", key), zap.Error(err))\n			return err", "		default:\n			c.Logger.Error(\"Error acquiring lease\", zap.String(\"key\", key), zap.Error(err))\n			continue", "lock"},
		mutation{"release-before-renewal-stops", "acme/storage.go", "	lease.cancelFn()\n	lease.Wait()\n	c.Logger.Debug(\"Lease released\", zap.String(\"key\", key))\n	return c.KV.Release(ctx, []byte(kvKeyName(key)), atomic.LoadUint64(&lease.token))", "	lease.cancelFn()\n	c.Logger.Debug(\"Lease released\", zap.String(\"key\", key))\n	return c.KV.Release(ctx, []byte(kvKeyName(key)), atomic.LoadUint64(&lease.token))", "unlock"},
		mutation{"load-empty-as-found", "acme/storage.go", "	if val == nil {\n		c.Logger.Debug(\"Load returned not found\", zap.String(\"key\", key))\n		return nil, fs.ErrNotExist\n	}", "	if val == nil {\n		c.Logger.Debug(\"Load returned not found\", zap.String(\"key\", key))\n	}", "not-exist"},
		mutation{"raw-key", "acme/storage.go", "	return c.KV.Delete(ctx, []byte(kvKeyName(key)))", "	return c.KV.Delete(ctx, []byte(key))", "key-namespace"},
		mutation{"list-prefix-keys-too", "acme/storage.go", "			if key.GetType() != protocol.KeyComposite_SIMPLE {\n				continue\n			}\n			if !strings.HasPrefix(string(key.GetKey()), prefix) {\n				continue\n			}\n			newKey = strings.TrimPrefix(string(key.GetKey()), kvKeyPrefix)", "			if !strings.HasPrefix(string(key.GetKey()), prefix) {\n				continue\n			}\n			newKey = strings.TrimPrefix(string(key.GetKey()), kvKeyPrefix)", "list"},
		mutation{"lock-by-if-chain", "acme/storage.go", "		switch err {\n		case chord.ErrKVLeaseConflict:\n			c.Logger.Debug(\"Lease acquire conflict, retrying\", zap.String(\"key\", key))\n			<-time.After(c.pollInterval)\n			continue\n		case nil:\n			return c.startLeaseRenewal(key, token)\n		default:\n			c.Logger.Error(\"Error acquiring lease\", zap.String(\"key\", key), zap.Error(err))\n			return err\n		}", "		if err == nil {\n			return c.startLeaseRenewal(key, token)\n		}\n		if err != chord.ErrKVLeaseConflict {\n			c.Logger.Error(\"Error acquiring lease\", zap.String(\"key\", key), zap.Error(err))\n			return err\n		}\n		c.Logger.Debug(\"Lease acquire conflict, retrying\", zap.String(\"key\", key))\n		<-time.After(c.pollInterval)", "!lock"},
		mutation{"lock-if-chain-retries-all", "acme/storage.go", "		switch err {\n		case chord.ErrKVLeaseConflict:\n			c.Logger.Debug(\"Lease acquire conflict, retrying\", zap.String(\"key\", key))\n			<-time.After(c.pollInterval)\n			continue\n		case nil:\n			return c.startLeaseRenewal(key, token)\n		default:\n			c.Logger.Error(\"Error acquiring lease\", zap.String(\"key\", key), zap.Error(err))\n			return err\n		}", "		if err == nil {\n			return c.startLeaseRenewal(key, token)\n		}\n		if err == chord.ErrKVLeaseExpired {\n			c.Logger.Error(\"Error acquiring lease\", zap.String(\"key\", key), zap.Error(err))\n			return err\n		}\n		c.Logger.Debug(\"Lease acquire conflict, retrying\", zap.String(\"key\", key))\n		<-time.After(c.pollInterval)", "lock"},
		mutation{"equivalent-cutprefix", "acme/storage.go", "			if !strings.HasPrefix(string(key.GetKey()), prefix) {\n				continue\n			}\n			sub := strings.TrimPrefix(string(key.GetKey()), prefix)", "			sub, under := strings.CutPrefix(string(key.GetKey()), prefix)\n			if !under {\n				continue\n			}", "!separator-aligned"},
	)
}

// zoneAligned: expression e tests `name` against `zone` on a label boundary.
func zoneAligned(f *Fn, e ast.Expr, zoneProv string) (aligned, mentions bool) {
	ast.Inspect(e, func(n ast.Node) bool {
		call, ok := n.(*ast.CallExpr)
		if !ok {
			return true
		}
		k := f.CallKey(call)
		switch k {
		case "strings.HasSuffix", "strings.Contains", "strings.Index", "strings.LastIndex", "strings.HasPrefix", "strings.CutSuffix", "strings.CutPrefix", "strings.Cut":
			arg := call.Args[1]
			if f.Prov(arg) == zoneProv {
				mentions = true // raw use of the zone as a pattern
				return true
			}
			if be, ok := ast.Unparen(arg).(*ast.BinaryExpr); ok && be.Op == token.ADD {
				if v, ok := f.ConstVal(be.X); ok && v == "\".\"" && f.Prov(be.Y) == zoneProv && (k == "strings.HasSuffix" || k == "strings.CutSuffix") {
					aligned = true
				}
			}
		case "github.com/miekg/dns.IsSubDomain":
			if f.Prov(call.Args[0]) == zoneProv {
				aligned = true
			}
		}
		return true
	})
	return
}

func runC48(c *Ctx) {
	const zone = "recv.domain"
	nsite := 0
	for _, name := range []string{"isImmediate", "answerTXT", "answer"} {
		fn := c.Func("acme", "DNS", name)
		// raw uses of the zone as a string pattern
		for _, call := range fn.Calls(true, func(call *ast.CallExpr) bool {
			switch fn.CallKey(call) {
			case "strings.HasSuffix", "strings.Contains", "strings.Index", "strings.LastIndex", "strings.HasPrefix", "strings.TrimSuffix", "strings.CutSuffix", "strings.CutPrefix", "strings.Cut", "strings.Split", "strings.SplitN", "github.com/miekg/dns.IsSubDomain":
				return true
			}
			return false
		}) {
			k := fn.CallKey(call)
			if k == "strings.Split" || k == "strings.SplitN" {
				continue
			}
			var pat ast.Expr
			if k == "github.com/miekg/dns.IsSubDomain" {
				pat = call.Args[0]
			} else {
				pat = call.Args[1]
			}
			uses := fn.Prov(pat) == zone
			dotted := false
			if be, ok := ast.Unparen(pat).(*ast.BinaryExpr); ok && be.Op == token.ADD {
				if v, ok := fn.ConstVal(be.X); ok && v == "\".\"" && fn.Prov(be.Y) == zone {
					dotted = true
				}
			}
			if !uses && !dotted {
				continue
			}
			nsite++
			okSite := dotted && (k == "strings.HasSuffix" || k == "strings.TrimSuffix" || k == "strings.CutSuffix") || (uses && k == "github.com/miekg/dns.IsSubDomain")
			c.Ob("label-aligned", fmt.Sprintf("DNS.%s#%s(zone)", name, strings.TrimPrefix(k, "strings.")), call.Pos(), okSite, "a query name is matched against the zone on a label boundary (\".\"+zone suffix, equality or dns.IsSubDomain); a raw suffix/substring match treats fooZONE as inside ZONE and mis-cuts the label; found "+fn.Str(call))
		}
	}
	c.Floor("zone pattern sites", nsite, 1)
	// the label handed to storage is cut only after the aligned membership test
	at := c.Func("acme", "DNS", "answerTXT")
	for _, call := range at.Calls(false, func(call *ast.CallExpr) bool { return at.IsCall(call, "*.PrefixList") }) {
		fs := at.FactsAt(call)
		okGuard := fs.Has(func(fa *Fact) bool {
			if fa.Kind != FTrue || !at.IsCall(fa.Call, "strings.HasSuffix", "strings.CutSuffix", "github.com/miekg/dns.IsSubDomain") {
				return false
			}
			if at.IsCall(fa.Call, "strings.CutSuffix") && fa.Idx != 1 {
				return false // only the "found" result says the suffix was there
			}
			al, _ := zoneAligned(at, fa.Call, zone)
			return al
		})
		if !okGuard {
			// the aligned test may be established by every caller instead: answerTXT is
			// reached only after isImmediate(q) held, and isImmediate's result implies
			// the aligned test
			ncall, okCallers := 0, true
			for _, g := range c.AllFuncs("acme") {
				for _, cs := range g.Calls(true, func(x *ast.CallExpr) bool { return g.IsCall(x, "acme.DNS.answerTXT") }) {
					ncall++
					cf := g.enclosing(cs)
					if !cf.FactsAt(cs).Has(func(fa *Fact) bool { return fa.Kind == FTrue && cf.IsCall(fa.Call, "acme.DNS.isImmediate") }) {
						okCallers = false
					}
				}
			}
			im := c.Func("acme", "DNS", "isImmediate")
			okIm := len(im.Returns()) > 0
			for _, r := range im.Returns() {
				okR := false
				for _, cj := range conjuncts(r.Results[0]) {
					if al, raw := zoneAligned(im, cj, zone); al && !raw {
						okR = true
					}
				}
				okIm = okIm && okR
			}
			okGuard = ncall > 0 && okCallers && okIm
		}
		c.Ob("label-aligned", "DNS.answerTXT#storage-lookup-after-aligned-test", call.Pos(), okGuard, "storage is consulted only for a name that passed the label-aligned zone test (in answerTXT itself, or in every caller through isImmediate)")
		c.Ob("lower-cased", "DNS.answerTXT#storage-key-from-lower-cased-name", call.Pos(), strings.Contains(at.Prov(call.Args[1]), "call:acme.dnsKeyName()"), "the storage key is dnsKeyName(label)")
	}
	// lower-casing before lookups
	an := c.Func("acme", "DNS", "answer")
	nlow := 0
	ast.Inspect(an.Body, func(n ast.Node) bool {
		ix, ok := n.(*ast.IndexExpr)
		if !ok || an.Prov(ix.X) != "recv.records" {
			return true
		}
		nlow++
		c.Ob("lower-cased", "DNS.answer#records-lookup-lower-cased", ix.Pos(), an.Prov(ix.Index) == "call:strings.ToLower()", "static records are looked up by the lower-cased query name; found "+an.Prov(ix.Index))
		return true
	})
	c.Floor("record map lookups", nlow, 1)
	for _, fn := range []*Fn{at, c.Func("acme", "DNS", "isImmediate")} {
		usesRaw := false
		ast.Inspect(fn.Body, func(n ast.Node) bool {
			call, ok := n.(*ast.CallExpr)
			if !ok {
				return true
			}
			switch fn.CallKey(call) {
			case "strings.HasSuffix", "strings.TrimSuffix", "strings.Index", "strings.Split":
				if strings.HasSuffix(fn.Prov(call.Args[0]), ".Name") {
					usesRaw = true
				}
			}
			return true
		})
		c.Ob("lower-cased", fn.Name+"#name-tests-on-lower-cased-name", fn.Decl.Pos(), !usesRaw, "zone tests and label cutting operate on the lower-cased query name")
	}
	// every data path from the query name into a decision or a storage key is case-folded
	isQName := func(fn *Fn) func(e ast.Expr) bool {
		return func(e ast.Expr) bool {
			sel, ok := e.(*ast.SelectorExpr)
			if !ok || sel.Sel.Name != "Name" {
				return false
			}
			s := fn.Info.Selections[sel]
			return s != nil && s.Kind() == types.FieldVal && strings.HasSuffix(s.Recv().String(), "github.com/miekg/dns.Question")
		}
	}
	folds := func(fn *Fn) func(call *ast.CallExpr) bool {
		return func(call *ast.CallExpr) bool {
			return fn.IsCall(call, "strings.ToLower", "github.com/miekg/dns.CanonicalName")
		}
	}
	nfold := 0
	for _, call := range at.Calls(false, func(call *ast.CallExpr) bool { return at.IsCall(call, "*.PrefixList") }) {
		ok, w := at.flowsOnlyVia(call.Args[1], isQName(at), folds(at))
		nfold++
		c.Ob("lower-cased", "DNS.answerTXT#query-name-reaches-storage-key-only-case-folded", call.Pos(), ok, "every data path from q.Name into the storage key passes strings.ToLower (challenge labels are stored lower-cased; a resolver using 0x20 case randomisation sends mixed case); raw path: "+w)
	}
	im := c.Func("acme", "DNS", "isImmediate")
	for _, r := range im.Returns() {
		for _, res := range r.Results {
			ok, w := im.flowsOnlyVia(res, isQName(im), folds(im))
			nfold++
			c.Ob("lower-cased", "DNS.isImmediate#query-name-reaches-decision-only-case-folded", r.Pos(), ok, "the zone-membership decision depends on q.Name only through strings.ToLower; raw path: "+w)
		}
	}
	c.Floor("case-fold flow sites", nfold, 2)
	// rcode decision list
	seen := map[string]bool{}
	for _, r := range an.Returns() {
		if len(r.Results) == 3 {
			code := constName(an, r.Results[1])
			if code == "RcodeNameError" {
				seen["not-immediate"] = true
				okNI := an.FactsAt(r).Cmp(func(e, tag ast.Expr, truth bool, fa *Fact) bool {
					id, ok := e.(*ast.Ident)
					return ok && !truth && strings.HasSuffix(an.Prov(id), ".isImmediate()")
				}) || an.FactsAt(r).CallFalse("acme.DNS.isImmediate")
				v, _ := an.ConstVal(r.Results[2])
				c.Ob("rcode", "DNS.answer#not-immediate->NameError+authoritative", r.Pos(), okNI && v == "true" && isNilIdent(an.Info, r.Results[0]), "a name outside the immediate children of the zone gets NXDOMAIN, authoritative, no records")
			}
		}
	}
	// the places an rcode is decided: assignments to the rcode result, and constants returned
	// in its position (other than the not-immediate refusal handled above)
	var rcodeObj types.Object
	if an.Type.Results != nil {
		i := 0
		for _, fld := range an.Type.Results.List {
			for _, nm := range fld.Names {
				if i == 1 {
					rcodeObj = an.Info.Defs[nm]
				}
				i++
			}
		}
	}
	type rsite struct {
		at   ast.Node
		code string
	}
	var rsites []rsite
	for _, nd := range shallowNodes(an.Body) {
		switch x := nd.(type) {
		case *ast.AssignStmt:
			if len(x.Lhs) == 1 && rcodeObj != nil && an.ObjOf(x.Lhs[0]) == rcodeObj {
				rsites = append(rsites, rsite{x, constName(an, x.Rhs[0])})
			}
		case *ast.ReturnStmt:
			if len(x.Results) == 3 {
				if code := constName(an, x.Results[1]); code != "" && !(code == "RcodeNameError" && an.FactsAt(x).CallFalse("acme.DNS.isImmediate")) {
					if code == "RcodeNameError" && an.FactsAt(x).Cmp(func(e, tag ast.Expr, truth bool, fa *Fact) bool {
						id, ok := e.(*ast.Ident)
						return ok && !truth && strings.HasSuffix(an.Prov(id), ".isImmediate()")
					}) {
						continue
					}
					rsites = append(rsites, rsite{x, code})
				}
			}
		}
	}
	for _, rs := range rsites {
		as, code := rs.at, rs.code
		fs := an.FactsAt(as)
		switch code {
		case "RcodeNotImplemented":
			seen["any"] = true
			c.Ob("rcode", "DNS.answer#ANY->NotImplemented", as.Pos(), fs.Cmp(func(e, tag ast.Expr, truth bool, fa *Fact) bool {
				be, ok := e.(*ast.BinaryExpr)
				return ok && truth && be.Op == token.EQL && constName(an, be.Y) == "TypeANY"
			}), "ANY queries are refused with NotImplemented")
		case "RcodeServerFailure":
			seen["servfail"] = true
			// the lookup is known to have failed: directly, or through a flag that is false
			// except where it is set to `err != nil` of the lookup's error
			viaFlag := fs.Cmp(func(e, tag ast.Expr, truth bool, fa *Fact) bool {
				v := an.varOf(e)
				if v == nil || tag != nil || !truth {
					return false
				}
				nset := 0
				for _, d := range an.defsOf(v) {
					if d.rhs == nil || d.multi {
						return false
					}
					if cv, ok := an.ConstVal(d.rhs); ok && cv == "false" {
						continue
					}
					be, ok := ast.Unparen(d.rhs).(*ast.BinaryExpr)
					if !ok || be.Op != token.NEQ || !isNilIdent(an.Info, be.Y) || !strings.HasSuffix(an.Prov(be.X), ".answerTXT()#1") {
						return false
					}
					nset++
				}
				return nset > 0
			})
			c.Ob("rcode", "DNS.answer#storage-error->ServerFailure", as.Pos(), fs.CallFail("acme.DNS.answerTXT") || viaFlag, "a storage failure is reported as SERVFAIL (not as an empty answer)")
		case "RcodeNameError":
			seen["empty"] = true
			c.Ob("rcode", "DNS.answer#no-records->NameError", as.Pos(), fs.Cmp(func(e, tag ast.Expr, truth bool, fa *Fact) bool {
				s := types_ExprString(e)
				return truth && strings.Contains(s, "len") && strings.Contains(s, "RcodeServerFailure")
			}) || fs.Cmp(func(e, tag ast.Expr, truth bool, fa *Fact) bool {
				be, ok := e.(*ast.BinaryExpr)
				if !ok {
					return false
				}
				v, _ := an.ConstVal(be.Y)
				return truth && be.Op == token.EQL && v == "0" && isLenOf(an, be.X, func(ast.Expr) bool { return true })
			}), "no matching record (and no failure) yields NXDOMAIN")
		default:
			c.Ob("rcode", "DNS.answer#rcode:"+code, as.Pos(), false, "unexpected rcode assignment")
		}
	}
	for _, k := range []string{"not-immediate", "any", "servfail", "empty"} {
		c.Ob("rcode", "DNS.answer#has-"+k, an.Decl.Pos(), seen[k], "the decision list distinguishes this outcome")
	}
	// TXT only for non-empty values
	for _, call := range at.Calls(false, func(call *ast.CallExpr) bool {
		id, ok := call.Fun.(*ast.Ident)
		return ok && id.Name == "append" && types_ExprString(call.Args[0]) == "ra"
	}) {
		ok := at.FactsAt(call).Cmp(func(e, tag ast.Expr, truth bool, fa *Fact) bool {
			be, ok := ast.Unparen(e).(*ast.BinaryExpr)
			if !ok || tag != nil {
				return false
			}
			v, _ := at.ConstVal(be.Y)
			if v != "0" || !isLenOf(at, be.X, func(ast.Expr) bool { return true }) {
				return false
			}
			switch be.Op {
			case token.GTR, token.NEQ:
				return truth
			case token.EQL, token.LEQ:
				return !truth
			}
			return false
		})
		c.Ob("txt-values", "DNS.answerTXT#only-non-empty-values", call.Pos(), ok, "only non-empty stored values become TXT records")
	}
	// solver and responder agree on the key function
	for _, name := range []string{"Present", "CleanUp"} {
		fn := c.Func("acme", "ChordSolver", name)
		op := map[string]string{"Present": "PrefixAppend", "CleanUp": "PrefixRemove"}[name]
		okKey := false
		for _, call := range fn.Calls(false, func(call *ast.CallExpr) bool { return fn.IsCall(call, "*."+op) }) {
			okKey = strings.Contains(fn.Prov(call.Args[1]), "call:acme.dnsKeyName()") && strings.HasSuffix(fn.Prov(call.Args[2]), ".DNS01KeyAuthorization()")
		}
		c.Ob("solver-agreement", "ChordSolver."+name+"#"+op+"(dnsKeyName(label), key authorization)", fn.Decl.Pos(), okKey, "the solver writes the challenge under the key function the responder reads, with the challenge's key authorization as value")
	}
}

// ---------------------------------------------------------------------------------------

func runC49(c *Ctx) {
	st := func(name string) *Fn { return c.Func("acme", "ChordStorage", name) }
	// key namespace
	nk := 0
	for _, fn := range c.AllFuncs("acme") {
		if recvName(fn.Decl) != "ChordStorage" {
			continue
		}
		for _, call := range fn.Calls(true, func(call *ast.CallExpr) bool {
			se, ok := call.Fun.(*ast.SelectorExpr)
			return ok && fn.enclosing(call).Prov(se.X) == "recv.KV" && len(call.Args) >= 2
		}) {
			g := fn.enclosing(call)
			nk++
			pv := g.Prov(call.Args[1])
			c.Ob("key-namespace", fmt.Sprintf("%s#KV.%s-key", fn.Name, call.Fun.(*ast.SelectorExpr).Sel.Name), call.Pos(), strings.Contains(pv, "call:acme.kvKeyName()"), "every storage key goes through kvKeyName (the /acme-storage/ namespace); found "+pv)
		}
	}
	c.Floor("KV calls of ChordStorage", nk, 9)
	// Lock
	lk := st("Lock")
	acq := lk.Calls(false, func(call *ast.CallExpr) bool { return lk.IsCall(call, "*.Acquire") })
	c.Floor("Lock acquire sites", len(acq), 1)
	for _, call := range lk.CallsTo(false, "acme.ChordStorage.startLeaseRenewal") {
		fs := lk.FactsAt(call)
		c.Ob("lock", "Lock#renewal-only-after-acquire-ok", call.Pos(), len(acq) == 1 && fs.Has(func(fa *Fact) bool { return fa.Kind == FCallOK && fa.Call == acq[0] }) && strings.HasSuffix(lk.Prov(call.Args[1]), ".Acquire()#0"), "the renewal goroutine starts only after the lease was acquired, with that token")
	}
	// loop continues only under ErrKVLeaseConflict
	// decided from the path facts at each retry / return, so a switch on the error, an
	// if-chain with == and errors.Is are read alike
	ncont := 0
	isAcqErr := func(e ast.Expr) bool { return len(acq) == 1 && strings.HasSuffix(lk.Prov(e), ".Acquire()#1") }
	const conflict = "global:spec/chord.ErrKVLeaseConflict"
	conflictAt := func(fs *FactSet) bool {
		return fs.Cmp(func(e, tag ast.Expr, truth bool, fa *Fact) bool {
			if tag != nil {
				return truth && isAcqErr(tag) && lk.Prov(e) == conflict
			}
			switch x := e.(type) {
			case *ast.BinaryExpr:
				eq := x.Op == token.EQL && truth || x.Op == token.NEQ && !truth
				return eq && (isAcqErr(x.X) && lk.Prov(x.Y) == conflict || isAcqErr(x.Y) && lk.Prov(x.X) == conflict)
			case *ast.CallExpr:
				return truth && lk.IsCall(x, "errors.Is") && isAcqErr(x.Args[0]) && lk.Prov(x.Args[1]) == conflict
			}
			return false
		})
	}
	ast.Inspect(lk.Body, func(n ast.Node) bool {
		if br, ok := n.(*ast.BranchStmt); ok && br.Tok == token.CONTINUE {
			ncont++
			c.Ob("lock", "Lock#retries-only-on-lease-conflict", br.Pos(), conflictAt(lk.FactsAt(br)), "Lock polls again only when the lease is held by someone else; every other error is returned")
		}
		return true
	})
	// no silent retry either: the loop body cannot fall off its end back to Acquire with
	// an error other than the conflict in hand
	nerr := 0
	for _, r := range lk.Returns() {
		if len(r.Results) == 1 && isAcqErr(r.Results[0]) {
			nerr++
		}
	}
	c.Ob("lock", "Lock#other-errors-returned", lk.Decl.Pos(), nerr >= 1, "an unexpected acquire error ends Lock with that error")
	if len(acq) == 1 {
		// from the failed acquire, every way back to the acquire passes the conflict test
		back, _ := lk.Reach(acq[0], func(n ast.Node) bool { return containsNode(n, acq[0]) }, func(b *cfgBlock, si int) bool {
			for _, at := range lk.edgeAtoms(b, si) {
				if at.tag != nil && at.truth && isAcqErr(at.tag) && (lk.Prov(at.e) == conflict || isNilIdent(lk.Info, at.e)) {
					return true
				}
				switch x := at.e.(type) {
				case *ast.BinaryExpr:
					eq := x.Op == token.EQL && at.truth || x.Op == token.NEQ && !at.truth
					if eq && (isAcqErr(x.X) || isAcqErr(x.Y)) && (lk.Prov(x.Y) == conflict || lk.Prov(x.X) == conflict || isNilIdent(lk.Info, x.X) || isNilIdent(lk.Info, x.Y)) {
						return true
					}
				case *ast.CallExpr:
					if at.truth && lk.IsCall(x, "errors.Is") && isAcqErr(x.Args[0]) && lk.Prov(x.Args[1]) == conflict {
						return true
					}
				}
			}
			return false
		})
		loops := false
		for _, n := range back {
			if containsNode(n, acq[0]) {
				loops = true
			}
		}
		c.Ob("lock", "Lock#no-retry-path-for-other-errors", acq[0].Pos(), !loops, "once the edges on which the error is nil or the lease conflict are removed, Acquire is not reachable again: no other error is retried")
	}
	_ = ncont // a retry may also be the fall-through of the loop body: covered by the edge-cut rule above
	// classification with == is safe only for a bare sentinel: the KV behind it is the retry wrapper / LocalNode / RemoteNode,
	// all of which return the mapped bare sentinel (C14); recorded as an assumption
	c.Assume("errors from chord.KV.Acquire reach ChordStorage.Lock as bare sentinels (C14: RemoteNode maps through ErrorMapper; the retry wrapper uses LastErrorOnly)")
	// Unlock order
	ul := st("Unlock")
	lad := methodCalls(ul, false, "LoadAndDelete")
	cancel := ul.Calls(false, func(call *ast.CallExpr) bool {
		se, ok := call.Fun.(*ast.SelectorExpr)
		return ok && se.Sel.Name == "cancelFn"
	})
	wait := methodCalls(ul, false, "Wait")
	rel := ul.Calls(false, func(call *ast.CallExpr) bool { return ul.IsCall(call, "*.Release") })
	okU := len(lad) == 1 && len(cancel) == 1 && len(wait) == 1 && len(rel) == 1
	if okU {
		seq := []ast.Node{lad[0], cancel[0], wait[0], rel[0]}
		for i := 0; i+1 < len(seq); i++ {
			reached, _ := ul.Reach(nil, func(n ast.Node) bool { return containsNode(n, seq[i]) }, nil)
			for _, n := range reached {
				if containsNode(n, seq[i+1]) && !containsNode(n, seq[i]) {
					okU = false
				}
			}
		}
		okU = okU && strings.Contains(types_ExprString(rel[0].Args[2]), "atomic.LoadUint64") && strings.Contains(types_ExprString(rel[0].Args[2]), "token")
	}
	c.Ob("unlock", "Unlock#remove-cancel-wait-release(latest token)", ul.Decl.Pos(), okU, "Unlock removes the holder, stops the renewal goroutine and waits for it, and only then releases with the atomically loaded latest token (a renewal racing with the release would otherwise leave a lease nobody releases)")
	ro := st("renewLeaseOnce")
	okR := false
	for _, call := range ro.CallsTo(false, "sync/atomic.StoreUint64") {
		okR = strings.HasSuffix(ro.Prov(call.Args[1]), ".Renew()#0") && ro.FactsAt(call).CallOK("*.Renew")
	}
	okP := false
	for _, call := range ro.Calls(false, func(call *ast.CallExpr) bool { return ro.IsCall(call, "*.Renew") }) {
		okP = strings.HasPrefix(ro.Prov(call.Args[3]), "call:sync/atomic.LoadUint64()")
	}
	c.Ob("unlock", "renewLeaseOnce#token-updated-atomically-after-renew-ok", ro.Decl.Pos(), okR && okP, "the renewal presents the atomically loaded current token and stores the new one atomically only when Renew succeeded")
	// not-exist mapping
	for _, name := range []string{"Load", "Stat"} {
		fn := st(name)
		okNE := false
		for _, r := range fn.Returns() {
			if fn.Prov(r.Results[len(r.Results)-1]) == "global:io/fs.ErrNotExist" {
				okNE = fn.FactsAt(r).Cmp(func(e, tag ast.Expr, truth bool, fa *Fact) bool {
					be, ok := e.(*ast.BinaryExpr)
					return ok && truth && be.Op == token.EQL && isNilIdent(fn.Info, be.Y) && strings.HasSuffix(fn.Prov(be.X), ".Get()#0")
				})
			}
		}
		c.Ob("not-exist", "ChordStorage."+name+"#nil->fs.ErrNotExist", fn.Decl.Pos(), okNE, "a missing key is reported as fs.ErrNotExist (certmagic's contract)")
		for _, r := range successReturns(fn) {
			ok := fn.FactsAt(r).Cmp(func(e, tag ast.Expr, truth bool, fa *Fact) bool {
				be, ok := e.(*ast.BinaryExpr)
				return ok && !truth && be.Op == token.EQL && isNilIdent(fn.Info, be.Y) && strings.HasSuffix(fn.Prov(be.X), ".Get()#0")
			})
			c.Ob("not-exist", "ChordStorage."+name+"#success-only-for-existing-key", r.Pos(), ok && fn.FactsAt(r).CallOK("*.Get"), "a value is returned only when the key exists")
		}
	}
	// List
	ls := st("List")
	ntrim := 0
	for _, call := range ls.CallsTo(false, "strings.TrimPrefix", "strings.CutPrefix") {
		pat := call.Args[1]
		pv := ls.Prov(pat)
		if pv == "global:acme.kvKeyPrefix" || pv == "const:\"/acme-storage/\"" {
			continue // stripping the namespace, not a directory test
		}
		if _, isConst := ls.ConstVal(pat); isConst {
			continue
		}
		ntrim++
		subject := types_ExprString(call.Args[0])
		if ls.CallKey(call) == "strings.CutPrefix" {
			// the ok result must be tested
			okCut := false
			for _, r := range []int{1} {
				_ = r
			}
			ast.Inspect(ls.Body, func(n ast.Node) bool {
				as, ok := n.(*ast.AssignStmt)
				if ok && len(as.Rhs) == 1 && as.Rhs[0] == ast.Expr(call) && len(as.Lhs) == 2 {
					v := ls.varOf(as.Lhs[1])
					// some later use of the trimmed value requires v true
					if v != nil {
						reached, _ := ls.Reach(as, nil, func(b *cfgBlock, si int) bool {
							for _, at := range ls.edgeAtoms(b, si) {
								if id, ok := at.e.(*ast.Ident); ok && ls.varOf(id) == v && at.truth {
									return true
								}
							}
							return false
						})
						okCut = true
						for _, m := range reached {
							ast.Inspect(m, func(k ast.Node) bool {
								if id, ok := k.(*ast.Ident); ok && ls.varOf(id) != nil && ls.varOf(id) == ls.varOf(as.Lhs[0]) && m != ast.Node(as) {
									okCut = false
								}
								return true
							})
						}
					}
				}
				return true
			})
			c.Ob("separator-aligned", "List#CutPrefix-result-checked", call.Pos(), okCut && dirAligned(ls, pat), "the remainder after CutPrefix(key, dir) is used only when the prefix was really present, and dir ends with the separator")
			continue
		}
		fs := ls.FactsAt(call)
		guarded := fs.Has(func(fa *Fact) bool {
			return fa.Kind == FTrue && ls.IsCall(fa.Call, "strings.HasPrefix") && types_ExprString(fa.Call.Args[0]) == subject && types_ExprString(fa.Call.Args[1]) == types_ExprString(pat)
		})
		c.Ob("separator-aligned", "List#TrimPrefix(key, dir)-after-HasPrefix", call.Pos(), guarded && dirAligned(ls, pat), "KV.ListKeys matches by raw string prefix, so a key is treated as lying under the directory only after HasPrefix(key, dir) with dir ending in \"/\" held; otherwise a sibling directory sharing a name prefix (a/bc for a/b) yields a bogus child and foreign keys")
	}
	c.Floor("directory trim sites in List", ntrim, 1)
	// both branches filter; only SIMPLE keys; children deduplicated
	napp := 0
	for _, call := range ls.Calls(false, func(call *ast.CallExpr) bool {
		id, ok := call.Fun.(*ast.Ident)
		return ok && id.Name == "append" && types_ExprString(call.Args[0]) == "found"
	}) {
		napp++
		fs := ls.FactsAt(call)
		okSimple := fs.Cmp(func(e, tag ast.Expr, truth bool, fa *Fact) bool {
			be, ok := e.(*ast.BinaryExpr)
			return ok && !truth && be.Op == token.NEQ && constName(ls, be.Y) == "KeyComposite_SIMPLE"
		})
		okUnder := fs.Has(func(fa *Fact) bool {
			return fa.Kind == FTrue && ls.IsCall(fa.Call, "strings.HasPrefix") && dirAligned(ls, fa.Call.Args[1])
		}) || fs.Has(func(fa *Fact) bool {
			return fa.Kind == FTrue && ls.IsCall(fa.Call, "strings.CutPrefix") && dirAligned(ls, fa.Call.Args[1])
		})
		c.Ob("list", "List#only-SIMPLE-keys", call.Pos(), okSimple, "only keys holding a simple value (files) are listed")
		c.Ob("separator-aligned", "List#listed-key-is-under-the-directory", call.Pos(), okUnder, "a key is listed only after it was found under dir+\"/\" (both in the recursive and the non-recursive branch)")
	}
	c.Floor("List result append sites", napp, 1)
	// children deduplicated: every append that can run in the non-recursive mode emits a
	// value that is put into a seen-set on the same path, and only when it was absent from it
	okSeen := false
	{
		inserts := ls.seenInserts(ls.Body)
		nNonRec, nOK := 0, 0
		for _, call := range ls.Calls(false, func(call *ast.CallExpr) bool {
			id, ok := call.Fun.(*ast.Ident)
			return ok && id.Name == "append" && len(call.Args) == 2 && strings.Contains(ls.Prov(call.Args[0]), "builtin:make") && ls.varOf(call.Args[0]) != nil
		}) {
			if _, isStr := typeOf(ls.Info, call.Args[1]).Underlying().(*types.Basic); !isStr {
				continue
			}
			recursiveOnly := ls.FactsAt(call).Cmp(func(e, tag ast.Expr, truth bool, fa *Fact) bool {
				return tag == nil && truth && ls.Prov(e) == "param#2"
			})
			if recursiveOnly {
				continue
			}
			nNonRec++
			elem := ls.Prov(call.Args[1])
			for _, in := range inserts {
				if in.key != elem || !ls.notInSeen(ls.FactsAt(in.at), in.m, in.key) {
					continue
				}
				// in the non-recursive mode (the edges on which `recursive` is known true
				// removed) the append is not reachable without passing the insertion
				reached, _ := ls.Reach(nil, func(n ast.Node) bool { return containsNode(n, in.at) }, func(b *cfgBlock, si int) bool {
					for _, at := range ls.edgeAtoms(b, si) {
						if at.tag != nil {
							continue
						}
						if v, known := evalBool3(at.e, func(e ast.Expr) (bool, bool) {
							if ls.Prov(e) == "param#2" {
								return false, true // not recursive
							}
							return false, false
						}); known && v != at.truth {
							return true
						}
					}
					return false
				})
				bypass := false
				for _, n := range reached {
					if containsNode(n, call) {
						bypass = true
					}
				}
				if !bypass {
					nOK++
					break
				}
			}
		}
		okSeen = nNonRec >= 1 && nOK == nNonRec
	}
	c.Ob("list", "List#children-deduplicated", ls.Decl.Pos(), okSeen, "in the non-recursive listing each child is reported once")
}

// dirAligned: the directory pattern is known to end with the separator here: it is the
// variable to which "/" was appended under `!HasSuffix(p, "/")`, or a concatenation ending
// in "/".
func dirAligned(f *Fn, pat ast.Expr) bool {
	if be, ok := ast.Unparen(pat).(*ast.BinaryExpr); ok && be.Op == token.ADD {
		if v, ok := f.ConstVal(be.Y); ok && v == "\"/\"" {
			return true
		}
	}
	v := f.varOf(pat)
	if v == nil {
		return false
	}
	// some assignment p += "/" guarded by !HasSuffix(p, "/") dominates... accept when such an
	// assignment exists before the use and no later assignment to p follows it
	ok := false
	ast.Inspect(f.Body, func(n ast.Node) bool {
		ifs, isIf := n.(*ast.IfStmt)
		if !isIf {
			return true
		}
		u, isNot := ifs.Cond.(*ast.UnaryExpr)
		if !isNot || u.Op != token.NOT {
			return true
		}
		call, isCall := u.X.(*ast.CallExpr)
		if !isCall || !f.IsCall(call, "strings.HasSuffix") || f.varOf(call.Args[0]) != v {
			return true
		}
		if cv, _ := f.ConstVal(call.Args[1]); cv != "\"/\"" {
			return true
		}
		for _, st := range ifs.Body.List {
			if as, isAs := st.(*ast.AssignStmt); isAs && as.Tok == token.ADD_ASSIGN && f.varOf(as.Lhs[0]) == v {
				if cv, _ := f.ConstVal(as.Rhs[0]); cv == "\"/\"" && ifs.Pos() < pat.Pos() {
					ok = true
				}
			}
		}
		return true
	})
	if !ok {
		return false
	}
	// no other assignment to v between that normalisation and the use
	for _, d := range f.defNodes(v) {
		if as, isAs := d.(*ast.AssignStmt); isAs && as.Tok != token.ADD_ASSIGN && d.Pos() > firstNormalisation(f, v) && d.Pos() < pat.Pos() {
			return false
		}
	}
	return true
}

func firstNormalisation(f *Fn, v any) token.Pos {
	var p token.Pos
	ast.Inspect(f.Body, func(n ast.Node) bool {
		if as, ok := n.(*ast.AssignStmt); ok && as.Tok == token.ADD_ASSIGN && p == 0 {
			if cv, _ := f.ConstVal(as.Rhs[0]); cv == "\"/\"" {
				p = as.Pos()
			}
		}
		return true
	})
	return p
}
