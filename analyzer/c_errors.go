package main

import (
	"fmt"
	"go/ast"
	"go/token"
	"go/types"
	"sort"
	"strings"
)

func init() {
	register(&propDef{ID: "C14", Level: "other",
		Decides:    "registry and producer/consumer agreement for chord errors across RPC: every *chord.Error is created by errorDef, which registers its text in errorStrMap unconditionally and in retryableErrs iff its constant flag is true; message texts are pairwise distinct; every element of retryableErrs that is not created by errorDef has its text registered in errorStrMap (the caller can only recover identity - hence retryability - through that map); ErrorMapper consults the map for every non-nil error and takes the message of every twirp.Error regardless of code; WrapError/WrapErrorKV build the twirp message from err.Error() of their argument and pick the code from ErrorIsRetryable; every RemoteNode method returns chordClient errors only through chord.ErrorMapper (handlers that cannot fail are exempt by computation); chord.Server handlers return LocalNode errors unchanged or through rpc.WrapError*.",
		NotDecided: "twirp's wire encoding of code/message (trusted).",
		Run:        runC14})
	register(&propDef{ID: "C15", Level: "other",
		Decides:    "sibling agreement over the retry wrapper: every method of chord.KV except Import is overridden; each override is retry.Do/DoWithData over a closure that calls the same-named method of the wrapped VNode with exactly the wrapper's parameters in order, with options from retryOptions(ctx); retryOptions contains Context(ctx), Attempts(n.retryAttempts), RetryIf(chord.ErrorIsRetryable) and LastErrorOnly(true); production call sites pass a positive constant attempt bound.",
		NotDecided: "retry-go's own semantics (trusted: RetryIf(f) retries only when f(err); Attempts(n>0) bounds the calls; Attempts(0) would be unbounded).",
		Run:        runC15})
	addSelfTests("C14",
		mutation{"mapper-suffix-match", "spec/chord/errors.go", "	return parsedErr\n}", "	for str, mapped := range errorStrMap {\n		if len(srcErr) > len(str) && srcErr[len(srcErr)-len(str):] == str {\n			return mapped\n		}\n	}\n	return parsedErr\n}", "mapper"},
		mutation{"mapper-by-code", "spec/chord/errors.go", "	if twirpErr, ok := err.(twirp.Error); ok {\n		srcErr = twirpErr.Msg()\n	}", "	if twirpErr, ok := err.(twirp.Error); ok && twirpErr.Code() == twirp.Internal {\n		srcErr = twirpErr.Msg()\n	}", "mapper"},
		mutation{"remote-unmapped", "chord/remote.go", "	_, err := n.chordClient.FinishJoin(reqCtx, &protocol.MembershipConclusionRequest{\n		Stabilize: stabilize,\n		Release:   release,\n	})\n\n	return chord.ErrorMapper(err)", "	_, err := n.chordClient.FinishJoin(reqCtx, &protocol.MembershipConclusionRequest{\n		Stabilize: stabilize,\n		Release:   release,\n	})\n\n	return err", "remote-mapped"},
		mutation{"wrap-custom-message", "spec/rpc/error.go", "func WrapError(err error) error {\n	var code twirp.ErrorCode\n	if chord.ErrorIsRetryable(err) {\n		code = twirp.FailedPrecondition\n	} else {\n		code = twirp.Internal\n	}\n	twerr := twirp.NewError(code, err.Error())", "func WrapError(err error) error {\n	var code twirp.ErrorCode\n	if chord.ErrorIsRetryable(err) {\n		code = twirp.FailedPrecondition\n	} else {\n		code = twirp.Internal\n	}\n	twerr := twirp.NewError(code, \"chord: \"+err.Error())", "wrap-message"},
		mutation{"duplicate-message", "spec/chord/errors.go", "errorDef(\"chord/membership: node cannot handle leave request at the moment\", true)", "errorDef(\"chord/membership: node cannot handle join request at the moment\", true)", "distinct"},
		mutation{"server-wraps-with-context", "chord/server_rpc.go", "	if err := r.LocalNode.Ping(); err != nil {\n		return nil, rpc.WrapError(err)\n	}", "	if err := r.LocalNode.Ping(); err != nil {\n		return nil, rpc.WrapError(rpc.WrapError(err))\n	}", "server-return"},
		mutation{"register-conditionally", "spec/chord/errors.go", "	errorStrMap[str] = err\n	return err", "	if !retryable {\n		errorStrMap[str] = err\n	}\n	return err", "registry"},
	)
	addSelfTests("C15",
		mutation{"options-reordered", "spec/chord/retry.go", "		retry.Context(ctx),\n		retry.Attempts(n.retryAttempts),\n		retry.Delay(n.retryInterval),", "		retry.Attempts(n.retryAttempts),\n		retry.Delay(n.retryInterval),\n		retry.Context(ctx),", "!retry-options"},
		mutation{"get-with-named-closure", "spec/chord/retry.go", "	return retry.DoWithData(func() ([]byte, error) {\n		return n.VNode.Get(ctx, key)\n	}, n.retryOptions(ctx)...)", "	attempt := func() ([]byte, error) {\n		return n.VNode.Get(ctx, key)\n	}\n	return retry.DoWithData(attempt, n.retryOptions(ctx)...)", "!retry-sibling"},
		mutation{"retry-everything", "spec/chord/retry.go", "		retry.RetryIf(ErrorIsRetryable),\n", "", "retry-options"},
		mutation{"wrong-delegate", "spec/chord/retry.go", "		return n.VNode.PrefixRemove(ctx, prefix, child)", "		return n.VNode.PrefixAppend(ctx, prefix, child)", "retry-sibling"},
		mutation{"swapped-args", "spec/chord/retry.go", "		return n.VNode.PrefixContains(ctx, prefix, child)", "		return n.VNode.PrefixContains(ctx, child, prefix)", "retry-sibling"},
		mutation{"unbounded", "spec/chord/retry.go", "		retry.Attempts(n.retryAttempts),", "		retry.Attempts(0),", "retry-options"},
		mutation{"all-errors-joined", "spec/chord/retry.go", "		retry.LastErrorOnly(true),", "		retry.LastErrorOnly(false),", "retry-options"},
	)
}

func runC14(c *Ctx) {
	p := c.P("spec/chord")
	info := p.TypesInfo
	// (a) creation sites of chord.Error
	errType := p.Types.Scope().Lookup("Error")
	if errType == nil {
		c.Failf("anchor unresolved: chord.Error")
	}
	ncreate := 0
	for _, pk := range c.All {
		for _, file := range pk.Syntax {
			if isTestFile(c.Fset, file.Pos()) {
				continue
			}
			ast.Inspect(file, func(n ast.Node) bool {
				cl, ok := n.(*ast.CompositeLit)
				if !ok {
					return true
				}
				t := typeOf(pk.TypesInfo, cl)
				if named, ok := t.(*types.Named); ok && named.Obj() == errType {
					ncreate++
					var encl string
					for _, d := range file.Decls {
						if fd, ok := d.(*ast.FuncDecl); ok && fd.Pos() <= cl.Pos() && cl.End() <= fd.End() {
							encl = fd.Name.Name
						}
					}
					c.Ob("registry", "chord.Error-created-in:"+relPkg(pk.PkgPath)+"."+encl, cl.Pos(), pk == p && encl == "errorDef", "every chord sentinel is created by errorDef (so it is registered)")
				}
				return true
			})
		}
	}
	c.Floor("chord.Error creation sites", ncreate, 1)
	ed := c.Func("spec/chord", "", "errorDef")
	// errorStrMap[str] = err unconditional; retryableErrs append iff flag
	nreg, napp := 0, 0
	ast.Inspect(ed.Body, func(n ast.Node) bool {
		as, ok := n.(*ast.AssignStmt)
		if !ok || len(as.Lhs) != 1 {
			return true
		}
		if ix, ok := as.Lhs[0].(*ast.IndexExpr); ok && ed.Prov(ix.X) == "global:spec/chord.errorStrMap" {
			nreg++
			fs := ed.FactsAt(as)
			uncond := !fs.Has(func(fa *Fact) bool { return fa.Kind == FCmp })
			okKV := ed.Prov(ix.Index) == "param#0" && strings.HasPrefix(ed.Prov(as.Rhs[0]), "&lit:Error")
			c.Ob("registry", "errorDef#registers-text", as.Pos(), uncond && okKV, "errorStrMap[text] = the new error, on every path")
		}
		if ed.Prov(as.Lhs[0]) == "global:spec/chord.retryableErrs" {
			napp++
			fs := ed.FactsAt(as)
			okCond := fs.Cmp(func(e, tag ast.Expr, truth bool, fa *Fact) bool { return truth && ed.Prov(e) == "param#1" })
			nCmp := 0
			for _, fa := range fs.Facts {
				if fa.Kind == FCmp && !fa.Sem {
					nCmp++
				}
			}
			c.Ob("registry", "errorDef#retryable-iff-flag", as.Pos(), okCond && nCmp == 1, "appended to retryableErrs exactly when the retryable flag is true")
		}
		return true
	})
	c.Floor("errorDef registry writes", nreg+napp, 2)
	// other writers of the two registries
	for _, fn := range c.AllFuncs("spec/chord") {
		if fn == ed {
			continue
		}
		ast.Inspect(fn.Body, func(n ast.Node) bool {
			if as, ok := n.(*ast.AssignStmt); ok {
				for _, l := range as.Lhs {
					pv := fn.Prov(l)
					if ix, ok := l.(*ast.IndexExpr); ok {
						pv = fn.Prov(ix.X)
					}
					if pv == "global:spec/chord.errorStrMap" || pv == "global:spec/chord.retryableErrs" {
						if fn.Decl.Name.Name != "init" {
							c.Ob("registry", "foreign-writer:"+fn.Name, as.Pos(), false, "the error registries are written only by errorDef (and package initialisation)")
						}
					}
				}
			}
			return true
		})
	}
	// distinct messages + retryable table
	msgs := map[string]string{}
	var defs []string
	for _, file := range p.Syntax {
		ast.Inspect(file, func(n ast.Node) bool {
			call, ok := n.(*ast.CallExpr)
			if !ok {
				return true
			}
			if id, ok := call.Fun.(*ast.Ident); !ok || info.ObjectOf(id) != ed.Obj || len(call.Args) != 2 {
				return true
			}
			tv, ok := info.Types[call.Args[0]]
			fl, ok2 := info.Types[call.Args[1]]
			if !ok || tv.Value == nil || !ok2 || fl.Value == nil {
				c.Ob("distinct", "errorDef#non-constant-argument", call.Pos(), false, "errorDef must be called with constant text and flag (undecided otherwise)")
				return true
			}
			m := tv.Value.ExactString()
			_, dup := msgs[m]
			c.Ob("distinct", "message:"+m, call.Pos(), !dup, "message texts are pairwise distinct (the caller recovers identity by text)")
			msgs[m] = fl.Value.ExactString()
			defs = append(defs, m)
			return true
		})
	}
	c.Floor("errorDef call sites", len(defs), 18)

	// (b) elements of the retryableErrs literal must be recoverable by text
	var retryLit, mapLit *ast.CompositeLit
	for _, file := range p.Syntax {
		for _, d := range file.Decls {
			gd, ok := d.(*ast.GenDecl)
			if !ok || gd.Tok != token.VAR {
				continue
			}
			for _, sp := range gd.Specs {
				vs := sp.(*ast.ValueSpec)
				for i, nm := range vs.Names {
					if i >= len(vs.Values) {
						continue
					}
					if cl, ok := vs.Values[i].(*ast.CompositeLit); ok {
						switch nm.Name {
						case "retryableErrs":
							retryLit = cl
						case "errorStrMap":
							mapLit = cl
						}
					}
				}
			}
		}
	}
	if retryLit == nil || mapLit == nil {
		c.Failf("anchor unresolved: retryableErrs / errorStrMap literals")
	}
	registered := map[types.Object]bool{}
	regText := map[types.Object]string{}
	for _, el := range mapLit.Elts {
		kv, ok := el.(*ast.KeyValueExpr)
		if !ok {
			continue
		}
		if o := objOfExpr(info, kv.Value); o != nil {
			registered[o] = true
			regText[o] = types.ExprString(kv.Key)
			// the key must be that error's own text
			okKey := false
			if call, ok := kv.Key.(*ast.CallExpr); ok {
				if se, ok := call.Fun.(*ast.SelectorExpr); ok && se.Sel.Name == "Error" && objOfExpr(info, se.X) == o {
					okKey = true
				}
			}
			c.Ob("registry", "errorStrMap-literal:"+o.Name(), kv.Pos(), okKey, "a literal entry maps the error's own Error() text to it")
		}
	}
	for _, fn := range c.AllFuncs("spec/chord") {
		if fn.Decl.Name.Name != "init" {
			continue
		}
		ast.Inspect(fn.Body, func(n ast.Node) bool {
			if as, ok := n.(*ast.AssignStmt); ok && len(as.Lhs) == 1 {
				if ix, ok := as.Lhs[0].(*ast.IndexExpr); ok && fn.Prov(ix.X) == "global:spec/chord.errorStrMap" {
					if o := objOfExpr(info, as.Rhs[0]); o != nil {
						if call, ok := ix.Index.(*ast.CallExpr); ok {
							if se, ok := call.Fun.(*ast.SelectorExpr); ok && se.Sel.Name == "Error" && objOfExpr(info, se.X) == o {
								registered[o] = true
							}
						}
					}
				}
			}
			return true
		})
	}
	for _, el := range retryLit.Elts {
		o := objOfExpr(info, el)
		name := types.ExprString(el)
		c.Ob("registry", "retryable-recoverable:"+name, el.Pos(), o != nil && registered[o],
			name+" is retryable where it is produced; the caller sees it only as a twirp message, so it stays retryable only if its text is registered in errorStrMap")
	}
	c.Extra("retryable_literal_elements", len(retryLit.Elts))

	// (b') ErrorMapper
	em := c.Func("spec/chord", "", "ErrorMapper")
	var lookups []ast.Node
	ast.Inspect(em.Body, func(n ast.Node) bool {
		if ix, ok := n.(*ast.IndexExpr); ok && em.Prov(ix.X) == "global:spec/chord.errorStrMap" {
			lookups = append(lookups, ix)
		}
		return true
	})
	c.Floor("ErrorMapper map lookups", len(lookups), 1)
	if len(lookups) > 0 {
		reached, exits := em.Reach(nil, func(n ast.Node) bool {
			for _, l := range lookups {
				if containsNode(n, l) {
					return true
				}
			}
			return false
		}, nil)
		_ = reached
		bad := 0
		for _, ex := range exits {
			if ex.Ret == nil {
				continue
			}
			fs := em.FactsAt(ex.Ret)
			isNilCase := fs.Cmp(func(e, tag ast.Expr, truth bool, fa *Fact) bool {
				be, ok := e.(*ast.BinaryExpr)
				return ok && truth && be.Op == token.EQL && em.Prov(be.X) == "param#0" && isNilIdent(em.Info, be.Y)
			})
			if !isNilCase {
				bad++
				c.Ob("mapper", "ErrorMapper#lookup-on-every-path", ex.Ret.Pos(), false, "a non-nil error is returned without consulting errorStrMap: its identity and retryability are lost at the caller")
			}
		}
		if bad == 0 {
			c.Ob("mapper", "ErrorMapper#lookup-on-every-path", lookups[0].Pos(), true, "every non-nil error is looked up in errorStrMap before being returned")
		}
		// nothing but the exact-key lookup turns an error into a known one: every value
		// ErrorMapper returns is its argument (unknown errors pass through unchanged and
		// stay non-retryable) or the value of an errorStrMap[key] lookup - no ranging over
		// the map, no suffix/substring matching, no re-wrapping of a sentinel
		nret := 0
		for _, r := range em.Returns() {
			if len(r.Results) != 1 {
				continue
			}
			nret++
			okSrc := true
			why := ""
			for _, alt := range splitAlts(em.Prov(r.Results[0])) {
				switch {
				case alt == "param#0":
				case strings.HasPrefix(alt, "global:spec/chord.errorStrMap["):
				case alt == "nil" && em.FactsAt(r).Equal(func(x, y ast.Expr) bool {
					return em.Prov(x) == "param#0" && isNilIdent(em.Info, y)
				}):
					// the argument is known to be nil here: `return nil` returns the argument
				default:
					okSrc = false
					why = alt
				}
			}
			c.Ob("mapper", "ErrorMapper#result-is-the-argument-or-an-exact-lookup", r.Pos(), okSrc, "the mapper returns its argument or errorStrMap[key] and nothing else (a looser match - suffix, substring, re-wrapping - makes an unknown error whose text merely resembles a known one retryable at the caller); found "+why)
		}
		c.Floor("ErrorMapper returns", nret, 1)
		var rangesMap token.Pos
		ast.Inspect(em.Body, func(n ast.Node) bool {
			if rs, ok := n.(*ast.RangeStmt); ok && em.Prov(rs.X) == "global:spec/chord.errorStrMap" {
				rangesMap = rs.Pos()
			}
			return true
		})
		c.Ob("mapper", "ErrorMapper#no-scan-of-the-table", rangesMap, !rangesMap.IsValid(), "errorStrMap is consulted by key only, never iterated to find a near match")
		// the lookup key: err.Error(), replaced by Msg() for every twirp.Error (no code filter)
		for _, l := range lookups {
			ix := l.(*ast.IndexExpr)
			pv := em.Prov(ix.Index)
			alts := strings.Split(pv, "|")
			sort.Strings(alts)
			c.Ob("mapper", "ErrorMapper#key", ix.Pos(), strings.Join(alts, "|") == "param#0.(type).Msg()|param#0.Error()" || strings.Join(alts, "|") == "param#0.Error()|param#0.Msg()#0" || keyProvOK(alts), "the key is the twirp message when the error is a twirp.Error, err.Error() otherwise; found "+pv)
		}
		ast.Inspect(em.Body, func(n ast.Node) bool {
			as, ok := n.(*ast.AssignStmt)
			if !ok || len(as.Rhs) != 1 {
				return true
			}
			call, ok := as.Rhs[0].(*ast.CallExpr)
			if !ok {
				return true
			}
			if se, ok := call.Fun.(*ast.SelectorExpr); !ok || se.Sel.Name != "Msg" {
				return true
			}
			fs := em.FactsAt(as)
			extra := 0
			for _, fa := range fs.Facts {
				if fa.Kind != FCmp || fa.Sem {
					continue
				}
				s := types.ExprString(fa.Expr)
				if fa.Tag != nil || !(s == "ok" || strings.Contains(s, "nil")) {
					extra++
				}
			}
			c.Ob("mapper", "ErrorMapper#message-of-every-twirp-error", as.Pos(), extra == 0, "the twirp message is taken for every twirp.Error, whatever its code (producers choose the code; a filter here silently drops identities)")
			return true
		})
	}

	// producers: twirp.NewError(code, err.Error()) in spec/rpc
	nnew := 0
	for _, fn := range c.AllFuncs("spec/rpc") {
		for _, call := range fn.CallsTo(true, "github.com/twitchtv/twirp.NewError") {
			nnew++
			g := fn.enclosing(call)
			pv := g.Prov(call.Args[1])
			ok := strings.HasPrefix(pv, "param#") && strings.HasSuffix(pv, ".Error()")
			c.Ob("wrap-message", fn.Name+"#twirp-message", call.Pos(), ok, "the twirp message is exactly err.Error() of the wrapped error (the only thing ErrorMapper can match); found "+pv)
		}
	}
	c.Floor("twirp.NewError sites in spec/rpc", nnew, 1)
	for _, name := range []string{"WrapError", "WrapErrorKV"} {
		fn := c.Func("spec/rpc", "", name)
		uses := fn.CallsTo(true, "spec/chord.ErrorIsRetryable")
		okSel := len(uses) >= 1
		if !okSel {
			// through a helper of the same package
			for _, call := range fn.Calls(true, func(*ast.CallExpr) bool { return true }) {
				if h := fn.helperOf(call); h != nil && h.mayPerform(func(g *Fn, cl *ast.CallExpr) bool { return g.IsCall(cl, "spec/chord.ErrorIsRetryable") }, 1) {
					okSel = true
				}
			}
		}
		c.Ob("wrap-message", name+"#code-from-retryability", fn.Decl.Pos(), okSel, "the twirp code is selected by chord.ErrorIsRetryable(err)")
	}

	// (c) RemoteNode methods
	srv := map[string]*Fn{}
	for _, fn := range c.AllFuncs("chord") {
		if recvName(fn.Decl) == "Server" {
			srv[fn.Decl.Name.Name] = fn
		}
	}
	handlerCannotFail := func(name string) bool {
		h := srv[name]
		if h == nil {
			return false
		}
		for _, r := range h.Returns() {
			if len(r.Results) == 0 || !isNilIdent(h.Info, r.Results[len(r.Results)-1]) {
				return false
			}
		}
		return true
	}
	nmapped := 0
	for _, fn := range c.AllFuncs("chord") {
		if recvName(fn.Decl) != "RemoteNode" {
			continue
		}
		for _, call := range fn.Calls(true, func(call *ast.CallExpr) bool {
			o := fn.Callee(call)
			if o == nil {
				return false
			}
			k := calleeKey(o)
			return strings.HasPrefix(k, "spec/protocol.VNodeService.") || strings.HasPrefix(k, "spec/protocol.KVService.") || strings.HasPrefix(k, "spec/rpc.ChordClient.")
		}) {
			m := call.Fun.(*ast.SelectorExpr).Sel.Name
			if handlerCannotFail(m) {
				c.Note("RemoteNode %s -> %s: handler cannot return an error, mapping not required", fn.Name, m)
				continue
			}
			// every return that yields the error of this call must map it
			for _, r := range fn.Returns() {
				if len(r.Results) == 0 {
					continue
				}
				e := ast.Unparen(r.Results[len(r.Results)-1])
				fs := fn.FactsAt(r)
				var inner ast.Expr = e
				mapped := false
				if mc, ok := e.(*ast.CallExpr); ok && fn.IsCall(mc, "spec/chord.ErrorMapper") && len(mc.Args) == 1 {
					inner, mapped = mc.Args[0], true
				}
				bc, _, bound := fs.BindingOf(inner)
				if !bound || bc != call {
					continue
				}
				nmapped++
				c.Ob("remote-mapped", fmt.Sprintf("%s#%s", fn.Name, m), r.Pos(), mapped, "an error of the chord RPC client reaches callers only through chord.ErrorMapper (otherwise errors.Is / ErrorIsRetryable fail at the caller)")
			}
		}
	}
	c.Floor("RemoteNode error returns of RPC calls", nmapped, 21)

	// (d) Server handlers
	nsrv := 0
	for name, fn := range srv {
		for _, r := range fn.Returns() {
			if len(r.Results) != 2 {
				continue
			}
			e := ast.Unparen(r.Results[1])
			if isNilIdent(fn.Info, e) {
				continue
			}
			nsrv++
			ok := false
			det := types.ExprString(e)
			switch x := e.(type) {
			case *ast.Ident:
				_, _, ok = fn.FactsAt(r).BindingOf(x)
			case *ast.CallExpr:
				if fn.IsCall(x, "spec/rpc.WrapError", "spec/rpc.WrapErrorKV") {
					arg := x.Args[len(x.Args)-1]
					_, _, ok = fn.FactsAt(r).BindingOf(arg)
				}
			}
			c.Ob("server-return", "chord.Server."+name, r.Pos(), ok, "handlers return the node's error unchanged or through rpc.WrapError/WrapErrorKV of that very error (re-wrapping changes the message the caller maps); found "+det)
		}
	}
	c.Floor("chord.Server error returns", nsrv, 24)
}

func keyProvOK(alts []string) bool {
	// srcErr = err.Error() by default, twirpErr.Msg() for twirp errors
	hasErr, hasMsg := false, false
	for _, a := range alts {
		switch {
		case a == "param#0.Error()":
			hasErr = true
		case strings.HasSuffix(a, ".Msg()"):
			hasMsg = true
		default:
			return false
		}
	}
	return hasErr && hasMsg
}

func objOfExpr(info *types.Info, e ast.Expr) types.Object {
	switch x := ast.Unparen(e).(type) {
	case *ast.Ident:
		return info.ObjectOf(x)
	case *ast.SelectorExpr:
		return info.ObjectOf(x.Sel)
	}
	return nil
}

// ---------------------------------------------------------------------------------------

func runC15(c *Ctx) {
	p := c.P("spec/chord")
	kvIface, _ := p.Types.Scope().Lookup("KV").Type().Underlying().(*types.Interface)
	if kvIface == nil {
		c.Failf("anchor unresolved: chord.KV")
	}
	overridden := map[string]*Fn{}
	for _, fn := range c.AllFuncs("spec/chord") {
		if recvName(fn.Decl) == "retryableWrapper" {
			overridden[fn.Decl.Name.Name] = fn
		}
	}
	n := 0
	for i := 0; i < kvIface.NumMethods(); i++ {
		m := kvIface.Method(i).Name()
		fn := overridden[m]
		if m == "Import" {
			c.Ob("retry-sibling", "retryableWrapper.Import-not-retried", token.NoPos, fn == nil, "listed exception: node-to-node transfer (Import) is never retried by the wrapper")
			continue
		}
		if fn == nil {
			c.Ob("retry-sibling", "retryableWrapper."+m, token.NoPos, false, "KV method not overridden by the retry wrapper: it would bypass the retry policy")
			continue
		}
		n++
		ok, det := retrySibling(fn, m)
		c.Ob("retry-sibling", "retryableWrapper."+m, fn.Decl.Pos(), ok, "retry.Do/DoWithData over a closure calling VNode."+m+" with the wrapper's own parameters in order, options from retryOptions(ctx): "+det)
	}
	c.Floor("retry wrapper KV overrides", n, 11)

	ro := c.Func("spec/chord", "retryableWrapper", "retryOptions")
	// The options every retried call runs under: every retry.X(...) call that can be an
	// element of the slice retryOptions returns - elements of a literal, arguments of append,
	// and (through a field of the wrapper) the elements given to that field wherever the
	// package builds a wrapper. Each is judged in the function it is written in.
	type optCall struct {
		g    *Fn
		call *ast.CallExpr
	}
	var opts []optCall
	seenExpr := map[ast.Expr]bool{}
	var collect func(g *Fn, e ast.Expr, depth int)
	collect = func(g *Fn, e ast.Expr, depth int) {
		e = ast.Unparen(e)
		if e == nil || seenExpr[e] || depth > 6 {
			return
		}
		seenExpr[e] = true
		switch x := e.(type) {
		case *ast.CompositeLit:
			for _, el := range x.Elts {
				if call, ok := ast.Unparen(el).(*ast.CallExpr); ok {
					opts = append(opts, optCall{g, call})
				}
			}
		case *ast.CallExpr:
			if id, ok := x.Fun.(*ast.Ident); ok && id.Name == "append" && len(x.Args) >= 1 {
				collect(g, x.Args[0], depth+1)
				for i, a := range x.Args[1:] {
					if x.Ellipsis.IsValid() && i == len(x.Args)-2 {
						collect(g, a, depth+1)
					} else if call, ok := ast.Unparen(a).(*ast.CallExpr); ok {
						opts = append(opts, optCall{g, call})
					}
				}
			}
		case *ast.Ident:
			if v := g.varOf(x); v != nil {
				for _, d := range g.defsOf(v) {
					if d.rhs != nil {
						collect(g.enclosing(d.rhs), d.rhs, depth+1)
					}
				}
			}
		case *ast.SelectorExpr:
			fk := g.FieldKey(x)
			if fk == "" {
				return
			}
			for _, fn := range c.AllFuncs("spec/chord") {
				if isTestFile(c.Fset, fn.Decl.Pos()) {
					continue
				}
				ast.Inspect(fn.Body, func(n ast.Node) bool {
					switch y := n.(type) {
					case *ast.KeyValueExpr:
						if id, ok := y.Key.(*ast.Ident); ok {
							if fv, ok := fn.Info.ObjectOf(id).(*types.Var); ok && fv.IsField() && fieldKeyOfVar(fv) == fk {
								collect(fn.enclosing(y), y.Value, depth+1)
							}
						}
					case *ast.AssignStmt:
						for i, l := range y.Lhs {
							if fn.enclosing(y).FieldKey(l) == fk && i < len(y.Rhs) {
								collect(fn.enclosing(y), y.Rhs[i], depth+1)
							}
						}
					}
					return true
				})
			}
		}
	}
	var retPos token.Pos = ro.Decl.Pos()
	for _, r := range ro.Returns() {
		if len(r.Results) == 1 {
			retPos = r.Pos()
			collect(ro, r.Results[0], 0)
		}
	}
	if len(opts) == 0 {
		c.Failf("retryOptions: no retry option could be traced into the returned slice (undecided)")
	}
	wr := c.Func("spec/chord", "", "WrapRetryKV")
	// the attempt bound is the constructor's third parameter: directly, or through a field
	// the constructor initialises with it
	isAttemptBound := func(g *Fn, e ast.Expr) bool {
		pv := g.Prov(e)
		if g == wr || g.root() == wr {
			return pv == "param#2"
		}
		if !strings.HasPrefix(pv, "recv.") {
			return false
		}
		okInit := false
		ast.Inspect(wr.Body, func(n ast.Node) bool {
			if kv, ok := n.(*ast.KeyValueExpr); ok {
				if id, ok := kv.Key.(*ast.Ident); ok && "recv."+id.Name == pv && wr.Prov(kv.Value) == "param#2" {
					okInit = true
				}
			}
			return true
		})
		return okInit
	}
	want := map[string]func(g *Fn, call *ast.CallExpr) bool{
		"Context":  func(g *Fn, call *ast.CallExpr) bool { return g == ro && g.Prov(call.Args[0]) == "param#0" },
		"Attempts": func(g *Fn, call *ast.CallExpr) bool { return isAttemptBound(g, call.Args[0]) },
		"RetryIf": func(g *Fn, call *ast.CallExpr) bool {
			return g.Prov(call.Args[0]) == "global:spec/chord.ErrorIsRetryable" || g.ObjOf(call.Args[0]) == p.Types.Scope().Lookup("ErrorIsRetryable")
		},
		"LastErrorOnly": func(g *Fn, call *ast.CallExpr) bool { v, _ := g.ConstVal(call.Args[0]); return v == "true" },
	}
	got := map[string]bool{}
	for _, oc := range opts {
		o := oc.g.Callee(oc.call)
		if o == nil || o.Pkg() == nil || o.Pkg().Path() != "github.com/avast/retry-go/v4" {
			continue
		}
		if chk, ok := want[o.Name()]; ok && len(oc.call.Args) == 1 {
			v := chk(oc.g, oc.call)
			if prev, seen := got[o.Name()]; seen {
				v = v && prev // a second, different setting of the same option is not accepted
			}
			got[o.Name()] = v
		}
	}
	for name := range want {
		v, present := got[name]
		c.Ob("retry-options", "retryOptions#"+name, retPos, present && v, "retryOptions contains retry."+name+" with the expected argument")
	}
	// production call sites
	ncs := 0
	for _, fn := range c.AllFuncs() {
		if isTestFile(c.Fset, fn.Decl.Pos()) {
			continue
		}
		for _, call := range fn.CallsTo(true, "spec/chord.WrapRetryKV") {
			ncs++
			v, ok := fn.enclosing(call).ConstVal(call.Args[2])
			c.Ob("retry-options", "WrapRetryKV-attempts@"+fn.Name, call.Pos(), ok && v != "0", "production call sites pass a positive constant attempt bound (0 would mean retry forever); found "+v)
		}
	}
	c.Floor("WrapRetryKV production call sites", ncs, 2)
	c.Assume("retry-go: RetryIf(f) retries only when f(err) is true; Attempts(n) with n>0 bounds the number of calls; LastErrorOnly(true) returns the last underlying error unwrapped")
}

func retrySibling(fn *Fn, m string) (bool, string) {
	// the one retry.Do / DoWithData call of the method
	rcalls := fn.CallsTo(false, "github.com/avast/retry-go/v4.Do", "github.com/avast/retry-go/v4.DoWithData")
	if len(rcalls) != 1 {
		return false, fmt.Sprintf("%d retry.Do/DoWithData calls", len(rcalls))
	}
	call := rcalls[0]
	// every return hands back that call's results (directly or through the variables
	// they were bound to)
	for _, ret := range fn.Returns() {
		if len(ret.Results) == 1 && ast.Unparen(ret.Results[0]) == ast.Expr(call) {
			continue
		}
		for _, res := range ret.Results {
			pv := fn.Prov(res)
			if !strings.Contains(pv, "retry-go/v4.Do()") && !strings.Contains(pv, "retry-go/v4.DoWithData()") {
				return false, "a return does not yield the result of retry.Do/DoWithData: " + pv
			}
		}
		if len(ret.Results) == 0 {
			return false, "bare return"
		}
	}
	if len(call.Args) != 2 || !call.Ellipsis.IsValid() {
		return false, "options are not retryOptions(ctx)..."
	}
	oc, ok := call.Args[1].(*ast.CallExpr)
	if !ok || !fn.IsCall(oc, "spec/chord.retryableWrapper.retryOptions") || len(oc.Args) != 1 || fn.Prov(oc.Args[0]) != "param#0" || fn.Prov(oc.Fun.(*ast.SelectorExpr).X) != "recv" {
		return false, "options are not n.retryOptions(ctx)"
	}
	// the retried function: a literal, or a local holding one literal
	// (a conversion to the function's own type around either is transparent)
	unconv := func(e ast.Expr) ast.Expr {
		e = ast.Unparen(e)
		for {
			cv, ok := e.(*ast.CallExpr)
			if !ok || len(cv.Args) != 1 {
				return e
			}
			if tv, ok := fn.Info.Types[cv.Fun]; !ok || !tv.IsType() {
				return e
			}
			e = ast.Unparen(cv.Args[0])
		}
	}
	lit, _ := unconv(call.Args[0]).(*ast.FuncLit)
	if lit == nil {
		if v := fn.varOf(unconv(call.Args[0])); v != nil {
			defs := fn.defsOf(v)
			if len(defs) == 1 && defs[0].rhs != nil {
				lit, _ = unconv(defs[0].rhs).(*ast.FuncLit)
			}
		}
	}
	if lit == nil {
		return false, "retried function is not a function literal"
	}
	g := fn.Closure(lit)
	var inner []*ast.CallExpr
	for _, ic := range g.Calls(false, func(ic *ast.CallExpr) bool {
		se, ok := ic.Fun.(*ast.SelectorExpr)
		return ok && g.Prov(se.X) == "recv.VNode"
	}) {
		inner = append(inner, ic)
	}
	if len(inner) != 1 {
		return false, fmt.Sprintf("the closure makes %d calls on the wrapped VNode", len(inner))
	}
	ic := inner[0]
	se := ic.Fun.(*ast.SelectorExpr)
	if se.Sel.Name != m {
		return false, "closure calls a different method: " + types.ExprString(ic.Fun)
	}
	for _, r := range g.Returns() {
		if len(r.Results) == 1 && ast.Unparen(r.Results[0]) == ast.Expr(ic) {
			continue
		}
		if len(r.Results) == 0 {
			return false, "closure has a bare return"
		}
		for _, res := range r.Results {
			if !strings.Contains(g.Prov(res), "."+m+"()") {
				return false, "closure returns something else than the call's results: " + g.Prov(res)
			}
		}
	}
	np := 0
	for _, fld := range fn.Type.Params.List {
		np += len(fld.Names)
	}
	if len(ic.Args) != np {
		return false, "argument count differs"
	}
	for i, a := range ic.Args {
		if g.Prov(a) != fmt.Sprintf("param#%d", i) {
			return false, fmt.Sprintf("argument %d is %s", i, g.Prov(a))
		}
	}
	return true, "ok"
}

// splitAlts splits a provenance string at its top-level "|" (alternatives inside an index
// or call argument list stay together).
func splitAlts(pv string) []string {
	var out []string
	depth, start := 0, 0
	for i, r := range pv {
		switch r {
		case '[', '(':
			depth++
		case ']', ')':
			depth--
		case '|':
			if depth == 0 {
				out = append(out, pv[start:i])
				start = i + 1
			}
		}
	}
	return append(out, pv[start:])
}

// fieldKeyOfVar renders a struct field as FieldKey does ("pkg.Type.field"), from the field
// object alone.
func fieldKeyOfVar(fv *types.Var) string {
	if fv.Pkg() == nil {
		return ""
	}
	sc := fv.Pkg().Scope()
	for _, nm := range sc.Names() {
		tn, ok := sc.Lookup(nm).(*types.TypeName)
		if !ok {
			continue
		}
		st, ok := tn.Type().Underlying().(*types.Struct)
		if !ok {
			continue
		}
		for i := 0; i < st.NumFields(); i++ {
			if st.Field(i) == fv {
				return relPkg(fv.Pkg().Path()) + "." + tn.Name() + "." + fv.Name()
			}
		}
	}
	return ""
}
