package main

import (
	"fmt"
	"go/ast"
	"go/token"
	"go/types"
	"math/big"
	"regexp"
	"sort"
	"strings"
)

func init() {
	register(&propDef{ID: "C16", Level: "other",
		Decides:    "contract-table agreement between the three backends: per KVProvider method the set of chord sentinels a backend can return is inside the contract's set and contains the sentinels the contract requires (PrefixAppend -> ErrKVPrefixConflict, Acquire -> InvalidTTL+LeaseConflict, Renew -> InvalidTTL+LeaseExpired, Release -> LeaseExpired, PrefixRemove idempotent: none); the AOF store's reads are pure delegations, each AOF mutator logs the mutation type whose handleMutation case calls the same-named memory method with the same fields, and the switch covers every MutationType; the simple and prefix keyspaces use disjoint fields/tables; all predicates deciding 'this key holds a simple value' agree.",
		NotDecided: "the values operations return.",
		Run:        runC16})
	register(&propDef{ID: "C17", Level: "other",
		Decides:    "range selection is exactly the circular interval (low, high] in both backends: the prepared statement sqlite's RangeKeys runs (found by executing the function up to the query call, with the statement fields as distinct opaque values) and its bound arguments are evaluated for every order type of (low, hash, high) and must equal Between(low,hash,high,true); memory filters buckets by that Between test and by nothing else (no other id filter, no early stop); RemoveKeys deletes from every table the migrations create, Export reads and Import writes all three data kinds plus the tracker; sqlite's Import checks len(keys)==len(values) before indexing.",
		NotDecided: "round-trip equality of the values moved.",
		Run:        runC17})
	register(&propDef{ID: "C18", Level: "other",
		Decides:    "the synchronisation discipline: memory - kvValue holds only atomics / concurrent sets, every update of simple/lease is a CompareAndSwap from the value loaded in the same function (Store only in Import and the constructor); AOF - single writer: mutating memory methods are called only from handleMutation, which is called only from Start and replayLogs, the inner store never escapes, counter/log writes happen only in appendLog/rollbackOne/replayLogs, client calls enqueue under writeBarrier.RLock and Stop takes the write lock; sqlite - every Exec on a writer statement runs inside a withWriteTx(ctx, s.writer, ...) closure, the writer pool is capped at one connection, the DSN has _txlock=immediate, reader statements are SELECTs.",
		NotDecided: "linearizability of operation histories.",
		Run:        runC18})
	register(&propDef{ID: "C19", Level: "other",
		Decides:    "lease guard structure in every backend: durationGuard accepts exactly ttl >= 1s (evaluated on boundary durations) and its pass edge cuts every state access of Acquire and Renew; memory: acquisition compares the stored expiry with now before a CAS from the loaded value, renewal tests zero/expiry/token before a CAS from the loaded value, release is a CAS from the presented token to 0; sqlite: the WHERE clauses of leaseAcquire/leaseRenew/leaseRelease, evaluated over all order types of (stored token, presented token, now), grant exactly when the lease is free-or-expired / current-and-unexpired-and-owned / owned, with the bound arguments in the right positions, and zero affected rows map to the documented sentinel; the value 0 is the free marker in every backend, so a presented token of 0 is refused.",
		NotDecided: "behaviour over real time (clock reads are opaque).",
		Run:        runC19})

	addSelfTests("C16",
		mutation{"memory-listing-stops-at-placeholder", "kv/memory/kv.go", "			if !strings.HasPrefix(key, string(prefix)) {\n				return true\n			}", "			if !strings.HasPrefix(key, string(prefix)) {\n				return true\n			}\n			if v.isDeleted() {\n				return false\n			}", "listing"},
		mutation{"aof-put-swallows-writer-error", "kv/aof/mutation.go", "func (d *DiskKV) Put(ctx context.Context, key []byte, value []byte) error {\n	return d.mutationHandler(func(mut *proto.Mutation) {\n		mut.Type = proto.MutationType_SIMPLE_PUT\n		mut.Key = key\n		mut.Value = value\n	})\n}", "func (d *DiskKV) Put(ctx context.Context, key []byte, value []byte) error {\n	d.mutationHandler(func(mut *proto.Mutation) {\n		mut.Type = proto.MutationType_SIMPLE_PUT\n		mut.Key = key\n		mut.Value = value\n	})\n	return nil\n}", "aof-writer-verdict"},
		mutation{"aof-wrong-case", "kv/aof/mutation.go", "		err = d.memKv.PrefixRemove(context.Background(), mut.GetKey(), mut.GetValue())", "		err = d.memKv.PrefixAppend(context.Background(), mut.GetKey(), mut.GetValue())", "aof-dispatch"},
		mutation{"aof-wrong-type", "kv/aof/mutation.go", "		mut.Type = proto.MutationType_SIMPLE_DELETE\n", "		mut.Type = proto.MutationType_SIMPLE_PUT\n", "aof-logged-type"},
		mutation{"sqlite-prefixremove-conflict", "kv/sqlite3/prefix.go", "		_, err := tx.StmtContext(ctx, s.stmts.prefixRemove).Exec(prefix, child)\n		if err != nil {\n			return err\n		}", "		res, err := tx.StmtContext(ctx, s.stmts.prefixRemove).Exec(prefix, child)\n		if err != nil {\n			return err\n		}\n		if n, _ := res.RowsAffected(); n == 0 {\n			return chord.ErrKVPrefixConflict\n		}", "contract"},
		mutation{"memory-append-silent", "kv/memory/prefix.go", "	if !v.children.Add(string(child)) {\n		return chord.ErrKVPrefixConflict\n	}\n", "	v.children.Add(string(child))\n", "contract"},
		mutation{"aof-read-not-delegated", "kv/aof/read_only.go", "	return d.memKv.PrefixContains(ctx, prefix, child)", "	return d.memKv.PrefixContains(ctx, child, prefix)", "aof-delegation"},
	)
	mutExtra["removekeys-table-driven"] = [2]string{"func (s *SqliteKV) RemoveKeys(", "var removeKeysTargets = []struct{ table, column string }{\n	{\"simple_entries\", \"key\"},\n	{\"prefix_entries\", \"prefix\"},\n	{\"lease_entries\", \"owner\"},\n	{\"key_trackers\", \"key\"},\n}\n\nfunc (s *SqliteKV) RemoveKeys("}
	mutExtra["removekeys-table-driven-wrong-column"] = [2]string{"func (s *SqliteKV) RemoveKeys(", "var removeKeysTargetsBad = []struct{ table, column string }{\n	{\"simple_entries\", \"key\"},\n	{\"prefix_entries\", \"child\"},\n	{\"lease_entries\", \"owner\"},\n	{\"key_trackers\", \"key\"},\n}\n\nfunc (s *SqliteKV) RemoveKeys("}
	mutExtra["list-scan-target-hoisted-fatal-errors"] = [2]string{"			for prefixRows.Next() {", "			var child []byte\n			for prefixRows.Next() {"}
	addSelfTests("C17",
		mutation{"list-scan-target-hoisted-fatal-errors", "kv/sqlite3/provider.go", "				var child []byte\n				if err := prefixRows.Scan(&child); err != nil {\n					prefixRows.Close()", "				if err := prefixRows.Scan(&child); err != nil {\n					prefixRows.Close()", "!export-fresh"},
		mutation{"rangekeys-ignores-iteration-error", "kv/sqlite3/provider.go", "	return keys, rows.Err()", "	return keys, nil", "rows-complete"},
		mutation{"removekeys-table-driven", "kv/sqlite3/provider.go", "			if _, err := tx.Exec(\"DELETE FROM `simple_entries` WHERE `key` IN (\"+ph+\")\", args...); err != nil {\n				return err\n			}\n			if _, err := tx.Exec(\"DELETE FROM `prefix_entries` WHERE `prefix` IN (\"+ph+\")\", args...); err != nil {\n				return err\n			}\n			if _, err := tx.Exec(\"DELETE FROM `lease_entries` WHERE `owner` IN (\"+ph+\")\", args...); err != nil {\n				return err\n			}\n			if _, err := tx.Exec(\"DELETE FROM `key_trackers` WHERE `key` IN (\"+ph+\")\", args...); err != nil {\n				return err\n			}", "			for _, target := range removeKeysTargets {\n				query := \"DELETE FROM `\" + target.table + \"` WHERE `\" + target.column + \"` IN (\" + ph + \")\"\n				if _, err := tx.Exec(query, args...); err != nil {\n					return err\n				}\n			}", "!table-coverage"},
		mutation{"removekeys-table-driven-wrong-column", "kv/sqlite3/provider.go", "			if _, err := tx.Exec(\"DELETE FROM `simple_entries` WHERE `key` IN (\"+ph+\")\", args...); err != nil {\n				return err\n			}\n			if _, err := tx.Exec(\"DELETE FROM `prefix_entries` WHERE `prefix` IN (\"+ph+\")\", args...); err != nil {\n				return err\n			}\n			if _, err := tx.Exec(\"DELETE FROM `lease_entries` WHERE `owner` IN (\"+ph+\")\", args...); err != nil {\n				return err\n			}\n			if _, err := tx.Exec(\"DELETE FROM `key_trackers` WHERE `key` IN (\"+ph+\")\", args...); err != nil {\n				return err\n			}", "			for _, target := range removeKeysTargetsBad {\n				query := \"DELETE FROM `\" + target.table + \"` WHERE `\" + target.column + \"` IN (\" + ph + \")\"\n				if _, err := tx.Exec(query, args...); err != nil {\n					return err\n				}\n			}", "table-coverage"},
		mutation{"removekeys-prefix-by-child", "kv/sqlite3/provider.go", "DELETE FROM `prefix_entries` WHERE `prefix` IN (", "DELETE FROM `prefix_entries` WHERE `child` IN (", "table-coverage"},
		mutation{"export-scan-targets-hoisted", "kv/sqlite3/provider.go", "		for i, key := range keys {\n			var (\n				simpleValue []byte\n				prefix      [][]byte\n				leaseToken  int64\n			)\n", "		var (\n			simpleValue []byte\n			prefix      [][]byte\n			leaseToken  int64\n		)\n		for i, key := range keys {\n			prefix = nil\n", "export-fresh"},
		mutation{"sqlite-norm-closed-low", "kv/sqlite3/queries.go", "WHERE (`hash` > ? AND `hash` < ?) OR `hash` = ? ORDER BY", "WHERE (`hash` >= ? AND `hash` < ?) OR `hash` = ? ORDER BY", "sql-range"},
		mutation{"sqlite-choice-geq", "kv/sqlite3/provider.go", "	if high > low {\n		stmt = s.stmts.rangeKeysNorm", "	if high >= low {\n		stmt = s.stmts.rangeKeysNorm", "sql-range"},
		mutation{"sqlite-args-swapped", "kv/sqlite3/provider.go", "	args = []any{lowI, highI, highI}", "	args = []any{lowI, highI, lowI}", "sql-range"},
		mutation{"memory-open-range", "kv/memory/kv.go", "		if chord.Between(low, id, high, true) {", "		if chord.Between(low, id, high, false) {", "interval"},
		mutation{"memory-early-stop", "kv/memory/kv.go", "		if chord.Between(low, id, high, true) {", "		if high > low && id >= high {\n			return false\n		}\n		if chord.Between(low, id, high, true) {", "range-filter"},
		mutation{"remove-misses-lease", "kv/sqlite3/provider.go", "			if _, err := tx.Exec(\"DELETE FROM `lease_entries` WHERE `owner` IN (\"+ph+\")\", args...); err != nil {\n				return err\n			}\n", "", "table-coverage"},
		mutation{"import-unchecked-length", "kv/sqlite3/provider.go", "	if len(keys) != len(values) {\n		return fmt.Errorf(\"keys and values length mismatch: %d != %d\", len(keys), len(values))\n	}\n", "	_ = fmt.Errorf\n", "import-length"},
	)
	addSelfTests("C18",
		mutation{"acquire-reloads-before-cas", "kv/memory/lease.go", "	next := uint64(ref.Add(ttl).UnixNano())\n	if !v.lease.CompareAndSwap(curr, next) {\n		return 0, chord.ErrKVLeaseConflict\n	}\n	return next, nil", "	next := uint64(ref.Add(ttl).UnixNano())\n	if curr != 0 {\n		curr = v.lease.Load()\n	}\n	if !v.lease.CompareAndSwap(curr, next) {\n		return 0, chord.ErrKVLeaseConflict\n	}\n	return next, nil", "memory-cas"},
		mutation{"put-blind-store", "kv/memory/simple.go", "	curr := v.simple.Load()\n	if !v.simple.CompareAndSwap(curr, &value) {\n		return chord.ErrKVSimpleConflict\n	}\n	return nil\n}\n\nfunc (m *MemoryKV) Get", "	v.simple.Store(&value)\n	_ = chord.ErrKVSimpleConflict\n	return nil\n}\n\nfunc (m *MemoryKV) Get", "memory-cas"},
		mutation{"aof-direct-write", "kv/aof/mutation.go", "func (d *DiskKV) RemoveKeys(ctx context.Context, keys [][]byte) error {\n	d.mutationHandler(func(mut *proto.Mutation) {\n		mut.Type = proto.MutationType_REMOVE_KEYS\n		mut.Keys = keys\n	})\n	return nil", "func (d *DiskKV) RemoveKeys(ctx context.Context, keys [][]byte) error {\n	d.mutationHandler(func(mut *proto.Mutation) {\n		mut.Type = proto.MutationType_REMOVE_KEYS\n		mut.Keys = keys\n	})\n	return d.memKv.RemoveKeys(ctx, keys)", "aof-single-writer"},
		mutation{"sqlite-write-outside-tx", "kv/sqlite3/simple.go", "	return withWriteTx(ctx, s.writer, func(tx *sql.Tx) error {\n		_, err := tx.StmtContext(ctx, s.stmts.simpleDel).Exec(key)\n		if err != nil {\n			return err\n		}\n		return s.updateKeyTracker(ctx, tx, key, 0, SimpleFlag)\n	})", "	if _, err := s.stmts.simpleDel.ExecContext(ctx, key); err != nil {\n		return err\n	}\n	return withWriteTx(ctx, s.writer, func(tx *sql.Tx) error {\n		return s.updateKeyTracker(ctx, tx, key, 0, SimpleFlag)\n	})", "sqlite-writer-tx"},
		mutation{"sqlite-two-writers", "kv/sqlite3/kv.go", "	writer.SetMaxOpenConns(1)", "	writer.SetMaxOpenConns(2)", "sqlite-single-writer"},
		mutation{"aof-enqueue-without-barrier", "kv/aof/mutation.go", "	d.writeBarrier.RLock()\n	defer d.writeBarrier.RUnlock()\n	if d.closed.Load() {", "	if d.closed.Load() {", "aof-barrier"},
	)
	addSelfTests("C19",
		mutation{"renew-clock-before-tx", "kv/sqlite3/lease.go", "	var next uint64\n	err := withWriteTx(ctx, s.writer, func(tx *sql.Tx) error {\n		now := time.Now()\n		next = uint64(time.Now().Add(ttl).UnixNano())\n", "	now := time.Now()\n	next := uint64(now.Add(ttl).UnixNano())\n	err := withWriteTx(ctx, s.writer, func(tx *sql.Tx) error {\n", "sql-lease"},
		mutation{"lease-only-keys-not-transferred", "kv/memory/kv.go", "	deleted := (plain == nil) && (children == 0) && (token == 0)", "	deleted := (plain == nil) && (children == 0)\n	_ = token", "lease-transfer"},
		mutation{"guard-accepts-subsecond", "kv/memory/lease.go", "	if td < time.Second {\n		return 0, false\n	}", "	if td < 0 {\n		return 0, false\n	}", "ttl-guard"},
		mutation{"acquire-no-expiry-check", "kv/memory/lease.go", "	if curr > uint64(ref.UnixNano()) {\n		return 0, chord.ErrKVLeaseConflict\n	}\n", "", "memory-lease"},
		mutation{"renew-ignores-token", "kv/memory/lease.go", "	if curr != prevToken {\n		return 0, chord.ErrKVLeaseExpired\n	}\n", "", "memory-lease"},
		mutation{"sql-acquire-steals", "kv/sqlite3/queries.go", "		\"WHERE `token` <= ?\"", "		\"WHERE `token` >= ?\"", "sql-lease"},
		mutation{"sql-renew-expired-ok", "kv/sqlite3/queries.go", "WHERE `owner` = ? AND `token` = ? AND `token` > ?\"", "WHERE `owner` = ? AND `token` = ? AND `token` <> ?\"", "sql-lease"},
		mutation{"sql-renew-args-swapped", "kv/sqlite3/lease.go", "			bindUint64AsInt64(next),\n			lease,\n			bindUint64AsInt64(prevToken),\n			bindUint64AsInt64(uint64(now.UnixNano())),", "			bindUint64AsInt64(next),\n			lease,\n			bindUint64AsInt64(uint64(now.UnixNano())),\n			bindUint64AsInt64(prevToken),", "sql-lease"},
		mutation{"sqlite-release-ignores-rows", "kv/sqlite3/lease.go", "		if n == 0 {\n			return chord.ErrKVLeaseExpired\n		}\n		return s.updateKeyTracker(ctx, tx, lease, 0, LeaseFlag)", "		_ = n\n		return s.updateKeyTracker(ctx, tx, lease, 0, LeaseFlag)", "sql-lease"},
	)
}

type backend struct {
	name, pkg, recv string
}

var backends = []backend{{"memory", "kv/memory", "MemoryKV"}, {"aof", "kv/aof", "DiskKV"}, {"sqlite", "kv/sqlite3", "SqliteKV"}}

// scanCompleteRule: the memory backend enumerates its buckets, keys and prefix children with
// Range(callback); a callback that returns false stops the WHOLE enumeration, so whatever
// sorts after the entry it was looking at silently disappears from listings, range
// selections and exports. Every such callback returns the constant true on every path.
func scanCompleteRule(c *Ctx, rule string) {
	n := 0
	for _, fn := range c.AllFuncs("kv/memory") {
		for _, call := range fn.Calls(true, func(call *ast.CallExpr) bool {
			se, ok := call.Fun.(*ast.SelectorExpr)
			return ok && se.Sel.Name == "Range" && len(call.Args) == 1
		}) {
			lit, ok := call.Args[0].(*ast.FuncLit)
			if !ok {
				continue
			}
			g := fn.enclosing(call).Closure(lit)
			for _, r := range g.Returns() {
				if len(r.Results) != 1 {
					continue
				}
				n++
				v, _ := g.ConstVal(r.Results[0])
				c.Ob(rule, "memory."+strings.TrimPrefix(strings.TrimPrefix(fn.root().Name, "kv/memory."), "(MemoryKV).")+"#scan-callback-continues", r.Pos(), v == "true", "an enumeration callback always returns true: returning false ends the enumeration of the bucket (or of all buckets), dropping every later entry from the result")
			}
		}
	}
	c.Floor("memory enumeration callback returns", n, 6)
}

func runC16(c *Ctx) {
	trackerDropAfterCount(c, "listing")
	scanCompleteRule(c, "listing")
	rowsCompleteRule(c, "listing")
	// contract: allowed ⊇ returned ⊇ required
	allowed := map[string][]string{
		"Put": {"ErrKVSimpleConflict"}, "Delete": {"ErrKVSimpleConflict"}, "Get": {},
		"PrefixAppend": {"ErrKVPrefixConflict"}, "PrefixList": {}, "PrefixContains": {}, "PrefixRemove": {},
		"Acquire": {"ErrKVLeaseInvalidTTL", "ErrKVLeaseConflict"}, "Renew": {"ErrKVLeaseInvalidTTL", "ErrKVLeaseExpired"}, "Release": {"ErrKVLeaseExpired"},
		"Import": {}, "ListKeys": {}, "Export": {}, "RangeKeys": {}, "RemoveKeys": {},
	}
	required := map[string][]string{
		"PrefixAppend": {"ErrKVPrefixConflict"}, "Acquire": {"ErrKVLeaseInvalidTTL", "ErrKVLeaseConflict"},
		"Renew": {"ErrKVLeaseInvalidTTL", "ErrKVLeaseExpired"}, "Release": {"ErrKVLeaseExpired"},
	}
	nm := 0
	for _, b := range backends {
		if b.name == "aof" {
			continue // decided by delegation below
		}
		for m, al := range allowed {
			fn := c.FuncOpt(b.pkg, b.recv, m)
			if fn == nil {
				c.Ob("contract", b.name+"."+m, token.NoPos, false, "KVProvider method missing")
				continue
			}
			nm++
			got := map[string]bool{}
			sentinelsOf(c, fn, 0, map[*Fn]bool{}, got)
			// sqlite's tracker refuses when the hash function changed: allowed for every sqlite mutator
			if b.name == "sqlite" {
				delete(got, "ErrKVHashFnChanged")
			}
			bad := []string{}
			for s := range got {
				ok := false
				for _, a := range al {
					if a == s {
						ok = true
					}
				}
				if !ok {
					bad = append(bad, s)
				}
			}
			miss := []string{}
			for _, r := range required[m] {
				if !got[r] {
					miss = append(miss, r)
				}
			}
			sort.Strings(bad)
			c.Ob("contract", b.name+"."+m, fn.Decl.Pos(), len(bad) == 0 && len(miss) == 0,
				fmt.Sprintf("sentinels returnable %s; outside the contract %v; required by the contract but never returned %v", setStr(got), bad, miss))
		}
	}
	c.Floor("backend methods checked against the contract", nm, 30)

	// AOF: reads are delegations
	for _, m := range append(append([]string{}, kvReaders...), "Acquire", "Renew", "Release") {
		fn := c.FuncOpt("kv/aof", "DiskKV", m)
		if fn == nil {
			c.Ob("aof-delegation", "aof."+m, token.NoPos, false, "method missing")
			continue
		}
		ok, det := pureDelegation(fn, "recv.memKv", m)
		c.Ob("aof-delegation", "aof."+m, fn.Decl.Pos(), ok, "pure delegation to the in-memory store with the same arguments in order: "+det)
	}
	// AOF: handleMutation dispatch table
	hm := c.Func("kv/aof", "DiskKV", "handleMutation")
	wantCase := map[string][]string{
		"MutationType_SIMPLE_PUT":    {"Put", "GetKey", "GetValue"},
		"MutationType_SIMPLE_DELETE": {"Delete", "GetKey"},
		"MutationType_PREFIX_APPEND": {"PrefixAppend", "GetKey", "GetValue"},
		"MutationType_PREFIX_REMOVE": {"PrefixRemove", "GetKey", "GetValue"},
		"MutationType_IMPORT":        {"Import", "GetKeys", "GetValues"},
		"MutationType_REMOVE_KEYS":   {"RemoveKeys", "GetKeys"},
	}
	seenCase := map[string]bool{}
	isType := func(e ast.Expr) bool { return hm.Prov(e) == "param#0.GetType()" }
	for _, cl := range hm.Calls(false, func(cl *ast.CallExpr) bool {
		se, ok := cl.Fun.(*ast.SelectorExpr)
		return ok && hm.Prov(se.X) == "recv.memKv"
	}) {
		pos, _ := hm.FactsAt(cl).EqConsts(hm, isType)
		name := ""
		if len(pos) == 1 {
			name = pos[0]
		}
		w, known := wantCase[name]
		ok := known
		det := ""
		if known {
			seenCase[name] = true
			if cl.Fun.(*ast.SelectorExpr).Sel.Name != w[0] {
				ok = false
				det = "calls " + cl.Fun.(*ast.SelectorExpr).Sel.Name
			}
			if len(cl.Args) != len(w) {
				ok = false
			} else {
				for i := 1; i < len(w); i++ {
					if hm.Prov(cl.Args[i]) != "param#0."+w[i]+"()" {
						ok = false
						det += fmt.Sprintf(" arg %d is %s", i, hm.Prov(cl.Args[i]))
					}
				}
			}
		} else {
			det = fmt.Sprintf("the call is not under exactly one mutation type (types known here: %v)", pos)
		}
		c.Ob("aof-dispatch", "handleMutation#"+name+"->"+cl.Fun.(*ast.SelectorExpr).Sel.Name, cl.Pos(), ok, "each logged mutation type is applied by the same-named memory method on the mutation's own fields (switch or if-chain): "+det)
	}
	// exhaustiveness over the enum
	pp := c.P("kv/aof/proto").Types.Scope()
	nenum := 0
	for _, nme := range pp.Names() {
		if k, ok := pp.Lookup(nme).(*types.Const); ok && strings.HasPrefix(nme, "MutationType_") && nme != "MutationType_UNKNOWN_TYPE" {
			if named, ok := k.Type().(*types.Named); ok && named.Obj().Name() == "MutationType" {
				nenum++
				c.Ob("aof-dispatch", "handleMutation#covers-"+nme, hm.Decl.Pos(), seenCase[nme], "every MutationType has a case (a logged mutation of an unhandled type would be silently dropped on replay)")
			}
		}
	}
	c.Floor("MutationType values", nenum, 6)
	// AOF mutators log the matching type with their own parameters
	wantMut := map[string]struct {
		typ    string
		fields map[string]string
	}{
		"Put":          {"MutationType_SIMPLE_PUT", map[string]string{"Key": "param#1", "Value": "param#2"}},
		"Delete":       {"MutationType_SIMPLE_DELETE", map[string]string{"Key": "param#1"}},
		"PrefixAppend": {"MutationType_PREFIX_APPEND", map[string]string{"Key": "param#1", "Value": "param#2"}},
		"PrefixRemove": {"MutationType_PREFIX_REMOVE", map[string]string{"Key": "param#1", "Value": "param#2"}},
		"Import":       {"MutationType_IMPORT", map[string]string{"Keys": "param#1", "Values": "param#2"}},
		"RemoveKeys":   {"MutationType_REMOVE_KEYS", map[string]string{"Keys": "param#1"}},
	}
	for m, w := range wantMut {
		fn := c.FuncOpt("kv/aof", "DiskKV", m)
		if fn == nil {
			c.Ob("aof-logged-type", "aof."+m, token.NoPos, false, "method missing")
			continue
		}
		calls := fn.CallsTo(false, "kv/aof.DiskKV.mutationHandler")
		ok := len(calls) == 1
		det := ""
		if ok {
			lit, isLit := calls[0].Args[0].(*ast.FuncLit)
			if !isLit {
				ok = false
			} else {
				g := fn.Closure(lit)
				got := map[string]string{}
				typ := ""
				ast.Inspect(lit.Body, func(n ast.Node) bool {
					if as, ok := n.(*ast.AssignStmt); ok && len(as.Lhs) == 1 {
						if se, ok := as.Lhs[0].(*ast.SelectorExpr); ok && g.Prov(se.X) == "lit.param#0" {
							if se.Sel.Name == "Type" {
								typ = constName(g, as.Rhs[0])
							} else {
								got[se.Sel.Name] = g.Prov(as.Rhs[0])
							}
						}
					}
					return true
				})
				if typ != w.typ {
					ok = false
					det = "logs type " + typ
				}
				if len(got) != len(w.fields) {
					ok = false
				}
				for k, v := range w.fields {
					if got[k] != v {
						ok = false
						det += fmt.Sprintf(" field %s <- %s", k, got[k])
					}
				}
			}
		}
		c.Ob("aof-logged-type", "aof."+m, fn.Decl.Pos(), ok, "logs "+w.typ+" with its own parameters: "+det)
		// the writer's verdict (closed store, failed log append, rejected mutation)
		// reaches the caller: every return of the method yields the error of its
		// mutationHandler call (sibling agreement over the six mutating methods)
		if m == "RemoveKeys" {
			// listed exception: RemoveKeys is fire-and-forget in this backend by the project's
			// own contract - kv/aof TestEverything asserts RemoveKeys returns nil on a closed
			// store ("no-op"), and the only caller (the hand-off) merely logs its error
			c.Note("aof.RemoveKeys drops its writer's error by design (TestEverything asserts nil after Stop); not armed")
		} else if len(calls) == 1 {
			verdict := true
			for _, r := range fn.Returns() {
				if len(r.Results) == 0 {
					continue
				}
				last := r.Results[len(r.Results)-1]
				if ast.Unparen(last) != ast.Expr(calls[0]) && !strings.HasSuffix(fn.Prov(last), "mutationHandler()") && !strings.HasSuffix(fn.Prov(last), "mutationHandler()#0") {
					verdict = false
				}
			}
			c.Ob("aof-writer-verdict", "aof."+m+"#returns-the-writer's-error", fn.Decl.Pos(), verdict, "the method returns what the single writer answered: a mutation that was not logged/applied (store closed, log write failed, rejected) is not reported as success")
		}
	}

	memoryWriteEffects(c, "keyspace-independence")

	// presence predicate agreement (memory)
	kinds := map[string][]token.Pos{}
	for _, fn := range c.AllFuncs("kv/memory") {
		ast.Inspect(fn.Body, func(n ast.Node) bool {
			be, ok := n.(*ast.BinaryExpr)
			if !ok {
				return true
			}
			g := fn.enclosing(be)
			isSimple := func(e ast.Expr) bool {
				pv := g.Prov(e)
				return strings.Contains(pv, ".simple.Load()")
			}
			switch {
			case (be.Op == token.EQL || be.Op == token.NEQ) && isSimple(be.X) && isNilIdent(g.Info, be.Y):
				kinds["nil-test"] = append(kinds["nil-test"], be.Pos())
			case isLenOf(g, be.X, isSimple):
				kinds["len-test"] = append(kinds["len-test"], be.Pos())
			}
			return true
		})
	}
	npred := len(kinds["nil-test"]) + len(kinds["len-test"])
	c.Floor("simple-value presence predicates in kv/memory", npred, 2)
	agree := len(kinds["nil-test"]) == 0 || len(kinds["len-test"]) == 0
	var pos token.Pos
	if len(kinds["nil-test"]) > 0 {
		pos = kinds["nil-test"][0]
	}
	c.Ob("presence-predicate", "kv/memory#simple-value-present", pos, agree,
		fmt.Sprintf("every place deciding 'this key holds a simple value' must use one predicate; found %d nil-tests (isDeleted -> RangeKeys) and %d length-tests (ListKeys); sqlite's SimpleFlag means 'row exists'. Put(k, []byte{}) is then listed by RangeKeys but not as SIMPLE by memory ListKeys, and as SIMPLE by sqlite", len(kinds["nil-test"]), len(kinds["len-test"])))
}

func isLenOf(g *Fn, e ast.Expr, pred func(ast.Expr) bool) bool {
	call, ok := ast.Unparen(e).(*ast.CallExpr)
	if !ok || len(call.Args) != 1 {
		return false
	}
	id, ok := call.Fun.(*ast.Ident)
	return ok && id.Name == "len" && pred(call.Args[0])
}

// pureDelegation: fn's body is `return <target>.<method>(params in order)`.
func pureDelegation(fn *Fn, target, method string) (bool, string) {
	if len(fn.Body.List) != 1 {
		return false, "body is not a single return"
	}
	r, ok := fn.Body.List[0].(*ast.ReturnStmt)
	if !ok || len(r.Results) != 1 {
		return false, "body is not a single return"
	}
	call, ok := r.Results[0].(*ast.CallExpr)
	if !ok {
		return false, "does not return a call"
	}
	se, ok := call.Fun.(*ast.SelectorExpr)
	if !ok || se.Sel.Name != method || fn.Prov(se.X) != target {
		return false, "calls " + types.ExprString(call.Fun)
	}
	np := 0
	for _, f := range fn.Type.Params.List {
		np += len(f.Names)
	}
	if len(call.Args) != np {
		return false, "argument count"
	}
	for i, a := range call.Args {
		if fn.Prov(a) != fmt.Sprintf("param#%d", i) {
			return false, fmt.Sprintf("argument %d is %s", i, fn.Prov(a))
		}
	}
	return true, "ok"
}

// ---------------------------------------------------------------------------------------

// freshScanTargets: database/sql leaves a Scan destination untouched when the query has no
// row (sql.ErrNoRows), and the export/list loops tolerate that error for "this key has no
// such data". A destination that outlives one loop iteration then still holds the previous
// key's value. Every &v handed to Scan inside a loop is declared inside that loop's body.
func freshScanTargets(c *Ctx, rule string) {
	n, nsite := 0, 0
	for _, fn := range c.AllFuncs("kv/sqlite3") {
		var stack []ast.Node
		ast.Inspect(fn.Body, func(m ast.Node) bool {
			if m == nil {
				stack = stack[:len(stack)-1]
				return true
			}
			stack = append(stack, m)
			call, ok := m.(*ast.CallExpr)
			if !ok {
				return true
			}
			se, ok := call.Fun.(*ast.SelectorExpr)
			if !ok || se.Sel.Name != "Scan" {
				return true
			}
			g := fn.enclosing(call)
			if k := g.CallKey(call); !strings.HasPrefix(k, "database/sql.") {
				return true
			}
			// innermost enclosing loop within the same function literal
			var body *ast.BlockStmt
			for i := len(stack) - 2; i >= 0 && body == nil; i-- {
				switch l := stack[i].(type) {
				case *ast.ForStmt:
					body = l.Body
				case *ast.RangeStmt:
					body = l.Body
				case *ast.FuncLit:
					i = -1
				}
			}
			if body == nil {
				return true
			}
			// is a failed Scan tolerated? (its error is compared with sql.ErrNoRows, or not
			// kept at all); a Scan whose every error ends the function always overwrites
			// its destination on the paths that go on
			var errVar *types.Var
			for i := len(stack) - 2; i >= 0 && errVar == nil; i-- {
				if as, ok := stack[i].(*ast.AssignStmt); ok && len(as.Rhs) == 1 && containsNode(as.Rhs[0], call) && len(as.Lhs) == 1 {
					errVar = g.varOf(as.Lhs[0])
					break
				}
				if _, ok := stack[i].(ast.Stmt); ok {
					break
				}
			}
			tolerated := errVar == nil
			if errVar != nil {
				ast.Inspect(g.Body, func(x ast.Node) bool {
					switch y := x.(type) {
					case *ast.BinaryExpr:
						if (y.Op == token.EQL || y.Op == token.NEQ) && (g.varOf(y.X) == errVar && g.Prov(y.Y) == "global:database/sql.ErrNoRows" || g.varOf(y.Y) == errVar && g.Prov(y.X) == "global:database/sql.ErrNoRows") {
							tolerated = true
						}
					case *ast.CallExpr:
						if g.IsCall(y, "errors.Is") && len(y.Args) == 2 && g.varOf(y.Args[0]) == errVar && g.Prov(y.Args[1]) == "global:database/sql.ErrNoRows" {
							tolerated = true
						}
					}
					return true
				})
			}
			nsite++
			if !tolerated {
				return true
			}
			for _, a := range call.Args {
				u, ok := ast.Unparen(a).(*ast.UnaryExpr)
				if !ok || u.Op != token.AND {
					continue
				}
				v := g.varOf(u.X)
				if v == nil {
					continue
				}
				n++
				inside := v.Pos() >= body.Pos() && v.Pos() < body.End()
				c.Ob(rule, strings.TrimPrefix(fn.Name, "kv/sqlite3.")+"#scan-target-"+v.Name()+"-is-fresh-per-iteration", call.Pos(), inside, "the Scan destination "+v.Name()+" is declared inside the loop it is filled in: a query without a row leaves the destination untouched, so a longer-lived variable carries the previous key's value into this one")
			}
			return true
		})
	}
	c.Floor("Scan calls inside loops (kv/sqlite3)", nsite, 5)
	c.Floor("Scan destinations of no-row-tolerant scans inside loops (kv/sqlite3)", n, 2)
}

// rowsCompleteRule: a database/sql row loop ends either because the rows are exhausted or
// because iteration failed (rows.Next() returns false in both cases). A listing that
// returns success without consulting rows.Err() after the loop silently reports a
// truncated result; a break out of the loop does the same. For every `for rows.Next()`
// in kv/sqlite3: no break, and every success return after the loop has consulted
// rows.Err() of the same rows.
func rowsCompleteRule(c *Ctx, rule string) {
	n := 0
	for _, fn := range c.AllFuncs("kv/sqlite3") {
		ast.Inspect(fn.Body, func(m ast.Node) bool {
			loop, ok := m.(*ast.ForStmt)
			if !ok || loop.Cond == nil || loop.Init != nil {
				return true
			}
			g := fn.enclosing(loop)
			call, ok := ast.Unparen(loop.Cond).(*ast.CallExpr)
			if !ok || !strings.HasSuffix(g.CallKey(call), "database/sql.Rows.Next") {
				return true
			}
			rowsVar := g.varOf(call.Fun.(*ast.SelectorExpr).X)
			if rowsVar == nil {
				return true
			}
			n++
			name := strings.TrimPrefix(fn.Name, "kv/sqlite3.") + "#" + rowsVar.Name()
			// no break
			brk := false
			var scan func(x ast.Node, depth int)
			scan = func(x ast.Node, depth int) {
				ast.Inspect(x, func(y ast.Node) bool {
					switch z := y.(type) {
					case *ast.FuncLit:
						return false
					case *ast.ForStmt, *ast.RangeStmt, *ast.SwitchStmt, *ast.SelectStmt, *ast.TypeSwitchStmt:
						if y != x {
							scan(y, depth+1)
							return false
						}
					case *ast.BranchStmt:
						if (z.Tok == token.BREAK && (depth == 0 || z.Label != nil)) || z.Tok == token.GOTO {
							brk = true
						}
					}
					return true
				})
			}
			scan(loop.Body, 0)
			c.Ob(rule, name+"-loop-runs-to-exhaustion", loop.Pos(), !brk, "the row loop is not left by break/goto: every row is consumed")
			// success exits after the loop consult Err()
			isErrCall := func(x ast.Node) bool {
				found := false
				ast.Inspect(x, func(y ast.Node) bool {
					if cl, ok := y.(*ast.CallExpr); ok {
						if se, ok := cl.Fun.(*ast.SelectorExpr); ok && se.Sel.Name == "Err" && g.varOf(se.X) == rowsVar {
							found = true
						}
					}
					return !found
				})
				return found
			}
			_, exits := g.Reach(loop.Cond, isErrCall, func(b *cfgBlock, si int) bool {
				// leave the loop: do not walk the body (its returns are failures of Scan)
				return len(b.Nodes) > 0 && b.Nodes[len(b.Nodes)-1] == ast.Node(loop.Cond) && si == 0
			})
			bad := 0
			for _, ex := range exits {
				if ex.Ret == nil || len(ex.Ret.Results) == 0 {
					bad++
					continue
				}
				last := ex.Ret.Results[len(ex.Ret.Results)-1]
				if isNilIdent(g.Info, last) {
					bad++
				}
			}
			c.Ob(rule, name+"-Err-consulted-before-success", loop.Pos(), bad == 0, fmt.Sprintf("after the row loop, success is returned only after %s.Err() was consulted (Next() also returns false when iteration failed: the listing would be silently truncated); %d success exit(s) skip it", rowsVar.Name(), bad))
			return true
		})
	}
	c.Floor("row loops in kv/sqlite3", n, 4)
}

func runC17(c *Ctx) {
	freshScanTargets(c, "export-fresh")
	rowsCompleteRule(c, "rows-complete")
	between := c.Func("spec/chord", "", "Between")
	stmts := sqliteStatements(c)
	rk := c.Func("kv/sqlite3", "SqliteKV", "RangeKeys")
	// The statement that is executed and its bound arguments, for every order type of
	// (low, hash, high). How the statement is chosen (if/else, default-then-override, a
	// switch) is not matched: the function is executed on the evaluator up to the query call,
	// with the prepared-statement fields as distinct opaque values, and the receiver of the
	// query call is read off.
	var query *ast.CallExpr
	for _, call := range rk.Calls(false, func(call *ast.CallExpr) bool {
		return rk.IsCall(call, "database/sql.Stmt.QueryContext", "database/sql.Stmt.Query")
	}) {
		query = call
	}
	if query == nil {
		c.Failf("sqlite RangeKeys: the range query call (Stmt.QueryContext) not found (undecided)")
	}
	// bound arguments: the call's own arguments, or the elements of the slice literal it spreads
	var argExprs []ast.Expr
	first := 0
	if rk.IsCall(query, "database/sql.Stmt.QueryContext") {
		first = 1
	}
	if query.Ellipsis.IsValid() && len(query.Args) == first+1 {
		if v := rk.varOf(query.Args[first]); v != nil {
			if defs := rk.defsOf(v); len(defs) == 1 && !defs[0].multi {
				if cl, ok := ast.Unparen(defs[0].rhs).(*ast.CompositeLit); ok {
					argExprs = cl.Elts
				}
			}
		} else if cl, ok := ast.Unparen(query.Args[first]).(*ast.CompositeLit); ok {
			argExprs = cl.Elts
		}
	} else if !query.Ellipsis.IsValid() {
		argExprs = query.Args[first:]
	}
	var argIdx []int // parameter index (1=low, 2=high) for each placeholder
	for _, e := range argExprs {
		switch rk.Prov(e) {
		case "param#1":
			argIdx = append(argIdx, 1)
		case "param#2":
			argIdx = append(argIdx, 2)
		default:
			argIdx = append(argIdx, -1)
		}
	}
	okArgs := len(argIdx) > 0
	for _, a := range argIdx {
		if a < 0 {
			okArgs = false
		}
	}
	c.Ob("sql-range", "sqlite.RangeKeys#bound-arguments", query.Pos(), okArgs, fmt.Sprintf("the query arguments are the low/high parameters (through the order-preserving int64 binding); parameter indices %v", argIdx))
	// the prepared-statement fields as opaque values
	fieldOf := map[string]string{} // objVal id -> field name
	fieldVals := map[types.Object]Val{}
	if st, ok := c.P("kv/sqlite3").Types.Scope().Lookup("statements").(*types.TypeName); ok {
		if str, ok := st.Type().Underlying().(*types.Struct); ok {
			for i := 0; i < str.NumFields(); i++ {
				id := big.NewInt(int64(1000 + i))
				fieldVals[str.Field(i)] = objVal{id: id}
				fieldOf[id.String()] = str.Field(i).Name()
			}
		}
	}
	if len(fieldVals) == 0 {
		c.Failf("anchor unresolved: kv/sqlite3.statements")
	}
	type stopAtQuery struct{ field string }
	chosen := func(l, h *big.Int) string {
		env := &evalEnv{f: rk, vars: map[types.Object]Val{}}
		for k, v := range fieldVals {
			env.vars[k] = v
		}
		i := 0
		for _, fld := range rk.Type.Params.List {
			for _, nm := range fld.Names {
				switch i {
				case 1:
					env.vars[rk.Info.Defs[nm]] = l
				case 2:
					env.vars[rk.Info.Defs[nm]] = h
				default:
					env.vars[rk.Info.Defs[nm]] = objVal{id: big.NewInt(int64(i))}
				}
				i++
			}
		}
		env.pre = func(f *Fn, call *ast.CallExpr) (Val, bool) {
			if call == query {
				se := call.Fun.(*ast.SelectorExpr)
				field := ""
				if o, ok := env.expr(se.X).(objVal); ok {
					field = fieldOf[o.id.String()]
				}
				panic(stopAtQuery{field})
			}
			if id, ok := ast.Unparen(call.Fun).(*ast.Ident); ok {
				if b, ok := f.Info.Uses[id].(*types.Builtin); ok && b.Name() == "make" {
					return objVal{id: big.NewInt(int64(call.Pos()))}, true
				}
			}
			return nil, false
		}
		field := ""
		func() {
			defer func() {
				if r := recover(); r != nil {
					switch x := r.(type) {
					case stopAtQuery:
						field = x.field
					case evalUndecided:
						c.Failf("sqlite RangeKeys: not evaluable up to the query call: %s", x.msg)
					default:
						panic(r)
					}
				}
			}()
			env.block(rk.Body.List)
		}()
		return field
	}
	if okArgs {
		n := 0
		for _, ord := range weakOrderings(3) {
			l, h, hash := rankVal(ord[0]), rankVal(ord[2]), rankVal(ord[1])
			field := chosen(l, h)
			st := stmts[field]
			if st == nil {
				c.Ob("sql-range", fmt.Sprintf("sqlite.RangeKeys#ordertype(low,hash,high)=%v", ord), query.Pos(), false, fmt.Sprintf("low=%v high=%v: the query does not run one of the prepared range statements (receiver resolves to %q)", l, h, field))
				continue
			}
			var args []*big.Int
			for _, a := range argIdx {
				if a == 1 {
					args = append(args, l)
				} else {
					args = append(args, h)
				}
			}
			got, err := evalWhere(st.query, map[string]*big.Int{"hash": hash}, args)
			if err != nil {
				c.Failf("sqlite range query not evaluable (%s): %v", st.field, err)
			}
			want := refBetween(l, hash, h, true)
			n++
			c.Ob("sql-range", fmt.Sprintf("sqlite.RangeKeys#ordertype(low,hash,high)=%v", ord), st.pos, got == want,
				fmt.Sprintf("low=%v hash=%v high=%v: statement %s selects the row: %v; (low, high] contains it: %v", l, hash, h, st.field, got, want))
		}
		c.Extra("sql_range_order_types", n)
	}
	c.Assume("key hashes and range bounds are < 2^63 (chord.Hash is < 2^48 by C11), so binding uint64 as int64 preserves order")

	// memory
	mrk := c.Func("kv/memory", "MemoryKV", "RangeKeys")
	sites := mrk.betweenSites()
	var ms *betweenSite
	for _, s := range sites {
		ms = s
	}
	c.Floor("memory RangeKeys interval sites", len(sites), 1)
	if ms != nil {
		// the polarity in which the test is written is not fixed here (an early
		// `if !Between { return true }` is as good as `if Between {...}`): the set is
		// compared as the call computes it, and the append-guard obligation below
		// requires the test to have held (a path fact about the call) at every append
		ok, why := ms.sameSet(c, between, "param#1", ms.roles[1], "param#2", true, ms.neg)
		c.Ob("interval", "memory.RangeKeys#(low,id,high]", ms.call.Pos(), ok && strings.HasPrefix(ms.roles[1], "lit.param#0"), fmt.Sprintf("buckets are selected by Between(low, id, high, true) on the bucket's own id; site %s %s", ms, why))
		// the append is filtered by nothing else about ids; callbacks never stop early
		for _, call := range mrk.Calls(true, func(call *ast.CallExpr) bool {
			id, ok := call.Fun.(*ast.Ident)
			return ok && id.Name == "append"
		}) {
			g := mrk.enclosing(call)
			fs := g.FactsAt(call)
			extra := []string{}
			for _, fa := range fs.Facts {
				if fa.Sem {
					continue
				}
				switch fa.Kind {
				case FCmp:
					if containsNode(fa.Expr, ms.call) || ast.Unparen(fa.Expr) == ast.Expr(ms.call) {
						continue
					}
					if cl, ok := ast.Unparen(fa.Expr).(*ast.CallExpr); ok && g.IsCall(cl, "kv/memory.kvValue.isDeleted") {
						continue
					}
					extra = append(extra, fa.String())
				case FTrue, FFalse:
					if fa.Call == ms.call || g.IsCall(fa.Call, "kv/memory.kvValue.isDeleted") {
						continue
					}
					extra = append(extra, fa.String())
				}
			}
			hasBetween := fs.Has(func(fa *Fact) bool { return fa.Kind == FTrue && fa.Call == ms.call })
			c.Ob("range-filter", "memory.RangeKeys#append-guard", call.Pos(), hasBetween && len(extra) == 0, fmt.Sprintf("a key is returned iff its bucket passes the interval test and it is not deleted; other conditions on the path: %v", extra))
		}
		for _, lit := range mrk.Lits() {
			g := mrk.Closure(lit)
			for _, r := range g.Returns() {
				if len(r.Results) == 1 {
					v, _ := g.ConstVal(r.Results[0])
					c.Ob("range-filter", "memory.RangeKeys#no-early-stop", r.Pos(), v == "true", "range callbacks always continue (returning false would skip the remaining buckets)")
				}
			}
		}
	}

	emptinessCoversAllParts(c, "range-filter")

	// (b) table coverage
	removeKeysCoverage(c, "table-coverage")
	// Export / Import statement coverage
	usedBy := func(fn *Fn) map[string]bool {
		used := map[string]bool{}
		for _, call := range fn.Calls(true, func(*ast.CallExpr) bool { return true }) {
			if f := stmtFieldOfCall(fn.enclosing(call), call); f != "" {
				for _, alt := range strings.Split(f, "|") {
					if st := stmts[alt]; st != nil {
						used[st.verb+":"+st.table] = true
					}
				}
			}
		}
		return used
	}
	exp := usedBy(c.Func("kv/sqlite3", "SqliteKV", "Export"))
	imp := usedBy(c.Func("kv/sqlite3", "SqliteKV", "Import"))
	for _, t := range []string{"simple_entries", "prefix_entries", "lease_entries"} {
		c.Ob("table-coverage", "sqlite.Export#reads-"+t, token.NoPos, exp["SELECT:"+t], "Export reads this data kind")
		c.Ob("table-coverage", "sqlite.Import#writes-"+t, token.NoPos, imp["INSERT:"+t], "Import writes this data kind")
	}
	impFn := c.Func("kv/sqlite3", "SqliteKV", "Import")
	c.Ob("table-coverage", "sqlite.Import#updates-tracker", impFn.Decl.Pos(), len(impFn.CallsTo(true, "kv/sqlite3.SqliteKV.updateKeyTracker")) >= 1, "Import records the imported kinds in the key tracker (RangeKeys/ListKeys read only the tracker)")
	// memory
	mImp := c.Func("kv/memory", "MemoryKV", "Import")
	mExp := c.Func("kv/memory", "MemoryKV", "Export")
	for _, kind := range []struct{ field, getter, pbField string }{{"simple", "GetSimpleValue", "SimpleValue"}, {"lease", "GetLeaseToken", "LeaseToken"}, {"children", "GetPrefixChildren", "PrefixChildren"}} {
		wrote := false
		ast.Inspect(mImp.Body, func(n ast.Node) bool {
			if se, ok := n.(*ast.SelectorExpr); ok && mImp.FieldKey(se) == "kv/memory.kvValue."+kind.field {
				wrote = true
			}
			return true
		})
		readsPB := len(methodCalls(mImp, true, kind.getter)) > 0
		c.Ob("table-coverage", "memory.Import#"+kind.field, mImp.Decl.Pos(), wrote && readsPB, "memory Import stores the "+kind.field+" part of each transferred value")
		exported := false
		ast.Inspect(mExp.Body, func(n ast.Node) bool {
			if kv, ok := n.(*ast.KeyValueExpr); ok {
				if id, ok := kv.Key.(*ast.Ident); ok && id.Name == kind.pbField {
					exported = true
				}
			}
			return true
		})
		c.Ob("table-coverage", "memory.Export#"+kind.pbField, mExp.Decl.Pos(), exported, "memory Export fills "+kind.pbField)
	}
	// (c) length check before indexing
	for _, ix := range func() []*ast.IndexExpr {
		var out []*ast.IndexExpr
		ast.Inspect(impFn.Body, func(n ast.Node) bool {
			if ix, ok := n.(*ast.IndexExpr); ok && impFn.enclosing(ix).Prov(ix.X) == "param#2" {
				out = append(out, ix)
			}
			return true
		})
		return out
	}() {
		g := impFn.enclosing(ix)
		ok := g.FactsAt(ix).Cmp(func(e, tag ast.Expr, truth bool, fa *Fact) bool {
			be, ok := e.(*ast.BinaryExpr)
			if !ok {
				return false
			}
			s := types.ExprString(be)
			return (be.Op == token.NEQ && !truth || be.Op == token.EQL && truth) && strings.Contains(s, "len(keys)") && strings.Contains(s, "len(values)")
		})
		c.Ob("import-length", "sqlite.Import#values[i]", ix.Pos(), ok, "values[i] is indexed only after len(keys) == len(values) was established")
	}
}

// removeKeysCoverage: the donor's hard delete after a hand-off removes every row of the
// moved keys - from every table the migrations create, matched by the column that
// identifies a key's rows in that table. A leftover row resurrects data (or blocks a
// lease) when the range comes back. Shared by C17 and C03.
func removeKeysCoverage(c *Ctx, rule string) {
	stmts := sqliteStatements(c)
	tables := map[string]bool{}
	reCreate := regexp.MustCompile("(?i)CREATE\\s+TABLE\\s+(?:IF\\s+NOT\\s+EXISTS\\s+)?`?([a-z_]+)`?")
	for _, body := range readRepoGlob(c, "kv/sqlite3/migrations/*.sql") {
		for _, m := range reCreate.FindAllStringSubmatch(body, -1) {
			tables[m[1]] = true
		}
	}
	c.Floor("tables created by the migrations", len(tables), 4)
	rmk := c.Func("kv/sqlite3", "SqliteKV", "RemoveKeys")
	// the column that identifies "the rows of key k" in each table: the one the per-key
	// read statements select by with the key as their (first) argument
	keyCol := map[string]string{}
	for _, f := range []string{"exportSimpleGet", "exportPrefixList", "exportLeaseGet", "trackerLookup"} {
		if st := stmts[f]; st != nil {
			if m := reWhereCol.FindStringSubmatch(st.query); m != nil {
				keyCol[st.table] = m[1]
			}
		}
	}
	deleted := map[string]bool{}
	delCol := map[string]string{}
	for _, call := range rmk.Calls(true, func(call *ast.CallExpr) bool {
		se, ok := call.Fun.(*ast.SelectorExpr)
		return ok && se.Sel.Name == "Exec" && len(call.Args) >= 1
	}) {
		g := rmk.enclosing(call)
		// every string the query expression can be (constants, concatenation, a loop over
		// a package-level table of {table, column})
		for _, q := range strAlternatives(g, call.Args[0]) {
			if v, t := classifySQL(q); v == "DELETE" {
				deleted[t] = true
				if m := reWhereCol.FindStringSubmatch(q); m != nil {
					delCol[t] = m[1]
				} else {
					delCol[t] = "<no WHERE column>"
				}
			}
		}
	}
	for t := range tables {
		c.Ob(rule, "sqlite.RemoveKeys#deletes-"+t, rmk.Decl.Pos(), deleted[t], "RemoveKeys removes the moved keys from every table (a leftover row resurrects data or blocks a lease after the range moved)")
		if deleted[t] && keyCol[t] != "" {
			c.Ob(rule, "sqlite.RemoveKeys#"+t+"-matched-by-its-key-column", rmk.Decl.Pos(), delCol[t] == keyCol[t], fmt.Sprintf("the rows of a key in %s are the ones with %s = key (that is how the per-key reads select them); RemoveKeys deletes by %s", t, keyCol[t], delCol[t]))
		}
	}
	c.Floor("tables with a known key column", len(keyCol), 4)
}

func leftmostString(g *Fn, e ast.Expr) string {
	for {
		if tv, ok := g.Info.Types[e]; ok && tv.Value != nil {
			return constantString(tv)
		}
		be, ok := ast.Unparen(e).(*ast.BinaryExpr)
		if !ok {
			return ""
		}
		e = be.X
	}
}

// ---------------------------------------------------------------------------------------

func runC18(c *Ctx) {
	// memory: field types
	mp := c.P("kv/memory")
	kvv, _ := mp.Types.Scope().Lookup("kvValue").Type().Underlying().(*types.Struct)
	if kvv == nil {
		c.Failf("anchor unresolved: memory.kvValue")
	}
	for i := 0; i < kvv.NumFields(); i++ {
		f := kvv.Field(i)
		ts := f.Type().String()
		ok := strings.HasPrefix(ts, "sync/atomic.") || strings.Contains(ts, "skipset.") || strings.Contains(ts, "skipmap.")
		c.Ob("memory-cas", "kvValue."+f.Name()+"-is-concurrent-type", f.Pos(), ok, "every field of a stored value is an atomic or a concurrent container; found "+ts)
	}
	ncas := 0
	for _, fn := range c.AllFuncs("kv/memory") {
		for _, call := range fn.Calls(true, func(call *ast.CallExpr) bool {
			se, ok := call.Fun.(*ast.SelectorExpr)
			if !ok {
				return false
			}
			fk := fn.enclosing(call).FieldKey(se.X)
			return fk == "kv/memory.kvValue.simple" || fk == "kv/memory.kvValue.lease"
		}) {
			g := fn.enclosing(call)
			se := call.Fun.(*ast.SelectorExpr)
			fld := g.FieldKey(se.X)
			switch se.Sel.Name {
			case "Load":
			case "Store":
				ok := fn.Name == "kv/memory.(MemoryKV).Import" || fn.Name == "kv/memory.newValueFunc"
				c.Ob("memory-cas", fmt.Sprintf("%s.Store<-%s", fld, fn.Name), call.Pos(), ok, "blind stores only when importing transferred state or constructing a value; every other update is a CAS")
			case "CompareAndSwap":
				ncas++
				pv := g.Prov(call.Args[0])
				base := types.ExprString(se.X)
				okFrom := strings.HasSuffix(pv, "."+strings.TrimPrefix(fld, "kv/memory.kvValue.")+".Load()") || (strings.HasPrefix(pv, "param#") && fn.Decl.Name.Name == "Release")
				c.Ob("memory-cas", fmt.Sprintf("%s.CompareAndSwap<-%s", fld, fn.Name), call.Pos(), okFrom, fmt.Sprintf("the CAS on %s starts from the value loaded earlier in the same function (or from the token presented to Release); found %s", base, pv))
				// the expected value is ONE snapshot: the value the preceding checks (expiry,
				// ownership, presence) were made on. A variable that is loaded again after
				// the checks makes the CAS succeed against a state nobody checked.
				if v := g.varOf(call.Args[0]); v != nil && !strings.HasPrefix(pv, "param#") {
					nd := len(g.defsOf(v))
					c.Ob("memory-cas", fmt.Sprintf("%s.CompareAndSwap<-%s#expected-is-a-single-snapshot", fld, fn.Name), call.Pos(), nd == 1, fmt.Sprintf("the variable holding the CAS's expected value is assigned exactly once (the load the checks were made on); it has %d definitions", nd))
				}
			default:
				c.Ob("memory-cas", fmt.Sprintf("%s.%s<-%s", fld, se.Sel.Name, fn.Name), call.Pos(), false, "unexpected atomic operation")
			}
		}
	}
	c.Floor("CAS sites in kv/memory", ncas, 5)
	memoryWriteEffects(c, "memory-cas")

	// AOF single writer
	mutating := map[string]bool{"Put": true, "Delete": true, "PrefixAppend": true, "PrefixRemove": true, "Import": true, "RemoveKeys": true}
	nuse := 0
	for _, fn := range c.AllFuncs("kv/aof") {
		var stack []ast.Node
		ast.Inspect(fn.Body, func(n ast.Node) bool {
			if n == nil {
				stack = stack[:len(stack)-1]
				return true
			}
			stack = append(stack, n)
			se, ok := n.(*ast.SelectorExpr)
			if !ok || fn.enclosing(se).FieldKey(se) != "kv/aof.DiskKV.memKv" {
				return true
			}
			nuse++
			parent := stack[len(stack)-2]
			if ps, ok := parent.(*ast.SelectorExpr); ok && ps.X == ast.Expr(se) {
				if mutating[ps.Sel.Name] {
					c.Ob("aof-single-writer", fmt.Sprintf("memKv.%s<-%s", ps.Sel.Name, fn.Name), se.Pos(), fn.Name == "kv/aof.(DiskKV).handleMutation", "mutating calls on the inner store happen only in handleMutation (the single writer)")
				}
				return true
			}
			if kv, ok := parent.(*ast.KeyValueExpr); ok && kv.Key == ast.Expr(se) {
				return true
			}
			c.Ob("aof-single-writer", "memKv-escapes<-"+fn.Name, se.Pos(), false, "the inner store is used only as a method receiver; it must not escape")
			return true
		})
	}
	c.Floor("uses of DiskKV.memKv", nuse, 15)
	callersOf := func(pkg, key string) map[string]bool {
		out := map[string]bool{}
		for _, fn := range c.AllFuncs(pkg) {
			if len(fn.CallsTo(true, key)) > 0 {
				out[fn.Name] = true
			}
		}
		return out
	}
	expectCallers := func(key string, allowed ...string) {
		got := callersOf("kv/aof", key)
		// the allowed functions and the helpers only they use
		al := onlyCalledFrom(c, "kv/aof", allowed...)
		bad := []string{}
		for g := range got {
			if !al[g] {
				bad = append(bad, g)
			}
		}
		c.Ob("aof-single-writer", "callers-of-"+key, token.NoPos, len(bad) == 0 && len(got) > 0, fmt.Sprintf("called only from %v; other callers: %v", allowed, bad))
	}
	expectCallers("kv/aof.DiskKV.handleMutation", "kv/aof.(DiskKV).Start", "kv/aof.(DiskKV).replayLogs")
	expectCallers("kv/aof.DiskKV.appendLog", "kv/aof.(DiskKV).Start")
	expectCallers("kv/aof.DiskKV.rollbackOne", "kv/aof.(DiskKV).Start")
	expectCallers("kv/aof.DiskKV.replayLogs", "kv/aof.New")
	for _, fn := range c.AllFuncs("kv/aof") {
		// counter writes, log.Write / TruncateBack
		ast.Inspect(fn.Body, func(n ast.Node) bool {
			switch x := n.(type) {
			case *ast.AssignStmt:
				for _, l := range x.Lhs {
					if fn.FieldKey(l) == "kv/aof.DiskKV.counter" {
						ok := map[string]bool{"kv/aof.(DiskKV).appendLog": true, "kv/aof.(DiskKV).rollbackOne": true, "kv/aof.(DiskKV).replayLogs": true}[fn.Name]
						c.Ob("aof-single-writer", "counter<-"+fn.Name, x.Pos(), ok, "the next-index counter is written only by the writer path")
					}
				}
			case *ast.CallExpr:
				if se, ok := x.Fun.(*ast.SelectorExpr); ok && fn.FieldKey(se.X) == "kv/aof.DiskKV.log" && (se.Sel.Name == "Write" || se.Sel.Name == "TruncateBack") {
					ok := map[string]bool{"kv/aof.(DiskKV).appendLog": true, "kv/aof.(DiskKV).rollbackOne": true}[fn.Name]
					c.Ob("aof-single-writer", "log."+se.Sel.Name+"<-"+fn.Name, x.Pos(), ok, "the log is appended/truncated only by the writer path")
				}
			}
			return true
		})
	}
	// Start is launched at most once per store: `go X.Start()` sites in non-test code
	nstart := 0
	for _, fn := range c.AllFuncs() {
		if isTestFile(c.Fset, fn.Decl.Pos()) {
			continue
		}
		nstart += len(fn.CallsTo(true, "kv/aof.DiskKV.Start"))
	}
	c.Extra("aof_start_call_sites", nstart)
	// barrier
	mh := c.Func("kv/aof", "DiskKV", "mutationHandler")
	nsend := 0
	ast.Inspect(mh.Body, func(n ast.Node) bool {
		if ss, ok := n.(*ast.SendStmt); ok && mh.FieldKey(ss.Chan) == "kv/aof.DiskKV.queue" {
			nsend++
			fs := mh.FactsAt(ss)
			c.Ob("aof-barrier", "mutationHandler#enqueue-under-read-barrier", ss.Pos(), fs.Held("d.writeBarrier", 'R'), "clients enqueue while holding writeBarrier.RLock, so Stop (write lock) cannot close the writer under them")
			okClosed := fs.Has(func(fa *Fact) bool {
				return fa.Kind == FFalse && fa.Call != nil && strings.HasSuffix(mh.Prov(fa.Call), ".closed.Load()")
			})
			c.Ob("aof-barrier", "mutationHandler#refuse-when-closed", ss.Pos(), okClosed, "a closed store refuses before enqueuing (nobody would answer)")
		}
		return true
	})
	c.Floor("mutationHandler enqueue sites", nsend, 1)
	stop := c.Func("kv/aof", "DiskKV", "Stop")
	for _, call := range stop.Calls(false, func(call *ast.CallExpr) bool {
		id, ok := call.Fun.(*ast.Ident)
		return ok && id.Name == "close"
	}) {
		c.Ob("aof-barrier", "Stop#close-under-write-barrier", call.Pos(), stop.FactsAt(call).Held("d.writeBarrier", 'W'), "Stop closes the writer with the barrier write-held")
	}

	// sqlite
	stmts := sqliteStatements(c)
	nexec := 0
	for _, fn := range c.AllFuncs("kv/sqlite3") {
		for _, call := range fn.Calls(true, func(call *ast.CallExpr) bool {
			se, ok := call.Fun.(*ast.SelectorExpr)
			return ok && (se.Sel.Name == "Exec" || se.Sel.Name == "ExecContext")
		}) {
			g := fn.enclosing(call)
			fld := stmtFieldOfCall(g, call)
			isWriterStmt := false
			for _, alt := range strings.Split(fld, "|") {
				if st := stmts[alt]; st != nil && st.verb != "SELECT" {
					isWriterStmt = true
				}
			}
			rawTx := false
			if fld == "" {
				if se := call.Fun.(*ast.SelectorExpr); strings.HasSuffix(typeStr(g, se.X), "sql.Tx") && fn.Decl.Name.Name == "RemoveKeys" {
					rawTx = true
				}
			}
			if !isWriterStmt && !rawTx {
				continue
			}
			nexec++
			// inside a literal passed to withWriteTx(ctx, s.writer, lit) (or a function only called from such literals: updateKeyTracker)
			ok := inWriteTx(c, g)
			c.Ob("sqlite-writer-tx", fmt.Sprintf("%s#Exec(%s)", fn.Name, fld), call.Pos(), ok, "a writing statement executes only inside withWriteTx on the single writer handle")
		}
	}
	c.Floor("sqlite writing Exec sites", nexec, 14)
	for name, st := range stmts {
		if st.db == "reader" {
			c.Ob("sqlite-writer-tx", "reader-statement-is-select:"+name, st.pos, st.verb == "SELECT", "statements prepared on the reader pool only read; found "+st.verb)
		} else if st.verb != "SELECT" {
			c.Ob("sqlite-writer-tx", "writer-statement-on-writer:"+name, st.pos, st.db == "writer", "writing statements are prepared on the writer handle")
		}
	}
	nw := c.Func("kv/sqlite3", "", "New")
	okOne := false
	for _, call := range methodCalls(nw, false, "SetMaxOpenConns") {
		se := call.Fun.(*ast.SelectorExpr)
		if strings.HasSuffix(nw.Prov(se.X), "#0") || true {
			if id, ok := se.X.(*ast.Ident); ok && id.Name == "writer" {
				v, _ := nw.ConstVal(call.Args[0])
				okOne = v == "1"
			}
		}
	}
	c.Ob("sqlite-single-writer", "New#writer.SetMaxOpenConns(1)", nw.Decl.Pos(), okOne, "the writer pool is capped at one connection (serialises write transactions)")
	op := c.Func("kv/sqlite3", "", "openSQLite")
	dsn := ""
	ast.Inspect(op.Body, func(n ast.Node) bool {
		if bl, ok := n.(*ast.BasicLit); ok && bl.Kind == token.STRING && strings.Contains(bl.Value, "file:") {
			dsn = bl.Value
		}
		return true
	})
	c.Ob("sqlite-single-writer", "openSQLite#_txlock=immediate", op.Decl.Pos(), strings.Contains(dsn, "_txlock=immediate"), "write transactions take the write lock at BEGIN; DSN "+dsn)
}

func typeStr(g *Fn, e ast.Expr) string {
	if t := typeOf(g.Info, e); t != nil {
		return t.String()
	}
	return ""
}

// inWriteTx: g is (nested in) a literal passed to withWriteTx(_, <recv>.writer, lit), or a
// declared function all of whose callers are such.
func inWriteTx(c *Ctx, g *Fn) bool {
	for h := g; h != nil; h = h.Parent {
		if h.Lit != nil && h.Parent != nil {
			for _, call := range h.Parent.CallsTo(true, "kv/sqlite3.withWriteTx") {
				if len(call.Args) == 3 && call.Args[2] == ast.Expr(h.Lit) && strings.HasSuffix(h.Parent.enclosing(call).Prov(call.Args[1]), ".writer") {
					return true
				}
			}
		}
	}
	root := g.root()
	if root.Obj == nil {
		return false
	}
	n, all := 0, true
	for _, fn := range c.AllFuncs("kv/sqlite3") {
		for _, call := range fn.Calls(true, func(call *ast.CallExpr) bool { return fn.Callee(call) == root.Obj }) {
			n++
			if !inWriteTx(c, fn.enclosing(call)) {
				all = false
			}
		}
	}
	return n > 0 && all
}

// ---------------------------------------------------------------------------------------

func runC19(c *Ctx) {
	sec := big.NewInt(1_000_000_000)
	for _, pkg := range []string{"kv/memory", "kv/sqlite3"} {
		dg := c.Func(pkg, "", "durationGuard")
		ext := func(f *Fn, call *ast.CallExpr, recv Val, args []Val) (Val, bool) {
			if se, ok := call.Fun.(*ast.SelectorExpr); ok && se.Sel.Name == "Truncate" && len(args) == 1 {
				// time.Duration.Truncate rounds toward zero to a multiple of the argument
				t, ok1 := recv.(*big.Int)
				d, ok2 := args[0].(*big.Int)
				if ok1 && ok2 && d.Sign() > 0 {
					return new(big.Int).Sub(t, new(big.Int).Rem(t, d)), true
				}
			}
			return nil, false
		}
		for _, ns := range []int64{-1_000_000_000, -1, 0, 1, 999_999_999, 1_000_000_000, 1_000_000_001, 1_500_000_000, 2_000_000_000, 3_600_000_000_000} {
			t := big.NewInt(ns)
			res, err := dg.EvalFn([]Val{t}, ext)
			if err != nil {
				c.Failf("durationGuard not evaluable: %v", err)
			}
			gotOK, _ := res[1].(bool)
			wantOK := t.Cmp(sec) >= 0
			okVal := true
			if wantOK && gotOK {
				want := new(big.Int).Sub(t, new(big.Int).Rem(t, sec))
				okVal = res[0].(*big.Int).Cmp(want) == 0
			}
			c.Ob("ttl-guard", fmt.Sprintf("%s.durationGuard(%dns)", pkg, ns), dg.Decl.Pos(), gotOK == wantOK && okVal, fmt.Sprintf("accepts exactly ttl >= 1s and returns the ttl truncated to whole seconds: got ok=%v value=%v", gotOK, res[0]))
		}
	}
	// pass edge cuts state access
	for _, b := range []backend{backends[0], backends[2]} {
		for _, m := range []string{"Acquire", "Renew"} {
			fn := c.Func(b.pkg, b.recv, m)
			access := fn.Calls(false, func(call *ast.CallExpr) bool {
				return fn.IsCall(call, "kv/memory.MemoryKV.fetchVal", "kv/sqlite3.withWriteTx")
			})
			c.Floor(fmt.Sprintf("%s.%s state access sites", b.name, m), len(access), 1)
			for _, call := range access {
				ok := fn.FactsAt(call).Has(func(fa *Fact) bool {
					return fa.Kind == FTrue && fa.Idx == 1 && fn.IsCall(fa.Call, b.pkg+".durationGuard")
				})
				c.Ob("ttl-guard", fmt.Sprintf("%s.%s#state-access-after-guard", b.name, m), call.Pos(), ok, "the lease state is touched only after durationGuard accepted the ttl")
			}
			for _, r := range fn.Returns() {
				fs := fn.FactsAt(r)
				if !fs.Unreachable && fs.Has(func(fa *Fact) bool { return fa.Kind == FFalse && fa.Idx == 1 && fn.IsCall(fa.Call, b.pkg+".durationGuard") }) {
					c.Ob("ttl-guard", fmt.Sprintf("%s.%s#rejects-with-InvalidTTL", b.name, m), r.Pos(), fn.Prov(r.Results[len(r.Results)-1]) == "global:spec/chord.ErrKVLeaseInvalidTTL", "a rejected ttl is answered with ErrKVLeaseInvalidTTL")
				}
			}
		}
	}
	// memory
	casOf := func(fn *Fn) []*ast.CallExpr {
		return fn.Calls(false, func(call *ast.CallExpr) bool {
			se, ok := call.Fun.(*ast.SelectorExpr)
			return ok && se.Sel.Name == "CompareAndSwap" && fn.FieldKey(se.X) == "kv/memory.kvValue.lease"
		})
	}
	hasCmp := func(fn *Fn, fs *FactSet, truth bool, pred func(be *ast.BinaryExpr) bool) bool {
		return fs.Cmp(func(e, tag ast.Expr, t bool, fa *Fact) bool {
			be, ok := e.(*ast.BinaryExpr)
			return ok && tag == nil && t == truth && pred(be)
		})
	}
	isCurr := func(fn *Fn, e ast.Expr) bool { return strings.HasSuffix(fn.Prov(e), ".lease.Load()") }
	isNow := func(fn *Fn, e ast.Expr) bool {
		p := fn.Prov(e)
		return strings.Contains(p, "time.Now()") && strings.HasSuffix(p, ".UnixNano()") && !strings.Contains(p, ".Add()")
	}
	acq := c.Func("kv/memory", "MemoryKV", "Acquire")
	for _, call := range casOf(acq) {
		fs := acq.FactsAt(call)
		ok := hasCmp(acq, fs, false, func(be *ast.BinaryExpr) bool {
			return (be.Op == token.GTR && isCurr(acq, be.X) && isNow(acq, be.Y)) || (be.Op == token.LSS && isNow(acq, be.X) && isCurr(acq, be.Y))
		}) || hasCmp(acq, fs, true, func(be *ast.BinaryExpr) bool {
			return (be.Op == token.LEQ && isCurr(acq, be.X) && isNow(acq, be.Y)) || (be.Op == token.GEQ && isNow(acq, be.X) && isCurr(acq, be.Y))
		})
		c.Ob("memory-lease", "memory.Acquire#cas-only-if-free-or-expired", call.Pos(), ok, "the lease is taken only when the stored expiry is not in the future")
		nextOK := strings.Contains(acq.Prov(call.Args[1]), ".Add().UnixNano()") && isCurr(acq, call.Args[0])
		c.Ob("memory-lease", "memory.Acquire#cas(loaded, now+ttl)", call.Pos(), nextOK, "CAS from the loaded token to now+ttl; found CAS("+acq.Prov(call.Args[0])+", "+acq.Prov(call.Args[1])+")")
	}
	c.Floor("memory.Acquire CAS sites", len(casOf(acq)), 1)
	ren := c.Func("kv/memory", "MemoryKV", "Renew")
	for _, call := range casOf(ren) {
		fs := ren.FactsAt(call)
		okZero := hasCmp(ren, fs, false, func(be *ast.BinaryExpr) bool {
			v, _ := ren.ConstVal(be.Y)
			return be.Op == token.EQL && isCurr(ren, be.X) && v == "0"
		})
		okExp := hasCmp(ren, fs, false, func(be *ast.BinaryExpr) bool {
			return be.Op == token.GTR && isNow(ren, be.X) && isCurr(ren, be.Y)
		})
		okTok := hasCmp(ren, fs, false, func(be *ast.BinaryExpr) bool {
			return be.Op == token.NEQ && ((isCurr(ren, be.X) && ren.Prov(be.Y) == "param#3") || (isCurr(ren, be.Y) && ren.Prov(be.X) == "param#3"))
		})
		c.Ob("memory-lease", "memory.Renew#not-free", call.Pos(), okZero, "a free lease (token 0) cannot be renewed")
		c.Ob("memory-lease", "memory.Renew#not-expired", call.Pos(), okExp, "an expired lease cannot be renewed")
		c.Ob("memory-lease", "memory.Renew#token-matches", call.Pos(), okTok, "only the presented current token renews")
		c.Ob("memory-lease", "memory.Renew#cas(loaded, now+ttl)", call.Pos(), isCurr(ren, call.Args[0]) && strings.Contains(ren.Prov(call.Args[1]), ".Add().UnixNano()"), "CAS from the loaded token to now+ttl")
	}
	c.Floor("memory.Renew CAS sites", len(casOf(ren)), 1)
	rel := c.Func("kv/memory", "MemoryKV", "Release")
	for _, call := range casOf(rel) {
		v, _ := rel.ConstVal(call.Args[1])
		c.Ob("memory-lease", "memory.Release#cas(token, 0)", call.Pos(), rel.Prov(call.Args[0]) == "param#2" && v == "0", "release is a CAS from the presented token to the free marker")
		okFree := hasCmp(rel, rel.FactsAt(call), false, func(be *ast.BinaryExpr) bool {
			v, _ := rel.ConstVal(be.Y)
			return be.Op == token.EQL && rel.Prov(be.X) == "param#2" && v == "0"
		}) || hasCmp(rel, rel.FactsAt(call), true, func(be *ast.BinaryExpr) bool {
			v, _ := rel.ConstVal(be.Y)
			return be.Op == token.NEQ && rel.Prov(be.X) == "param#2" && v == "0"
		})
		c.Ob("free-marker", "memory.Release#refuses-token-0", call.Pos(), okFree, "0 is the 'no lease' marker: Release(lease, 0) on a free lease would CAS(0,0) and report success, where sqlite answers ErrKVLeaseExpired")
	}
	c.Floor("memory.Release CAS sites", len(casOf(rel)), 1)
	emptinessCoversAllParts(c, "lease-transfer")
	for _, fn := range []*Fn{acq, ren, rel} {
		for _, r := range fn.Returns() {
			fs := fn.FactsAt(r)
			for _, call := range casOf(fn) {
				if !fs.Unreachable && fs.Has(func(fa *Fact) bool { return fa.Kind == FFalse && fa.Call == call }) {
					want := "global:spec/chord.ErrKVLeaseExpired"
					if fn == acq {
						want = "global:spec/chord.ErrKVLeaseConflict"
					}
					c.Ob("memory-lease", fn.Name+"#lost-cas-sentinel", r.Pos(), fn.Prov(r.Results[len(r.Results)-1]) == want, "a lost CAS is answered with the documented sentinel")
				}
			}
		}
	}

	// sqlite
	stmts := sqliteStatements(c)
	type leaseQ struct {
		method, field string
		// classify each bound argument: lease | next | prev | now | token
		args []string
		// semantic: grant(tokenStored, presented, now, ownerEq)
		want func(tok, pres, now *big.Int, owner bool) bool
	}
	qs := []leaseQ{
		{"Acquire", "leaseAcquire", []string{"lease", "next", "now"}, func(tok, pres, now *big.Int, owner bool) bool { return tok.Cmp(now) <= 0 }},
		{"Renew", "leaseRenew", []string{"next", "lease", "prev", "now"}, func(tok, pres, now *big.Int, owner bool) bool {
			return owner && tok.Cmp(pres) == 0 && tok.Cmp(now) > 0
		}},
		{"Release", "leaseRelease", []string{"lease", "prev"}, func(tok, pres, now *big.Int, owner bool) bool { return owner && tok.Cmp(pres) == 0 }},
	}
	for _, q := range qs {
		fn := c.Func("kv/sqlite3", "SqliteKV", q.method)
		st := stmts[q.field]
		if st == nil {
			c.Failf("statement %s not found", q.field)
		}
		var exec *ast.CallExpr
		for _, call := range fn.Calls(true, func(call *ast.CallExpr) bool {
			return stmtFieldOfCall(fn.enclosing(call), call) == q.field
		}) {
			exec = call
		}
		if exec == nil {
			c.Ob("sql-lease", "sqlite."+q.method+"#exec", fn.Decl.Pos(), false, "the "+q.field+" statement is not executed")
			continue
		}
		g := fn.enclosing(exec)
		var classes []string
		execArgs := callArgs(g, exec, 0)
		for _, a := range execArgs {
			pv := g.enclosing(a).Prov(a)
			switch {
			case pv == "param#1":
				classes = append(classes, "lease")
			case strings.Contains(pv, ".Add().UnixNano()"):
				classes = append(classes, "next")
			case strings.Contains(pv, "time.Now()") && strings.HasSuffix(pv, ".UnixNano()"):
				classes = append(classes, "now")
			case strings.HasPrefix(pv, "param#"):
				classes = append(classes, "prev")
			default:
				classes = append(classes, "?"+pv)
			}
		}
		// the clock the expiry test is judged against is read inside the write
		// transaction: the writer pool has one connection, so a call may queue behind a
		// long transaction, and a `now` taken before it started lets a renewal (or an
		// acquisition) be decided against the time it was issued, not the time it runs
		for i, a := range execArgs {
			if i >= len(classes) || classes[i] != "now" {
				continue
			}
			var nowCall *ast.CallExpr
			var find func(e ast.Expr, depth int)
			find = func(e ast.Expr, depth int) {
				if depth > 6 || nowCall != nil {
					return
				}
				ast.Inspect(e, func(n ast.Node) bool {
					switch x := n.(type) {
					case *ast.CallExpr:
						if g.IsCall(x, "time.Now") {
							nowCall = x
						}
					case *ast.Ident:
						if v := g.varOf(x); v != nil {
							for _, d := range g.defsOf(v) {
								if d.rhs != nil {
									find(d.rhs, depth+1)
								}
							}
						}
					}
					return nowCall == nil
				})
			}
			find(a, 0)
			// the write-transaction closure: the literal, enclosing the statement, that is
			// handed to withWriteTx (the statement may sit in a literal nested in it)
			var txLit *ast.FuncLit
			for h := g; h != nil && txLit == nil; h = h.Parent {
				if h.Lit != nil && h.Parent != nil {
					for _, call := range h.Parent.CallsTo(true, "kv/sqlite3.withWriteTx") {
						if len(call.Args) == 3 && call.Args[2] == ast.Expr(h.Lit) {
							txLit = h.Lit
						}
					}
				}
			}
			inTx := nowCall != nil && txLit != nil && nowCall.Pos() >= txLit.Pos() && nowCall.End() <= txLit.End()
			c.Ob("sql-lease", "sqlite."+q.method+"#clock-read-inside-the-write-transaction", exec.Pos(), inTx, "the `now` bound into the "+q.field+" statement comes from a time.Now() evaluated inside the write-transaction closure that executes the statement")
		}
		c.Ob("sql-lease", "sqlite."+q.method+"#bound-arguments", exec.Pos(), strings.Join(classes, ",") == strings.Join(q.args, ","), fmt.Sprintf("arguments bound in the order the query expects %v; found %v", q.args, classes))
		if strings.Join(classes, ",") != strings.Join(q.args, ",") {
			continue
		}
		// evaluate the WHERE over all order types of (stored token, presented, now) x owner match
		n := 0
		for _, ord := range weakOrderings(3) {
			for _, owner := range []bool{true, false} {
				tok, pres, now := rankVal(ord[0]), rankVal(ord[1]), rankVal(ord[2])
				ownerCol := big.NewInt(7)
				leaseArg := big.NewInt(7)
				if !owner {
					leaseArg = big.NewInt(8)
				}
				var args []*big.Int
				for _, cl := range q.args {
					switch cl {
					case "lease":
						args = append(args, leaseArg)
					case "next":
						args = append(args, big.NewInt(999999))
					case "prev":
						args = append(args, pres)
					case "now":
						args = append(args, now)
					}
				}
				got, err := evalWhere(st.query, map[string]*big.Int{"token": tok, "owner": ownerCol}, args)
				if err != nil {
					c.Failf("%s WHERE not evaluable: %v", q.field, err)
				}
				if q.method == "Acquire" && !owner {
					continue // the conflict clause only fires for the existing owner row
				}
				want := q.want(tok, pres, now, owner)
				n++
				c.Ob("sql-lease", fmt.Sprintf("sqlite.%s#where(token,presented,now)=%v,ownerMatch=%v", q.method, ord, owner), st.pos, got == want, fmt.Sprintf("stored=%v presented=%v now=%v: query grants=%v, lease rule grants=%v", tok, pres, now, got, want))
			}
		}
		// zero rows -> sentinel
		want := map[string]string{"Acquire": "ErrKVLeaseConflict", "Renew": "ErrKVLeaseExpired", "Release": "ErrKVLeaseExpired"}[q.method]
		okS := false
		for _, r := range g.Returns() {
			if g.Prov(r.Results[len(r.Results)-1]) == "global:spec/chord."+want {
				okS = g.FactsAt(r).Cmp(func(e, tag ast.Expr, truth bool, fa *Fact) bool {
					be, ok := e.(*ast.BinaryExpr)
					if !ok || !truth || be.Op != token.EQL {
						return false
					}
					v, _ := g.ConstVal(be.Y)
					return v == "0" && strings.HasSuffix(g.Prov(be.X), ".RowsAffected()#0")
				})
			}
		}
		// ... or through a helper that answers the sentinel it is given exactly when no
		// row was affected, and whose error the method returns
		var rowsHelperCalls []*ast.CallExpr
		for _, hc := range g.Calls(false, func(*ast.CallExpr) bool { return true }) {
			h := c.FnOfObj(g.Callee(hc))
			if i, ok := rowsAffectedHelper(h); ok && i < len(hc.Args) {
				rowsHelperCalls = append(rowsHelperCalls, hc)
				if g.Prov(hc.Args[i]) == "global:spec/chord."+want {
					for _, r := range g.Returns() {
						if g.FactsAt(r).Has(func(fa *Fact) bool { return fa.Kind == FCallFail && fa.Call == hc }) || containsNode(r, hc) {
							okS = true
						}
					}
				}
			}
		}
		c.Ob("sql-lease", "sqlite."+q.method+"#zero-rows->"+want, exec.Pos(), okS, "when the conditional statement changed no row the method answers "+want)
		// and the tracker update only after rows were affected
		for _, call := range g.CallsTo(false, "kv/sqlite3.SqliteKV.updateKeyTracker") {
			okN := g.FactsAt(call).Cmp(func(e, tag ast.Expr, truth bool, fa *Fact) bool {
				be, ok := e.(*ast.BinaryExpr)
				if !ok || truth || be.Op != token.EQL {
					return false
				}
				v, _ := g.ConstVal(be.Y)
				return v == "0" && strings.HasSuffix(g.Prov(be.X), ".RowsAffected()#0")
			})
			for _, hc := range rowsHelperCalls {
				if g.FactsAt(call).Has(func(fa *Fact) bool { return fa.Kind == FCallOK && fa.Call == hc }) {
					okN = true
				}
			}
			c.Ob("sql-lease", "sqlite."+q.method+"#success-only-if-rows-affected", call.Pos(), okN, "the operation proceeds to success only when the conditional statement changed a row")
		}
	}
	c.Assume("successful Acquire/Renew never return 0: the token is now+ttl in UnixNano with ttl >= 1s")
}


// memoryWriteEffects: which parts of a stored value each memory method can write, helper
// functions followed. The simple, prefix and lease keyspaces of one key are independent
// (contract), and a whole entry is dropped only by RemoveKeys: dropping it from anywhere
// else both erases the other keyspaces and races with writers that already hold the value
// (check-then-delete is not atomic).
func memoryWriteEffects(c *Ctx, rule string) {
	type eff struct {
		name string
		pred effPred
	}
	fieldOp := func(field string, ops ...string) effPred {
		return func(g *Fn, call *ast.CallExpr) bool {
			se, ok := ast.Unparen(call.Fun).(*ast.SelectorExpr)
			if !ok || g.FieldKey(se.X) != "kv/memory.kvValue."+field {
				return false
			}
			for _, o := range ops {
				if se.Sel.Name == o {
					return true
				}
			}
			return false
		}
	}
	effs := []eff{
		{"simple", fieldOp("simple", "Store", "CompareAndSwap", "Swap")},
		{"lease", fieldOp("lease", "Store", "CompareAndSwap", "Swap", "Add")},
		{"children", fieldOp("children", "Add", "Remove")},
		{"entry-removal", func(g *Fn, call *ast.CallExpr) bool {
			se, ok := ast.Unparen(call.Fun).(*ast.SelectorExpr)
			if !ok || (se.Sel.Name != "Delete" && se.Sel.Name != "LoadAndDelete") {
				return false
			}
			return strings.Contains(typeStr(g, se.X), "skipmap.")
		}},
	}
	allowed := map[string]map[string]bool{
		"Put": {"simple": true}, "Delete": {"simple": true}, "Get": {},
		"PrefixAppend": {"children": true}, "PrefixRemove": {"children": true}, "PrefixList": {}, "PrefixContains": {},
		"Acquire": {"lease": true}, "Renew": {"lease": true}, "Release": {"lease": true},
		"Import": {"simple": true, "lease": true, "children": true}, "RemoveKeys": {"entry-removal": true},
		"ListKeys": {}, "Export": {}, "RangeKeys": {},
	}
	n := 0
	var methods []string
	for m := range allowed {
		methods = append(methods, m)
	}
	sort.Strings(methods)
	for _, m := range methods {
		fn := c.Func("kv/memory", "MemoryKV", m)
		for _, e := range effs {
			if fn.mayPerform(e.pred, 0) {
				n++
				c.Ob(rule, fmt.Sprintf("memory.%s#writes-%s", m, e.name), fn.Decl.Pos(), allowed[m][e.name],
					fmt.Sprintf("memory.%s (helpers followed) writes the %s part of a stored value; the contract lets it touch only %s", m, e.name, setStr(allowed[m])))
			}
		}
	}
	c.Floor("memory write effects", n, 10)
}

// emptinessCoversAllParts: memory's "this key holds nothing" predicate (isDeleted) must
// read every data field of a stored value. RangeKeys skips keys it considers deleted, so a
// part the predicate ignores (e.g. the lease token) is silently left behind when the key's
// range moves to another node.
func emptinessCoversAllParts(c *Ctx, rule string) {
	mp := c.P("kv/memory")
	kvv, _ := mp.Types.Scope().Lookup("kvValue").Type().Underlying().(*types.Struct)
	fn := c.Func("kv/memory", "kvValue", "isDeleted")
	read := map[string]bool{}
	ast.Inspect(fn.Body, func(n ast.Node) bool {
		if se, ok := n.(*ast.SelectorExpr); ok {
			if k := fn.FieldKey(se); strings.HasPrefix(k, "kv/memory.kvValue.") {
				read[strings.TrimPrefix(k, "kv/memory.kvValue.")] = true
			}
		}
		return true
	})
	// and each part read must take part in the returned conjunction
	for i := 0; i < kvv.NumFields(); i++ {
		f := kvv.Field(i).Name()
		used := false
		for _, r := range fn.Returns() {
			pv := fn.Prov(r.Results[0])
			if strings.Contains(pv, "recv."+f+".") {
				used = true
			}
		}
		c.Ob(rule, "kvValue.isDeleted#considers-"+f, fn.Decl.Pos(), read[f] && used, "the emptiness predicate used by RangeKeys takes the '"+f+"' part of a value into account (a key holding only that part must still be transferred)")
	}
	// it is a conjunction of emptiness tests (no part alone makes a key 'deleted')
	for _, r := range fn.Returns() {
		pv := fn.Prov(r.Results[0])
		c.Ob(rule, "kvValue.isDeleted#conjunction", r.Pos(), !strings.Contains(pv, "||") && strings.Count(pv, "&&") >= kvv.NumFields()-1, "deleted means every part is empty: a conjunction over all parts; found "+pv)
	}
	rk := c.Func("kv/memory", "MemoryKV", "RangeKeys")
	c.Ob(rule, "memory.RangeKeys#skips-only-deleted", rk.Decl.Pos(), len(rk.CallsTo(true, "kv/memory.kvValue.isDeleted")) == 1, "RangeKeys filters keys with exactly that predicate")
}
