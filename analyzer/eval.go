package main

// E1: finite-abstraction evaluation of small pure functions.
//  - a concrete evaluator for the side-effect-free statement/expression subset that the
//    comparison-only functions of the repository use (if/else, switch, return, local
//    definitions, comparisons, boolean operators, calls to other such functions);
//  - a precondition check that the operands are touched only through comparisons, which
//    is what makes "one representative per order type" equal to "all inputs";
//  - enumeration of weak orderings.

import (
	"strings"
	"fmt"
	"go/ast"
	"go/constant"
	"go/token"
	"go/types"
	"math/big"
)

type Val any // *big.Int | bool | string | sliceVal | nilVal | objVal

// nilVal is the untyped nil; objVal an opaque non-nil object (methods are given meaning by
// the rule's ext callback).
type nilVal struct{}
type objVal struct{ id *big.Int }

// tupleVal is the result of a call that yields several values.
type tupleVal []Val

// sliceVal is a slice of values (read-only in the evaluated subset).
type sliceVal []Val

type evalEnv struct {
	f     *Fn
	vars  map[types.Object]Val
	depth int
	// ext lets a rule give meaning to calls the evaluator does not model.
	ext func(f *Fn, call *ast.CallExpr, recv Val, args []Val) (Val, bool)
	// pre is asked before the arguments of a call are evaluated (for calls whose
	// arguments are irrelevant and not evaluable, such as logging).
	pre func(f *Fn, call *ast.CallExpr) (Val, bool)
}

type evalUndecided struct{ msg string }

func undecided(format string, a ...any) { panic(evalUndecided{fmt.Sprintf(format, a...)}) }

type returned struct {
	vals []Val
	ctl  string // "" = return, "continue", "break"
}

// EvalFn runs f's body with the given parameter values and returns its results.
// An unsupported construct yields an error: the caller must treat that as "undecided".
func (f *Fn) EvalFn(args []Val, ext func(f *Fn, call *ast.CallExpr, recv Val, args []Val) (Val, bool)) (res []Val, err error) {
	res, _, err = f.EvalFnWith(args, ext, nil, nil)
	return
}

// EvalFnWith additionally takes a pre-hook and initial values for fields / other objects.
// It also returns the final values of every variable / field touched.
func (f *Fn) EvalFnWith(args []Val, ext func(f *Fn, call *ast.CallExpr, recv Val, args []Val) (Val, bool), pre func(f *Fn, call *ast.CallExpr) (Val, bool), init map[types.Object]Val) (res []Val, final map[types.Object]Val, err error) {
	defer func() {
		if r := recover(); r != nil {
			if u, ok := r.(evalUndecided); ok {
				err = fmt.Errorf("%s: %s", f.Name, u.msg)
				return
			}
			panic(r)
		}
	}()
	env := &evalEnv{f: f, vars: map[types.Object]Val{}, ext: ext, pre: pre}
	for k, v := range init {
		env.vars[k] = v
	}
	final = env.vars
	i := 0
	for _, fld := range f.Type.Params.List {
		for _, nm := range fld.Names {
			if i >= len(args) {
				undecided("too few arguments")
			}
			env.vars[f.Info.Defs[nm]] = args[i]
			i++
		}
	}
	if i != len(args) {
		undecided("argument count mismatch: %d params, %d args", i, len(args))
	}
	r := env.block(f.Body.List)
	if r == nil {
		return nil, final, nil
	}
	if r.ctl != "" {
		undecided("stray %s", r.ctl)
	}
	return r.vals, final, nil
}

// litOf: the function literal fun denotes - the literal itself, or a local variable whose
// current value is a literal (funcVal).
func (e *evalEnv) litOf(fun ast.Expr) *ast.FuncLit {
	switch f := ast.Unparen(fun).(type) {
	case *ast.FuncLit:
		return f
	case *ast.Ident:
		if v, ok := e.vars[e.f.Info.ObjectOf(f)].(funcVal); ok {
			return v.lit
		}
	}
	return nil
}

// mapVal is a read-only map from strings (given by the rule that sets up the evaluation).
type mapVal struct {
	entries map[string]Val
	zero    Val
}

// funcVal is a function literal held in a variable.
type funcVal struct{ lit *ast.FuncLit }

func (e *evalEnv) block(list []ast.Stmt) *returned {
	for _, s := range list {
		if r := e.stmt(s); r != nil {
			return r
		}
	}
	return nil
}

func (e *evalEnv) stmt(s ast.Stmt) *returned {
	switch x := s.(type) {
	case *ast.ReturnStmt:
		var vals []Val
		for _, r := range x.Results {
			vals = append(vals, e.expr(r))
		}
		if len(vals) == 1 {
			if tv, ok := vals[0].(tupleVal); ok {
				vals = []Val(tv)
			}
		}
		if len(x.Results) == 0 && e.f.Type.Results != nil {
			// bare return: the named results
			for _, fld := range e.f.Type.Results.List {
				for _, nm := range fld.Names {
					o := e.f.Info.Defs[nm]
					if v, ok := e.vars[o]; ok {
						vals = append(vals, v)
					} else {
						vals = append(vals, zeroOf(o.Type()))
					}
				}
			}
		}
		return &returned{vals: vals}
	case *ast.BlockStmt:
		return e.block(x.List)
	case *ast.IfStmt:
		if x.Init != nil {
			if r := e.stmt(x.Init); r != nil {
				return r
			}
		}
		c, ok := e.expr(x.Cond).(bool)
		if !ok {
			undecided("non-boolean condition %s", types.ExprString(x.Cond))
		}
		if c {
			return e.block(x.Body.List)
		}
		if x.Else != nil {
			return e.stmt(x.Else)
		}
		return nil
	case *ast.SwitchStmt:
		if x.Init != nil {
			if r := e.stmt(x.Init); r != nil {
				return r
			}
		}
		var tag Val
		if x.Tag != nil {
			tag = e.expr(x.Tag)
		}
		var def *ast.CaseClause
		for _, cl := range x.Body.List {
			cc := cl.(*ast.CaseClause)
			if cc.List == nil {
				def = cc
				continue
			}
			for _, ce := range cc.List {
				v := e.expr(ce)
				hit := false
				if x.Tag == nil {
					hit, _ = v.(bool)
				} else {
					hit = valEq(tag, v)
				}
				if hit {
					return e.caseBody(cc)
				}
			}
		}
		if def != nil {
			return e.caseBody(def)
		}
		return nil
	case *ast.AssignStmt:
		// `_ = expr` without calls has no effect
		allBlank, hasCall := true, false
		for _, l := range x.Lhs {
			if id, ok := l.(*ast.Ident); !ok || id.Name != "_" {
				allBlank = false
			}
		}
		for _, r := range x.Rhs {
			ast.Inspect(r, func(n ast.Node) bool {
				if _, ok := n.(*ast.CallExpr); ok {
					hasCall = true
				}
				return true
			})
		}
		if allBlank && !hasCall {
			return nil
		}
		var vals []Val
		if len(x.Lhs) != len(x.Rhs) {
			if len(x.Rhs) != 1 {
				undecided("multi-value assignment")
			}
			// v, ok := m[k]
			if ix, isIx := ast.Unparen(x.Rhs[0]).(*ast.IndexExpr); isIx && len(x.Lhs) == 2 {
				if mv, isMap := e.expr(ix.X).(mapVal); isMap {
					k, isStr := e.expr(ix.Index).(string)
					if !isStr {
						undecided("map key is not a string in %s", types.ExprString(ix))
					}
					v, present := mv.entries[k]
					if !present {
						v = mv.zero
					}
					x = &ast.AssignStmt{Lhs: x.Lhs, Tok: x.Tok, Rhs: x.Rhs}
					vals = []Val{v, present}
					goto assign
				}
			}
			tv, ok := e.expr(x.Rhs[0]).(tupleVal)
			if !ok || len(tv) != len(x.Lhs) {
				undecided("multi-value assignment from %s", types.ExprString(x.Rhs[0]))
			}
			vals = []Val(tv)
		} else {
			vals = make([]Val, len(x.Rhs))
			for i, r := range x.Rhs {
				vals[i] = e.expr(r)
			}
		}
	assign:
		for i, l := range x.Lhs {
			id, ok := l.(*ast.Ident)
			if !ok {
				// a field of the receiver / a parameter, treated as a variable
				if se, isSel := ast.Unparen(l).(*ast.SelectorExpr); isSel {
					if fv, isVar := e.f.Info.ObjectOf(se.Sel).(*types.Var); isVar && fv.IsField() {
						id = se.Sel
						ok = true
					}
				}
			}
			if !ok {
				undecided("assignment to %s", types.ExprString(l))
			}
			if id.Name == "_" {
				continue
			}
			o := e.f.Info.ObjectOf(id)
			switch x.Tok {
			case token.DEFINE, token.ASSIGN:
				e.vars[o] = vals[i]
			case token.ADD_ASSIGN, token.SUB_ASSIGN, token.MUL_ASSIGN, token.XOR_ASSIGN, token.OR_ASSIGN, token.AND_ASSIGN, token.SHL_ASSIGN, token.SHR_ASSIGN:
				cur, ok1 := e.vars[o].(*big.Int)
				d, ok2 := vals[i].(*big.Int)
				if !ok1 || !ok2 {
					undecided("arithmetic assignment on non-int")
				}
				var nv *big.Int
				switch x.Tok {
				case token.ADD_ASSIGN:
					nv = new(big.Int).Add(cur, d)
				case token.SUB_ASSIGN:
					nv = new(big.Int).Sub(cur, d)
				case token.MUL_ASSIGN:
					nv = new(big.Int).Mul(cur, d)
				case token.XOR_ASSIGN, token.OR_ASSIGN, token.AND_ASSIGN:
					if cur.Sign() < 0 || d.Sign() < 0 {
						undecided("bit operation on a negative value")
					}
					switch x.Tok {
					case token.XOR_ASSIGN:
						nv = new(big.Int).Xor(cur, d)
					case token.OR_ASSIGN:
						nv = new(big.Int).Or(cur, d)
					default:
						nv = new(big.Int).And(cur, d)
					}
				case token.SHL_ASSIGN, token.SHR_ASSIGN:
					if d.Sign() < 0 || d.BitLen() > 10 {
						undecided("shift count")
					}
					if x.Tok == token.SHL_ASSIGN {
						nv = new(big.Int).Lsh(cur, uint(d.Int64()))
					} else {
						nv = new(big.Int).Rsh(cur, uint(d.Int64()))
					}
				}
				e.vars[o] = wrapT(o.Type(), nv)
			default:
				undecided("assignment operator %s", x.Tok)
			}
		}
		return nil
	case *ast.DeclStmt:
		gd := x.Decl.(*ast.GenDecl)
		for _, sp := range gd.Specs {
			vs, ok := sp.(*ast.ValueSpec)
			if !ok {
				continue
			}
			for i, nm := range vs.Names {
				if i < len(vs.Values) {
					e.vars[e.f.Info.Defs[nm]] = e.expr(vs.Values[i])
				} else {
					e.vars[e.f.Info.Defs[nm]] = zeroOf(e.f.Info.Defs[nm].Type())
				}
			}
		}
		return nil
	case *ast.EmptyStmt:
		return nil
	case *ast.ExprStmt:
		// a call made for its effect (given meaning by the ext callback or by evaluating
		// the repo function it resolves to)
		if call, ok := ast.Unparen(x.X).(*ast.CallExpr); ok {
			func() {
				defer func() {
					if r := recover(); r != nil {
						if u, ok := r.(evalUndecided); ok && strings.HasPrefix(u.msg, "call ") && strings.Contains(u.msg, ": no value") {
							return // a function without results ran to its end
						}
						panic(r)
					}
				}()
				e.expr(call)
			}()
			return nil
		}
		undecided("expression statement %s", types.ExprString(x.X))
	case *ast.BranchStmt:
		if x.Label == nil && x.Tok == token.CONTINUE {
			return &returned{ctl: "continue"}
		}
		if x.Label == nil && x.Tok == token.BREAK {
			return &returned{ctl: "break"}
		}
		undecided("branch statement %s", x.Tok)
	case *ast.IncDecStmt:
		id, ok := x.X.(*ast.Ident)
		if !ok {
			undecided("inc/dec of %s", types.ExprString(x.X))
		}
		o := e.f.Info.ObjectOf(id)
		v, ok := e.vars[o].(*big.Int)
		if !ok {
			undecided("inc/dec of non-int")
		}
		d := int64(1)
		if x.Tok == token.DEC {
			d = -1
		}
		e.vars[o] = new(big.Int).Add(v, big.NewInt(d))
		return nil
	case *ast.RangeStmt:
		if sl, isSlice := e.expr(x.X).(sliceVal); isSlice {
			var ko, vo types.Object
			if id, ok := x.Key.(*ast.Ident); ok && id.Name != "_" {
				ko = e.f.Info.ObjectOf(id)
			}
			if id, ok := x.Value.(*ast.Ident); ok && id.Name != "_" {
				vo = e.f.Info.ObjectOf(id)
			}
			for i, el := range sl {
				if ko != nil {
					e.vars[ko] = big.NewInt(int64(i))
				}
				if vo != nil {
					e.vars[vo] = el
				}
				if r := e.block(x.Body.List); r != nil {
					if r.ctl == "continue" {
						continue
					}
					if r.ctl == "break" {
						break
					}
					return r
				}
			}
			return nil
		}
		// for i := range n  (integer range)
		n, ok := e.expr(x.X).(*big.Int)
		if !ok || x.Value != nil {
			undecided("range over non-integer")
		}
		var ko types.Object
		if id, ok := x.Key.(*ast.Ident); ok && id.Name != "_" {
			ko = e.f.Info.ObjectOf(id)
		}
		for i := int64(0); i < n.Int64(); i++ {
			if ko != nil {
				e.vars[ko] = big.NewInt(i)
			}
			if r := e.block(x.Body.List); r != nil {
				if r.ctl == "continue" {
					continue
				}
				if r.ctl == "break" {
					break
				}
				return r
			}
		}
		return nil
	case *ast.ForStmt:
		if x.Init != nil {
			if r := e.stmt(x.Init); r != nil {
				return r
			}
		}
		for iter := 0; ; iter++ {
			if iter > 100000 {
				undecided("loop bound exceeded")
			}
			if x.Cond != nil {
				c, ok := e.expr(x.Cond).(bool)
				if !ok {
					undecided("non-boolean loop condition")
				}
				if !c {
					break
				}
			}
			if r := e.block(x.Body.List); r != nil {
				if r.ctl == "break" {
					break
				}
				if r.ctl != "continue" {
					return r
				}
			}
			if x.Post != nil {
				if r := e.stmt(x.Post); r != nil {
					return r
				}
			}
		}
		return nil
	}
	undecided("unsupported statement %T at %s", s, e.f.C.pos(s.Pos()))
	return nil
}

// wrap reduces a non-negative result to the width of x's static type when that is a
// fixed-size unsigned integer (uint64 arithmetic wraps; the representatives used by the
// order-type rules never reach the width, so nothing changes for them).
func (e *evalEnv) wrap(x ast.Expr, v *big.Int) *big.Int {
	tv, ok := e.f.Info.Types[x]
	if !ok {
		return v
	}
	return wrapT(tv.Type, v)
}

func wrapT(t types.Type, v *big.Int) *big.Int {
	if t == nil || v.Sign() < 0 {
		return v
	}
	b, ok := t.Underlying().(*types.Basic)
	if !ok {
		return v
	}
	bits := 0
	switch b.Kind() {
	case types.Uint8:
		bits = 8
	case types.Uint16:
		bits = 16
	case types.Uint32:
		bits = 32
	case types.Uint64, types.Uint, types.Uintptr:
		bits = 64
	}
	if bits == 0 || v.BitLen() <= bits {
		return v
	}
	return new(big.Int).And(v, new(big.Int).Sub(new(big.Int).Lsh(big.NewInt(1), uint(bits)), big.NewInt(1)))
}

func (e *evalEnv) caseBody(cc *ast.CaseClause) *returned {
	for _, s := range cc.Body {
		if br, ok := s.(*ast.BranchStmt); ok {
			if br.Tok == token.BREAK && br.Label == nil {
				return nil
			}
			undecided("branch statement in switch")
		}
		if r := e.stmt(s); r != nil {
			return r
		}
	}
	return nil
}

func zeroOf(t types.Type) Val {
	if b, ok := t.Underlying().(*types.Basic); ok {
		switch {
		case b.Info()&types.IsBoolean != 0:
			return false
		case b.Info()&types.IsInteger != 0:
			return new(big.Int)
		case b.Info()&types.IsString != 0:
			return ""
		}
	}
	switch t.Underlying().(type) {
	case *types.Pointer, *types.Interface, *types.Slice, *types.Map, *types.Chan, *types.Signature:
		return nilVal{}
	}
	undecided("zero value of %s", t)
	return nil
}

func valEq(a, b Val) bool {
	switch x := a.(type) {
	case *big.Int:
		y, ok := b.(*big.Int)
		return ok && x.Cmp(y) == 0
	case bool:
		y, ok := b.(bool)
		return ok && x == y
	case string:
		y, ok := b.(string)
		return ok && x == y
	}
	undecided("incomparable values")
	return false
}

func constToVal(v constant.Value) Val {
	switch v.Kind() {
	case constant.Bool:
		return constant.BoolVal(v)
	case constant.Int:
		if bi, ok := constant.Val(v).(*big.Int); ok {
			return new(big.Int).Set(bi)
		}
		if i, ok := constant.Val(v).(int64); ok {
			return big.NewInt(i)
		}
	case constant.String:
		return constant.StringVal(v)
	}
	undecided("constant kind %v", v.Kind())
	return nil
}

func (e *evalEnv) expr(x ast.Expr) Val {
	if tv, ok := e.f.Info.Types[x]; ok && tv.Value != nil {
		return constToVal(tv.Value)
	}
	switch x := x.(type) {
	case *ast.ParenExpr:
		return e.expr(x.X)
	case *ast.Ident:
		o := e.f.Info.ObjectOf(x)
		if v, ok := e.vars[o]; ok {
			return v
		}
		if c, ok := o.(*types.Const); ok {
			return constToVal(c.Val())
		}
		if _, ok := o.(*types.Nil); ok {
			return nilVal{}
		}
		// a package-level list initialised by a literal (read-only use is assumed: the
		// callers of the evaluator check who writes it when that matters)
		if gv, ok := o.(*types.Var); ok && gv.Pkg() != nil && gv.Parent() == gv.Pkg().Scope() {
			if lit := globalInit(e.f.C, gv); lit != nil {
				if pp := e.f.C.Pkgs[gv.Pkg().Path()]; pp != nil {
					owner := &Fn{C: e.f.C, Name: "init of " + gv.Name(), Pkg: pp, Info: pp.TypesInfo}
					sub := &evalEnv{f: owner, vars: map[types.Object]Val{}, depth: e.depth + 1}
					if v, isSlice := sub.expr(lit).(sliceVal); isSlice {
						return v
					}
				}
			}
		}
		undecided("free variable %s", x.Name)
	case *ast.SelectorExpr:
		o := e.f.Info.ObjectOf(x.Sel)
		if c, ok := o.(*types.Const); ok {
			return constToVal(c.Val())
		}
		if v, ok := e.vars[o]; ok {
			return v
		}
		undecided("selector %s", types.ExprString(x))
	case *ast.FuncLit:
		return funcVal{lit: x}
	case *ast.CompositeLit:
		// a slice/array literal of plain elements is its elements
		if tv, ok := e.f.Info.Types[x]; ok {
			isSeq := false
			switch tv.Type.Underlying().(type) {
			case *types.Slice, *types.Array:
				isSeq = true
			}
			if isSeq {
				plain := true
				for _, el := range x.Elts {
					if _, kv := el.(*ast.KeyValueExpr); kv {
						plain = false
					}
					if _, cl := ast.Unparen(el).(*ast.CompositeLit); cl {
						plain = false
					}
				}
				if plain {
					out := sliceVal{}
					okAll := true
					for _, el := range x.Elts {
						var v Val
						func() {
							defer func() {
								if r := recover(); r != nil {
									if _, isU := r.(evalUndecided); isU {
										okAll = false
										return
									}
									panic(r)
								}
							}()
							v = e.expr(el)
						}()
						if !okAll {
							break
						}
						out = append(out, v)
					}
					if okAll {
						return out
					}
				}
			}
		}
		// an opaque freshly built object (its methods get meaning from the ext callback)
		return objVal{id: big.NewInt(int64(x.Pos()))}
	case *ast.UnaryExpr:
		if x.Op == token.AND {
			if _, ok := ast.Unparen(x.X).(*ast.CompositeLit); ok {
				return e.expr(ast.Unparen(x.X))
			}
		}
		v := e.expr(x.X)
		switch x.Op {
		case token.NOT:
			b, ok := v.(bool)
			if !ok {
				undecided("! of non-bool")
			}
			return !b
		case token.SUB:
			i, ok := v.(*big.Int)
			if !ok {
				undecided("- of non-int")
			}
			return new(big.Int).Neg(i)
		}
		undecided("unary %s", x.Op)
	case *ast.BinaryExpr:
		switch x.Op {
		case token.LAND:
			l, ok := e.expr(x.X).(bool)
			if !ok {
				undecided("&& of non-bool")
			}
			if !l {
				return false
			}
			r, ok := e.expr(x.Y).(bool)
			if !ok {
				undecided("&& of non-bool")
			}
			return r
		case token.LOR:
			l, ok := e.expr(x.X).(bool)
			if !ok {
				undecided("|| of non-bool")
			}
			if l {
				return true
			}
			r, ok := e.expr(x.Y).(bool)
			if !ok {
				undecided("|| of non-bool")
			}
			return r
		}
		l, r := e.expr(x.X), e.expr(x.Y)
		{
			_, ln := l.(nilVal)
			_, rn := r.(nilVal)
			_, lo := l.(objVal)
			_, ro := r.(objVal)
			if (ln || lo) && (rn || ro) && (ln || rn) {
				same := ln && rn
				switch x.Op {
				case token.EQL:
					return same
				case token.NEQ:
					return !same
				}
			}
		}
		if lb, ok := l.(bool); ok {
			rb, ok2 := r.(bool)
			if !ok2 {
				undecided("bool vs non-bool")
			}
			switch x.Op {
			case token.EQL:
				return lb == rb
			case token.NEQ:
				return lb != rb
			}
			undecided("bool operator %s", x.Op)
		}
		li, ok1 := l.(*big.Int)
		ri, ok2 := r.(*big.Int)
		if !ok1 || !ok2 {
			if ls, ok := l.(string); ok {
				if rs, ok := r.(string); ok {
					switch x.Op {
					case token.EQL:
						return ls == rs
					case token.NEQ:
						return ls != rs
					}
				}
			}
			undecided("operands of %s", x.Op)
		}
		c := li.Cmp(ri)
		switch x.Op {
		case token.LSS:
			return c < 0
		case token.LEQ:
			return c <= 0
		case token.GTR:
			return c > 0
		case token.GEQ:
			return c >= 0
		case token.EQL:
			return c == 0
		case token.NEQ:
			return c != 0
		case token.ADD:
			return e.wrap(x, new(big.Int).Add(li, ri))
		case token.SUB:
			return new(big.Int).Sub(li, ri)
		case token.MUL:
			return e.wrap(x, new(big.Int).Mul(li, ri))
		case token.QUO:
			if ri.Sign() == 0 {
				undecided("division by zero")
			}
			return new(big.Int).Quo(li, ri)
		case token.REM:
			if ri.Sign() == 0 {
				undecided("division by zero")
			}
			return new(big.Int).Rem(li, ri)
		case token.SHR:
			if ri.Sign() < 0 || ri.BitLen() > 10 {
				undecided("shift count")
			}
			return new(big.Int).Rsh(li, uint(ri.Int64()))
		case token.SHL:
			if ri.Sign() < 0 || ri.BitLen() > 10 {
				undecided("shift count")
			}
			return e.wrap(x, new(big.Int).Lsh(li, uint(ri.Int64())))
		case token.XOR:
			if li.Sign() >= 0 && ri.Sign() >= 0 {
				return new(big.Int).Xor(li, ri)
			}
		case token.AND:
			if li.Sign() >= 0 && ri.Sign() >= 0 {
				return new(big.Int).And(li, ri)
			}
		case token.OR:
			if li.Sign() >= 0 && ri.Sign() >= 0 {
				return new(big.Int).Or(li, ri)
			}
		}
		undecided("binary %s", x.Op)
	case *ast.IndexExpr:
		if mv, isMap := e.expr(x.X).(mapVal); isMap {
			// a read of a (read-only) map: the entry, or the zero value of the element type
			k, isStr := e.expr(x.Index).(string)
			if !isStr {
				undecided("map key is not a string in %s", types.ExprString(x))
			}
			if v, ok := mv.entries[k]; ok {
				return v
			}
			return mv.zero
		}
		sl, ok := e.expr(x.X).(sliceVal)
		ix, ok2 := e.expr(x.Index).(*big.Int)
		if !ok || !ok2 || ix.Sign() < 0 || ix.Int64() >= int64(len(sl)) {
			undecided("index out of range or non-slice in %s", types.ExprString(x))
		}
		return sl[ix.Int64()]
	case *ast.CallExpr:
		// conversion between integer types: value-preserving for the representatives used
		if tv, ok := e.f.Info.Types[x.Fun]; ok && tv.IsType() && len(x.Args) == 1 {
			if b, ok := tv.Type.Underlying().(*types.Basic); ok && b.Info()&types.IsInteger != 0 {
				return e.expr(x.Args[0])
			}
			undecided("conversion to %s", tv.Type)
		}
		if e.pre != nil {
			if v, ok := e.pre(e.f, x); ok {
				return v
			}
		}
		var args []Val
		for _, a := range x.Args {
			args = append(args, e.expr(a))
		}
		if id, ok := ast.Unparen(x.Fun).(*ast.Ident); ok && len(args) == 1 {
			if b, ok := e.f.Info.Uses[id].(*types.Builtin); ok && b.Name() == "len" {
				switch a := args[0].(type) {
				case sliceVal:
					return big.NewInt(int64(len(a)))
				case string:
					return big.NewInt(int64(len(a)))
				}
				undecided("len of an opaque value")
			}
		}
		if id, ok := ast.Unparen(x.Fun).(*ast.Ident); ok && len(args) > 0 {
			if b, ok := e.f.Info.Uses[id].(*types.Builtin); ok && (b.Name() == "min" || b.Name() == "max") {
				best, ok := args[0].(*big.Int)
				for _, a := range args[1:] {
					n, ok2 := a.(*big.Int)
					if !ok || !ok2 {
						undecided("call %s of non-integers", b.Name())
					}
					if c := n.Cmp(best); b.Name() == "min" && c < 0 || b.Name() == "max" && c > 0 {
						best = n
					}
				}
				if !ok {
					undecided("call %s of non-integers", b.Name())
				}
				return best
			}
		}
		if e.ext != nil {
			var recv Val
			if se, ok := ast.Unparen(x.Fun).(*ast.SelectorExpr); ok && e.f.Info.Selections[se] != nil {
				func() {
					defer func() {
						if r := recover(); r != nil {
							if _, ok := r.(evalUndecided); !ok {
								panic(r)
							}
						}
					}()
					recv = e.expr(se.X)
				}()
			}
			if v, ok := e.ext(e.f, x, recv, args); ok {
				return v
			}
		}
		// a literal invoked on the spot (what an inlined helper looks like), or a local that
		// holds a literal: the body runs in the same variable environment (captured
		// variables are the caller's), with its parameters bound
		if lit := e.litOf(x.Fun); lit != nil && e.depth < 8 {
			sub := &evalEnv{f: e.f, vars: e.vars, depth: e.depth + 1, ext: e.ext, pre: e.pre}
			i := 0
			if lit.Type.Params != nil {
				for _, fld := range lit.Type.Params.List {
					for _, nm := range fld.Names {
						if i < len(args) {
							sub.vars[e.f.Info.Defs[nm]] = args[i]
						}
						i++
					}
				}
			}
			if i != len(args) {
				undecided("call %s: argument count", types.ExprString(x.Fun))
			}
			r := sub.block(lit.Body.List)
			if r != nil && r.ctl != "" {
				undecided("stray %s in literal", r.ctl)
			}
			if r == nil || len(r.vals) == 0 {
				undecided("call %s: no value", types.ExprString(x.Fun))
			}
			if len(r.vals) == 1 {
				return r.vals[0]
			}
			return tupleVal(r.vals)
		}
		callee := e.f.Callee(x)
		if callee != nil {
			if g := e.f.C.FnOfObj(callee); g != nil && e.depth < 8 {
				sub := &evalEnv{f: g, vars: map[types.Object]Val{}, depth: e.depth + 1, ext: e.ext, pre: e.pre}
				i := 0
				for _, fld := range g.Type.Params.List {
					for _, nm := range fld.Names {
						if i < len(args) {
							sub.vars[g.Info.Defs[nm]] = args[i]
						}
						i++
					}
				}
				if i != len(args) {
					undecided("call %s: argument count", types.ExprString(x.Fun))
				}
				r := sub.block(g.Body.List)
				if r == nil || len(r.vals) == 0 {
					undecided("call %s: no value", types.ExprString(x.Fun))
				}
				if len(r.vals) == 1 {
					return r.vals[0]
				}
				return tupleVal(r.vals)
			}
		}
		undecided("call %s", types.ExprString(x.Fun))
	}
	undecided("unsupported expression %T %s", x, types.ExprString(x))
	return nil
}

// onlyCompared verifies E1's precondition on f: every use of the given parameters is a
// direct operand of a comparison, or an argument passed to a repo function for which the
// same holds at that parameter position. Returns the offending use otherwise.
func (f *Fn) onlyCompared(params map[types.Object]bool, depth int) (ast.Node, string) {
	var bad ast.Node
	why := ""
	var stack []ast.Node
	ast.Inspect(f.Body, func(n ast.Node) bool {
		if n == nil {
			stack = stack[:len(stack)-1]
			return true
		}
		stack = append(stack, n)
		if bad != nil {
			return true
		}
		id, ok := n.(*ast.Ident)
		if !ok || !params[f.Info.ObjectOf(id)] {
			return true
		}
		// find the nearest non-paren ancestor
		var parent ast.Node
		for i := len(stack) - 2; i >= 0; i-- {
			if _, isParen := stack[i].(*ast.ParenExpr); !isParen {
				parent = stack[i]
				break
			}
		}
		switch p := parent.(type) {
		case *ast.BinaryExpr:
			switch p.Op {
			case token.LSS, token.LEQ, token.GTR, token.GEQ, token.EQL, token.NEQ:
				return true
			}
			bad, why = p, "operand of "+p.Op.String()
		case *ast.CallExpr:
			if depth > 4 {
				bad, why = p, "call depth"
				return true
			}
			callee := f.Callee(p)
			g := f.C.FnOfObj(callee)
			if g == nil {
				bad, why = p, "passed to unmodelled call "+types.ExprString(p.Fun)
				return true
			}
			// which argument position(s)?
			sub := map[types.Object]bool{}
			i := 0
			for _, fld := range g.Type.Params.List {
				for _, nm := range fld.Names {
					if i < len(p.Args) && ast.Unparen(p.Args[i]) == ast.Expr(id) {
						sub[g.Info.Defs[nm]] = true
					}
					i++
				}
			}
			if b, w := g.onlyCompared(sub, depth+1); b != nil {
				bad, why = b, "via "+g.Name+": "+w
			}
		default:
			bad, why = id, fmt.Sprintf("used in %T", parent)
		}
		return true
	})
	return bad, why
}

// weakOrderings enumerates every weak ordering of n operands as rank vectors
// (ranks 0..k-1, every rank used): 1, 3, 13, 75, 541 ... of them.
func weakOrderings(n int) [][]int {
	var out [][]int
	var rec func(i int, cur []int)
	rec = func(i int, cur []int) {
		if i == n {
			// ranks must be exactly {0..max}
			used := map[int]bool{}
			mx := -1
			for _, r := range cur {
				used[r] = true
				if r > mx {
					mx = r
				}
			}
			if len(used) == mx+1 {
				out = append(out, append([]int(nil), cur...))
			}
			return
		}
		for r := 0; r < n; r++ {
			rec(i+1, append(cur, r))
		}
	}
	rec(0, nil)
	return out
}

func rankVal(r int) *big.Int { return big.NewInt(int64(1000 * (r + 1))) }

// ---------------------------------------------------------------------------------------
// modular interval domain (ModuloSum, Hash)

type modAbs struct {
	lo, hi *big.Int
	// value ≡ cx*x + cy*y + c0 (mod M); valid only when linOK
	linOK      bool
	cx, cy, c0 *big.Int
}

var maxU64 = new(big.Int).Sub(new(big.Int).Lsh(big.NewInt(1), 64), big.NewInt(1))

// evalMod abstractly evaluates an expression over uint64 parameters px, py with modulus M.
func (f *Fn) evalMod(e ast.Expr, px, py types.Object, M *big.Int, extern func(call *ast.CallExpr) bool) (modAbs, error) {
	return f.evalModE(e, px, py, M, extern, nil)
}

func (f *Fn) evalModE(e ast.Expr, px, py types.Object, M *big.Int, extern func(call *ast.CallExpr) bool, env map[types.Object]modAbs) (modAbs, error) {
	e = ast.Unparen(e)
	if tv, ok := f.Info.Types[e]; ok && tv.Value != nil {
		v, ok := constToVal(tv.Value).(*big.Int)
		if !ok {
			return modAbs{}, fmt.Errorf("non-integer constant")
		}
		return modAbs{lo: v, hi: v, linOK: true, cx: big.NewInt(0), cy: big.NewInt(0), c0: new(big.Int).Mod(v, M)}, nil
	}
	switch x := e.(type) {
	case *ast.Ident:
		o := f.Info.ObjectOf(x)
		if v, ok := env[o]; ok {
			return v, nil
		}
		if o == px {
			return modAbs{lo: big.NewInt(0), hi: maxU64, linOK: true, cx: big.NewInt(1), cy: big.NewInt(0), c0: big.NewInt(0)}, nil
		}
		if o == py {
			return modAbs{lo: big.NewInt(0), hi: maxU64, linOK: true, cx: big.NewInt(0), cy: big.NewInt(1), c0: big.NewInt(0)}, nil
		}
		return modAbs{}, fmt.Errorf("free variable %s", x.Name)
	case *ast.CallExpr:
		if extern != nil && extern(x) {
			// an opaque uint64 producer
			return modAbs{lo: big.NewInt(0), hi: maxU64}, nil
		}
		return modAbs{}, fmt.Errorf("call %s", types.ExprString(x.Fun))
	case *ast.BinaryExpr:
		l, err := f.evalModE(x.X, px, py, M, extern, env)
		if err != nil {
			return modAbs{}, err
		}
		r, err := f.evalModE(x.Y, px, py, M, extern, env)
		if err != nil {
			return modAbs{}, err
		}
		switch x.Op {
		case token.SUB:
			out := modAbs{lo: new(big.Int).Sub(l.lo, r.hi), hi: new(big.Int).Sub(l.hi, r.lo)}
			if out.lo.Sign() < 0 {
				return modAbs{}, fmt.Errorf("possible uint64 underflow in %s (lower bound %s)", types.ExprString(x), out.lo)
			}
			if l.linOK && r.linOK {
				out.linOK = true
				out.cx = new(big.Int).Mod(new(big.Int).Sub(l.cx, r.cx), M)
				out.cy = new(big.Int).Mod(new(big.Int).Sub(l.cy, r.cy), M)
				out.c0 = new(big.Int).Mod(new(big.Int).Sub(l.c0, r.c0), M)
			}
			return out, nil
		case token.ADD:
			out := modAbs{lo: new(big.Int).Add(l.lo, r.lo), hi: new(big.Int).Add(l.hi, r.hi)}
			if out.hi.Cmp(maxU64) > 0 {
				return modAbs{}, fmt.Errorf("possible uint64 overflow in %s (upper bound %s)", types.ExprString(x), out.hi)
			}
			if l.linOK && r.linOK {
				out.linOK = true
				out.cx = new(big.Int).Add(l.cx, r.cx)
				out.cy = new(big.Int).Add(l.cy, r.cy)
				out.c0 = new(big.Int).Mod(new(big.Int).Add(l.c0, r.c0), M)
			}
			return out, nil
		case token.REM:
			if r.lo.Cmp(r.hi) != 0 || r.lo.Sign() <= 0 {
				return modAbs{}, fmt.Errorf("modulus is not a positive constant")
			}
			m := r.lo
			out := modAbs{lo: big.NewInt(0), hi: new(big.Int).Sub(m, big.NewInt(1))}
			if l.hi.Cmp(out.hi) < 0 {
				out.hi = l.hi
			}
			// reducing modulo m preserves the class modulo M iff M divides m
			if l.linOK && new(big.Int).Mod(m, M).Sign() == 0 {
				out.linOK, out.cx, out.cy, out.c0 = true, l.cx, l.cy, l.c0
			}
			return out, nil
		}
		return modAbs{}, fmt.Errorf("operator %s", x.Op)
	}
	return modAbs{}, fmt.Errorf("expression %T", e)
}

// joinMod is the least upper bound: the interval hull; the congruence survives only when
// both sides agree on it.
func joinMod(a, b modAbs, M *big.Int) modAbs {
	out := modAbs{lo: a.lo, hi: a.hi}
	if b.lo.Cmp(out.lo) < 0 {
		out.lo = b.lo
	}
	if b.hi.Cmp(out.hi) > 0 {
		out.hi = b.hi
	}
	eq := func(x, y *big.Int) bool {
		return new(big.Int).Mod(new(big.Int).Sub(x, y), M).Sign() == 0
	}
	if a.linOK && b.linOK && eq(a.cx, b.cx) && eq(a.cy, b.cy) && eq(a.c0, b.c0) {
		out.linOK, out.cx, out.cy, out.c0 = true, a.cx, a.cy, a.c0
	}
	return out
}

// evalModBody abstractly executes a straight-line body with if-statements: local
// definitions, compound assignments, branches on a comparison between a variable and a
// constant (the variable's interval is refined on each side), and returns. The result is
// the join over every return. Loops and anything else are undecided (error).
func (f *Fn) evalModBody(px, py types.Object, M *big.Int, extern func(call *ast.CallExpr) bool) (modAbs, []*ast.ReturnStmt, error) {
	var rets []*ast.ReturnStmt
	var result *modAbs
	one := big.NewInt(1)
	clone := func(env map[types.Object]modAbs) map[types.Object]modAbs {
		o := map[types.Object]modAbs{}
		for k, v := range env {
			o[k] = v
		}
		return o
	}
	// refine returns the environments of the true and false sides of cond (nil = that
	// side is infeasible)
	refine := func(cond ast.Expr, env map[types.Object]modAbs) (t, e map[types.Object]modAbs, err error) {
		be, ok := ast.Unparen(cond).(*ast.BinaryExpr)
		if !ok {
			return nil, nil, fmt.Errorf("condition %s", types.ExprString(cond))
		}
		op := be.Op
		vx, cx := be.X, be.Y
		id, isId := ast.Unparen(vx).(*ast.Ident)
		if !isId || f.Info.Types[vx].Value != nil {
			// constant on the left: mirror
			vx, cx = be.Y, be.X
			id, isId = ast.Unparen(vx).(*ast.Ident)
			switch op {
			case token.LSS:
				op = token.GTR
			case token.GTR:
				op = token.LSS
			case token.LEQ:
				op = token.GEQ
			case token.GEQ:
				op = token.LEQ
			}
		}
		if !isId {
			return nil, nil, fmt.Errorf("condition %s does not compare a variable", types.ExprString(cond))
		}
		obj := f.Info.ObjectOf(id)
		cur, err := f.evalModE(id, px, py, M, extern, env)
		if err != nil {
			return nil, nil, err
		}
		k, err := f.evalModE(cx, px, py, M, extern, env)
		if err != nil {
			return nil, nil, err
		}
		if k.lo.Cmp(k.hi) != 0 {
			return nil, nil, fmt.Errorf("condition %s does not compare with a constant", types.ExprString(cond))
		}
		c := k.lo
		// [lo,hi] for the true side and for the false side
		var tlo, thi, elo, ehi *big.Int
		switch op {
		case token.GTR: // v > c | v <= c
			tlo, thi, elo, ehi = new(big.Int).Add(c, one), cur.hi, cur.lo, c
		case token.GEQ: // v >= c | v < c
			tlo, thi, elo, ehi = c, cur.hi, cur.lo, new(big.Int).Sub(c, one)
		case token.LSS: // v < c | v >= c
			tlo, thi, elo, ehi = cur.lo, new(big.Int).Sub(c, one), c, cur.hi
		case token.LEQ: // v <= c | v > c
			tlo, thi, elo, ehi = cur.lo, c, new(big.Int).Add(c, one), cur.hi
		default:
			return nil, nil, fmt.Errorf("comparison %s", op)
		}
		mk := func(lo, hi *big.Int) map[types.Object]modAbs {
			if lo.Cmp(cur.lo) < 0 {
				lo = cur.lo
			}
			if hi.Cmp(cur.hi) > 0 {
				hi = cur.hi
			}
			if lo.Cmp(hi) > 0 {
				return nil
			}
			n := clone(env)
			v := cur
			v.lo, v.hi = lo, hi
			n[obj] = v
			return n
		}
		return mk(tlo, thi), mk(elo, ehi), nil
	}
	var exec func(list []ast.Stmt, env map[types.Object]modAbs) (map[types.Object]modAbs, error)
	exec = func(list []ast.Stmt, env map[types.Object]modAbs) (map[types.Object]modAbs, error) {
		for _, st := range list {
			if env == nil {
				return nil, nil
			}
			switch x := st.(type) {
			case *ast.ReturnStmt:
				if len(x.Results) != 1 {
					return nil, fmt.Errorf("return with %d results", len(x.Results))
				}
				v, err := f.evalModE(x.Results[0], px, py, M, extern, env)
				if err != nil {
					return nil, err
				}
				rets = append(rets, x)
				if result == nil {
					result = &v
				} else {
					j := joinMod(*result, v, M)
					result = &j
				}
				return nil, nil
			case *ast.AssignStmt:
				if len(x.Lhs) != 1 || len(x.Rhs) != 1 {
					return nil, fmt.Errorf("assignment %s", f.Str(x))
				}
				id, ok := x.Lhs[0].(*ast.Ident)
				if !ok {
					return nil, fmt.Errorf("assignment target %s", f.Str(x.Lhs[0]))
				}
				var rhs ast.Expr = x.Rhs[0]
				switch x.Tok {
				case token.DEFINE, token.ASSIGN:
				case token.ADD_ASSIGN:
					rhs = &ast.BinaryExpr{X: id, Op: token.ADD, Y: x.Rhs[0]}
				case token.SUB_ASSIGN:
					rhs = &ast.BinaryExpr{X: id, Op: token.SUB, Y: x.Rhs[0]}
				case token.REM_ASSIGN:
					rhs = &ast.BinaryExpr{X: id, Op: token.REM, Y: x.Rhs[0]}
				default:
					return nil, fmt.Errorf("assignment operator %s", x.Tok)
				}
				v, err := f.evalModE(rhs, px, py, M, extern, env)
				if err != nil {
					return nil, err
				}
				env = clone(env)
				env[f.Info.ObjectOf(id)] = v
			case *ast.DeclStmt:
				gd, ok := x.Decl.(*ast.GenDecl)
				if !ok || gd.Tok != token.VAR {
					return nil, fmt.Errorf("declaration %s", f.Str(x))
				}
				for _, sp := range gd.Specs {
					vs := sp.(*ast.ValueSpec)
					if len(vs.Names) != 1 || len(vs.Values) > 1 {
						return nil, fmt.Errorf("declaration %s", f.Str(x))
					}
					v := modAbs{lo: big.NewInt(0), hi: big.NewInt(0), linOK: true, cx: big.NewInt(0), cy: big.NewInt(0), c0: big.NewInt(0)}
					if len(vs.Values) == 1 {
						var err error
						if v, err = f.evalModE(vs.Values[0], px, py, M, extern, env); err != nil {
							return nil, err
						}
					}
					env = clone(env)
					env[f.Info.Defs[vs.Names[0]]] = v
				}
			case *ast.IfStmt:
				if x.Init != nil {
					return nil, fmt.Errorf("if with init statement")
				}
				tenv, eenv, err := refine(x.Cond, env)
				if err != nil {
					return nil, err
				}
				tout, err := exec(x.Body.List, tenv)
				if err != nil {
					return nil, err
				}
				eout := eenv
				switch el := x.Else.(type) {
				case nil:
				case *ast.BlockStmt:
					if eout, err = exec(el.List, eenv); err != nil {
						return nil, err
					}
				case *ast.IfStmt:
					if eout, err = exec([]ast.Stmt{el}, eenv); err != nil {
						return nil, err
					}
				}
				switch {
				case tout == nil:
					env = eout
				case eout == nil:
					env = tout
				default:
					j := map[types.Object]modAbs{}
					for k, a := range tout {
						if b, ok := eout[k]; ok {
							j[k] = joinMod(a, b, M)
						}
					}
					env = j
				}
			default:
				return nil, fmt.Errorf("statement %T", st)
			}
		}
		return env, nil
	}
	out, err := exec(f.Body.List, map[types.Object]modAbs{})
	if err != nil {
		return modAbs{}, nil, err
	}
	if out != nil {
		return modAbs{}, nil, fmt.Errorf("a path falls off the end of the body")
	}
	if result == nil {
		return modAbs{}, nil, fmt.Errorf("no return")
	}
	return *result, rets, nil
}

// bytesOnlyZeroAndShiftTested verifies that every element read of the first (slice)
// parameter of f occurs as `p[i] == 0`, `p[i] != 0`, `0 == p[i]`, `0 != p[i]` or as the
// shifted operand of such a comparison (`p[i] >> k == 0`). Then a byte influences the
// result only through its number of leading zero bits.
func bytesOnlyZeroAndShiftTested(f *Fn) (ast.Node, string) {
	var pobj types.Object
	for _, fld := range f.Type.Params.List {
		for _, nm := range fld.Names {
			if pobj == nil {
				pobj = f.Info.Defs[nm]
			}
		}
	}
	parent := map[ast.Node]ast.Node{}
	var stack []ast.Node
	ast.Inspect(f.Body, func(n ast.Node) bool {
		if n == nil {
			stack = stack[:len(stack)-1]
			return true
		}
		if len(stack) > 0 {
			parent[n] = stack[len(stack)-1]
		}
		stack = append(stack, n)
		return true
	})
	up := func(n ast.Node) (ast.Node, ast.Expr) { // first non-paren ancestor, and the (parenthesised) child below it
		cur, _ := n.(ast.Expr)
		p := parent[n]
		for {
			pe, ok := p.(*ast.ParenExpr)
			if !ok {
				return p, cur
			}
			cur = pe
			p = parent[p]
		}
	}
	isZero := func(e ast.Expr) bool {
		v, ok := f.ConstVal(e)
		return ok && v == "0"
	}
	var bad ast.Node
	why := ""
	fail := func(n ast.Node, w string) {
		if bad == nil {
			bad, why = n, w
		}
	}
	seenVar := map[*types.Var]bool{}
	// valueUse: e holds a hash byte (shifted==false) or a hash byte shifted right by some
	// amount (shifted==true); check what is done with it
	var valueUse func(e ast.Expr, shifted bool)
	var varUses func(v *types.Var, shifted bool)
	valueUse = func(e ast.Expr, shifted bool) {
		p, cur := up(e)
		switch x := p.(type) {
		case *ast.BinaryExpr:
			switch {
			case x.Op == token.SHR && !shifted && ast.Unparen(x.X) == ast.Unparen(cur):
				valueUse(x, true)
			case x.Op == token.EQL || x.Op == token.NEQ:
				other := x.X
				if ast.Unparen(x.X) == ast.Unparen(cur) {
					other = x.Y
				}
				if !isZero(other) {
					fail(x, "element compared with a non-zero value")
				}
			default:
				fail(x, "element not compared with ==/!=")
			}
		case *ast.AssignStmt:
			// b := hash[i]  - a copy: the discipline applies to every use of b
			if len(x.Lhs) == len(x.Rhs) && (x.Tok == token.DEFINE || x.Tok == token.ASSIGN) {
				for i, r := range x.Rhs {
					if ast.Unparen(r) == ast.Unparen(cur) {
						if v := f.varOf(x.Lhs[i]); v != nil {
							varUses(v, shifted)
							return
						}
					}
				}
			}
			fail(x, "element stored somewhere the discipline cannot follow")
		case *ast.ValueSpec:
			for i, r := range x.Values {
				if ast.Unparen(r) == ast.Unparen(cur) && i < len(x.Names) {
					if v, ok := f.Info.Defs[x.Names[i]].(*types.Var); ok {
						varUses(v, shifted)
						return
					}
				}
			}
			fail(x, "element stored somewhere the discipline cannot follow")
		default:
			fail(e, "element not compared with ==/!=")
		}
	}
	varUses = func(v *types.Var, shifted bool) {
		if seenVar[v] {
			return
		}
		seenVar[v] = true
		for _, d := range f.defsOf(v) {
			if d.multi || d.rhs == nil {
				fail(d.rhs, "copy of an element also defined otherwise")
			}
		}
		ast.Inspect(f.Body, func(n ast.Node) bool {
			id, ok := n.(*ast.Ident)
			if !ok || f.Info.Uses[id] != types.Object(v) {
				return true
			}
			// a mention on the left of an assignment is a definition, not a use
			if as, ok := parent[id].(*ast.AssignStmt); ok {
				for _, l := range as.Lhs {
					if l == ast.Expr(id) {
						return true
					}
				}
			}
			valueUse(id, shifted)
			return true
		})
	}
	ast.Inspect(f.Body, func(n ast.Node) bool {
		id, ok := n.(*ast.Ident)
		if !ok || f.Info.ObjectOf(id) != pobj {
			return true
		}
		p, cur := up(id)
		ix, ok := p.(*ast.IndexExpr)
		if !ok || ast.Unparen(ix.X) != ast.Unparen(cur) {
			fail(id, "used other than as p[i]")
			return true
		}
		valueUse(ix, false)
		return true
	})
	return bad, why
}
