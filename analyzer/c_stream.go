package main

import (
	"fmt"
	"go/ast"
	"go/token"
	"go/types"
	"sort"
	"strings"
)

func init() {
	register(&propDef{ID: "C39", Level: "other",
		Decides:    "the monitor discipline of bufconn.pipe: every access to a pipe field happens with pipe.mu held (helpers via their callers); every Cond.Wait sits in a loop that re-tests the close flags, the data predicate and the timeout flag; every mutation that can make a waiter's exit condition true is followed in the same critical section by a notify on the matching condition variable (close/closeWrite: both; read/write timeout: its own side; consumption: writers, may be conditional on a was-full flag taken before the mutation; production: readers, likewise); conn.Close closes its read side and write-closes the peer's; Write's error returns report the bytes already accepted.",
		NotDecided: "the ring buffer's index arithmetic (byte fidelity).",
		Run:        runC39})
	register(&propDef{ID: "C41", Level: "other",
		Decides:    "agreement between the two ends of reuseConnection, on a decision table extracted from the syntax tree over the finite atoms (peer cache state, peer direction, own cached flag, own cached direction, own direction, re-check): every valuation reaches exactly one leaf (STORE / REUSE / REJECT); for the two ends of one new connection (dialer OUT, acceptor IN) and every pair of pre-existing cache states, without an intervening change one side stores iff the other stores; a REUSE happens only against a peer announcing a cached connection of the opposite direction or on the re-check path; no leaf closes the cached connection and in a REUSE/REUSE pair exactly one side closes the fresh one; every REJECT of a recognised state is an 'invalid state' error; the cache is written only under the keyed write lock and announced under the read lock.",
		NotDecided: "interleavings of more than one negotiation with the reaper.",
		Run:        runC41})
	mutExtra["write-flag-sampled-before-wait"] = [2]string{"		wasEmpty := p.empty()\n\n", "\n"}
	addSelfTests("C39",
		mutation{"write-flag-sampled-before-wait", "util/bufconn/bufconn.go", "	for len(b) > 0 {\n		// Block until p is not full.", "	wasEmpty := p.empty()\n	for len(b) > 0 {\n		// Block until p is not full.", "wakeup"},
		mutation{"close-no-writer-wakeup", "util/bufconn/bufconn.go", "	p.closed = true\n	// Signal all blocked readers and writers to return an error.\n	p.rwait.Broadcast()\n	p.wwait.Broadcast()", "	p.closed = true\n	// Signal all blocked readers and writers to return an error.\n	p.rwait.Broadcast()", "wakeup"},
		mutation{"timeout-no-wakeup", "util/bufconn/bufconn.go", "			p.rtimedout = true\n			p.rwait.Broadcast()", "			p.rtimedout = true", "wakeup"},
		mutation{"wait-not-retested", "util/bufconn/bufconn.go", "		if p.rtimedout {\n			return 0, errTimeout\n		}\n\n		p.rwait.Wait()\n	}", "		p.rwait.Wait()\n		if p.rtimedout {\n			return 0, errTimeout\n		}\n		break\n	}", "wait-loop"},
		mutation{"wasfull-after-consume", "util/bufconn/bufconn.go", "	wasFull := p.full()\n\n	n = copy(b, p.buf[p.r:len(p.buf)])\n	p.r += n", "	n = copy(b, p.buf[p.r:len(p.buf)])\n	p.r += n\n	wasFull := p.full()", "wakeup"},
		mutation{"partial-write-count-lost", "util/bufconn/bufconn.go", "			if p.wtimedout {\n				return n, errTimeout\n			}", "			if p.wtimedout {\n				return 0, errTimeout\n			}", "writer-accounting"},
		mutation{"deadline-without-lock", "util/bufconn/bufconn.go", "	p := c.Writer.(*pipe)\n	p.mu.Lock()\n	defer p.mu.Unlock()\n	p.wtimer.Stop()", "	p := c.Writer.(*pipe)\n	p.wtimer.Stop()", "monitor"},
		mutation{"close-not-propagated", "util/bufconn/bufconn.go", "	err2 := c.Writer.(*pipe).closeWrite()", "	var err2 error", "conn-close"},
	)
	mutExtra["reuse-through-helper"] = [2]string{"func (t *QUIC) reuseConnection(", "func keepCachedHelper(kept, redundant *nodeConnection) (*nodeConnection, bool, error) {\n	redundant.quic.CloseWithError(508, wrapReuseError(\"previously cached connection was reused\").Error())\n	return kept, true, nil\n}\n\nfunc (t *QUIC) reuseConnection("}
	mutExtra["reuse-through-helper-swapped"] = mutExtra["reuse-through-helper"]
	addSelfTests("C41",
		mutation{"reuse-through-helper", "overlay/reuse.go", "					// other: cached incoming\n					//    us: cached outgoing\n					fresh.quic.CloseWithError(508, wrapReuseError(\"previously cached connection was reused\").Error())\n					return cache, true, nil", "					// other: cached incoming\n					//    us: cached outgoing\n					return keepCachedHelper(cache, fresh)", "!leaf"},
		mutation{"reuse-through-helper-swapped", "overlay/reuse.go", "					// other: cached incoming\n					//    us: cached outgoing\n					fresh.quic.CloseWithError(508, wrapReuseError(\"previously cached connection was reused\").Error())\n					return cache, true, nil", "					// other: cached incoming\n					//    us: cached outgoing\n					return keepCachedHelper(fresh, cache)", "leaf"},
		mutation{"store-on-cached-peer", "overlay/reuse.go", "					// other: cached outgoing\n					//    us:    new incoming\n					return nil, false, wrapReuseError(\"other peer has cached connection while we are handling a new incoming connection\")", "					// other: cached outgoing\n					//    us:    new incoming\n					t.cachedConnections.Store(qKey, fresh)\n					return fresh, false, nil", "joint"},
		mutation{"both-close-fresh", "overlay/reuse.go", "					// we will let the receiver side close the connection\n					return cache, true, nil", "					// we will let the receiver side close the connection\n					fresh.quic.CloseWithError(508, \"reused\")\n					return cache, true, nil", "joint"},
		mutation{"closes-cached", "overlay/reuse.go", "					// other: cached incoming\n					//    us: cached outgoing\n					fresh.quic.CloseWithError(508, wrapReuseError(\"previously cached connection was reused\").Error())", "					// other: cached incoming\n					//    us: cached outgoing\n					cache.quic.CloseWithError(508, wrapReuseError(\"previously cached connection was reused\").Error())", "leaf"},
		mutation{"reject-not-invalid-state", "overlay/reuse.go", "					return nil, false, wrapReuseError(\"both peers have cached incoming connections\")\n				} else {\n					// other: cached incoming", "					return nil, false, fmt.Errorf(\"both peers have cached incoming connections\")\n				} else {\n					// other: cached incoming", "leaf"},
		mutation{"announce-own-direction-when-cached", "overlay/reuse.go", "		if cache.direction == directionIncoming {\n			negotiation.CacheDirection = protocol.Connection_INCOMING\n		} else {\n			negotiation.CacheDirection = protocol.Connection_OUTGOING\n		}\n	} else {\n		negotiation.CacheState = protocol.Connection_FRESH", "		if dir == directionIncoming {\n			negotiation.CacheDirection = protocol.Connection_INCOMING\n		} else {\n			negotiation.CacheDirection = protocol.Connection_OUTGOING\n		}\n	} else {\n		negotiation.CacheState = protocol.Connection_FRESH", "announce"},
		mutation{"store-without-lock", "overlay/reuse.go", "	unlock := t.cachedMutex.Lock(qKey)\n	defer unlock()\n", "	unlock := t.cachedMutex.RLock(qKey)\n	defer unlock()\n", "cache-lock"},
	)
}

func runC39(c *Ctx) {
	// M1: fields under the mutex
	fields := map[string]bool{}
	naccess := 0
	for _, fn := range c.AllFuncs("util/bufconn") {
		if fn.Decl.Name.Name == "newPipe" {
			continue
		}
		ast.Inspect(fn.Body, func(n ast.Node) bool {
			se, ok := n.(*ast.SelectorExpr)
			if !ok {
				return true
			}
			g := fn.enclosing(se)
			k := g.FieldKey(se)
			if !strings.HasPrefix(k, "util/bufconn.pipe.") || strings.HasSuffix(k, ".mu") {
				return true
			}
			f := strings.TrimPrefix(k, "util/bufconn.pipe.")
			fields[f] = true
			naccess++
			held := pipeLockHeld(c, g, se, types_ExprString(se.X))
			c.Ob("monitor", fmt.Sprintf("%s#p.%s", g.root().Name, f), se.Pos(), held, "pipe."+f+" is accessed with pipe.mu held (directly, in the enclosing function for a deferred/timer body that locks itself, or in every caller of a helper)")
			return true
		})
	}
	c.Floor("pipe field accesses", naccess, 40)
	// M2: Wait loops
	for _, name := range []string{"Read", "Write"} {
		fn := c.Func("util/bufconn", "pipe", name)
		waits := methodCalls(fn, false, "Wait")
		c.Floor(name+" wait sites", len(waits), 1)
		for _, w := range waits {
			var loop *ast.ForStmt
			ast.Inspect(fn.Body, func(n ast.Node) bool {
				if f, ok := n.(*ast.ForStmt); ok && containsNode(f.Body, w) {
					loop = f // innermost wins (inspect order: outer first)
				}
				return true
			})
			// an unconditional loop, or one whose condition is itself part of the re-test
			// (`for !closed && empty() { ...; Wait() }`): either way control returns to the
			// tests after every wake-up
			okLoop := loop != nil
			// Wait is the last statement of the loop body: control returns to the tests
			if okLoop {
				last := loop.Body.List[len(loop.Body.List)-1]
				es, isExpr := last.(*ast.ExprStmt)
				okLoop = isExpr && es.X == ast.Expr(w)
			}
			// the tests before Wait
			tested := map[string]bool{}
			if loop != nil {
				// the conditions evaluated before the Wait: if / else-if chains and the cases
				// of tagless switches among the statements of the loop body
				var conds []ast.Expr
				if loop.Cond != nil {
					conds = append(conds, loop.Cond)
				}
				for _, st := range loop.Body.List {
					switch x := st.(type) {
					case *ast.IfStmt:
						for cur := x; cur != nil; {
							conds = append(conds, cur.Cond)
							next, _ := cur.Else.(*ast.IfStmt)
							cur = next
						}
					case *ast.SwitchStmt:
						if x.Tag == nil {
							for _, cl := range x.Body.List {
								if cc, ok := cl.(*ast.CaseClause); ok {
									conds = append(conds, cc.List...)
								}
							}
						}
					}
				}
				for _, cond := range conds {
					ast.Inspect(cond, func(m ast.Node) bool {
						switch x := m.(type) {
						case *ast.SelectorExpr:
							if k := fn.FieldKey(x); strings.HasPrefix(k, "util/bufconn.pipe.") {
								tested[strings.TrimPrefix(k, "util/bufconn.pipe.")] = true
							}
						case *ast.CallExpr:
							if fn.IsCall(x, "util/bufconn.pipe.empty") {
								tested["empty()"] = true
							}
							if fn.IsCall(x, "util/bufconn.pipe.full") {
								tested["full()"] = true
							}
						}
						return true
					})
				}
			}
			need := []string{"closed", "empty()", "writeClosed", "rtimedout"}
			if name == "Write" {
				need = []string{"closed", "writeClosed", "full()", "wtimedout"}
			}
			okTests := true
			for _, t := range need {
				if !tested[t] {
					okTests = false
				}
			}
			c.Ob("wait-loop", "pipe."+name+"#Wait-in-retesting-loop", w.Pos(), okLoop && okTests, fmt.Sprintf("Cond.Wait is the last statement of an unconditional loop whose body first re-tests %v (a wake-up is only a hint); tested: %v", need, keysOf(tested)))
			se := w.Fun.(*ast.SelectorExpr)
			wantCond := map[string]string{"Read": "recv.rwait", "Write": "recv.wwait"}[name]
			c.Ob("wait-loop", "pipe."+name+"#waits-on-its-own-condition", w.Pos(), fn.Prov(se.X) == wantCond, "readers wait on rwait, writers on wwait")
		}
	}
	// M3: wake-up table
	notifyAfter := func(fn *Fn, from ast.Node, cond string) bool {
		// every path from `from` to an exit passes cond.Signal/Broadcast
		_, exits := fn.Reach(from, func(n ast.Node) bool {
			for _, call := range shallowCalls(n) {
				if se, ok := call.Fun.(*ast.SelectorExpr); ok && (se.Sel.Name == "Signal" || se.Sel.Name == "Broadcast") && strings.HasSuffix(fn.Prov(se.X), "."+cond) {
					return true
				}
			}
			return false
		}, nil)
		return len(exits) == 0
	}
	nw := 0
	for _, fn := range c.AllFuncs("util/bufconn") {
		ast.Inspect(fn.Body, func(n ast.Node) bool {
			as, ok := n.(*ast.AssignStmt)
			if !ok || len(as.Lhs) != 1 {
				return true
			}
			g := fn.enclosing(as)
			k := strings.TrimPrefix(g.FieldKey(as.Lhs[0]), "util/bufconn.pipe.")
			v, _ := g.ConstVal(as.Rhs[0])
			switch {
			case (k == "closed" || k == "writeClosed") && v == "true":
				nw++
				c.Ob("wakeup", g.root().Name+"#"+k+"=true-wakes-both", as.Pos(), notifyAfter(g, as, "rwait") && notifyAfter(g, as, "wwait"), "closing wakes blocked readers and writers in the same critical section")
			case k == "rtimedout" && v == "true":
				nw++
				c.Ob("wakeup", g.root().Name+"#rtimedout=true-wakes-readers", as.Pos(), notifyAfter(g, as, "rwait"), "a read deadline wakes blocked readers")
			case k == "wtimedout" && v == "true":
				nw++
				c.Ob("wakeup", g.root().Name+"#wtimedout=true-wakes-writers", as.Pos(), notifyAfter(g, as, "wwait"), "a write deadline wakes blocked writers")
			}
			return true
		})
	}
	c.Floor("close/timeout wake-up sites", nw, 4)
	// consumption / production
	for _, spec := range []struct{ fn, field, flagCall, cond, what string }{
		{"Read", "r", "util/bufconn.pipe.full", "wwait", "consumption wakes a writer blocked on a full buffer"},
		{"Write", "w", "util/bufconn.pipe.empty", "rwait", "production wakes a reader blocked on an empty buffer"},
	} {
		fn := c.Func("util/bufconn", "pipe", spec.fn)
		var mut *ast.AssignStmt
		ast.Inspect(fn.Body, func(n ast.Node) bool {
			if as, ok := n.(*ast.AssignStmt); ok && as.Tok == token.ADD_ASSIGN && len(as.Lhs) == 1 && fn.FieldKey(as.Lhs[0]) == "util/bufconn.pipe."+spec.field {
				mut = as
			}
			return true
		})
		if mut == nil {
			c.Failf("pipe.%s: index advance not found (undecided)", spec.fn)
		}
		// find the notify
		var notify *ast.CallExpr
		for _, call := range fn.Calls(false, func(call *ast.CallExpr) bool {
			se, ok := call.Fun.(*ast.SelectorExpr)
			return ok && (se.Sel.Name == "Signal" || se.Sel.Name == "Broadcast") && strings.HasSuffix(fn.Prov(se.X), "."+spec.cond)
		}) {
			notify = call
		}
		ok := notify != nil
		det := "no notify on " + spec.cond
		if ok {
			// the notify is reachable after the mutation, and guarded at most by a flag computed from the predicate BEFORE the mutation
			reached, _ := fn.Reach(mut, nil, nil)
			after := false
			for _, n := range reached {
				if containsNode(n, notify) {
					after = true
				}
			}
			fs := fn.FactsAt(notify)
			uncond := true
			flagOK := false
			staleNote := ""
			for _, fa := range fs.Facts {
				if fa.Kind != FCmp || fa.Sem {
					continue
				}
				id, isId := fa.Expr.(*ast.Ident)
				if isId && fa.Truth {
					if v := fn.varOf(id); v != nil {
						defs := fn.defsOf(v)
						if len(defs) == 1 {
							if dc, ok := defs[0].rhs.(*ast.CallExpr); ok && fn.IsCall(dc, spec.flagCall) && defs[0].pos < mut.Pos() {
								// the flag is a sample of the state the mutation starts from: between
								// taking it and moving the index the monitor is never left (no
								// Cond.Wait, which releases the mutex and lets the peer change the state)
								stale := false
								between, _ := fn.Reach(dc, func(n ast.Node) bool { return containsNode(n, mut) }, nil)
								reachesMut := false
								for _, bn := range between {
									if containsNode(bn, mut) {
										reachesMut = true
										continue
									}
									ast.Inspect(bn, func(x ast.Node) bool {
										if wc, ok := x.(*ast.CallExpr); ok && fn.IsCall(wc, "sync.Cond.Wait") {
											stale = true
										}
										return true
									})
								}
								uncond = false
								if reachesMut && !stale {
									flagOK = true
								} else {
									staleNote = "; the flag is taken before a Cond.Wait, so it describes the buffer before the writer/reader slept"
								}
							}
						}
					}
				}
			}
			// other conditions guarding the notify besides the loop tests are not expected: the notify sits right after the mutation
			ok = after && (flagOK || uncond && notifyAlways(fn, mut, spec.cond))
			det = fmt.Sprintf("after mutation=%v, guarded by a pre-mutation %s flag=%v%s", after, spec.flagCall, flagOK, staleNote)
		}
		c.Ob("wakeup", "pipe."+spec.fn+"#"+spec.cond+"-notified", mut.Pos(), ok, spec.what+" (the was-full/was-empty flag must be taken before the indices move): "+det)
	}
	// M4 conn.Close
	cc := c.Func("util/bufconn", "conn", "Close")
	okR, okW := false, false
	for _, call := range cc.Calls(false, func(call *ast.CallExpr) bool { return true }) {
		se, ok := call.Fun.(*ast.SelectorExpr)
		if !ok {
			continue
		}
		pv := cc.Prov(se.X)
		if se.Sel.Name == "Close" && strings.HasPrefix(pv, "recv.Reader") {
			okR = true
		}
		if se.Sel.Name == "closeWrite" && strings.HasPrefix(pv, "recv.Writer") {
			okW = true
		}
	}
	c.Ob("conn-close", "conn.Close#closes-read-side-and-write-closes-peer", cc.Decl.Pos(), okR && okW, "closing a conn closes its own read pipe (local reads fail) and write-closes the pipe the peer reads from (the peer sees EOF after the buffered bytes)")
	// M5 writer accounting
	wr := c.Func("util/bufconn", "pipe", "Write")
	var acc *ast.AssignStmt
	ast.Inspect(wr.Body, func(n ast.Node) bool {
		if as, ok := n.(*ast.AssignStmt); ok && as.Tok == token.ADD_ASSIGN && len(as.Lhs) == 1 {
			if id, ok := as.Lhs[0].(*ast.Ident); ok && wr.paramIndex(wr.Info.ObjectOf(id)) == -2 {
				// named result n
				if wr.Type.Results != nil && len(wr.Type.Results.List) > 0 && len(wr.Type.Results.List[0].Names) > 0 && wr.Type.Results.List[0].Names[0].Name == id.Name {
					acc = as
				}
			}
		}
		return true
	})
	if acc == nil {
		c.Failf("pipe.Write: byte counter accumulation not found (undecided)")
	}
	reached, _ := wr.Reach(acc, nil, nil)
	nret := 0
	for _, n := range reached {
		r, ok := n.(*ast.ReturnStmt)
		if !ok || len(r.Results) != 2 || isNilIdent(wr.Info, r.Results[1]) {
			continue
		}
		nret++
		_, isConst := wr.ConstVal(r.Results[0])
		c.Ob("writer-accounting", "pipe.Write#error-return-reports-accepted-bytes", r.Pos(), !isConst && types_ExprString(r.Results[0]) == types_ExprString(acc.Lhs[0]), "an error return reachable after bytes were accepted returns the running count, not a constant (io.Writer: n is the number of bytes written; the reader will receive them)")
	}
	c.Floor("Write error returns after accumulation", nret, 1)
}

func keysOf(m map[string]bool) []string {
	var s []string
	for k := range m {
		s = append(s, k)
	}
	sort.Strings(s)
	return s
}

// notifyAlways: from the mutation every path to an exit passes a notify on cond.
func notifyAlways(fn *Fn, from ast.Node, cond string) bool {
	_, exits := fn.Reach(from, func(n ast.Node) bool {
		for _, call := range shallowCalls(n) {
			if se, ok := call.Fun.(*ast.SelectorExpr); ok && (se.Sel.Name == "Signal" || se.Sel.Name == "Broadcast") && strings.HasSuffix(fn.Prov(se.X), "."+cond) {
				return true
			}
		}
		return false
	}, nil)
	return len(exits) == 0
}

// pipeLockHeld: <base>.mu is held at n; helpers (empty/full) are decided at their callers.
func pipeLockHeld(c *Ctx, g *Fn, n ast.Node, base string) bool {
	held := func(fs *FactSet, b string) bool {
		return fs.Has(func(fa *Fact) bool { return fa.Kind == FHeld && fa.Lock == b+".mu" })
	}
	if held(g.FactsAt(n), base) {
		return true
	}
	root := g.root()
	if root.Obj == nil || g != root {
		return false
	}
	callers, all := 0, true
	for _, cf := range c.AllFuncs("util/bufconn") {
		for _, call := range cf.Calls(true, func(call *ast.CallExpr) bool { return cf.Callee(call) == root.Obj }) {
			callers++
			h := cf.enclosing(call)
			se, ok := call.Fun.(*ast.SelectorExpr)
			if !ok || !held(h.FactsAt(call), types_ExprString(se.X)) {
				all = false
			}
		}
	}
	return callers > 0 && all
}

// ---------------------------------------------------------------------------------------

type reuseLeaf struct {
	kind        string // STORE REUSE REJECT
	closesFresh bool
	closesCache bool
	invalid     bool // REJECT built by wrapReuseError
	pos         token.Pos
	path        string
	// a REUSE leaf that hands back something else than the cached connection
	returnsFreshAsReused bool
}

type reuseVal struct {
	peerState, peerDir string // CACHED/FRESH/other, IN/OUT/other
	cached, cacheIn    bool
	dirIn              bool
	recheck            bool
}

func runC41(c *Ctx) {
	rc := c.Func("overlay", "QUIC", "reuseConnection")
	// the decision switch: the last top-level switch on negotiation.CacheState
	var sw *ast.SwitchStmt
	for _, st := range rc.Body.List {
		if s, ok := st.(*ast.SwitchStmt); ok && s.Tag != nil && strings.HasSuffix(rc.Prov(s.Tag), ".CacheState") {
			sw = s
		}
	}
	if sw == nil {
		c.Failf("reuseConnection: decision switch on the peer's CacheState not found (undecided)")
	}
	var eval func(stmts []ast.Stmt, v reuseVal, rechecked bool, path string) (*reuseLeaf, string)
	atomOf := func(e ast.Expr, rechecked bool) string {
		e = ast.Unparen(e)
		if id, ok := e.(*ast.Ident); ok && strings.HasSuffix(rc.Prov(id), ".cachedConnections.Load()#1") {
			if rechecked {
				return "recheck"
			}
			return "cached"
		}
		if be, ok := e.(*ast.BinaryExpr); ok && be.Op == token.EQL && constName(rc, be.Y) == "directionIncoming" {
			if strings.HasSuffix(rc.Prov(be.X), ".cachedConnections.Load()#0.direction") {
				return "cacheIn"
			}
			if rc.Prov(be.X) == "param#3" {
				return "dirIn"
			}
		}
		return ""
	}
	val := func(a string, v reuseVal) bool {
		switch a {
		case "cached":
			return v.cached
		case "recheck":
			return v.recheck
		case "cacheIn":
			return v.cacheIn
		case "dirIn":
			return v.dirIn
		}
		return false
	}
	// leafStmt interprets the effect statements of a leaf (close / store / return) in
	// function f; roles maps f's parameters to "fresh" / "cache" when f is a helper the
	// leaf returns through (the role of an argument is decided at the call site, not by
	// the helper's parameter names). It reports whether the leaf ended (a return).
	var leafStmt func(f *Fn, st ast.Stmt, roles map[*types.Var]string, leaf *reuseLeaf, depth int) (bool, string)
	roleOf := func(f *Fn, e ast.Expr, roles map[*types.Var]string) string {
		if id, ok := ast.Unparen(e).(*ast.Ident); ok {
			if v := f.varOf(id); v != nil && roles != nil {
				if r, ok := roles[v]; ok {
					return r
				}
			}
		}
		// a selector chain: the role of its root
		root := ast.Unparen(e)
		for {
			se, ok := root.(*ast.SelectorExpr)
			if !ok {
				break
			}
			root = ast.Unparen(se.X)
		}
		if root != ast.Unparen(e) {
			if id, ok := root.(*ast.Ident); ok {
				if v := f.varOf(id); v != nil && roles != nil {
					if r, ok := roles[v]; ok {
						return r
					}
				}
			}
		}
		pv := f.Prov(root)
		switch {
		case strings.HasPrefix(pv, "&lit:nodeConnection"):
			return "fresh"
		case strings.Contains(pv, ".cachedConnections.Load()#0"):
			return "cache"
		}
		if f == rc && strings.Contains(types_ExprString(root), "fresh") {
			return "fresh"
		}
		return "cache"
	}
	leafStmt = func(f *Fn, st ast.Stmt, roles map[*types.Var]string, leaf *reuseLeaf, depth int) (bool, string) {
		switch x := st.(type) {
		case *ast.ExprStmt:
			call, ok := x.X.(*ast.CallExpr)
			if !ok {
				return false, "unrecognised statement"
			}
			se, _ := call.Fun.(*ast.SelectorExpr)
			switch {
			case se != nil && se.Sel.Name == "CloseWithError":
				if roleOf(f, se.X, roles) == "fresh" {
					leaf.closesFresh = true
				} else {
					leaf.closesCache = true
				}
			case se != nil && se.Sel.Name == "Store" && strings.HasSuffix(f.Prov(se.X), ".cachedConnections"):
				if roleOf(f, call.Args[1], roles) == "fresh" {
					leaf.kind = "STORE"
				}
			default:
				return false, "unrecognised call " + types_ExprString(call.Fun)
			}
			return false, ""
		case *ast.ReturnStmt:
			leaf.pos = x.Pos()
			if len(x.Results) == 1 {
				// return helper(args...): the helper's body is the rest of the leaf
				call, ok := ast.Unparen(x.Results[0]).(*ast.CallExpr)
				if !ok || depth > 2 {
					return false, "unrecognised return"
				}
				o := f.Callee(call)
				h := f.C.FnOfObj(o)
				if o == nil || h == nil {
					return false, "return through an unresolved call " + types_ExprString(call.Fun)
				}
				sub := map[*types.Var]string{}
				i := 0
				for _, fld := range h.Type.Params.List {
					for _, nm := range fld.Names {
						if i < len(call.Args) {
							if pv, ok := h.Info.Defs[nm].(*types.Var); ok {
								sub[pv] = roleOf(f, call.Args[i], roles)
							}
						}
						i++
					}
				}
				for _, hs := range h.Body.List {
					done, why := leafStmt(h, hs, sub, leaf, depth+1)
					if why != "" {
						return false, "in helper " + h.Name + ": " + why
					}
					if done {
						leaf.pos = x.Pos()
						return true, ""
					}
				}
				return false, "helper " + h.Name + " falls off its end"
			}
			if len(x.Results) != 3 {
				return false, "unrecognised return"
			}
			reused, _ := f.ConstVal(x.Results[1])
			switch {
			case !isNilIdent(f.Info, x.Results[2]):
				leaf.kind = "REJECT"
				if call, ok := x.Results[2].(*ast.CallExpr); ok && f.IsCall(call, "overlay.wrapReuseError") {
					leaf.invalid = true
				}
			case reused == "true":
				if leaf.kind == "STORE" {
					return false, "stores and reports reuse"
				}
				leaf.kind = "REUSE"
				// the connection handed back as "reused" is the cached one
				if roleOf(f, x.Results[0], roles) != "cache" {
					leaf.returnsFreshAsReused = true
				}
			default:
				if leaf.kind != "STORE" {
					return false, "returns a fresh connection without storing it"
				}
			}
			return true, ""
		}
		return false, fmt.Sprintf("unrecognised statement %T", st)
	}
	eval = func(stmts []ast.Stmt, v reuseVal, rechecked bool, path string) (*reuseLeaf, string) {
		leaf := &reuseLeaf{path: path}
		for _, st := range stmts {
			switch x := st.(type) {
			case *ast.SwitchStmt:
				tag := rc.Prov(x.Tag)
				var want string
				switch {
				case strings.HasSuffix(tag, ".CacheState"):
					want = map[string]string{"CACHED": "Connection_CACHED", "FRESH": "Connection_FRESH"}[v.peerState]
				case strings.HasSuffix(tag, ".CacheDirection"):
					want = map[string]string{"IN": "Connection_INCOMING", "OUT": "Connection_OUTGOING"}[v.peerDir]
				default:
					return nil, "switch on unrecognised tag " + tag
				}
				var def *ast.CaseClause
				for _, cl := range x.Body.List {
					cc := cl.(*ast.CaseClause)
					if cc.List == nil {
						def = cc
						continue
					}
					for _, e := range cc.List {
						if constName(rc, e) == want && want != "" {
							return eval(cc.Body, v, rechecked, path+"/"+want)
						}
					}
				}
				if def != nil {
					return eval(def.Body, v, rechecked, path+"/default")
				}
				return nil, "no case taken"
			case *ast.IfStmt:
				// `if c, ok := cache.Load(k); ok` re-loads the cache in its init statement
				if as, ok := x.Init.(*ast.AssignStmt); ok && len(as.Rhs) == 1 {
					if call, ok := as.Rhs[0].(*ast.CallExpr); ok && strings.HasSuffix(rc.CallKey(call), ".Load") {
						rechecked = true
					} else {
						return nil, "unrecognised init statement"
					}
				} else if x.Init != nil {
					return nil, "unrecognised init statement"
				}
				a := atomOf(x.Cond, rechecked)
				negated := false
				if a == "" {
					// the same tests written the other way round: `!c`, `x != directionIncoming`
					inner := ast.Unparen(x.Cond)
					if u, ok := inner.(*ast.UnaryExpr); ok && u.Op == token.NOT {
						a, negated = atomOf(u.X, rechecked), true
					} else if be, ok := inner.(*ast.BinaryExpr); ok && be.Op == token.NEQ {
						a, negated = atomOf(&ast.BinaryExpr{X: be.X, Op: token.EQL, Y: be.Y}, rechecked), true
					}
				}
				if a == "" {
					return nil, "unrecognised condition " + types_ExprString(x.Cond)
				}
				if val(a, v) != negated {
					tag := a
					if negated {
						tag = "!" + a
					}
					return eval(x.Body.List, v, rechecked, path+"/"+tag)
				}
				if negated {
					a = "!" + a
				}
				if x.Else != nil {
					if eb, ok := x.Else.(*ast.BlockStmt); ok {
						return eval(eb.List, v, rechecked, path+"/!"+a)
					}
					return eval([]ast.Stmt{x.Else}, v, rechecked, path+"/!"+a)
				}
			case *ast.AssignStmt:
				// the re-load of the cache
				if len(x.Rhs) == 1 {
					if call, ok := x.Rhs[0].(*ast.CallExpr); ok && strings.HasSuffix(rc.CallKey(call), ".Load") {
						rechecked = true
						continue
					}
				}
				return nil, "unrecognised assignment"
			case *ast.ExprStmt, *ast.ReturnStmt:
				done, why := leafStmt(rc, st, nil, leaf, 0)
				if why != "" {
					return nil, why
				}
				if done {
					return leaf, ""
				}
			default:
				return nil, fmt.Sprintf("unrecognised statement %T", st)
			}
		}
		return nil, "fell off the end of a branch"
	}
	// enumerate all valuations
	table := map[reuseVal]*reuseLeaf{}
	nval := 0
	for _, ps := range []string{"CACHED", "FRESH"} {
		for _, pd := range []string{"IN", "OUT"} {
			for _, cached := range []bool{false, true} {
				for _, cacheIn := range []bool{false, true} {
					if !cached && cacheIn {
						continue
					}
					for _, dirIn := range []bool{false, true} {
						for _, re := range []bool{false, true} {
							v := reuseVal{ps, pd, cached, cacheIn, dirIn, re}
							leaf, why := eval([]ast.Stmt{sw}, v, false, "")
							nval++
							if leaf == nil {
								c.Ob("leaf", fmt.Sprintf("reuseConnection#valuation(%+v)", v), sw.Pos(), false, "the decision tree must reach exactly one recognised leaf for every valuation: "+why)
								continue
							}
							table[v] = leaf
						}
					}
				}
			}
		}
	}
	c.Extra("decision_table_valuations", nval)
	c.Extra("exhaustive", true)
	// per-leaf properties
	seenLeaf := map[token.Pos]bool{}
	nleaf := 0
	for v, l := range table {
		if seenLeaf[l.pos] {
			continue
		}
		seenLeaf[l.pos] = true
		nleaf++
		c.Ob("leaf", fmt.Sprintf("reuseConnection#leaf%s:no-close-of-cached", l.path), l.pos, !l.closesCache, "the negotiation never closes the cached connection (it may be in use)")
		if l.kind == "REUSE" {
			c.Ob("leaf", fmt.Sprintf("reuseConnection#leaf%s:reuse-returns-the-cached-connection", l.path), l.pos, !l.returnsFreshAsReused, "a leaf that reports reuse hands back the cached connection, not the one it just closed")
		}
		if l.kind == "REJECT" {
			c.Ob("leaf", fmt.Sprintf("reuseConnection#leaf%s:reject-is-invalid-state", l.path), l.pos, l.invalid, "a rejection of a recognised state pair is an 'invalid state' error (the dialer's retry predicate and the acceptor's log filter look for it)")
		}
		if l.kind == "STORE" {
			c.Ob("leaf", fmt.Sprintf("reuseConnection#leaf%s:store-does-not-close", l.path), l.pos, !l.closesFresh, "a stored connection is not closed")
		}
		_ = v
	}
	c.Floor("decision leaves", nleaf, 12)
	// announce function
	type ann struct{ state, dir string }
	// the send that announces the cache status: the first rpc.Send after the first cache load
	var announceSend *ast.CallExpr
	{
		var firstLoad token.Pos
		for _, call := range rc.Calls(false, func(call *ast.CallExpr) bool {
			return strings.HasSuffix(rc.CallKey(call), ".Load") && strings.HasSuffix(rc.Prov(call.Fun.(*ast.SelectorExpr).X), ".cachedConnections")
		}) {
			if !firstLoad.IsValid() || call.Pos() < firstLoad {
				firstLoad = call.Pos()
			}
		}
		for _, call := range rc.CallsTo(false, "spec/rpc.Send") {
			if firstLoad.IsValid() && call.Pos() > firstLoad && (announceSend == nil || call.Pos() < announceSend.Pos()) {
				announceSend = call
			}
		}
	}
	announce := func(cached, cacheIn, dirIn bool) (ann, string) {
		// The statements from the cache load to the send of the negotiation message are
		// interpreted under the valuation: conditions over `cached`, the cached connection's
		// direction and this connection's direction (directly or through a local that holds
		// one of the two) are evaluated; the last values given to CacheState and
		// CacheDirection are what is announced. Nested if/else, default-then-override and a
		// local "direction to announce" are alike.
		var res ann
		why := ""
		locals := map[*types.Var]bool{}
		evalDir := func(e ast.Expr) (bool, bool) {
			pv := rc.Prov(e)
			if v := rc.varOf(e); v != nil {
				if b, ok := locals[v]; ok {
					return b, true
				}
			}
			switch {
			case pv == "param#3":
				return dirIn, true
			case strings.HasSuffix(pv, ".cachedConnections.Load()#0.direction"):
				return cacheIn, true
			}
			return false, false
		}
		var cond func(e ast.Expr) (bool, bool)
		cond = func(e ast.Expr) (bool, bool) {
			e = ast.Unparen(e)
			switch x := e.(type) {
			case *ast.Ident:
				if strings.HasSuffix(rc.Prov(x), ".cachedConnections.Load()#1") {
					return cached, true
				}
			case *ast.UnaryExpr:
				if x.Op == token.NOT {
					v, ok := cond(x.X)
					return !v, ok
				}
			case *ast.BinaryExpr:
				if (x.Op == token.EQL || x.Op == token.NEQ) && constName(rc, x.Y) == "directionIncoming" {
					if v, ok := evalDir(x.X); ok {
						return v == (x.Op == token.EQL), true
					}
				}
			}
			return false, false
		}
		touches := func(n ast.Node) bool {
			t := false
			ast.Inspect(n, func(m ast.Node) bool {
				if as, ok := m.(*ast.AssignStmt); ok {
					for _, l := range as.Lhs {
						pv := rc.Prov(l)
						if strings.HasSuffix(pv, ".CacheState") || strings.HasSuffix(pv, ".CacheDirection") {
							t = true
						}
						if v := rc.varOf(l); v != nil {
							if _, ok := locals[v]; ok {
								t = true
							}
						}
					}
				}
				return !t
			})
			return t
		}
		var run func(stmts []ast.Stmt) bool // true = reached the send
		run = func(stmts []ast.Stmt) bool {
			for _, st := range stmts {
				if announceSend != nil && containsNode(st, announceSend) {
					return true
				}
				switch x := st.(type) {
				case *ast.AssignStmt:
					if len(x.Lhs) != len(x.Rhs) {
						continue
					}
					for i, l := range x.Lhs {
						lhs := rc.Prov(l)
						switch {
						case strings.HasSuffix(lhs, ".CacheState"):
							res.state = map[string]string{"Connection_CACHED": "CACHED", "Connection_FRESH": "FRESH"}[constName(rc, x.Rhs[i])]
						case strings.HasSuffix(lhs, ".CacheDirection"):
							nm := constName(rc, x.Rhs[i])
							if nm == "" {
								if n2, w2 := announceFromLiteral(rc, x.Rhs[i], cacheIn, dirIn); n2 != "" || w2 != "" {
									nm = n2
									if w2 != "" {
										why = w2
									}
								}
							}
							res.dir = map[string]string{"Connection_INCOMING": "IN", "Connection_OUTGOING": "OUT"}[nm]
						default:
							if v := rc.varOf(l); v != nil && strings.HasSuffix(v.Type().String(), "overlay.direction") {
								if b, ok := evalDir(x.Rhs[i]); ok {
									locals[v] = b
								}
							}
						}
					}
				case *ast.IfStmt:
					b, ok := cond(x.Cond)
					if !ok {
						if touches(x) {
							why = "unrecognised condition in the announce block: " + types_ExprString(x.Cond)
						}
						continue
					}
					if b {
						if run(x.Body.List) {
							return true
						}
					} else if eb, ok := x.Else.(*ast.BlockStmt); ok {
						if run(eb.List) {
							return true
						}
					} else if ei, ok := x.Else.(*ast.IfStmt); ok {
						if run([]ast.Stmt{ei}) {
							return true
						}
					}
				}
			}
			return false
		}
		if !run(rc.Body.List) {
			why = "the send of the negotiation message was not reached"
		}
		return res, why
	}
	// joint table: A dials (dirIn=false), B accepts (dirIn=true); pre-state none / IN / OUT
	pre := []struct {
		name            string
		cached, cacheIn bool
	}{{"none", false, false}, {"cachedIN", true, true}, {"cachedOUT", true, false}}
	for _, pa := range pre {
		for _, pb := range pre {
			aa, why1 := announce(pa.cached, pa.cacheIn, false)
			ab, why2 := announce(pb.cached, pb.cacheIn, true)
			if why1 != "" || why2 != "" || aa.state == "" || ab.state == "" || aa.dir == "" || ab.dir == "" {
				c.Ob("announce", fmt.Sprintf("reuseConnection#announce(A=%s,B=%s)", pa.name, pb.name), rc.Decl.Pos(), false, "the announce block could not be evaluated: "+why1+why2)
				continue
			}
			// what each side must announce
			wantA := ann{"FRESH", "OUT"}
			if pa.cached {
				wantA = ann{"CACHED", map[bool]string{true: "IN", false: "OUT"}[pa.cacheIn]}
			}
			wantB := ann{"FRESH", "IN"}
			if pb.cached {
				wantB = ann{"CACHED", map[bool]string{true: "IN", false: "OUT"}[pb.cacheIn]}
			}
			c.Ob("announce", fmt.Sprintf("reuseConnection#announce(A=%s,B=%s)", pa.name, pb.name), rc.Decl.Pos(), aa == wantA && ab == wantB, fmt.Sprintf("each side announces CACHED with its cached connection's direction, or FRESH with the direction of the new connection: A sends %v (want %v), B sends %v (want %v)", aa, wantA, ab, wantB))
			la := table[reuseVal{ab.state, ab.dir, pa.cached, pa.cacheIn, false, pa.cached}]
			lb := table[reuseVal{aa.state, aa.dir, pb.cached, pb.cacheIn, true, pb.cached}]
			if la == nil || lb == nil {
				continue
			}
			key := fmt.Sprintf("reuseConnection#joint(A=%s,B=%s)", pa.name, pb.name)
			// P1
			c.Ob("joint", key+":store-iff-store", la.pos, (la.kind == "STORE") == (lb.kind == "STORE"), fmt.Sprintf("without an intervening change one side caches the new connection iff the other does: A -> %s, B -> %s", la.kind, lb.kind))
			// P2
			for side, l := range map[string]*reuseLeaf{"A": la, "B": lb} {
				if l.kind != "REUSE" {
					continue
				}
				own, peer := pa, ab
				if side == "B" {
					own, peer = pb, aa
				}
				opp := own.cached && peer.state == "CACHED" && ((own.cacheIn && peer.dir == "OUT") || (!own.cacheIn && peer.dir == "IN"))
				c.Ob("joint", key+":"+side+"-reuses-only-against-opposite-cached", l.pos, opp, "a cached connection is reused only when the peer announces a cached connection of the opposite direction (the same connection seen from the other end)")
			}
			// P3
			if la.kind == "REUSE" && lb.kind == "REUSE" {
				c.Ob("joint", key+":exactly-one-side-closes-fresh", la.pos, la.closesFresh != lb.closesFresh, fmt.Sprintf("when both sides reuse, exactly one of them closes the redundant new connection: A closes=%v, B closes=%v", la.closesFresh, lb.closesFresh))
			}
			c.Sample(map[string]any{"A_pre": pa.name, "B_pre": pb.name, "A_announces": fmt.Sprint(aa), "B_announces": fmt.Sprint(ab), "A_decides": la.kind, "B_decides": lb.kind})
		}
	}
	// re-check path: a FRESH/FRESH pair whose side found a cache entry on re-check reuses it and closes fresh
	for _, dirIn := range []bool{false, true} {
		peerDir := "IN"
		if dirIn {
			peerDir = "OUT"
		}
		l := table[reuseVal{"FRESH", peerDir, false, false, dirIn, true}]
		if l != nil {
			c.Ob("joint", fmt.Sprintf("reuseConnection#recheck(dirIn=%v)", dirIn), l.pos, l.kind == "REUSE" && l.closesFresh, "when the cache was filled while the lock was released, the existing entry wins and the new connection is closed")
		}
	}
	// lock discipline
	for _, fn := range c.AllFuncs("overlay") {
		for _, call := range fn.Calls(true, func(call *ast.CallExpr) bool {
			se, ok := call.Fun.(*ast.SelectorExpr)
			return ok && strings.HasSuffix(fn.enclosing(call).Prov(se.X), ".cachedConnections") && (se.Sel.Name == "Store" || se.Sel.Name == "LoadAndDelete" || se.Sel.Name == "Delete")
		}) {
			g := fn.enclosing(call)
			keyArg := types_ExprString(call.Args[0])
			held := g.FactsAt(call).Has(func(fa *Fact) bool {
				return fa.Kind == FHeld && fa.Mode == 'W' && strings.HasSuffix(fa.Lock, ".cachedMutex["+keyArg+"]")
			})
			c.Ob("cache-lock", fmt.Sprintf("%s#cachedConnections.%s-under-keyed-write-lock", fn.Name, call.Fun.(*ast.SelectorExpr).Sel.Name), call.Pos(), held, "the connection cache is modified only with the keyed write lock of that peer held")
		}
	}
	// the announce read under RLock
	for _, st := range rc.Body.List {
		as, ok := st.(*ast.AssignStmt)
		if !ok || len(as.Rhs) != 1 {
			continue
		}
		if call, ok := as.Rhs[0].(*ast.CallExpr); ok && strings.HasSuffix(rc.Prov(call.Fun.(*ast.SelectorExpr).X), ".cachedConnections") && len(as.Lhs) == 2 {
			held := rc.FactsAt(as).Has(func(fa *Fact) bool { return fa.Kind == FHeld && strings.Contains(fa.Lock, ".cachedMutex[") })
			c.Ob("cache-lock", "reuseConnection#announce-read-under-lock", as.Pos(), held, "the cache state that is announced is read under the keyed lock")
		}
	}
}

// announceFromLiteral: the announced value is computed by an invoked literal (an inlined
// mapping helper); follow its conditions, under the given valuation, to the return taken and
// name the constant it yields.
func announceFromLiteral(rc *Fn, e ast.Expr, cacheIn, dirIn bool) (name, why string) {
	lc, ok := ast.Unparen(e).(*ast.CallExpr)
	if !ok {
		return "", ""
	}
	lit := rc.litOfCallee(lc)
	if lit == nil {
		return "", ""
	}
	h := rc.enclosing(lit).Closure(lit)
	var run func(stmts []ast.Stmt) bool
	run = func(stmts []ast.Stmt) bool {
		for _, ls := range stmts {
			switch y := ls.(type) {
			case *ast.ReturnStmt:
				if len(y.Results) == 1 {
					name = constName(h, y.Results[0])
				}
				return true
			case *ast.IfStmt:
				a := ""
				if be, ok := ast.Unparen(y.Cond).(*ast.BinaryExpr); ok && be.Op == token.EQL && constName(h, be.Y) == "directionIncoming" {
					switch pv := h.Prov(be.X); {
					case strings.HasSuffix(pv, ".cachedConnections.Load()#0.direction"):
						a = "cacheIn"
					case pv == "param#3":
						a = "dirIn"
					}
				}
				b := false
				switch a {
				case "cacheIn":
					b = cacheIn
				case "dirIn":
					b = dirIn
				default:
					why = "unrecognised condition in the announce helper: " + types_ExprString(y.Cond)
					return true
				}
				if b {
					if run(y.Body.List) {
						return true
					}
				} else if eb, ok := y.Else.(*ast.BlockStmt); ok {
					if run(eb.List) {
						return true
					}
				}
			case *ast.DeclStmt:
			default:
				why = fmt.Sprintf("unrecognised statement %T in the announce helper", ls)
				return true
			}
		}
		return false
	}
	run(lit.Body.List)
	return name, why
}
