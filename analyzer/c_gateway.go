package main

import (
	"fmt"
	"go/ast"
	"go/token"
	"go/types"
	"strings"

	"golang.org/x/tools/go/cfg"
)

func init() {
	register(&propDef{ID: "C34", Level: "other",
		Decides:    "normalise-before-compare in extractHostname: on every path the value compared with Gateway.RootDomains is derived from a case-normalised (strings.ToLower, or EqualFold-compared) form of the host, and every returned tunnel name is case-normalised; the IP refusal and the label-count refusal precede the split; the label returned for a root-domain host is the first label of that same split.",
		NotDecided: "the label arithmetic of strings.SplitN / Count (library behaviour) and IDN hosts.",
		Run:        runC34})
	register(&propDef{ID: "C35", Level: "other",
		Decides:    "the header discipline of the tunnel reverse proxy: it is configured with Rewrite (never Director), whose contract strips Forwarded / X-Forwarded-{For,Host,Proto} from the outbound request; in the rewrite function True-Client-IP, X-Real-IP and X-Forwarded-For are deleted from the outbound headers (constant set + loop) before SetXForwarded(); X-Forwarded-Proto is the constant https and X-Forwarded-Host comes from the outbound URL host (+ gateway port unless 443), both assigned after SetXForwarded(); no outbound header is set from an inbound header value.",
		NotDecided: "net/http/httputil's own behaviour (trusted as documented); X-Forwarded-* names other than the three the gateway asserts (e.g. X-Forwarded-Port) pass through: recorded as observation O2.",
		Run:        runC35})
	register(&propDef{ID: "C36", Level: "other",
		Decides:    "status classification: errorHandler (the function installed as ReverseProxy.ErrorHandler) writes 404 only under errors.Is(e, ErrDestinationNotFound), 503 only under errors.Is(e, ErrTunnelClientNotConnected), 504 only under tun.IsTimeout(e), 502 only when none of them held; every predicate it relies on is wrap-transparent (errors.Is / errors.As, no type assertion or == on the possibly wrapped error); forwardTCP sends a status frame built from the error before closing on every failing exit and pipes only on success; SendStatusProto maps no-direct errors to NO_DIRECT and everything else to UNKNOWN_ERROR; httpConnect hijacks only after a STATUS_OK frame.",
		NotDecided: "which errors the HTTP transport produces.",
		Run:        runC36})
	register(&propDef{ID: "C37", Level: "other",
		Decides:    "the admin route tree: every registration under /_internal is inside the r.Route(\"/_internal\", ...) closure, whose first middleware is chi's BasicAuth built from the configured user/password and registered before the node-proxy middleware and before every Mount/Handle; the Route call is unreachable when either credential is empty; no other package registers an /_internal pattern; node-to-node Stream_INTERNAL connections feed the same router (so a proxied request meets BasicAuth again).",
		NotDecided: "chi's and BasicAuth's own behaviour (trusted).",
		Run:        runC37})

	addSelfTests("C34",
		mutation{"compare-before-lowering", "gateway/proxy_handler.go", "	host = strings.ToLower(host)\n	parts := strings.SplitN(host, \".\", 2)", "	parts := strings.SplitN(host, \".\", 2)", "normalise"},
		mutation{"split-by-cut-lowered", "gateway/proxy_handler.go", "	parts := strings.SplitN(host, \".\", 2)\n	if len(parts) != 2 {\n		err = fmt.Errorf(\"gateway: invalid hostname for forwarding\")\n		return\n	}\n	if slices.Contains(g.RootDomains, parts[1]) {\n		hostname = parts[0]\n	} else {", "	label, parent, found := strings.Cut(host, \".\")\n	if !found {\n		err = fmt.Errorf(\"gateway: invalid hostname for forwarding\")\n		return\n	}\n	if slices.Contains(g.RootDomains, parent) {\n		hostname = label\n	} else {", "!normalise"},
		mutation{"split-by-cut-raw", "gateway/proxy_handler.go", "	host = strings.ToLower(host)\n	parts := strings.SplitN(host, \".\", 2)\n	if len(parts) != 2 {\n		err = fmt.Errorf(\"gateway: invalid hostname for forwarding\")\n		return\n	}\n	if slices.Contains(g.RootDomains, parts[1]) {\n		hostname = parts[0]\n	} else {", "	label, parent, found := strings.Cut(host, \".\")\n	if !found {\n		err = fmt.Errorf(\"gateway: invalid hostname for forwarding\")\n		return\n	}\n	if slices.Contains(g.RootDomains, parent) {\n		hostname = label\n	} else {", "normalise"},
		mutation{"label-from-wrong-part", "gateway/proxy_handler.go", "		hostname = parts[0]\n", "		hostname = parts[1]\n", "refusals"},
		mutation{"result-not-lowered", "gateway/proxy_handler.go", "	host = strings.ToLower(host)\n	parts := strings.SplitN(host, \".\", 2)", "	parts := strings.SplitN(strings.ToLower(host), \".\", 2)", "normalise"},
		mutation{"ip-check-dropped", "gateway/proxy_handler.go", "	if net.ParseIP(host) != nil {\n		err = fmt.Errorf(\"gateway: hostname cannot be IP\")\n		return\n	}\n", "	_ = net.ParseIP\n", "refusals"},
	)
	mutExtra["result-not-lowered"] = [2]string{"	hostname = strings.ToLower(hostname)\n	return", "	return"}
	addSelfTests("C35",
		mutation{"director-instead-of-rewrite", "gateway/proxy_handler.go", "		Rewrite:        g.proxyRewrite,", "		Director:       func(r *http.Request) {},", "proxy-config"},
		mutation{"real-ip-passed", "gateway/proxy_handler.go", "	\"X-Real-IP\",\n", "", "del-headers"},
		mutation{"delete-only-when-first-value-present", "gateway/proxy_handler.go", "	for _, header := range delHeaders {\n		out.Header.Del(header)\n	}", "	for _, header := range delHeaders {\n		if in.Header.Get(header) != \"\" {\n			out.Header.Del(header)\n		}\n	}", "del-headers"},
		mutation{"delete-after-setxforwarded", "gateway/proxy_handler.go", "	for _, header := range delHeaders {\n		out.Header.Del(header)\n	}\n\n	preq.SetXForwarded()", "	preq.SetXForwarded()\n	for _, header := range delHeaders {\n		out.Header.Del(header)\n	}\n", "order"},
		mutation{"proto-from-inbound", "gateway/proxy_handler.go", "	out.Header.Set(\"X-Forwarded-Proto\", \"https\")", "	out.Header.Set(\"X-Forwarded-Proto\", in.Header.Get(\"X-Forwarded-Proto\"))", "asserted"},
	)
	addSelfTests("C36",
		mutation{"timeout-by-assertion", "spec/tun/pipe.go", "	var e net.Error\n	if errors.As(err, &e) {\n		return e.Timeout()\n	}", "	if e, ok := err.(net.Error); ok {\n		return e.Timeout()\n	}", "wrap-transparent"},
		mutation{"deadline-check-dropped", "spec/tun/pipe.go", "	t := errors.Is(err, context.DeadlineExceeded)\n	if t {\n		return t\n	}\n", "	_ = context.DeadlineExceeded\n", "decision-list"},
		mutation{"notfound-by-equality", "gateway/proxy_handler.go", "	if errors.Is(e, tun.ErrDestinationNotFound) {", "	if e == tun.ErrDestinationNotFound {", "decision-list"},
		mutation{"offline-as-502", "gateway/proxy_handler.go", "		w.WriteHeader(http.StatusServiceUnavailable)\n		fmt.Fprintf(w, \"Destination %s is not connected", "		w.WriteHeader(http.StatusBadGateway)\n		fmt.Fprintf(w, \"Destination %s is not connected", "decision-list"},
		mutation{"close-without-status", "gateway/proxy_handler.go", "		if err != nil {\n			tun.SendStatusProto(conn, err)\n			conn.Close()\n			return\n		}", "		if err != nil {\n			conn.Close()\n			return\n		}", "tcp-status"},
		mutation{"connect-ignores-status", "gateway/proxy_handler.go", "	if status.Status != protocol.TunnelStatusCode_STATUS_OK {\n		http.Error(w, status.GetError(), http.StatusServiceUnavailable)\n		remote.Close()\n		return\n	}\n", "", "connect"},
		mutation{"nodirect-as-unknown", "spec/tun/tun.go", "		if IsNoDirect(err) {\n			status.Status = protocol.TunnelStatusCode_NO_DIRECT\n		} else {", "		if !IsNoDirect(err) {\n			status.Status = protocol.TunnelStatusCode_NO_DIRECT\n		} else {", "status-proto"},
	)
	addSelfTests("C37",
		mutation{"proxy-before-auth", "gateway/apex.go", "		r.Use(middleware.BasicAuth(\"internal\", map[string]string{\n			a.authUser: a.authPass,\n		}))\n		r.Use(a.internalProxy)", "		r.Use(a.internalProxy)\n		r.Use(middleware.BasicAuth(\"internal\", map[string]string{\n			a.authUser: a.authPass,\n		}))", "auth-first"},
		mutation{"empty-password-served", "gateway/apex.go", "	if a.authUser == \"\" || a.authPass == \"\" {\n		return\n	}", "	if a.authUser == \"\" {\n		return\n	}", "disabled-without-credentials"},
		mutation{"route-outside-group", "gateway/apex.go", "	r.Get(\"/quic.png\", a.handleLogo)", "	r.Get(\"/quic.png\", a.handleLogo)\n	r.Mount(\"/_internal/debug\", middleware.Profiler())", "only-inside-group"},
		mutation{"hardcoded-credentials", "gateway/apex.go", "			a.authUser: a.authPass,", "			\"admin\": a.authPass,", "auth-first"},
	)
}

// loweredAt: a tiny forward must-analysis: which local string variables hold a
// case-normalised value at each CFG node. A value is normalised if it is the result of
// strings.ToLower, or is derived (SplitN/Split/TrimSuffix/TrimPrefix/index/slice/concat
// with constants) only from normalised values.
func loweredAt(f *Fn, at ast.Node) (map[*types.Var]bool, func(e ast.Expr) bool) {
	g := f.CFG()
	isLow := func(st map[*types.Var]bool, e ast.Expr) bool {
		var rec func(e ast.Expr) bool
		rec = func(e ast.Expr) bool {
			e = ast.Unparen(e)
			if tv, ok := f.Info.Types[e]; ok && tv.Value != nil {
				return true
			}
			switch x := e.(type) {
			case *ast.Ident:
				if v := f.varOf(x); v != nil {
					return st[v]
				}
			case *ast.IndexExpr:
				return rec(x.X)
			case *ast.SliceExpr:
				return rec(x.X)
			case *ast.BinaryExpr:
				return x.Op == token.ADD && rec(x.X) && rec(x.Y)
			case *ast.CallExpr:
				switch f.CallKey(x) {
				case "strings.ToLower":
					return true
				case "strings.SplitN", "strings.Split", "strings.Cut", "strings.CutPrefix", "strings.CutSuffix", "strings.Fields", "strings.TrimSuffix", "strings.TrimPrefix", "strings.TrimSpace", "strings.Trim", "strings.TrimRight", "strings.TrimLeft":
					return rec(x.Args[0])
				}
			}
			return false
		}
		return rec(e)
	}
	in := map[*cfg.Block]map[*types.Var]bool{}
	transfer := func(st map[*types.Var]bool, n ast.Node) {
		switch x := n.(type) {
		case *ast.AssignStmt:
			if len(x.Lhs) == len(x.Rhs) {
				vals := make([]bool, len(x.Rhs))
				for i, r := range x.Rhs {
					vals[i] = isLow(st, r)
				}
				for i, l := range x.Lhs {
					if v := f.varOf(l); v != nil {
						st[v] = vals[i]
					}
				}
			} else {
				for _, l := range x.Lhs {
					if v := f.varOf(l); v != nil {
						st[v] = len(x.Rhs) == 1 && isLow(st, x.Rhs[0])
					}
				}
			}
		case *ast.ValueSpec:
			for i, nm := range x.Names {
				if v, ok := f.Info.Defs[nm].(*types.Var); ok {
					st[v] = i < len(x.Values) && isLow(st, x.Values[i])
				}
			}
		}
	}
	clone := func(m map[*types.Var]bool) map[*types.Var]bool {
		o := map[*types.Var]bool{}
		for k, v := range m {
			o[k] = v
		}
		return o
	}
	if len(g.Blocks) == 0 {
		return nil, func(ast.Expr) bool { return false }
	}
	in[g.Blocks[0]] = map[*types.Var]bool{}
	work := []*cfg.Block{g.Blocks[0]}
	for iter := 0; len(work) > 0 && iter < 10000; iter++ {
		b := work[0]
		work = work[1:]
		st := clone(in[b])
		for _, n := range b.Nodes {
			transfer(st, n)
		}
		for _, s := range b.Succs {
			old, seen := in[s]
			var nw map[*types.Var]bool
			if !seen {
				nw = clone(st)
			} else {
				nw = map[*types.Var]bool{}
				for k, v := range old {
					nw[k] = v && st[k]
				}
				for k := range st {
					if _, ok := old[k]; !ok {
						nw[k] = false
					}
				}
			}
			changed := !seen || len(nw) != len(old)
			if !changed {
				for k, v := range nw {
					if old[k] != v {
						changed = true
					}
				}
			}
			if changed {
				in[s] = nw
				work = append(work, s)
			}
		}
	}
	b, idx := f.locate(at)
	if b == nil {
		f.C.Failf("loweredAt: cannot locate node in %s", f.Name)
	}
	st := clone(in[b])
	for i := 0; i < idx; i++ {
		transfer(st, b.Nodes[i])
	}
	return st, func(e ast.Expr) bool { return isLow(st, e) }
}

func runC34(c *Ctx) {
	eh := c.Func("gateway", "Gateway", "extractHostname")
	// comparison sites with RootDomains
	nsite := 0
	for _, call := range eh.Calls(false, func(call *ast.CallExpr) bool {
		for _, a := range call.Args {
			if eh.FieldKey(a) == "gateway.GatewayConfig.RootDomains" || strings.HasSuffix(eh.Prov(a), ".RootDomains") {
				return true
			}
		}
		return false
	}) {
		nsite++
		k := eh.CallKey(call)
		ok := false
		det := ""
		switch k {
		case "slices.Contains":
			_, low := loweredAt(eh, call)
			ok = low(call.Args[1])
			det = "slices.Contains(RootDomains, " + eh.Str(call.Args[1]) + ")"
		case "slices.ContainsFunc":
			// accepted when the predicate uses strings.EqualFold
			if lit, ok2 := call.Args[1].(*ast.FuncLit); ok2 {
				g := eh.Closure(lit)
				ok = len(g.CallsTo(false, "strings.EqualFold")) > 0
			}
			det = "slices.ContainsFunc with EqualFold"
		default:
			det = "unrecognised membership test " + k
		}
		c.Ob("normalise", "extractHostname#root-domain-comparison", call.Pos(), ok, "the value matched against the configured root domains is case-normalised on every path (host names are case-insensitive; abc.ROOT and abc.root must resolve alike): "+det)
	}
	// a hand-written membership loop: `for _, root := range RootDomains { if root == x {...} }`
	type loopTest struct {
		cmp   *ast.BinaryExpr
		other ast.Expr
		rs    *ast.RangeStmt
	}
	var loopTests []loopTest
	for _, nd := range shallowNodes(eh.Body) {
		rs, ok := nd.(*ast.RangeStmt)
		if !ok || rs.Value == nil || !(eh.FieldKey(rs.X) == "gateway.GatewayConfig.RootDomains" || strings.HasSuffix(eh.Prov(rs.X), ".RootDomains")) {
			continue
		}
		rv := eh.varOf(rs.Value)
		for _, m := range shallowNodes(rs.Body) {
			be, ok := m.(*ast.BinaryExpr)
			if !ok || be.Op != token.EQL && be.Op != token.NEQ {
				continue
			}
			switch {
			case rv != nil && eh.varOf(be.X) == rv:
				loopTests = append(loopTests, loopTest{be, be.Y, rs})
			case rv != nil && eh.varOf(be.Y) == rv:
				loopTests = append(loopTests, loopTest{be, be.X, rs})
			}
		}
	}
	for _, lt := range loopTests {
		nsite++
		_, low := loweredAt(eh, lt.cmp)
		c.Ob("normalise", "extractHostname#root-domain-comparison", lt.cmp.Pos(), low(lt.other), "the value matched against the configured root domains is case-normalised on every path (host names are case-insensitive; abc.ROOT and abc.root must resolve alike): "+eh.Str(lt.cmp))
	}
	c.Floor("root-domain comparison sites", nsite, 1)
	// returned name lower-cased
	named := ""
	if eh.Type.Results != nil && len(eh.Type.Results.List) > 0 && len(eh.Type.Results.List[0].Names) > 0 {
		named = eh.Type.Results.List[0].Names[0].Name
	}
	for _, r := range successReturns(eh) {
		st, low := loweredAt(eh, r)
		ok := false
		if len(r.Results) == 0 && named != "" {
			for _, as := range assignsTo(eh, named) {
				_ = as
			}
			// the named result variable must be lowered here
			var v *types.Var
			for _, nm := range eh.Type.Results.List[0].Names {
				v, _ = eh.Info.Defs[nm].(*types.Var)
			}
			ok = v != nil && st[v]
		} else if len(r.Results) > 0 {
			ok = low(r.Results[0])
		}
		c.Ob("normalise", "extractHostname#result-lower-cased", r.Pos(), ok, "every successfully resolved tunnel name is case-normalised")
	}
	// refusals precede the split
	for _, call := range eh.CallsTo(false, "strings.SplitN", "strings.Split", "strings.Cut") {
		// the refusals are facts about the host as received; a case-normalising
		// reassignment of the host before the split keeps them (ToLower changes neither
		// IP-ness nor the number of dots), so they are read at that reassignment if present
		var at ast.Node = call
		ast.Inspect(eh.Body, func(n ast.Node) bool {
			as, ok := n.(*ast.AssignStmt)
			if !ok || len(as.Lhs) != 1 || len(as.Rhs) != 1 || as.Pos() > call.Pos() {
				return true
			}
			if rc, ok := as.Rhs[0].(*ast.CallExpr); ok && eh.IsCall(rc, "strings.ToLower") && eh.varOf(as.Lhs[0]) != nil && eh.varOf(as.Lhs[0]) == eh.varOf(rc.Args[0]) {
				at = as
			}
			return true
		})
		fs := eh.FactsAt(at)
		okIP := fs.Cmp(func(e, tag ast.Expr, truth bool, fa *Fact) bool {
			be, ok := e.(*ast.BinaryExpr)
			if !ok || truth || be.Op != token.NEQ {
				return false
			}
			cl, ok := ast.Unparen(be.X).(*ast.CallExpr)
			return ok && eh.IsCall(cl, "net.ParseIP") && isNilIdent(eh.Info, be.Y)
		})
		okLabels := fs.Cmp(func(e, tag ast.Expr, truth bool, fa *Fact) bool {
			be, ok := e.(*ast.BinaryExpr)
			if !ok || truth || be.Op != token.LSS {
				return false
			}
			cl, ok := ast.Unparen(be.X).(*ast.CallExpr)
			v, _ := eh.ConstVal(be.Y)
			return ok && eh.IsCall(cl, "strings.Count") && v == "2"
		})
		c.Ob("refusals", "extractHostname#ip-refused-before-split", call.Pos(), okIP, "an IP host is refused before any label logic")
		c.Ob("refusals", "extractHostname#two-dots-required-before-split", call.Pos(), okLabels, "a host with fewer than three labels is refused before the split")
	}
	// label returned is parts[0] of the same split whose parts[1] was matched. Decided at the
	// sites that give the result its value (assignments to a named result, or explicit
	// returns), from the path fact about the root-domain test: where it held the value is
	// the first part of that very split (Split/SplitN [0]/[1], or Cut before/after), where
	// it did not the value is the whole (lower-cased) host.
	okLabel := false
	{
		var tests []*ast.CallExpr
		for _, call := range eh.CallsTo(false, "slices.Contains") {
			if len(call.Args) == 2 && strings.HasSuffix(eh.enclosing(call).Prov(call.Args[0]), ".RootDomains") {
				tests = append(tests, call)
			}
		}
		stripLower := func(g *Fn, e ast.Expr) ast.Expr {
			for {
				call, ok := ast.Unparen(e).(*ast.CallExpr)
				if !ok || !g.IsCall(call, "strings.ToLower") || len(call.Args) != 1 {
					return ast.Unparen(e)
				}
				e = call.Args[0]
			}
		}
		var wholeHost func(g *Fn, e ast.Expr, depth int) bool
		wholeHost = func(g *Fn, e ast.Expr, depth int) bool {
			e = stripLower(g, e)
			if depth > 5 {
				return false
			}
			if g.Prov(e) == "param#0" {
				return true
			}
			v := g.varOf(e)
			if v == nil {
				return false
			}
			defs := g.defsOf(v)
			if len(defs) == 0 && eh.paramIndex(v) == 0 {
				return true
			}
			for _, d := range defs {
				if d.multi || d.rhs == nil {
					return false
				}
				// host = strings.ToLower(host): a self-reference is the same value, lowered
				if sv := g.varOf(stripLower(g, d.rhs)); sv == v {
					continue
				}
				if !wholeHost(g.enclosing(d.rhs), d.rhs, depth+1) {
					return false
				}
			}
			return eh.paramIndex(v) == 0 || len(defs) > 0
		}
		paired := func(pa, pb string) bool {
			if x, ok := strings.CutSuffix(pa, "[const:1]"); ok && strings.Contains(x, "strings.Split") && pb == x+"[const:0]" {
				return true
			}
			if x, ok := strings.CutSuffix(pa, "strings.Cut()#1"); ok && pb == x+"strings.Cut()#0" && len(eh.CallsTo(false, "strings.Cut")) == 1 {
				return true
			}
			return false
		}
		type site struct {
			at  ast.Node
			val ast.Expr
		}
		var sites []site
		var resObj types.Object
		if eh.Type.Results != nil && len(eh.Type.Results.List) > 0 && len(eh.Type.Results.List[0].Names) > 0 {
			resObj = eh.Info.Defs[eh.Type.Results.List[0].Names[0]]
		}
		for _, nd := range shallowNodes(eh.Body) {
			switch x := nd.(type) {
			case *ast.AssignStmt:
				for i, l := range x.Lhs {
					if resObj != nil && eh.ObjOf(l) == resObj && len(x.Lhs) == len(x.Rhs) {
						sites = append(sites, site{x, x.Rhs[i]})
					}
				}
			case *ast.ReturnStmt:
				if len(x.Results) == 2 && isNilIdent(eh.Info, x.Results[1]) {
					sites = append(sites, site{x, x.Results[0]})
				}
			}
		}
		nHit, nMiss, bad := 0, 0, false
		// the loop form of the membership test: a site under `root == x` is a hit; a success
		// site after the loop, under no such fact, is the miss
		for _, st := range sites {
			if len(loopTests) == 0 {
				break
			}
			g := eh.enclosing(st.at)
			fs := eh.FactsAt(st.at)
			hit := false
			for _, lt := range loopTests {
				if fs.Cmp(func(e, tag ast.Expr, truth bool, fa *Fact) bool {
					return tag == nil && ast.Unparen(e) == ast.Expr(lt.cmp) && truth == (lt.cmp.Op == token.EQL)
				}) {
					hit = true
					nHit++
					if !paired(g.Prov(lt.other), g.Prov(stripLower(g, st.val))) {
						bad = true
					}
				}
			}
			if !hit && st.at.Pos() > loopTests[0].rs.End() {
				nMiss++
				if !wholeHost(g, st.val, 0) {
					bad = true
				}
			}
		}
		for _, st := range sites {
			g := eh.enclosing(st.at)
			fs := eh.FactsAt(st.at)
			for _, k := range tests {
				switch {
				case fs.Has(func(fa *Fact) bool { return fa.Kind == FTrue && fa.Call == k }):
					nHit++
					if !paired(eh.enclosing(k).Prov(k.Args[1]), g.Prov(stripLower(g, st.val))) {
						bad = true
					}
				case fs.Has(func(fa *Fact) bool { return fa.Kind == FFalse && fa.Call == k }):
					nMiss++
					if !wholeHost(g, st.val, 0) {
						bad = true
					}
				}
			}
		}
		okLabel = len(tests)+len(loopTests) == 1 && nHit >= 1 && nMiss >= 1 && !bad
	}
	c.Ob("refusals", "extractHostname#label-of-matched-split", eh.Decl.Pos(), okLabel, "for a root-domain host the name is the first part of the split whose remainder matched a root domain")
}

// ---------------------------------------------------------------------------------------

func runC35(c *Ctx) {
	ph := c.Func("gateway", "Gateway", "proxyHandler")
	var rewrite types.Object
	nproxy := 0
	ast.Inspect(ph.Body, func(n ast.Node) bool {
		cl, ok := n.(*ast.CompositeLit)
		if !ok || !strings.HasSuffix(typeStr(ph, cl), "httputil.ReverseProxy") {
			return true
		}
		nproxy++
		hasDirector := false
		for _, el := range cl.Elts {
			kv, ok := el.(*ast.KeyValueExpr)
			if !ok {
				continue
			}
			switch kv.Key.(*ast.Ident).Name {
			case "Rewrite":
				rewrite = ph.ObjOf(kv.Value)
			case "Director":
				hasDirector = true
			}
		}
		c.Ob("proxy-config", "proxyHandler#Rewrite-not-Director", cl.Pos(), rewrite != nil && !hasDirector, "the tunnel proxy uses Rewrite (httputil then removes Forwarded / X-Forwarded-{For,Host,Proto} from the outbound request before calling it); with Director the inbound values would be kept and appended to")
		return true
	})
	c.Floor("tunnel ReverseProxy literals", nproxy, 1)
	// Director assigned later?
	ast.Inspect(ph.Body, func(n ast.Node) bool {
		if as, ok := n.(*ast.AssignStmt); ok {
			for _, l := range as.Lhs {
				if se, ok := l.(*ast.SelectorExpr); ok && se.Sel.Name == "Director" {
					c.Ob("proxy-config", "proxyHandler#Director-assigned", as.Pos(), false, "Director must not be set on the tunnel proxy")
				}
			}
		}
		return true
	})
	rf, _ := rewrite.(*types.Func)
	rw := c.FnOfObj(rf)
	if rw == nil {
		c.Failf("the tunnel proxy's Rewrite function is not a declared function (undecided)")
	}
	// delHeaders constant set
	want := map[string]bool{"True-Client-Ip": false, "X-Real-Ip": false, "X-Forwarded-For": false}
	p := c.P("gateway")
	for _, file := range p.Syntax {
		for _, d := range file.Decls {
			gd, ok := d.(*ast.GenDecl)
			if !ok {
				continue
			}
			for _, sp := range gd.Specs {
				vs, ok := sp.(*ast.ValueSpec)
				if !ok {
					continue
				}
				for i, nm := range vs.Names {
					if nm.Name != "delHeaders" || i >= len(vs.Values) {
						continue
					}
					if cl, ok := vs.Values[i].(*ast.CompositeLit); ok {
						for _, el := range cl.Elts {
							if tv, ok := p.TypesInfo.Types[el]; ok && tv.Value != nil {
								want[canonicalHeader(constantString(tv))] = true
							}
						}
					}
				}
			}
		}
	}
	for h, ok := range want {
		c.Ob("del-headers", "delHeaders#contains-"+h, rw.Decl.Pos(), ok, "client-supplied "+h+" is in the set deleted from the outbound request")
	}
	// the loop deleting them, before SetXForwarded
	var delCall *ast.CallExpr
	ast.Inspect(rw.Body, func(n ast.Node) bool {
		rs, ok := n.(*ast.RangeStmt)
		if !ok || rw.Prov(rs.X) != "global:gateway.delHeaders" {
			return true
		}
		for _, call := range methodCalls(rw, false, "Del") {
			if containsNode(rs.Body, call) && strings.HasSuffix(rw.Prov(call.Fun.(*ast.SelectorExpr).X), ".Out.Header") && rw.varOf(call.Args[0]) == rw.varOf(rs.Value) {
				delCall = call
			}
		}
		return true
	})
	c.Ob("del-headers", "proxyRewrite#deletes-every-listed-header-from-Out", rw.Decl.Pos(), delCall != nil, "every header in delHeaders is deleted from the outbound header set")
	if delCall != nil {
		// ... on every iteration, whatever the request carries: the deletion is a top-level
		// statement of the loop body and nothing before it can leave the iteration (a
		// deletion conditioned on Header.Get, which reads the first field line only, lets
		// a header whose first line is empty through)
		uncond := false
		ast.Inspect(rw.Body, func(n ast.Node) bool {
			rs, ok := n.(*ast.RangeStmt)
			if !ok || !containsNode(rs.Body, delCall) {
				return true
			}
			for _, st := range rs.Body.List {
				if es, ok := st.(*ast.ExprStmt); ok && ast.Unparen(es.X) == ast.Expr(delCall) {
					uncond = true
					break
				}
				leaves := false
				ast.Inspect(st, func(m ast.Node) bool {
					switch m.(type) {
					case *ast.BranchStmt, *ast.ReturnStmt:
						leaves = true
					}
					return true
				})
				if leaves {
					break
				}
			}
			return true
		})
		c.Ob("del-headers", "proxyRewrite#deletion-is-unconditional", delCall.Pos(), uncond, "each listed header is deleted on every iteration, not only when some test of the incoming request holds")
	}
	sxf := methodCalls(rw, false, "SetXForwarded")
	c.Floor("SetXForwarded sites", len(sxf), 1)
	if delCall != nil && len(sxf) == 1 {
		// SetXForwarded unreachable without passing the delete loop's range header... use order: the range statement's X node precedes
		reached, _ := rw.Reach(nil, func(n ast.Node) bool { return containsNode(n, delCall) }, nil)
		before := true
		for _, n := range reached {
			if containsNode(n, sxf[0]) {
				before = false
			}
		}
		// the loop may run zero times only if delHeaders is empty (checked above), so reaching SetXForwarded through the loop exit is fine:
		// require instead that SetXForwarded is not reachable from entry when the range statement is removed
		var rs *ast.RangeStmt
		ast.Inspect(rw.Body, func(n ast.Node) bool {
			if r, ok := n.(*ast.RangeStmt); ok && containsNode(r, delCall) {
				rs = r
			}
			return true
		})
		if rs != nil {
			reached2, _ := rw.Reach(nil, func(n ast.Node) bool { return n == ast.Node(rs.X) }, nil)
			before = true
			for _, n := range reached2 {
				if containsNode(n, sxf[0]) {
					before = false
				}
			}
		}
		c.Ob("order", "proxyRewrite#delete-before-SetXForwarded", sxf[0].Pos(), before, "the client-supplied X-Forwarded-For is deleted before SetXForwarded() appends the peer address (otherwise the spoofed value stays in front)")
	}
	// asserted headers after SetXForwarded
	nset := 0
	for _, call := range rw.Calls(false, func(call *ast.CallExpr) bool {
		se, ok := call.Fun.(*ast.SelectorExpr)
		return ok && (se.Sel.Name == "Set" || se.Sel.Name == "Add") && strings.HasSuffix(rw.Prov(se.X), ".Out.Header")
	}) {
		name, _ := rw.ConstVal(call.Args[0])
		name = canonicalHeader(strings.Trim(name, "\""))
		valProv := rw.Prov(call.Args[1])
		fromInbound := strings.Contains(valProv, ".In.Header") || strings.Contains(types_ExprString(call.Args[1]), "in.Header")
		c.Ob("asserted", "proxyRewrite#"+name+"-not-from-inbound-header", call.Pos(), !fromInbound, "no outbound header is set from a client-supplied header value; found "+types_ExprString(call.Args[1]))
		after := len(sxf) == 1
		if after {
			reached, _ := rw.Reach(sxf[0], nil, nil)
			after = false
			for _, n := range reached {
				if containsNode(n, call) {
					after = true
				}
			}
		}
		switch name {
		case "X-Forwarded-Proto":
			nset++
			v, _ := rw.ConstVal(call.Args[1])
			c.Ob("asserted", "proxyRewrite#X-Forwarded-Proto=https", call.Pos(), v == "\"https\"" && after, "X-Forwarded-Proto is the constant https, set after SetXForwarded()")
		case "X-Forwarded-Host":
			// the value, at each place it is produced: the argument itself, or every return
			// of the literal that computes it (an inlined "forwarded host" helper). With
			// the port it is Sprintf("%s:%d", host, GatewayPort) where GatewayPort != 443
			// is known; bare it is the host where GatewayPort == 443 is known.
			type vsite struct {
				g   *Fn
				at  ast.Node
				val ast.Expr
			}
			var vsites, bareDefs []vsite
			if lc, ok := ast.Unparen(call.Args[1]).(*ast.CallExpr); ok && rw.litOfCallee(lc) != nil {
				lit := rw.litOfCallee(lc)
				h := rw.enclosing(lit).Closure(lit)
				for _, r := range h.Returns() {
					if len(r.Results) == 1 {
						vsites = append(vsites, vsite{h, r, r.Results[0]})
					}
				}
			} else if lv := rw.varOf(call.Args[1]); lv != nil && len(rw.defsOf(lv)) > 1 {
				// the value is prepared in a local (a default, overridden under a test): each
				// definition is a value site; a definition without the port may reach the
				// Set only along the edge on which the port is known to be 443
				for _, d := range rw.defNodes(lv) {
					var rhs ast.Expr
					switch x := d.(type) {
					case *ast.AssignStmt:
						for i, l := range x.Lhs {
							if rw.varOf(l) == lv && i < len(x.Rhs) {
								rhs = x.Rhs[i]
							}
						}
					case *ast.ValueSpec:
						for i, nm := range x.Names {
							if rw.Info.Defs[nm] == types.Object(lv) && i < len(x.Values) {
								rhs = x.Values[i]
							}
						}
					}
					if rhs == nil {
						continue
					}
					if cl, ok := ast.Unparen(rhs).(*ast.CallExpr); ok && rw.IsCall(cl, "fmt.Sprintf") {
						vsites = append(vsites, vsite{rw, d, rhs})
					} else if h, pt := hostPlusPort(rw, rhs); h != nil && pt != nil {
						vsites = append(vsites, vsite{rw, d, rhs})
					} else {
						bareDefs = append(bareDefs, vsite{rw, d, rhs})
					}
				}
			} else {
				vsites = append(vsites, vsite{rw, call, call.Args[1]})
			}
			isHost := func(g *Fn, e ast.Expr) bool {
				// the outbound URL host: directly, or a local whose last unconditional
				// definition before this point is that host
				e = ast.Unparen(e)
				if v := g.varOf(e); v != nil && len(g.defsOf(v)) > 1 && g == rw {
					var last ast.Expr
					for _, st := range rw.Body.List {
						if st.Pos() >= e.Pos() {
							break
						}
						if as, ok := st.(*ast.AssignStmt); ok && len(as.Lhs) == len(as.Rhs) {
							for i, l := range as.Lhs {
								if rw.varOf(l) == v {
									last = as.Rhs[i]
								}
							}
						} else {
							// a conditional redefinition after the last plain one: undecided
							ast.Inspect(st, func(n ast.Node) bool {
								if as, ok := n.(*ast.AssignStmt); ok {
									for _, l := range as.Lhs {
										if rw.varOf(l) == v {
											last = nil
										}
									}
								}
								return true
							})
						}
					}
					if last == nil {
						return false
					}
					pv := g.Prov(last)
					return strings.HasSuffix(pv, ".Out.URL.Host") || strings.HasSuffix(pv, ".Out.URL.Hostname()")
				}
				pv := g.Prov(e)
				return strings.HasSuffix(pv, ".Out.URL.Host") || strings.HasSuffix(pv, ".Out.URL.Hostname()")
			}
			port443 := func(g *Fn, at ast.Node, want bool) bool {
				return rw.FactsAt(at).Cmp(func(e, tag ast.Expr, truth bool, fa *Fact) bool {
					be, ok := ast.Unparen(e).(*ast.BinaryExpr)
					if !ok || tag != nil || be.Op != token.EQL && be.Op != token.NEQ {
						return false
					}
					x, y := be.X, be.Y
					if v, _ := g.ConstVal(x); v == "443" {
						x, y = y, x
					}
					v, _ := g.ConstVal(y)
					if v != "443" || !strings.HasSuffix(g.Prov(x), ".GatewayPort") {
						return false
					}
					return ((be.Op == token.EQL) == truth) == want
				})
			}
			okVal := len(vsites) > 0
			for _, bd := range bareDefs {
				nset++
				okVal = okVal && isHost(bd.g, bd.val)
				lv := rw.varOf(call.Args[1])
				bad, decided := rw.CutFromDefs(call, lv, func(p string) bool {
					return !strings.HasPrefix(p, "call:fmt.Sprintf") && !strings.Contains(p, "call:strconv.Itoa(")
				}, func(at atom) bool {
					be, ok := ast.Unparen(at.e).(*ast.BinaryExpr)
					if !ok || at.tag != nil || be.Op != token.EQL && be.Op != token.NEQ {
						return false
					}
					x, y := be.X, be.Y
					if v, _ := rw.ConstVal(x); v == "443" {
						x, y = y, x
					}
					v, _ := rw.ConstVal(y)
					return v == "443" && strings.HasSuffix(rw.Prov(x), ".GatewayPort") && (be.Op == token.EQL) == at.truth
				})
				okVal = okVal && decided && bad == nil
			}
			for _, vs := range vsites {
				nset++
				if cl, ok := ast.Unparen(vs.val).(*ast.CallExpr); ok && vs.g.IsCall(cl, "fmt.Sprintf") {
					f0, _ := vs.g.ConstVal(cl.Args[0])
					okVal = okVal && len(cl.Args) == 3 && f0 == `"%s:%d"` && isHost(vs.g, cl.Args[1]) && strings.HasSuffix(vs.g.Prov(cl.Args[2]), ".GatewayPort") && port443(vs.g, vs.at, false)
				} else if h, pt := hostPlusPort(vs.g, vs.val); h != nil && pt != nil {
					// host + ":" + strconv.Itoa(port): the same text as "%s:%d"
					okVal = okVal && isHost(vs.g, h) && strings.HasSuffix(vs.g.Prov(pt), ".GatewayPort") && port443(vs.g, vs.at, false)
				} else {
					okVal = okVal && isHost(vs.g, vs.val) && port443(vs.g, vs.at, true)
				}
			}
			c.Ob("asserted", "proxyRewrite#X-Forwarded-Host", call.Pos(), okVal && after, "X-Forwarded-Host is the outbound URL host, with the gateway port unless it is 443, set after SetXForwarded()")
		}
	}
	c.Floor("asserted header assignments", nset, 3)
	c.Assume("net/http/httputil.ReverseProxy with Rewrite set removes Forwarded, X-Forwarded-For, X-Forwarded-Host and X-Forwarded-Proto from the outbound request before calling Rewrite; ProxyRequest.SetXForwarded sets X-Forwarded-For to the inbound peer address (appending to an existing outbound value)")
	c.Note("O2: X-Forwarded-* names other than For/Host/Proto (e.g. X-Forwarded-Port) are not stripped; the statement names the three the gateway asserts, so this is recorded, not armed.")
}

func canonicalHeader(h string) string {
	parts := strings.Split(strings.ToLower(h), "-")
	for i, p := range parts {
		if p != "" {
			parts[i] = strings.ToUpper(p[:1]) + p[1:]
		}
	}
	return strings.Join(parts, "-")
}

// ---------------------------------------------------------------------------------------

func runC36(c *Ctx) {
	ph := c.Func("gateway", "Gateway", "proxyHandler")
	var ehObj types.Object
	ast.Inspect(ph.Body, func(n ast.Node) bool {
		if kv, ok := n.(*ast.KeyValueExpr); ok {
			if id, ok := kv.Key.(*ast.Ident); ok && id.Name == "ErrorHandler" {
				ehObj = ph.ObjOf(kv.Value)
			}
		}
		return true
	})
	ehF, _ := ehObj.(*types.Func)
	eh := c.FnOfObj(ehF)
	if eh == nil {
		c.Failf("ReverseProxy.ErrorHandler of the tunnel proxy is not a declared function (undecided)")
	}
	isOf := func(fs *FactSet, sentinel string, truth bool) bool {
		return fs.Has(func(fa *Fact) bool {
			k := FTrue
			if !truth {
				k = FFalse
			}
			return fa.Kind == k && eh.IsCall(fa.Call, "errors.Is") && eh.Prov(fa.Call.Args[0]) == "param#2" && eh.Prov(fa.Call.Args[1]) == "global:spec/tun."+sentinel
		})
	}
	timeout := func(fs *FactSet, truth bool) bool {
		return fs.Has(func(fa *Fact) bool {
			k := FTrue
			if !truth {
				k = FFalse
			}
			return fa.Kind == k && eh.IsCall(fa.Call, "spec/tun.IsTimeout") && eh.Prov(fa.Call.Args[0]) == "param#2"
		})
	}
	seen := map[string]bool{}
	for _, call := range methodCalls(eh, false, "WriteHeader") {
		code := constName(eh, call.Args[0])
		fs := eh.FactsAt(call)
		seen[code] = true
		switch code {
		case "StatusNotFound":
			c.Ob("decision-list", "errorHandler#404-iff-not-found", call.Pos(), isOf(fs, "ErrDestinationNotFound", true), "404 is written only when errors.Is(e, ErrDestinationNotFound)")
		case "StatusServiceUnavailable":
			c.Ob("decision-list", "errorHandler#503-iff-not-connected", call.Pos(), isOf(fs, "ErrTunnelClientNotConnected", true) && isOf(fs, "ErrDestinationNotFound", false), "503 is written only when errors.Is(e, ErrTunnelClientNotConnected)")
		case "StatusGatewayTimeout":
			c.Ob("decision-list", "errorHandler#504-iff-timeout", call.Pos(), timeout(fs, true) && isOf(fs, "ErrTunnelClientNotConnected", false) && isOf(fs, "ErrDestinationNotFound", false), "504 is written only when tun.IsTimeout(e)")
		case "StatusBadGateway":
			c.Ob("decision-list", "errorHandler#502-otherwise", call.Pos(), timeout(fs, false) && isOf(fs, "ErrTunnelClientNotConnected", false) && isOf(fs, "ErrDestinationNotFound", false), "502 is the fall-through when no other classification matched")
		default:
			c.Ob("decision-list", "errorHandler#status:"+code, call.Pos(), false, "unexpected status code")
		}
	}
	for _, code := range []string{"StatusNotFound", "StatusServiceUnavailable", "StatusGatewayTimeout", "StatusBadGateway"} {
		c.Ob("decision-list", "errorHandler#has-"+code, eh.Decl.Pos(), seen[code], "the handler distinguishes this outcome")
	}
	// wrap transparency of the predicates
	for _, fn := range []*Fn{eh, c.Func("spec/tun", "", "IsTimeout"), c.Func("spec/tun", "", "IsNoDirect")} {
		var errParam types.Object
		for _, fld := range fn.Type.Params.List {
			for _, nm := range fld.Names {
				if isErrorType(fn.Info.Defs[nm].Type()) {
					errParam = fn.Info.Defs[nm]
				}
			}
		}
		bad := 0
		ast.Inspect(fn.Body, func(n ast.Node) bool {
			switch x := n.(type) {
			case *ast.TypeAssertExpr:
				if id, ok := ast.Unparen(x.X).(*ast.Ident); ok && fn.Info.ObjectOf(id) == errParam {
					bad++
					c.Ob("wrap-transparent", fn.Name+"#type-assertion-on-error", x.Pos(), false, "the error reaching this classification can be wrapped (DialClient wraps dial errors with %w, the HTTP transport wraps too): a type assertion only sees the outermost error - use errors.As")
				}
			case *ast.TypeSwitchStmt:
				bad++
				c.Ob("wrap-transparent", fn.Name+"#type-switch-on-error", x.Pos(), false, "a type switch only sees the outermost error - use errors.As")
			case *ast.BinaryExpr:
				if x.Op == token.EQL || x.Op == token.NEQ {
					for _, side := range []ast.Expr{x.X, x.Y} {
						if id, ok := ast.Unparen(side).(*ast.Ident); ok && fn.Info.ObjectOf(id) == errParam {
							other := x.X
							if side == x.X {
								other = x.Y
							}
							if !isNilIdent(fn.Info, other) {
								bad++
								c.Ob("wrap-transparent", fn.Name+"#equality-on-error", x.Pos(), false, "== only matches the outermost error - use errors.Is")
							}
						}
					}
				}
			}
			return true
		})
		if bad == 0 {
			c.Ob("wrap-transparent", fn.Name, fn.Decl.Pos(), true, "classifies the error only through errors.Is / errors.As")
		}
	}
	// IsTimeout covers both kinds of timeout: a context deadline anywhere in the chain
	// (errors.Is) and a net.Error that reports Timeout() (errors.As). errors.As stops at the
	// first net.Error of the chain, and wrappers such as *net.OpError / *url.Error only look
	// at their direct cause, so the errors.Is test cannot be dropped in favour of it.
	it := c.Func("spec/tun", "", "IsTimeout")
	okIs, okAs := false, false
	for _, call := range it.CallsTo(false, "errors.Is") {
		if it.Prov(call.Args[0]) == "param#0" && it.Prov(call.Args[1]) == "global:context.DeadlineExceeded" {
			// a true result must reach `return true`
			for _, r := range it.Returns() {
				fs := it.FactsAt(r)
				if fs.Has(func(fa *Fact) bool { return fa.Kind == FTrue && fa.Call == call }) || fs.Cmp(func(e, tag ast.Expr, truth bool, fa *Fact) bool {
					id, ok := e.(*ast.Ident)
					return ok && truth && it.varOf(id) != nil && it.Prov(id) == "call:errors.Is()"
				}) {
					v, _ := it.ConstVal(r.Results[0])
					if v == "true" || it.Prov(r.Results[0]) == "call:errors.Is()" {
						okIs = true
					}
				}
			}
		}
	}
	for _, call := range it.CallsTo(false, "errors.As") {
		if it.Prov(call.Args[0]) == "param#0" && strings.Contains(typeStr(it, call.Args[1]), "net.Error") {
			okAs = true
		}
	}
	c.Ob("decision-list", "IsTimeout#context-deadline-anywhere-in-chain", it.Decl.Pos(), okIs, "a context.DeadlineExceeded anywhere in the chain is a timeout (errors.Is); errors.As alone stops at the first net.Error wrapper, whose Timeout() does not look deeper")
	c.Ob("decision-list", "IsTimeout#net.Error-timeouts", it.Decl.Pos(), okAs, "a net.Error reporting Timeout() anywhere in the chain is a timeout (errors.As)")

	// forwardTCP
	ft := c.Func("gateway", "Gateway", "forwardTCP")
	okDefer := false
	for _, st := range ft.Body.List {
		d, ok := st.(*ast.DeferStmt)
		if !ok {
			continue
		}
		lit, ok := d.Call.Fun.(*ast.FuncLit)
		if !ok {
			continue
		}
		g := ft.Closure(lit)
		ss := g.CallsTo(false, "spec/tun.SendStatusProto")
		cl := methodCalls(g, false, "Close")
		pp := g.CallsTo(false, "spec/tun.Pipe")
		// err known non-nil (truth) / nil (!truth), whichever way the test is written
		errNonNil := func(n ast.Node, truth bool) bool {
			return g.FactsAt(n).Cmp(func(e, tag ast.Expr, t bool, fa *Fact) bool {
				be, ok := ast.Unparen(e).(*ast.BinaryExpr)
				if !ok || fa.Inherited || tag != nil || !isNilIdent(g.Info, be.Y) || be.Op != token.NEQ && be.Op != token.EQL {
					return false
				}
				return ((be.Op == token.NEQ) == t) == truth
			})
		}
		if len(ss) == 1 && len(cl) == 1 && len(pp) == 1 {
			// status before close
			reached, _ := g.Reach(nil, func(n ast.Node) bool { return containsNode(n, ss[0]) }, nil)
			closeFirst := false
			for _, n := range reached {
				if containsNode(n, cl[0]) {
					closeFirst = true
				}
			}
			// on the error branch Close must come after the status frame: Close unreachable from entry on err!=nil paths without passing SendStatusProto
			okDefer = errNonNil(ss[0], true) && errNonNil(cl[0], true) && errNonNil(pp[0], false) && !closeFirstOnErr(g, ss[0], cl[0]) && g.Prov(ss[0].Args[0]) == "param#3"
			_ = closeFirst
		}
	}
	c.Ob("tcp-status", "forwardTCP#status-frame-before-close-on-error", ft.Decl.Pos(), okDefer, "every failing exit sends a status frame built from the error and then closes; a successful dial is piped")
	// every return returns the error that the deferred block inspects (the named/local err)
	for _, r := range ft.Returns() {
		ok := len(r.Results) == 1 && (isNilIdent(ft.Info, r.Results[0]) || types_ExprString(r.Results[0]) == "err")
		c.Ob("tcp-status", "forwardTCP#returns-tracked-error", r.Pos(), ok, "exits report through the err variable the deferred status logic reads")
	}
	// SendStatusProto mapping
	sp := c.Func("spec/tun", "", "SendStatusProto")
	nmap := 0
	ast.Inspect(sp.Body, func(n ast.Node) bool {
		as, ok := n.(*ast.AssignStmt)
		if !ok || len(as.Lhs) != 1 {
			return true
		}
		if se, ok := as.Lhs[0].(*ast.SelectorExpr); !ok || se.Sel.Name != "Status" {
			return true
		}
		sites := valueSites(sp, as, as.Rhs[0])
		// a local prepared with a default and overridden under a test: every definition
		// is a site; a definition without a deciding fact of its own is judged by what
		// holds on every path from it to the use
		var lv *types.Var
		if v := sp.varOf(as.Rhs[0]); v != nil && len(sp.defsOf(v)) > 1 {
			lv = v
			sites = nil
			for _, d := range sp.defNodes(v) {
				var rhs ast.Expr
				switch x := d.(type) {
				case *ast.AssignStmt:
					for i, l := range x.Lhs {
						if sp.varOf(l) == v && i < len(x.Rhs) {
							rhs = x.Rhs[i]
						}
					}
				case *ast.ValueSpec:
					for i, nm := range x.Names {
						if sp.Info.Defs[nm] == types.Object(v) && i < len(x.Values) {
							rhs = x.Values[i]
						}
					}
				}
				if rhs != nil {
					sites = append(sites, valueSite{sp, d, rhs})
				}
			}
		}
		for _, vs := range sites {
			nmap++
			code := constName(vs.g, vs.val)
			fs := sp.FactsAt(vs.at)
			if lv != nil {
				// what is known where the value is used, given this definition reached it
				useFacts := sp.FactsAt(as)
				defProv := sp.Prov(vs.val)
				noDirectFalseOnPath := func() bool {
					bad, decided := sp.CutFromDefs(as, lv, func(p string) bool { return p == defProv }, func(at atom) bool {
						call, ok := ast.Unparen(at.e).(*ast.CallExpr)
						return ok && at.tag == nil && !at.truth && sp.IsCall(call, "spec/tun.IsNoDirect")
					})
					return decided && bad == nil
				}
				errKnown := useFacts.Cmp(func(e, tag ast.Expr, truth bool, fa *Fact) bool {
					be, ok := ast.Unparen(e).(*ast.BinaryExpr)
					if !ok || tag != nil || !isNilIdent(sp.Info, be.Y) || sp.Prov(be.X) != "param#1" {
						return false
					}
					return be.Op == token.NEQ && truth || be.Op == token.EQL && !truth
				})
				switch code {
				case "TunnelStatusCode_NO_DIRECT":
					okND := fs.Has(func(fa *Fact) bool {
						return fa.Kind == FTrue && sp.IsCall(fa.Call, "spec/tun.IsNoDirect") && sp.Prov(fa.Call.Args[0]) == "param#1"
					})
					c.Ob("status-proto", "SendStatusProto#NO_DIRECT-iff-no-direct", vs.at.Pos(), okND && errKnown, "NO_DIRECT is reported exactly for no-direct errors")
				case "TunnelStatusCode_UNKNOWN_ERROR":
					c.Ob("status-proto", "SendStatusProto#UNKNOWN_ERROR-otherwise", vs.at.Pos(), noDirectFalseOnPath() && errKnown, "every other error is reported as UNKNOWN_ERROR")
				default:
					c.Ob("status-proto", "SendStatusProto#status:"+code, vs.at.Pos(), false, "unexpected status assignment")
				}
				continue
			}
			isErr := func(g *Fn, e ast.Expr) bool { return g.enclosing(e).Prov(e) == "param#1" }
			nd := func(truth bool) bool {
				return fs.Has(func(fa *Fact) bool {
					k := FTrue
					if !truth {
						k = FFalse
					}
					return fa.Kind == k && sp.IsCall(fa.Call, "spec/tun.IsNoDirect") && isErr(sp, fa.Call.Args[0])
				})
			}
			errSet := fs.Cmp(func(e, tag ast.Expr, truth bool, fa *Fact) bool {
				be, ok := e.(*ast.BinaryExpr)
				return ok && truth && be.Op == token.NEQ && isErr(sp, be.X) && isNilIdent(sp.Info, be.Y)
			})
			switch code {
			case "TunnelStatusCode_NO_DIRECT":
				c.Ob("status-proto", "SendStatusProto#NO_DIRECT-iff-no-direct", vs.at.Pos(), nd(true) && errSet, "NO_DIRECT is reported exactly for no-direct errors")
			case "TunnelStatusCode_UNKNOWN_ERROR":
				c.Ob("status-proto", "SendStatusProto#UNKNOWN_ERROR-otherwise", vs.at.Pos(), nd(false) && errSet, "every other error is reported as UNKNOWN_ERROR")
			default:
				c.Ob("status-proto", "SendStatusProto#status:"+code, vs.at.Pos(), false, "unexpected status assignment")
			}
		}
		return true
	})
	c.Floor("SendStatusProto status assignments", nmap, 2)
	// httpConnect
	hc := c.Func("gateway", "Gateway", "httpConnect")
	for _, call := range methodCalls(hc, false, "Hijack") {
		requireAt(c, "connect", "httpConnect#hijack-only-after-STATUS_OK", hc, call, "the CONNECT stream is established only after the dial succeeded and the client's status frame said STATUS_OK",
			reqCallOK("gateway.Gateway.connectDialer"), reqCallOK("spec/rpc.BoundedReceive"),
			factReq{"status == STATUS_OK", cmpFalse(func(g *Fn, be *ast.BinaryExpr) bool {
				return be.Op == token.NEQ && strings.HasSuffix(g.Prov(be.X), ".Status") && constName(g, be.Y) == "TunnelStatusCode_STATUS_OK"
			})})
	}
	c.Floor("httpConnect hijack sites", len(methodCalls(hc, false, "Hijack")), 1)
}

// closeFirstOnErr: on the literal's paths, is Close reachable without passing the status call?
func closeFirstOnErr(g *Fn, status, closeCall *ast.CallExpr) bool {
	reached, _ := g.Reach(nil, func(n ast.Node) bool { return containsNode(n, status) }, nil)
	for _, n := range reached {
		if containsNode(n, closeCall) && !containsNode(n, status) {
			return true
		}
	}
	return false
}

// ---------------------------------------------------------------------------------------

func runC37(c *Ctx) {
	mt := c.Func("gateway", "apexServer", "Mount")
	var route *ast.CallExpr
	for _, call := range methodCalls(mt, false, "Route") {
		if v, ok := mt.ConstVal(call.Args[0]); ok && v == "\"/_internal\"" {
			route = call
		}
	}
	if route == nil {
		c.Failf("apexServer.Mount: r.Route(\"/_internal\", ...) not found (undecided)")
	}
	// unreachable when a credential is empty: for each credential the facts at the
	// registration say it is non-empty (x == "" false, x != "" true, len(x) > 0, ...)
	nonEmpty := func(field string) bool {
		return mt.FactsAt(route).Cmp(func(e, tag ast.Expr, truth bool, fa *Fact) bool {
			be, okb := ast.Unparen(e).(*ast.BinaryExpr)
			if !okb || tag != nil {
				return false
			}
			x, y := be.X, be.Y
			if v, _ := mt.ConstVal(x); v == "\"\"" || v == "0" {
				x, y = y, x
			}
			v, _ := mt.ConstVal(y)
			switch {
			case v == "\"\"" && mt.Prov(x) == field:
				return be.Op == token.EQL && !truth || be.Op == token.NEQ && truth
			case v == "0" && isLenOf(mt, x, func(e ast.Expr) bool { return mt.Prov(e) == field }):
				return (be.Op == token.EQL || be.Op == token.LEQ) && !truth || (be.Op == token.NEQ || be.Op == token.GTR) && truth
			}
			return false
		})
	}
	ok := nonEmpty("recv.authUser") && nonEmpty("recv.authPass")
	c.Ob("disabled-without-credentials", "Mount#/_internal-only-with-both-credentials", route.Pos(), ok, "the internal prefix is registered only when both the admin user and the admin password are non-empty")
	// the group's body: a literal, or a method / function of the package given by name
	var g *Fn
	var body *ast.BlockStmt
	routerProv := "lit.param#0"
	if lit, okLit := ast.Unparen(route.Args[1]).(*ast.FuncLit); okLit {
		g = mt.Closure(lit)
		body = lit.Body
	} else if fo, okF := mt.ObjOf(route.Args[1]).(*types.Func); okF {
		if h := c.FnOfObj(fo); h != nil {
			g, body = h, h.Body
			routerProv = "param#0"
			// a method value must be taken from the receiver itself
			if se, okS := ast.Unparen(route.Args[1]).(*ast.SelectorExpr); okS && mt.Prov(se.X) != "recv" {
				g = nil
			}
			// and the group body must not be reachable any other way (mounted elsewhere, it
			// would run without the credentials guard above)
			uses := 0
			for _, p := range c.All {
				for id, o := range p.TypesInfo.Uses {
					if o == types.Object(fo) && !isTestFile(c.Fset, id.Pos()) {
						uses++
					}
				}
			}
			if uses != 1 {
				g = nil
			}
		}
	}
	if g == nil {
		c.Failf("the /_internal route group is neither a literal nor a function of the package (undecided)")
	}
	compositeOf := func(e ast.Expr) *ast.CompositeLit {
		if cl, ok := ast.Unparen(e).(*ast.CompositeLit); ok {
			return cl
		}
		if v := g.varOf(e); v != nil {
			if defs := g.defsOf(v); len(defs) == 1 && !defs[0].multi && defs[0].rhs != nil {
				cl, _ := ast.Unparen(defs[0].rhs).(*ast.CompositeLit)
				return cl
			}
		}
		return nil
	}
	// the first registration: r.Use(middleware.BasicAuth(_, map{authUser: authPass})); only
	// plain declarations may precede it
	okFirst := false
	for _, st := range body.List {
		if _, isDecl := st.(*ast.DeclStmt); isDecl {
			continue
		}
		if as, isAs := st.(*ast.AssignStmt); isAs && as.Tok == token.DEFINE {
			pure := true
			for _, r := range as.Rhs {
				if _, isCL := ast.Unparen(r).(*ast.CompositeLit); !isCL {
					pure = false
				}
			}
			if pure {
				continue
			}
		}
		if es, ok := st.(*ast.ExprStmt); ok {
			if use, ok := es.X.(*ast.CallExpr); ok && len(use.Args) >= 1 {
				if se, ok := use.Fun.(*ast.SelectorExpr); ok && se.Sel.Name == "Use" && g.Prov(se.X) == routerProv {
					if ba, ok := use.Args[0].(*ast.CallExpr); ok && g.IsCall(ba, "github.com/go-chi/chi/v5/middleware.BasicAuth") && len(ba.Args) == 2 {
						if cl := compositeOf(ba.Args[1]); cl != nil && len(cl.Elts) == 1 {
							if kv, ok := cl.Elts[0].(*ast.KeyValueExpr); ok {
								okFirst = g.Prov(kv.Key) == "recv.authUser" && g.Prov(kv.Value) == "recv.authPass"
							}
						}
					}
				}
			}
		}
		break
	}
	c.Ob("auth-first", "/_internal#first-middleware-is-BasicAuth(configured credentials)", body.Pos(), okFirst, "the first thing registered in the /_internal group is BasicAuth with exactly the configured user/password; everything registered afterwards (the node proxy, every mount) runs behind it")
	// all other registrations in the group use the group's router parameter
	nreg := 0
	for _, call := range g.Calls(false, func(call *ast.CallExpr) bool {
		se, ok := call.Fun.(*ast.SelectorExpr)
		if !ok {
			return false
		}
		switch se.Sel.Name {
		case "Use", "Mount", "Handle", "HandleFunc", "Get", "Post", "Put", "Delete", "Method", "With", "Route", "Group":
			return g.Info.Selections[se] != nil
		}
		return false
	}) {
		nreg++
		se := call.Fun.(*ast.SelectorExpr)
		c.Ob("auth-first", "/_internal#"+se.Sel.Name+"-on-group-router", call.Pos(), g.Prov(se.X) == routerProv, "registrations inside the group go to the group's router (the one carrying BasicAuth); found "+g.Prov(se.X))
	}
	c.Floor("/_internal group registrations", nreg, 3)
	// no /_internal pattern registered elsewhere
	nout := 0
	for _, fn := range c.AllFuncs() {
		if isTestFile(c.Fset, fn.Decl.Pos()) {
			continue
		}
		for _, call := range fn.Calls(true, func(call *ast.CallExpr) bool {
			se, ok := call.Fun.(*ast.SelectorExpr)
			if !ok || len(call.Args) == 0 {
				return false
			}
			switch se.Sel.Name {
			case "Mount", "Handle", "HandleFunc", "Get", "Post", "Put", "Delete", "Method", "Route":
				return true
			}
			return false
		}) {
			h := fn.enclosing(call)
			v, ok := h.ConstVal(call.Args[0])
			if !ok || !strings.HasPrefix(strings.Trim(v, "\""), "/_internal") {
				continue
			}
			if call == route {
				continue
			}
			nout++
			c.Ob("only-inside-group", fn.Name+"#"+v, call.Pos(), false, "an /_internal pattern registered outside the authenticated route group")
		}
	}
	c.Ob("only-inside-group", "no-/_internal-pattern-outside-the-group", 0, nout == 0, fmt.Sprintf("%d registrations of /_internal patterns outside the group", nout))
	// Stream_INTERNAL connections feed the same (apex) router
	ar := c.Func("gateway", "Gateway", "AttachRouter")
	okFeed := false
	for _, call := range methodCalls(ar, false, "HandleChord") {
		if constName(ar, call.Args[0]) == "Stream_INTERNAL" {
			if l, ok := call.Args[2].(*ast.FuncLit); ok {
				h := ar.Closure(l)
				for _, hc := range methodCalls(h, false, "Handle") {
					if h.Prov(hc.Fun.(*ast.SelectorExpr).X) == "recv.tcpApexAcceptor" {
						okFeed = true
					}
				}
			}
		}
	}
	c.Ob("auth-first", "Stream_INTERNAL#served-by-apex-router", ar.Decl.Pos(), okFeed, "requests proxied from another node arrive on the apex acceptor, i.e. through the same router and BasicAuth")
	// the apex servers use the router Mount() was applied to
	nw := c.Func("gateway", "", "New")
	okSrv := false
	for _, call := range nw.CallsTo(false, "gateway.apexServer.Mount") {
		rv := nw.varOf(call.Args[0])
		n := 0
		ast.Inspect(nw.Body, func(x ast.Node) bool {
			if kv, ok := x.(*ast.KeyValueExpr); ok {
				if id, ok := kv.Key.(*ast.Ident); ok && id.Name == "Handler" && nw.varOf(kv.Value) == rv && rv != nil {
					n++
				}
			}
			return true
		})
		okSrv = n >= 2
	}
	c.Ob("auth-first", "New#apex-servers-use-the-mounted-router", nw.Decl.Pos(), okSrv, "the apex HTTP servers are served by the router the authenticated group was mounted on")
}

// hostPlusPort: e is `h + ":" + strconv.Itoa(p)`; returns h and p, or nils.
func hostPlusPort(g *Fn, e ast.Expr) (host, port ast.Expr) {
	var ops []ast.Expr
	var flat func(x ast.Expr)
	flat = func(x ast.Expr) {
		x = ast.Unparen(x)
		if be, ok := x.(*ast.BinaryExpr); ok && be.Op == token.ADD {
			flat(be.X)
			flat(be.Y)
			return
		}
		ops = append(ops, x)
	}
	flat(e)
	if len(ops) != 3 {
		return nil, nil
	}
	if v, ok := g.ConstVal(ops[1]); !ok || v != `":"` {
		return nil, nil
	}
	call, ok := ops[2].(*ast.CallExpr)
	if !ok || !g.IsCall(call, "strconv.Itoa") || len(call.Args) != 1 {
		return nil, nil
	}
	return ops[0], call.Args[0]
}
