package main

import (
	"fmt"
	"go/ast"
	"testing"
)

func TestDbg(t *testing.T) {
	c := newCtx("X", "quick", "/repo", "/verif")
	c.load("", nil)
	set := chordFn(c, "nodeState", "Set")
	ast.Inspect(set.Body, func(n ast.Node) bool {
		if br, ok := n.(*ast.BranchStmt); ok {
			fmt.Println("facts at break:", set.FactsAt(br))
		}
		return true
	})
	el := chordFn(c, "LocalNode", "executeLeave")
	for _, call := range el.CallsTo(false, "chord.LocalNode.transferKeysDownward") {
		fmt.Println("facts at transferKeysDownward:", el.FactsAt(call))
		for _, fa := range el.FactsAt(call).Facts {
			if fa.Call != nil {
				fmt.Println("   ", fa.key, el.CallKey(fa.Call))
			}
		}
	}
}
