package main

// pathfacts: a forward must-analysis over go/cfg. At every program point it knows a set
// of facts that hold on EVERY path from the function entry to that point:
//   - call F returned a nil / non-nil error (through the variable the result was bound to)
//   - call F (or its boolean result) was true / false
//   - a comparison held / did not hold
//   - a lock is held (sync.Mutex / RWMutex, and the keyed-token idiom u := m.Lock(k); u())
// "X happens only after check Y succeeded" is then: the fact "Y passed" is in the set at X.

import (
	"fmt"
	"go/ast"
	"go/token"
	"go/types"
	"sort"
	"strings"

	"golang.org/x/tools/go/cfg"
)

type FactKind int

const (
	FCallOK   FactKind = iota // error result of Call is nil
	FCallFail                 // error result of Call is non-nil
	FTrue                     // Call (or its bool result Idx) is true
	FFalse                    //   ... false
	FNonNil                   // non-error result Idx of Call is non-nil
	FNil                      //   ... nil
	FCmp                      // expression Expr evaluated to Truth
	FHeld                     // lock Lock is held in mode Mode ('W' or 'R')
)

var kindNames = []string{"ok", "fail", "true", "false", "nonnil", "nil", "cmp", "held"}

type bnd struct {
	call *ast.CallExpr
	idx  int
}

type Fact struct {
	Kind  FactKind
	Call  *ast.CallExpr
	Idx   int
	Expr  ast.Expr // FCmp: the atom (for a tagged switch: the case expression)
	Tag   ast.Expr // FCmp from `switch Tag { case Expr: }`
	Truth bool
	Lock  string
	Mode  byte
	Binds map[*types.Var]bnd // FCmp: bindings of the variables in Expr when tested
	vars  []types.Object
	key   string
	Inherited bool // holds at the creation point of an enclosing literal
	Sem       bool // semantic copy (keyed by callee and argument text, not by site)
}

func (f *Fact) String() string {
	switch f.Kind {
	case FCmp:
		if f.Tag != nil {
			return fmt.Sprintf("cmp(%s == %s)=%v", types.ExprString(f.Tag), types.ExprString(f.Expr), f.Truth)
		}
		return fmt.Sprintf("cmp(%s)=%v", types.ExprString(f.Expr), f.Truth)
	case FHeld:
		return fmt.Sprintf("held(%c %s)", f.Mode, f.Lock)
	}
	return fmt.Sprintf("%s(%s#%d)", kindNames[f.Kind], types.ExprString(f.Call.Fun), f.Idx)
}

type fstate struct {
	facts map[string]*Fact
	bind  map[*types.Var]bnd
}

func (s *fstate) clone() *fstate {
	n := &fstate{facts: make(map[string]*Fact, len(s.facts)), bind: make(map[*types.Var]bnd, len(s.bind))}
	for k, v := range s.facts {
		n.facts[k] = v
	}
	for k, v := range s.bind {
		n.bind[k] = v
	}
	return n
}

// meet: intersection. nil = TOP (unreached).
func meet(a, b *fstate) *fstate {
	if a == nil {
		return b.clone()
	}
	if b == nil {
		return a
	}
	n := &fstate{facts: map[string]*Fact{}, bind: map[*types.Var]bnd{}}
	for k, v := range a.facts {
		if _, ok := b.facts[k]; ok {
			n.facts[k] = v
		}
	}
	for k, v := range a.bind {
		if w, ok := b.bind[k]; ok && w == v {
			n.bind[k] = v
		}
	}
	return n
}

func (s *fstate) equal(o *fstate) bool {
	if s == nil || o == nil {
		return s == o
	}
	if len(s.facts) != len(o.facts) || len(s.bind) != len(o.bind) {
		return false
	}
	for k := range s.facts {
		if _, ok := o.facts[k]; !ok {
			return false
		}
	}
	for k, v := range s.bind {
		if w, ok := o.bind[k]; !ok || w != v {
			return false
		}
	}
	return true
}

type factAnalysis struct {
	expanding int // depth of boolean-variable expansion in progress
	f       *Fn
	in      map[*cfg.Block]*fstate
	noBind  map[*types.Var]bool // vars assigned in literals or address-taken: never bound
	rangeKV map[*cfg.Block][]*types.Var
	rangeIdents map[*ast.Ident]bool
}

func (f *Fn) facts() *factAnalysis {
	if f.fa != nil {
		return f.fa
	}
	g := f.CFG()
	a := &factAnalysis{f: f, in: map[*cfg.Block]*fstate{}, noBind: map[*types.Var]bool{}, rangeKV: map[*cfg.Block][]*types.Var{}, rangeIdents: map[*ast.Ident]bool{}}
	f.fa = a
	// variables that may change behind the analysis' back
	ast.Inspect(f.Body, func(n ast.Node) bool {
		switch x := n.(type) {
		case *ast.FuncLit:
			if x == f.Lit {
				return true
			}
			ast.Inspect(x.Body, func(m ast.Node) bool {
				switch y := m.(type) {
				case *ast.AssignStmt:
					for _, l := range y.Lhs {
						if v := f.varOf(l); v != nil {
							a.noBind[v] = true
						}
					}
				case *ast.IncDecStmt:
					if v := f.varOf(y.X); v != nil {
						a.noBind[v] = true
					}
				}
				return true
			})
		case *ast.UnaryExpr:
			if x.Op == token.AND {
				if v := f.varOf(x.X); v != nil {
					a.noBind[v] = true
				}
			}
		}
		return true
	})
	for _, b := range g.Blocks {
		if b.Kind == cfg.KindRangeBody {
			if rs, ok := b.Stmt.(*ast.RangeStmt); ok {
				for _, e := range []ast.Expr{rs.Key, rs.Value} {
					if e != nil {
						if id, ok := e.(*ast.Ident); ok {
							a.rangeIdents[id] = true
						}
						if v := f.varOf(e); v != nil {
							a.rangeKV[b] = append(a.rangeKV[b], v)
						}
					}
				}
			}
		}
	}
	if len(g.Blocks) == 0 {
		return a
	}
	entry := g.Blocks[0]
	a.in[entry] = &fstate{facts: map[string]*Fact{}, bind: map[*types.Var]bnd{}}
	work := []*cfg.Block{entry}
	inWork := map[*cfg.Block]bool{entry: true}
	iter := 0
	for len(work) > 0 {
		iter++
		if iter > 200000 {
			f.C.Failf("pathfacts did not converge in %s", f.Name)
		}
		b := work[0]
		work = work[1:]
		inWork[b] = false
		st := a.in[b].clone()
		for _, v := range a.rangeKV[b] {
			a.unbind(st, v)
		}
		for _, n := range b.Nodes {
			a.transfer(st, n)
		}
		outs := a.edgeStates(b, st)
		for i, s := range b.Succs {
			ns := meet(a.in[s], outs[i])
			if !ns.equal(a.in[s]) {
				a.in[s] = ns
				if !inWork[s] {
					work = append(work, s)
					inWork[s] = true
				}
			}
		}
	}
	return a
}

func (f *Fn) varOf(e ast.Expr) *types.Var {
	if id, ok := ast.Unparen(e).(*ast.Ident); ok {
		if v, ok := f.Info.ObjectOf(id).(*types.Var); ok && !v.IsField() {
			return v
		}
	}
	return nil
}

func rootIdent(e ast.Expr) *ast.Ident {
	for {
		switch x := ast.Unparen(e).(type) {
		case *ast.Ident:
			return x
		case *ast.SelectorExpr:
			e = x.X
		case *ast.IndexExpr:
			e = x.X
		case *ast.StarExpr:
			e = x.X
		case *ast.SliceExpr:
			e = x.X
		default:
			return nil
		}
	}
}

func (a *factAnalysis) unbind(st *fstate, v *types.Var) {
	delete(st.bind, v)
	for k, fa := range st.facts {
		if fa.Kind == FCmp {
			for _, o := range fa.vars {
				if o == v {
					delete(st.facts, k)
					break
				}
			}
		}
	}
}

func (a *factAnalysis) assign(st *fstate, lhs ast.Expr, call *ast.CallExpr, idx int, copyFrom ast.Expr) {
	f := a.f
	v := f.varOf(lhs)
	if v == nil {
		// field / index assignment: forget comparisons about the root variable
		if id := rootIdent(lhs); id != nil {
			if rv, ok := f.Info.ObjectOf(id).(*types.Var); ok {
				for k, fa := range st.facts {
					if fa.Kind == FCmp {
						for _, o := range fa.vars {
							if o == rv && exprMentionsSelector(fa, lhs) {
								delete(st.facts, k)
								break
							}
						}
					}
				}
			}
		}
		return
	}
	a.unbind(st, v)
	if a.noBind[v] {
		return
	}
	if call != nil {
		st.bind[v] = bnd{call, idx}
		return
	}
	if copyFrom != nil {
		if src := f.varOf(copyFrom); src != nil {
			if b, ok := st.bind[src]; ok {
				st.bind[v] = b
			}
		}
	}
}

// exprMentionsSelector: does the comparison fact read the same field path as lhs?
func exprMentionsSelector(fa *Fact, lhs ast.Expr) bool {
	want := types.ExprString(lhs)
	found := false
	ast.Inspect(fa.Expr, func(n ast.Node) bool {
		if e, ok := n.(ast.Expr); ok && types.ExprString(e) == want {
			found = true
		}
		return !found
	})
	return found
}

func shallowCalls(n ast.Node) []*ast.CallExpr {
	var out []*ast.CallExpr
	ast.Inspect(n, func(x ast.Node) bool {
		if _, ok := x.(*ast.FuncLit); ok {
			return false
		}
		if c, ok := x.(*ast.CallExpr); ok {
			out = append(out, c)
		}
		return true
	})
	return out
}

// lockOp classifies X.Lock()/RLock()/Unlock()/RUnlock() on sync mutexes.
func (f *Fn) lockOp(call *ast.CallExpr) (lock string, op string) {
	se, ok := call.Fun.(*ast.SelectorExpr)
	if !ok {
		return "", ""
	}
	switch se.Sel.Name {
	case "Lock", "RLock", "Unlock", "RUnlock":
	default:
		return "", ""
	}
	o := f.Callee(call)
	if o == nil || o.Pkg() == nil {
		return "", ""
	}
	if o.Pkg().Path() == "sync" {
		return types.ExprString(se.X), se.Sel.Name
	}
	return "", ""
}

// keyedLockCall: u := m.Lock(k) / m.RLock(k) on util/atomic.KeyedRWMutex, returning the
// unlock function.
func (f *Fn) keyedLockCall(call *ast.CallExpr) (lock string, mode byte) {
	se, ok := call.Fun.(*ast.SelectorExpr)
	if !ok || (se.Sel.Name != "Lock" && se.Sel.Name != "RLock") || len(call.Args) != 1 {
		return "", 0
	}
	o := f.Callee(call)
	if o == nil || o.Pkg() == nil || o.Pkg().Path() != M+"/util/atomic" {
		return "", 0
	}
	mode = 'W'
	if se.Sel.Name == "RLock" {
		mode = 'R'
	}
	return types.ExprString(se.X) + "[" + types.ExprString(call.Args[0]) + "]", mode
}

func (a *factAnalysis) transfer(st *fstate, n ast.Node) {
	f := a.f
	for _, c := range shallowCalls(n) {
		sk := ""
		for k, fa := range st.facts {
			if fa.Kind == FHeld || fa.Call == nil {
				continue
			}
			if fa.Call == c {
				delete(st.facts, k)
				continue
			}
			if fa.Sem {
				if sk == "" {
					sk = semKey(f, c)
				}
				if strings.HasPrefix(k, "sem:") && strings.Contains(k, ":"+sk+"#") {
					delete(st.facts, k)
				}
			}
		}
	}
	switch x := n.(type) {
	case *ast.AssignStmt:
		if x.Tok != token.ASSIGN && x.Tok != token.DEFINE {
			for _, l := range x.Lhs {
				a.assign(st, l, nil, 0, nil)
			}
			return
		}
		if len(x.Rhs) == 1 && len(x.Lhs) >= 1 {
			if call, ok := ast.Unparen(x.Rhs[0]).(*ast.CallExpr); ok {
				for i, l := range x.Lhs {
					a.assign(st, l, call, i, nil)
				}
				if lk, mode := f.keyedLockCall(call); lk != "" && len(x.Lhs) == 1 {
					fa := &Fact{Kind: FHeld, Lock: lk, Mode: mode, Call: call, key: "held:" + lk}
					st.facts[fa.key] = fa
				}
				return
			}
		}
		if len(x.Lhs) == len(x.Rhs) {
			for i, l := range x.Lhs {
				if call, ok := ast.Unparen(x.Rhs[i]).(*ast.CallExpr); ok {
					a.assign(st, l, call, 0, nil)
				} else {
					a.assign(st, l, nil, 0, x.Rhs[i])
				}
			}
			return
		}
		for _, l := range x.Lhs {
			a.assign(st, l, nil, 0, nil)
		}
	case *ast.ValueSpec:
		if len(x.Values) == 1 && len(x.Names) >= 1 {
			if call, ok := ast.Unparen(x.Values[0]).(*ast.CallExpr); ok {
				for i, l := range x.Names {
					a.assign(st, l, call, i, nil)
				}
				return
			}
		}
		for i, l := range x.Names {
			if i < len(x.Values) && len(x.Values) == len(x.Names) {
				if call, ok := ast.Unparen(x.Values[i]).(*ast.CallExpr); ok {
					a.assign(st, l, call, 0, nil)
					continue
				}
				a.assign(st, l, nil, 0, x.Values[i])
				continue
			}
			a.assign(st, l, nil, 0, nil)
		}
	case *ast.IncDecStmt:
		a.assign(st, x.X, nil, 0, nil)
	case *ast.Ident:
		// range key/value placeholder (a bare identifier can also be a branch condition)
		if a.rangeIdents[x] {
			if v := f.varOf(x); v != nil {
				a.unbind(st, v)
			}
		}
	case *ast.ExprStmt:
		call, ok := x.X.(*ast.CallExpr)
		if !ok {
			return
		}
		if lk, op := f.lockOp(call); lk != "" {
			switch op {
			case "Lock":
				fa := &Fact{Kind: FHeld, Lock: lk, Mode: 'W', Call: call, key: "held:" + lk}
				st.facts[fa.key] = fa
			case "RLock":
				fa := &Fact{Kind: FHeld, Lock: lk, Mode: 'R', Call: call, key: "held:" + lk}
				st.facts[fa.key] = fa
			default:
				delete(st.facts, "held:"+lk)
			}
			return
		}
		// u() where u := m.Lock(k)
		if id, ok := call.Fun.(*ast.Ident); ok && len(call.Args) == 0 {
			if v := f.varOf(id); v != nil {
				if b, ok := st.bind[v]; ok {
					if lk, _ := f.keyedLockCall(b.call); lk != "" {
						delete(st.facts, "held:"+lk)
					}
				}
			}
		}
	}
}

type atom struct {
	e     ast.Expr
	tag   ast.Expr
	truth bool
}

func collectAtoms(e ast.Expr, truth bool, out *[]atom) {
	e = ast.Unparen(e)
	switch x := e.(type) {
	case *ast.UnaryExpr:
		if x.Op == token.NOT {
			collectAtoms(x.X, !truth, out)
			return
		}
	case *ast.BinaryExpr:
		if x.Op == token.LAND {
			if truth {
				collectAtoms(x.X, true, out)
				collectAtoms(x.Y, true, out)
				return
			}
		}
		if x.Op == token.LOR {
			if !truth {
				collectAtoms(x.X, false, out)
				collectAtoms(x.Y, false, out)
				return
			}
		}
	}
	*out = append(*out, atom{e: e, truth: truth})
}

// importLiteralExit: call is an immediately invoked function literal `func(...) R {...}()`
// (what an extracted-and-inlined helper looks like) whose result #idx is now known to be
// nil (want "nil") or true (want "true"). Every fact that holds at ALL returns of the
// literal yielding that result also holds here: the literal ran to one of those returns.
// The facts are about calls inside the literal, whose syntax belongs to the same function
// tree, so provenance and callee resolution keep working.
func (a *factAnalysis) importLiteralExit(st *fstate, call *ast.CallExpr, idx int, want string, add func(*Fact)) {
	lit, ok := ast.Unparen(call.Fun).(*ast.FuncLit)
	if !ok {
		return
	}
	g := a.f.Closure(lit)
	if g == nil {
		return
	}
	var common map[string]*Fact
	n := 0
	for _, r := range g.Returns() {
		if idx >= len(r.Results) {
			return // bare returns of named results: not summarised
		}
		res := ast.Unparen(r.Results[idx])
		fsr := g.localFactsAt(r)
		match := true
		var extra *Fact
		var condFacts []*Fact
		var bound *bnd
		if v := g.varOf(res); v != nil {
			if b, ok := fsr.bind[v]; ok {
				bound = &b
			}
		}
		knows := func(k FactKind) bool {
			return bound != nil && fsr.Has(func(fa *Fact) bool { return fa.Kind == k && fa.Call == bound.call && fa.Idx == bound.idx })
		}
		_, isCallRes := res.(*ast.CallExpr)
		switch want {
		case "nil", "nonnil":
			isNilLit := isNilIdent(g.Info, res)
			switch {
			case isNilLit:
				match = want == "nil"
			case isCallRes:
				// a constructed error is never nil; any other call may return either
				k := g.CallKey(res.(*ast.CallExpr))
				if k == "fmt.Errorf" || k == "errors.New" || strings.HasPrefix(k, "github.com/twitchtv/twirp.") || strings.HasPrefix(k, "spec/rpc.Wrap") {
					match = want == "nonnil"
				}
			case bound != nil:
				if want == "nil" {
					match = !knows(FCallFail)
					extra = &Fact{Kind: FCallOK, Call: bound.call, Idx: bound.idx}
				} else {
					match = !knows(FCallOK)
					extra = &Fact{Kind: FCallFail, Call: bound.call, Idx: bound.idx}
				}
			default:
				if strings.HasPrefix(g.Prov(res), "global:") {
					match = want == "nonnil" // a sentinel
				}
			}
		case "true", "false":
			if v, ok := g.ConstVal(res); ok {
				match = v == want
			} else if bound != nil {
				if want == "true" {
					match = !knows(FFalse)
					extra = &Fact{Kind: FTrue, Call: bound.call, Idx: bound.idx}
				} else {
					match = !knows(FTrue)
					extra = &Fact{Kind: FFalse, Call: bound.call, Idx: bound.idx}
				}
			} else if g.varOf(res) == nil {
				// `return a && b`: the result is the value of the expression, so what
				// its being true (false) implies holds for the caller as well
				ga := g.facts()
				tmp := &fstate{facts: map[string]*Fact{}, bind: fsr.bind}
				var atoms []atom
				collectAtoms(res, want == "true", &atoms)
				for _, at := range atoms {
					ga.addAtomFacts(tmp, at, res)
				}
				for _, fa := range tmp.facts {
					condFacts = append(condFacts, fa)
				}
			}
		}
		if !match {
			continue
		}
		n++
		cur := map[string]*Fact{}
		for _, fa := range fsr.Facts {
			if fa.Inherited || fa.Kind == FHeld {
				continue
			}
			cur[fa.key] = fa
		}
		for _, fa := range condFacts {
			cur[fa.key] = fa
		}
		if extra != nil {
			// the returned variable has the value the caller observed
			extra.key = fmt.Sprintf("%s:%d:%d", kindNames[extra.Kind], extra.Call.Pos(), extra.Idx)
			cur[extra.key] = extra
		}
		if common == nil {
			common = cur
		} else {
			for k := range common {
				if _, ok := cur[k]; !ok {
					delete(common, k)
				}
			}
		}
	}
	if n == 0 {
		return
	}
	for _, fa := range common {
		c := *fa
		st.facts[c.key] = &c
	}
	_ = add
}

func isNilIdent(info *types.Info, e ast.Expr) bool {
	id, ok := ast.Unparen(e).(*ast.Ident)
	if !ok {
		return false
	}
	_, isNil := info.ObjectOf(id).(*types.Nil)
	return isNil
}

func isErrorType(t types.Type) bool {
	if t == nil {
		return false
	}
	return types.Identical(t, types.Universe.Lookup("error").Type())
}

func (a *factAnalysis) addAtomFacts(st *fstate, at atom, cond ast.Expr) {
	f := a.f
	add := func(fa *Fact) {
		p := token.NoPos
		if fa.Call != nil {
			p = fa.Call.Pos()
		} else if fa.Expr != nil {
			p = fa.Expr.Pos()
		}
		fa.key = fmt.Sprintf("%s:%d:%d", kindNames[fa.Kind], p, fa.Idx)
		if fa.Kind == FCmp {
			fa.key += fmt.Sprintf(":%v", fa.Truth)
		}
		// a fact and its opposite cannot both hold; a later test overrides
		st.facts[fa.key] = fa
		if fa.Kind == FCmp && fa.Tag == nil && fa.Expr != nil && len(fa.vars) > 0 {
			// the same comparison written at several sites (before a loop and at its
			// end) must survive the join: a semantic copy keyed by the expression's text
			// and the identity of the variables in it
			c := *fa
			// an ordering / equality test is put into one canonical spelling first
			// (operands in text order, the truth value folded into the operator), so that
			// `max <= len(l)` false and `len(l) >= max` false are the same fact
			if be, ok := ast.Unparen(fa.Expr).(*ast.BinaryExpr); ok {
				mirror := map[token.Token]token.Token{token.EQL: token.EQL, token.NEQ: token.NEQ, token.LSS: token.GTR, token.GTR: token.LSS, token.LEQ: token.GEQ, token.GEQ: token.LEQ}
				neg := map[token.Token]token.Token{token.EQL: token.NEQ, token.NEQ: token.EQL, token.LSS: token.GEQ, token.GEQ: token.LSS, token.GTR: token.LEQ, token.LEQ: token.GTR}
				if _, isCmp := mirror[be.Op]; isCmp {
					x, y, op := be.X, be.Y, be.Op
					if types.ExprString(x) > types.ExprString(y) {
						x, y, op = y, x, mirror[op]
					}
					if !fa.Truth {
						op = neg[op]
					}
					c.Expr = &ast.BinaryExpr{X: x, OpPos: be.OpPos, Op: op, Y: y}
					c.Truth = true
				}
			}
			k := "sem:cmp:" + types.ExprString(c.Expr)
			var ptrs []string
			for _, v := range fa.vars {
				ptrs = append(ptrs, fmt.Sprintf("%p", v))
			}
			sort.Strings(ptrs)
			k += ":" + strings.Join(ptrs, ":")
			c.key = k + fmt.Sprintf(":%v", c.Truth)
			c.Sem = true
			st.facts[c.key] = &c
			delete(st.facts, k+fmt.Sprintf(":%v", !c.Truth))
		}
		if fa.Call != nil && fa.Kind != FHeld && fa.Kind != FCmp {
			// the same check written at several sites (both arms of an if) must survive the
			// join: a second, "semantic" copy keyed by callee + receiver/argument text
			c := *fa
			c.key = "sem:" + kindNames[fa.Kind] + ":" + semKey(f, fa.Call) + fmt.Sprintf("#%d", fa.Idx)
			c.Sem = true
			st.facts[c.key] = &c
			for _, opp := range [][2]FactKind{{FCallOK, FCallFail}, {FTrue, FFalse}, {FNonNil, FNil}} {
				for i := 0; i < 2; i++ {
					if fa.Kind == opp[i] {
						delete(st.facts, "sem:"+kindNames[opp[1-i]]+":"+semKey(f, fa.Call)+fmt.Sprintf("#%d", fa.Idx))
					}
				}
			}
		}
	}
	nilTest := func(x ast.Expr, isNil bool) bool {
		v := f.varOf(x)
		if v == nil {
			return false
		}
		b, ok := st.bind[v]
		if !ok {
			return false
		}
		if isErrorType(v.Type()) {
			if isNil {
				add(&Fact{Kind: FCallOK, Call: b.call, Idx: b.idx})
				delete(st.facts, fmt.Sprintf("fail:%d:%d", b.call.Pos(), b.idx))
				a.importLiteralExit(st, b.call, b.idx, "nil", add)
			} else {
				add(&Fact{Kind: FCallFail, Call: b.call, Idx: b.idx})
				delete(st.facts, fmt.Sprintf("ok:%d:%d", b.call.Pos(), b.idx))
				a.importLiteralExit(st, b.call, b.idx, "nonnil", add)
			}
		} else {
			if isNil {
				add(&Fact{Kind: FNil, Call: b.call, Idx: b.idx})
				delete(st.facts, fmt.Sprintf("nonnil:%d:%d", b.call.Pos(), b.idx))
			} else {
				add(&Fact{Kind: FNonNil, Call: b.call, Idx: b.idx})
				delete(st.facts, fmt.Sprintf("nil:%d:%d", b.call.Pos(), b.idx))
			}
		}
		return true
	}
	e := at.e
	if at.tag != nil {
		// switch tag { case e: }
		if isNilIdent(f.Info, e) {
			nilTest(at.tag, at.truth)
		}
		fa := &Fact{Kind: FCmp, Expr: e, Tag: at.tag, Truth: at.truth}
		a.fillVars(st, fa, at.tag)
		a.fillVars(st, fa, e)
		add(fa)
		return
	}
	switch x := e.(type) {
	case *ast.BinaryExpr:
		if x.Op == token.EQL || x.Op == token.NEQ {
			isNil := (x.Op == token.EQL) == at.truth
			if isNilIdent(f.Info, x.Y) {
				nilTest(x.X, isNil)
			} else if isNilIdent(f.Info, x.X) {
				nilTest(x.Y, isNil)
			}
		}
	case *ast.Ident:
		// a boolean local that names a condition: `same := a && b; if !same {...}` - the
		// variable is defined once, by an expression over values that do not change
		// afterwards, so what is known about the variable is known about the expression
		if v := f.varOf(x); v != nil && a.expanding < 3 {
			defs := f.defsOf(v)
			// definitions by the constant of the opposite truth value cannot be the one that
			// made the variable what it is now known to be: `failed := false; ...; failed =
			// err != nil` known true means the second definition ran and held
			if len(defs) > 1 {
				var rest []vdef
				for _, d := range defs {
					if d.rhs != nil && !d.multi {
						if cv, ok := f.enclosing(d.rhs).ConstVal(d.rhs); ok && (cv == "true") != at.truth && (cv == "true" || cv == "false") {
							continue
						}
					}
					rest = append(rest, d)
				}
				defs = rest
			}
			if len(defs) == 1 && !defs[0].multi && defs[0].rhs != nil {
				rhs := ast.Unparen(defs[0].rhs)
				_, isBin := rhs.(*ast.BinaryExpr)
				_, isNot := rhs.(*ast.UnaryExpr)
				if (isBin || isNot) && f.enclosing(rhs) == f && stableOperands(f, rhs) {
					var atoms []atom
					collectAtoms(rhs, at.truth, &atoms)
					a.expanding++
					for _, sub := range atoms {
						if sub.e != ast.Expr(x) {
							a.addAtomFacts(st, sub, rhs)
						}
					}
					a.expanding--
				}
			}
		}
		if v := f.varOf(x); v != nil {
			if b, ok := st.bind[v]; ok {
				if at.truth {
					add(&Fact{Kind: FTrue, Call: b.call, Idx: b.idx})
					delete(st.facts, fmt.Sprintf("false:%d:%d", b.call.Pos(), b.idx))
					a.importLiteralExit(st, b.call, b.idx, "true", add)
				} else {
					add(&Fact{Kind: FFalse, Call: b.call, Idx: b.idx})
					delete(st.facts, fmt.Sprintf("true:%d:%d", b.call.Pos(), b.idx))
					a.importLiteralExit(st, b.call, b.idx, "false", add)
				}
			}
		}
	case *ast.CallExpr:
		if at.truth {
			add(&Fact{Kind: FTrue, Call: x, Idx: -1})
			a.importLiteralExit(st, x, 0, "true", add)
		} else {
			add(&Fact{Kind: FFalse, Call: x, Idx: -1})
			a.importLiteralExit(st, x, 0, "false", add)
		}
	}
	fa := &Fact{Kind: FCmp, Expr: e, Truth: at.truth}
	a.fillVars(st, fa, e)
	add(fa)
	delete(st.facts, fmt.Sprintf("cmp:%d:0:%v", e.Pos(), !at.truth))
}

func (a *factAnalysis) fillVars(st *fstate, fa *Fact, e ast.Expr) {
	ast.Inspect(e, func(n ast.Node) bool {
		if id, ok := n.(*ast.Ident); ok {
			if v, ok := a.f.Info.ObjectOf(id).(*types.Var); ok {
				fa.vars = append(fa.vars, v)
				if b, ok := st.bind[v]; ok {
					if fa.Binds == nil {
						fa.Binds = map[*types.Var]bnd{}
					}
					fa.Binds[v] = b
				}
			}
		}
		return true
	})
}

// edgeStates returns the state on each outgoing edge of b, given the state after its nodes.
func (a *factAnalysis) edgeStates(b *cfg.Block, st *fstate) []*fstate {
	outs := make([]*fstate, len(b.Succs))
	for i := range outs {
		outs[i] = st
	}
	if len(b.Succs) != 2 || len(b.Nodes) == 0 {
		return outs
	}
	cond, ok := b.Nodes[len(b.Nodes)-1].(ast.Expr)
	if !ok {
		return outs
	}
	tag := a.f.caseOf[cond]
	for i, truth := range []bool{true, false} {
		ns := st.clone()
		var ats []atom
		if tag != nil {
			ats = []atom{{e: ast.Unparen(cond), tag: tag, truth: truth}}
		} else {
			collectAtoms(cond, truth, &ats)
		}
		for _, at := range ats {
			a.addAtomFacts(ns, at, cond)
		}
		outs[i] = ns
	}
	return outs
}

// FactSet is the set of facts holding on every path to a program point.
type FactSet struct {
	Facts       []*Fact
	Unreachable bool
	f           *Fn
	bind        map[*types.Var]bnd
}

func (fs *FactSet) String() string {
	var s []string
	for _, f := range fs.Facts {
		s = append(s, f.String())
	}
	sort.Strings(s)
	return strings.Join(s, ", ")
}

// locate finds the block and node index whose node contains n.
func (f *Fn) locate(n ast.Node) (*cfg.Block, int) {
	g := f.CFG()
	var bestB *cfg.Block
	bestI := -1
	var bestSize token.Pos = 1 << 40
	for _, b := range g.Blocks {
		for i, m := range b.Nodes {
			if m.Pos() <= n.Pos() && n.End() <= m.End() {
				if sz := m.End() - m.Pos(); sz < bestSize {
					bestB, bestI, bestSize = b, i, sz
				}
			}
		}
	}
	return bestB, bestI
}

// FactsAt returns the facts that hold just before the CFG node containing n executes.
// For a node inside a function literal, facts holding where the literal is created are
// included and marked Inherited.
func (f *Fn) FactsAt(n ast.Node) *FactSet {
	g := f.enclosing(n)
	fs := g.localFactsAt(n)
	if g.Lit != nil && g.Parent != nil {
		up := g.Parent.FactsAt(g.Lit)
		if up.Unreachable {
			fs.Unreachable = true
		}
		for _, fa := range up.Facts {
			c := *fa
			c.Inherited = true
			fs.Facts = append(fs.Facts, &c)
		}
	}
	return fs
}

// factsAfterCond returns the facts holding on the given outcome of a condition node.
func (f *Fn) factsAfterCond(cond ast.Expr, truth bool) *FactSet {
	a := f.facts()
	b, idx := f.locate(cond)
	if b == nil || idx != len(b.Nodes)-1 || len(b.Succs) != 2 {
		f.C.Failf("pathfacts: %s is not a branch condition in %s", f.C.pos(cond.Pos()), f.Name)
	}
	in := a.in[b]
	if in == nil || !b.Live {
		return &FactSet{Unreachable: true, f: f}
	}
	st := in.clone()
	for _, v := range a.rangeKV[b] {
		a.unbind(st, v)
	}
	for _, n := range b.Nodes {
		a.transfer(st, n)
	}
	outs := a.edgeStates(b, st)
	o := outs[1]
	if truth {
		o = outs[0]
	}
	fs := &FactSet{f: f, bind: o.bind}
	for _, fa := range o.facts {
		fs.Facts = append(fs.Facts, fa)
	}
	sort.Slice(fs.Facts, func(i, j int) bool { return fs.Facts[i].key < fs.Facts[j].key })
	return fs
}

// branchFacts handles break/continue/goto statements, which are edges (not nodes) in
// go/cfg. The facts are those holding where the statement executes: after the preceding
// simple statement of the same list, or - when it opens a body - on the edge into that
// body (if/else, a single-expression case clause, or default).
func (f *Fn) branchFacts(br *ast.BranchStmt) *FactSet {
	var stack []ast.Node
	var path []ast.Node
	ast.Inspect(f.Body, func(n ast.Node) bool {
		if n == nil {
			stack = stack[:len(stack)-1]
			return true
		}
		if path != nil {
			return false
		}
		stack = append(stack, n)
		if n == ast.Node(br) {
			path = append([]ast.Node{}, stack...)
		}
		return true
	})
	undecided := func(why string) *FactSet {
		f.C.Failf("pathfacts: branch statement at %s: %s (undecided)", f.C.pos(br.Pos()), why)
		return nil
	}
	if len(path) < 2 {
		return undecided("not found in " + f.Name)
	}
	cont := path[len(path)-2]
	var list []ast.Stmt
	switch x := cont.(type) {
	case *ast.BlockStmt:
		list = x.List
	case *ast.CaseClause:
		list = x.Body
	case *ast.CommClause:
		list = x.Body
	default:
		return undecided("unexpected container")
	}
	idx := -1
	for i, st := range list {
		if st == ast.Stmt(br) {
			idx = i
		}
	}
	if idx > 0 {
		switch prev := list[idx-1].(type) {
		case *ast.ExprStmt, *ast.AssignStmt, *ast.IncDecStmt, *ast.SendStmt, *ast.GoStmt, *ast.DeferStmt:
			return f.factsAfterNode(prev)
		case *ast.DeclStmt:
			return f.FactsAt(prev)
		}
		return undecided("preceded by a compound statement")
	}
	switch x := cont.(type) {
	case *ast.BlockStmt:
		if len(path) >= 3 {
			if ifs, ok := path[len(path)-3].(*ast.IfStmt); ok {
				if ifs.Body == x {
					return f.factsAfterCond(ifs.Cond, true)
				}
				if ifs.Else == ast.Stmt(x) {
					return f.factsAfterCond(ifs.Cond, false)
				}
			}
		}
	case *ast.CaseClause:
		if len(x.List) == 1 {
			return f.factsAfterCond(x.List[0], true)
		}
		if x.List == nil && len(path) >= 4 {
			// default: every case expression was false; go/cfg tests the cases in source
			// order and enters default last
			if body, ok := path[len(path)-3].(*ast.BlockStmt); ok {
				var last ast.Expr
				for _, cl := range body.List {
					if cc, ok := cl.(*ast.CaseClause); ok && len(cc.List) > 0 {
						last = cc.List[len(cc.List)-1]
					}
				}
				if last != nil {
					return f.factsAfterCond(last, false)
				}
			}
		}
	}
	return undecided("opens a body whose entry condition is not a single test")
}

// factsAfterNode returns the facts holding right after CFG node n executed.
func (f *Fn) factsAfterNode(n ast.Node) *FactSet {
	a := f.facts()
	b, idx := f.locate(n)
	if b == nil {
		f.C.Failf("pathfacts: cannot locate %s in CFG of %s", f.C.pos(n.Pos()), f.Name)
	}
	in := a.in[b]
	if in == nil || !b.Live {
		return &FactSet{Unreachable: true, f: f}
	}
	st := in.clone()
	for _, v := range a.rangeKV[b] {
		a.unbind(st, v)
	}
	for i := 0; i <= idx; i++ {
		a.transfer(st, b.Nodes[i])
	}
	fs := &FactSet{f: f, bind: st.bind}
	for _, fa := range st.facts {
		fs.Facts = append(fs.Facts, fa)
	}
	sort.Slice(fs.Facts, func(i, j int) bool { return fs.Facts[i].key < fs.Facts[j].key })
	return fs
}

func (f *Fn) localFactsAt(n ast.Node) *FactSet {
	a := f.facts()
	if br, ok := n.(*ast.BranchStmt); ok {
		return f.branchFacts(br)
	}
	b, idx := f.locate(n)
	if b == nil {
		f.C.Failf("pathfacts: cannot locate %s in CFG of %s", f.C.pos(n.Pos()), f.Name)
	}
	in := a.in[b]
	if in == nil || !b.Live {
		return &FactSet{Unreachable: true, f: f}
	}
	st := in.clone()
	for _, v := range a.rangeKV[b] {
		a.unbind(st, v)
	}
	for i := 0; i < idx; i++ {
		a.transfer(st, b.Nodes[i])
	}
	// short-circuit position: n sits in the right operand of && (||) inside the node it was
	// located in, so it is evaluated only when the left operand was true (false)
	if idx < len(b.Nodes) && b.Nodes[idx] != n {
		var path []ast.Node
		var stack []ast.Node
		ast.Inspect(b.Nodes[idx], func(m ast.Node) bool {
			if m == nil {
				stack = stack[:len(stack)-1]
				return true
			}
			stack = append(stack, m)
			if m == n && path == nil {
				path = append([]ast.Node{}, stack...)
			}
			if _, isLit := m.(*ast.FuncLit); isLit && m != n {
				// do not descend into literals: their bodies run elsewhere
				stack = stack[:len(stack)-1]
				return false
			}
			return path == nil
		})
		for i := 0; i+1 < len(path); i++ {
			be, ok := path[i].(*ast.BinaryExpr)
			if !ok || be.Op != token.LAND && be.Op != token.LOR {
				continue
			}
			// is the next node on the path inside be.Y?
			nx := path[i+1]
			if nx.Pos() >= be.Y.Pos() && nx.End() <= be.Y.End() {
				var atoms []atom
				collectAtoms(be.X, be.Op == token.LAND, &atoms)
				for _, at := range atoms {
					a.addAtomFacts(st, at, be.X)
				}
			}
		}
	}
	fs := &FactSet{f: f, bind: st.bind}
	for _, fa := range st.facts {
		fs.Facts = append(fs.Facts, fa)
	}
	sort.Slice(fs.Facts, func(i, j int) bool { return fs.Facts[i].key < fs.Facts[j].key })
	return fs
}

// Has reports whether some fact satisfies pred (vacuously true at unreachable points).
func (fs *FactSet) Has(pred func(*Fact) bool) bool {
	if fs.Unreachable {
		return true
	}
	for _, fa := range fs.Facts {
		if pred(fa) {
			return true
		}
	}
	return false
}

// CallOK: some call matching keys returned a nil error on every path here.
func (fs *FactSet) CallOK(keys ...string) bool {
	return fs.Has(func(fa *Fact) bool { return fa.Kind == FCallOK && fs.f.IsCall(fa.Call, keys...) })
}
func (fs *FactSet) CallFail(keys ...string) bool {
	return fs.Has(func(fa *Fact) bool { return fa.Kind == FCallFail && fs.f.IsCall(fa.Call, keys...) })
}
func (fs *FactSet) CallTrue(keys ...string) bool {
	return fs.Has(func(fa *Fact) bool { return fa.Kind == FTrue && fs.f.IsCall(fa.Call, keys...) })
}
func (fs *FactSet) CallFalse(keys ...string) bool {
	return fs.Has(func(fa *Fact) bool { return fa.Kind == FFalse && fs.f.IsCall(fa.Call, keys...) })
}
func (fs *FactSet) CallNonNil(keys ...string) bool {
	return fs.Has(func(fa *Fact) bool { return fa.Kind == FNonNil && fs.f.IsCall(fa.Call, keys...) })
}

// Cmp: a comparison fact whose (expression, truth) satisfies pred.
func (fs *FactSet) Cmp(pred func(e ast.Expr, tag ast.Expr, truth bool, fa *Fact) bool) bool {
	return fs.Has(func(fa *Fact) bool { return fa.Kind == FCmp && pred(fa.Expr, fa.Tag, fa.Truth, fa) })
}

// Equal reports whether the facts establish x == y for a pair accepted by pred (tried in both
// orders): an == comparison known true or a != comparison known false.
func (fs *FactSet) Equal(pred func(x, y ast.Expr) bool) bool {
	return fs.Cmp(func(e, tag ast.Expr, truth bool, fa *Fact) bool {
		be, ok := ast.Unparen(e).(*ast.BinaryExpr)
		if !ok || tag != nil {
			return false
		}
		if !(be.Op == token.EQL && truth || be.Op == token.NEQ && !truth) {
			return false
		}
		return pred(be.X, be.Y) || pred(be.Y, be.X)
	})
}

// Held reports whether lock (canonical expression text) is held in at least mode.
func (fs *FactSet) Held(lock string, mode byte) bool {
	return fs.Has(func(fa *Fact) bool {
		return fa.Kind == FHeld && fa.Lock == lock && (mode == 'R' || fa.Mode == 'W')
	})
}

// BindingOf returns the call (and result index) the variable e currently holds.
func (fs *FactSet) BindingOf(e ast.Expr) (*ast.CallExpr, int, bool) {
	if fs.bind == nil {
		return nil, 0, false
	}
	v := fs.f.varOf(e)
	if v == nil {
		return nil, 0, false
	}
	b, ok := fs.bind[v]
	return b.call, b.idx, ok
}

// ---------------------------------------------------------------------------------------
// path queries

type exitKind int

const (
	exitReturn exitKind = iota
	exitFallOff
	exitPanic
)

type cfgExit struct {
	Kind exitKind
	Ret  *ast.ReturnStmt
	B    *cfg.Block
}

// Reach explores forward from just after node `from` (or from the entry when from is nil),
// not continuing past nodes for which stop returns true. It returns the nodes reached
// (including the stop nodes themselves) and the exits reached.
func (f *Fn) Reach(from ast.Node, stop func(n ast.Node) bool, cut func(b *cfg.Block, succ int) bool) (reached []ast.Node, exits []cfgExit) {
	g := f.CFG()
	type pos struct {
		b *cfg.Block
		i int
	}
	var start pos
	if from == nil {
		if len(g.Blocks) == 0 {
			return nil, nil
		}
		start = pos{g.Blocks[0], 0}
	} else {
		b, i := f.locate(from)
		if b == nil {
			f.C.Failf("Reach: cannot locate %s in %s", f.C.pos(from.Pos()), f.Name)
		}
		start = pos{b, i + 1}
	}
	seen := map[*cfg.Block]bool{}
	var walk func(p pos)
	walk = func(p pos) {
		for i := p.i; i < len(p.b.Nodes); i++ {
			n := p.b.Nodes[i]
			reached = append(reached, n)
			if stop != nil && stop(n) {
				return
			}
		}
		if len(p.b.Succs) == 0 {
			if p.b.Kind == cfg.KindSelectAfterCase && len(p.b.Nodes) == 0 {
				// "no case ready" of a select without default: it blocks, it is not an exit
				return
			}
			ex := cfgExit{B: p.b, Kind: exitFallOff}
			if len(p.b.Nodes) > 0 {
				switch last := p.b.Nodes[len(p.b.Nodes)-1].(type) {
				case *ast.ReturnStmt:
					ex.Kind, ex.Ret = exitReturn, last
				case *ast.ExprStmt:
					if call, ok := last.X.(*ast.CallExpr); ok && !f.mayReturn(call) {
						ex.Kind = exitPanic
					}
				}
			}
			exits = append(exits, ex)
			return
		}
		for si, s := range p.b.Succs {
			if cut != nil && cut(p.b, si) {
				continue
			}
			if seen[s] {
				continue
			}
			seen[s] = true
			walk(pos{s, 0})
		}
	}
	walk(start)
	return
}

// containsNode reports whether outer's source range contains inner (literals excluded
// unless inner is in one and deep is set).
func containsNode(outer, inner ast.Node) bool {
	return outer.Pos() <= inner.Pos() && inner.End() <= outer.End()
}

// nodeHasCall: does CFG node n (shallow: not entering literals) contain a call matching pred?
func (f *Fn) nodeHasCall(n ast.Node, keys ...string) *ast.CallExpr {
	for _, c := range shallowCalls(n) {
		if f.IsCall(c, keys...) {
			return c
		}
	}
	return nil
}

// edgeAtoms returns the atoms implied on successor edge i of block b (nil when b does not
// end in a condition).
func (f *Fn) edgeAtoms(b *cfg.Block, i int) []atom {
	f.CFG()
	if len(b.Succs) != 2 || len(b.Nodes) == 0 {
		return nil
	}
	cond, ok := b.Nodes[len(b.Nodes)-1].(ast.Expr)
	if !ok {
		return nil
	}
	truth := i == 0
	if tag := f.caseOf[cond]; tag != nil {
		return []atom{{e: ast.Unparen(cond), tag: tag, truth: truth}}
	}
	var ats []atom
	collectAtoms(cond, truth, &ats)
	return ats
}

// defNodes lists the CFG nodes of f (not of nested literals) that assign local variable v.
func (f *Fn) defNodes(v *types.Var) []ast.Node {
	var out []ast.Node
	for _, b := range f.CFG().Blocks {
		for _, n := range b.Nodes {
			switch x := n.(type) {
			case *ast.AssignStmt:
				for _, l := range x.Lhs {
					if f.varOf(l) == v {
						out = append(out, n)
					}
				}
			case *ast.ValueSpec:
				for _, nm := range x.Names {
					if f.Info.Defs[nm] == types.Object(v) {
						out = append(out, n)
					}
				}
			case *ast.IncDecStmt:
				if f.varOf(x.X) == v {
					out = append(out, n)
				}
			}
		}
	}
	return out
}

// CutFromDefs is the edge-cut form of "use of v is guarded": for every definition of v in
// f that isBad (by the provenance of its right-hand side), `use` must be unreachable from
// that definition once (a) other definitions of v and (b) the edges on which passAtom
// holds are removed. It returns the offending definition, or nil.
// ok=false means v is not defined in f's own CFG (captured variable): caller falls back.
func (f *Fn) CutFromDefs(use ast.Node, v *types.Var, isBad func(prov string) bool, passAtom func(at atom) bool, copyOK ...func(def ast.Node, rhs ast.Expr) (decided, ok bool)) (bad ast.Node, ok bool) {
	defs := f.defNodes(v)
	if len(defs) == 0 {
		return nil, false
	}
	isDef := map[ast.Node]bool{}
	for _, d := range defs {
		isDef[d] = true
	}
	for _, d := range defs {
		var rhsProv []string
		switch x := d.(type) {
		case *ast.AssignStmt:
			if len(x.Rhs) == 1 && len(x.Lhs) > 1 {
				for i, l := range x.Lhs {
					if f.varOf(l) == v {
						rhsProv = append(rhsProv, fmt.Sprintf("%s#%d", f.Prov(x.Rhs[0]), i))
					}
				}
			} else {
				for i, l := range x.Lhs {
					if f.varOf(l) == v && i < len(x.Rhs) {
						rhsProv = append(rhsProv, f.Prov(x.Rhs[i]))
					}
				}
			}
		case *ast.ValueSpec:
			for i, nm := range x.Names {
				if f.Info.Defs[nm] == types.Object(v) {
					if len(x.Values) == 1 && len(x.Names) > 1 {
						rhsProv = append(rhsProv, fmt.Sprintf("%s#%d", f.Prov(x.Values[0]), i))
					} else if i < len(x.Values) {
						rhsProv = append(rhsProv, f.Prov(x.Values[i]))
					} else {
						rhsProv = append(rhsProv, "zero")
					}
				}
			}
		default:
			rhsProv = append(rhsProv, "?")
		}
		badDef := false
		if as, isAs := d.(*ast.AssignStmt); isAs && len(copyOK) > 0 && len(as.Lhs) == len(as.Rhs) {
			// a plain copy of another local: decided by the state of that local at the copy
			decidedAll := true
			for i, l := range as.Lhs {
				if f.varOf(l) != v {
					continue
				}
				if dec, ok := copyOK[0](d, as.Rhs[i]); dec {
					if !ok {
						badDef = true
					}
				} else {
					decidedAll = false
				}
			}
			if decidedAll {
				rhsProv = nil
			}
		}
		for _, p := range rhsProv {
			for _, alt := range strings.Split(p, "|") {
				if isBad(alt) {
					badDef = true
				}
			}
		}
		if !badDef {
			continue
		}
		reached, _ := f.Reach(d, func(n ast.Node) bool { return isDef[n] }, func(b *cfg.Block, si int) bool {
			for _, at := range f.edgeAtoms(b, si) {
				if passAtom(at) {
					return true
				}
			}
			return false
		})
		for _, n := range reached {
			if !isDef[n] && containsNode(n, use) {
				return d, true
			}
		}
	}
	return nil, true
}

func semKey(f *Fn, call *ast.CallExpr) string {
	return f.CallKey(call) + "|" + types.ExprString(call)
}

type cfgBlock = cfg.Block

// EqConsts unifies `switch subj { case K: }` and `if subj == K` / `subj != K`: it returns
// the constants subj is known to equal (pos) and known to differ from (neg) at this point.
// subj selects the subject expression.
func (fs *FactSet) EqConsts(g *Fn, subj func(e ast.Expr) bool) (pos, neg []string) {
	nameOf := func(e ast.Expr) string {
		if n := constName(g, e); n != "" {
			return n
		}
		if v, ok := g.ConstVal(e); ok {
			return v
		}
		return ""
	}
	seenP, seenN := map[string]bool{}, map[string]bool{}
	add := func(k string, isEq bool) {
		if k == "" {
			return
		}
		if isEq && !seenP[k] {
			seenP[k] = true
			pos = append(pos, k)
		}
		if !isEq && !seenN[k] {
			seenN[k] = true
			neg = append(neg, k)
		}
	}
	for _, fa := range fs.Facts {
		if fa.Kind != FCmp {
			continue
		}
		if fa.Tag != nil {
			if subj(fa.Tag) {
				add(nameOf(fa.Expr), fa.Truth)
			}
			continue
		}
		be, ok := fa.Expr.(*ast.BinaryExpr)
		if !ok || (be.Op != token.EQL && be.Op != token.NEQ) {
			continue
		}
		var other ast.Expr
		switch {
		case subj(be.X):
			other = be.Y
		case subj(be.Y):
			other = be.X
		default:
			continue
		}
		add(nameOf(other), (be.Op == token.EQL) == fa.Truth)
	}
	sort.Strings(pos)
	sort.Strings(neg)
	return
}

// stableOperands: every local variable mentioned in e is defined at most once (so it holds
// the same value wherever e's value is later consulted) and e contains no function literal.
func stableOperands(f *Fn, e ast.Expr) bool {
	ok := true
	ast.Inspect(e, func(n ast.Node) bool {
		switch x := n.(type) {
		case *ast.FuncLit:
			ok = false
		case *ast.Ident:
			if v := f.varOf(x); v != nil {
				isParam := false
				for g := f; g != nil; g = g.Parent {
					if g.paramIndex(v) != -2 {
						isParam = true
					}
				}
				n := len(f.defsOf(v))
				if isParam && n > 0 || !isParam && n > 1 {
					ok = false
				}
			}
		}
		return ok
	})
	return ok
}
