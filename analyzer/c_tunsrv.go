package main

import (
	"os"
	"fmt"
	"go/ast"
	"go/token"
	"go/types"
	"math/big"
	"sort"
	"strings"
)

func init() {
	register(&propDef{ID: "C25", Level: "other",
		Decides:    "the authentication gate of the tunnel control plane, on every path: both twirp services are built with a RequestRouted hook; in the hook the only method names let through without authentication are Ping and RegisterIdentity, every other success return (and the token write) is cut by extractAuthenticated ok and getClientByToken ok; getClientByToken succeeds only with a non-empty, decodable record; extractAuthenticated succeeds only with a delegation, a certificate and an extracted identity, and returns values derived from that identity; in every handler every DHT access / custom-hostname write / keyless key use (directly or through a helper) is cut by extractAuthenticated ok (or getCertificate ok); the handler methods are referenced only by the twirp constructors.",
		NotDecided: "twirp's hook semantics (trusted: an error from RequestRouted aborts the call) and certificate verification itself (C32).",
		Run:        runC25})
	register(&propDef{ID: "C26", Level: "other",
		Decides:    "publish/unpublish ownership on every path: the route Put is cut by authentication, 1 <= len(uniqueNodes(servers)) <= NumRedundantLinks, lease acquired, and PrefixContains(prefix(token), hostname) ok and true; the stored ClientDestination is the authenticated identity, prefix and lease keys derive from the authenticated token, bundle and routing key use the same requested hostname, slot = index+1; uniqueNodes de-duplicates by the same node field that keys destination lookups; Unpublish/Release delete only after the ownership test, over all NumRedundantLinks slots, and Release removes the hostname and custom binding only after that; every acquired lease has its Release deferred before any other exit.",
		NotDecided: "final DHT contents over histories.",
		Run:        runC26})
	register(&propDef{ID: "C29", Level: "other",
		Decides:    "custom hostname binding on every path: SaveCustomHostname and the PrefixAppend in AcmeValidate are unreachable unless authentication, Normalize and checkAcme succeeded and either an existing binding of the caller was found or the CNAME of the challenge name equals the expected content; the compared values come from LookupCNAME(challenge name) and GenerateCustomRecord(normalized hostname, acme zone, authenticated token); checkAcme succeeds only after the proof-of-work verified for that hostname, the apex/acme-zone and bare-domain refusals, and reports found only when token, id and address of the stored binding equal the caller's; the saved binding carries the authenticated identity/token; the raw request hostname flows only into Normalize.",
		NotDecided: "DNS answers themselves.",
		Run:        runC29})
	register(&propDef{ID: "C30", Level: "other",
		Decides:    "keyless TLS gate on every path: the certificate cache is consulted and a certificate returned only after authentication, Normalize, checkAcme ok and found == true, with the normalized hostname; Sign reaches signer.Sign only after getCertificate ok, with the hash option assigned only under the three enumerated algorithm cases (each mapped to its crypto hash) and the digest length equal to that hash's size; computeKeylessTTL's decision list, evaluated over the order types of the remaining lifetime against 0 and the positive TTL, is min(remaining, positive) when remaining > 0 and the 1 s floor otherwise, with remaining = NotAfter - skew - now.",
		NotDecided: "signature validity and the cache library's TTL handling (trusted).",
		Run:        runC30})
	register(&propDef{ID: "C51", Level: "other",
		Decides:    "GetNodes offers at most NumRedundantLinks (3) endpoints, distinct by address: the response is built only from lookup jobs created one per element of MakeSuccListByAddress(s.Chord, successors, NumRedundantLinks) (list starts with self; C12 decides its well-formedness), each job keyed by DestinationByChordKey of that element's identity; any job error fails the RPC before a response is built; the call requires an authenticated client.",
		NotDecided: "what the destination records contain.",
		Run:        runC51})

	addSelfTests("C25",
		mutation{"allow-list-widened", "tun/server/client_rpc.go", "	case \"Ping\", \"RegisterIdentity\":\n		return ctx, nil", "	case \"Ping\", \"RegisterIdentity\", \"GetNodes\":\n		return ctx, nil", "hook"},
		mutation{"equivalent-if-chain", "tun/server/client_rpc.go", "	switch method {\n	case \"Ping\", \"RegisterIdentity\":\n		return ctx, nil\n	default:\n		token, verifiedClient, err := extractAuthenticated(ctx)", "	if method == \"Ping\" || method == \"RegisterIdentity\" {\n		return ctx, nil\n	}\n	{\n		token, verifiedClient, err := extractAuthenticated(ctx)", "!hook"},
		mutation{"token-error-ignored", "tun/server/client_rpc.go", "		if err != nil {\n			return ctx, twirp.Unauthenticated.Errorf(\"failed to verify client token: %w\", err)\n		}", "		if err != nil {\n			s.Logger.Warn(\"failed to verify client token\", zap.Error(err))\n		}", "hook"},
		mutation{"missing-cert-accepted", "tun/server/client_rpc.go", "	if delegation.Certificate == nil {\n		return nil, nil, twirp.Unauthenticated.Error(\"missing client certificate\")\n	}\n", "", "extract"},
		mutation{"handler-before-auth", "tun/server/client_rpc.go", "	token, _, err := extractAuthenticated(ctx)\n	if err != nil {\n		return nil, err\n	}\n\n	hostname := strings.Join(generator.MustGenerate(5), \"-\")\n	prefix := tun.ClientHostnamesPrefix(token)\n	if err := s.Chord.PrefixAppend(ctx, []byte(prefix), []byte(hostname)); err != nil {\n		return nil, rpc.WrapErrorKV(prefix, err)\n	}", "	token, _, err := extractAuthenticated(ctx)\n\n	hostname := strings.Join(generator.MustGenerate(5), \"-\")\n	prefix := tun.ClientHostnamesPrefix(token)\n	if err := s.Chord.PrefixAppend(ctx, []byte(prefix), []byte(hostname)); err != nil {\n		return nil, rpc.WrapErrorKV(prefix, err)\n	}\n	if err != nil {\n		return nil, err\n	}", "handler-gate"},
		mutation{"one-service-without-hook", "tun/server/client_rpc.go", "	keylessTwirp := protocol.NewKeylessServiceServer(s, twirp.WithServerHooks(&twirp.ServerHooks{\n		RequestRouted: s.verifyClientIdentity,\n		Error:         s.logError,\n	}))", "	keylessTwirp := protocol.NewKeylessServiceServer(s, twirp.WithServerHooks(&twirp.ServerHooks{\n		Error: s.logError,\n	}))", "hook-installed"},
	)
	addSelfTests("C26",
		mutation{"ownership-result-ignored", "tun/server/client_rpc.go", "	if !b {\n		return nil, twirp.PermissionDenied.Errorf(\"hostname %s is not registered\", hostname)\n	}\n\n	lookupJobs", "	_ = b\n\n	lookupJobs", "publish-gate"},
		mutation{"client-from-request", "tun/server/client_rpc.go", "				ClientDestination: verifiedClient,", "				ClientDestination: append(req.GetServers(), verifiedClient)[0],", "publish-provenance"},
		mutation{"bound-off-by-one", "tun/server/client_rpc.go", "	if len(requested) > tun.NumRedundantLinks {", "	if len(requested) > tun.NumRedundantLinks+1 {", "publish-gate"},
		mutation{"unpublish-no-ownership", "tun/server/client_rpc.go", "	if !b {\n		return twirp.PermissionDenied.Errorf(\"hostname %s is not registered\", hostname)\n	}\n\n	unpublishJobs", "	_ = b\n\n	unpublishJobs", "unpublish-gate"},
		mutation{"release-lease-not-deferred", "tun/server/client_rpc.go", "	defer s.Chord.Release(ctx, []byte(leaseKey), lease)\n", "	_ = lease\n", "lease-pairing"},
		mutation{"slot-zero-based", "tun/server/client_rpc.go", "			key := tun.RoutingKey(hostname, i+1)\n			if err := s.Chord.Put(fnCtx", "			key := tun.RoutingKey(hostname, i)\n			if err := s.Chord.Put(fnCtx", "publish-provenance"},
	)
	addSelfTests("C29",
		mutation{"cname-mismatch-ignored", "tun/server/acme_rpc.go", "	if cname != content {\n		return nil, twirp.FailedPrecondition.Errorf(\"unexpected CNAME content: %s\", cname)\n	}\n", "	if cname != content {\n		s.Logger.Warn(\"unexpected CNAME content\")\n	}\n", "bind-gate"},
		mutation{"found-for-any-client", "tun/server/acme_rpc.go", "		if !bytes.Equal(bundle.GetClientToken().GetToken(), token.GetToken()) ||\n			bundle.GetClientIdentity().GetId() != client.GetId() ||", "		if !bytes.Equal(token.GetToken(), token.GetToken()) ||\n			bundle.GetClientIdentity().GetId() != client.GetId() ||", "checkacme"},
		mutation{"pow-for-other-subject", "tun/server/acme_rpc.go", "			return hostname\n		},", "			return s.Apex\n		},", "checkacme"},
		mutation{"record-from-request-token", "tun/server/acme_rpc.go", "	name, content := acme.GenerateCustomRecord(hostname, s.Acme, token.GetToken())\n\n	lookupCtx", "	name, content := acme.GenerateCustomRecord(hostname, s.Acme, req.GetProof().GetPubKey())\n\n	lookupCtx", "bind-provenance"},
		mutation{"zones-label-aligned", "tun/server/acme_rpc.go", "	if strings.Contains(hostname, s.Acme) || strings.Contains(hostname, s.Apex) {", "	if hostname == s.Acme || strings.HasSuffix(hostname, \".\"+s.Acme) || hostname == s.Apex || strings.HasSuffix(hostname, \".\"+s.Apex) {", "!checkacme"},
		mutation{"zones-label-aligned-zone-itself-passes", "tun/server/acme_rpc.go", "	if strings.Contains(hostname, s.Acme) || strings.Contains(hostname, s.Apex) {", "	if strings.HasSuffix(hostname, \".\"+s.Acme) || strings.HasSuffix(hostname, \".\"+s.Apex) {", "checkacme"},
		mutation{"apex-check-dropped", "tun/server/acme_rpc.go", "	if strings.Contains(hostname, s.Acme) || strings.Contains(hostname, s.Apex) {", "	if strings.Contains(hostname, s.Acme) {", "checkacme"},
	)
	mutExtra["algo-table-form"] = [2]string{"func (s *Server) Sign(", "var keylessHashTable = map[protocol.KeylessSignRequest_HashAlgorithm]struct {\n	hash crypto.Hash\n	size int\n}{\n	protocol.KeylessSignRequest_SHA256: {hash: crypto.SHA256, size: 32},\n	protocol.KeylessSignRequest_SHA384: {hash: crypto.SHA384, size: 48},\n	protocol.KeylessSignRequest_SHA512: {hash: crypto.SHA512, size: 64},\n}\n\nfunc (s *Server) Sign("}
	addSelfTests("C30",
		mutation{"unbound-hostname-served", "tun/server/keyless_rpc.go", "	if !found {\n		return nil, twirp.PermissionDenied.Error(\"cannot use provided hostname for keyless tls\")\n	}\n", "	_ = found\n", "keyless-gate"},
		mutation{"algo-table-form", "tun/server/keyless_rpc.go", "	var opts crypto.SignerOpts\n	switch req.GetAlgo() {\n	case protocol.KeylessSignRequest_SHA256:\n		opts = crypto.SHA256\n	case protocol.KeylessSignRequest_SHA384:\n		opts = crypto.SHA384\n	case protocol.KeylessSignRequest_SHA512:\n		opts = crypto.SHA512\n	default:\n		return nil, twirp.InvalidArgumentError(\"algo\", \"unsupported hash algorithm\")\n	}", "	entry, known := keylessHashTable[req.GetAlgo()]\n	if !known {\n		return nil, twirp.InvalidArgumentError(\"algo\", \"unsupported hash algorithm\")\n	}\n	var opts crypto.SignerOpts = entry.hash", "!sign-gate"},
		mutation{"digest-length-unchecked", "tun/server/keyless_rpc.go", "	if len(req.GetDigest()) != opts.HashFunc().Size() {\n		return nil, twirp.InvalidArgumentError(\"digest\", \"invalid digest length\")\n	}\n", "", "sign-gate"},
		mutation{"default-algo-sha256", "tun/server/keyless_rpc.go", "	default:\n		return nil, twirp.InvalidArgumentError(\"algo\", \"unsupported hash algorithm\")", "	default:\n		opts = crypto.SHA256", "sign-gate"},
		mutation{"ttl-ignores-expiry", "tun/server/keyless_cache.go", "	if remaining < keylessPositiveTTL {\n		return remaining\n	}\n", "", "ttl"},
		mutation{"ttl-leaf-only", "tun/server/keyless_cache.go", "		if parsed, err := x509.ParseCertificate(cert.Certificate[0]); err == nil {\n			leaf = parsed\n		}", "		if _, err := x509.ParseCertificate(cert.Certificate[0]); err != nil {\n			leaf = nil\n		}", "ttl"},
		mutation{"ttl-no-skew", "tun/server/keyless_cache.go", "	expiry := leaf.NotAfter.Add(-keylessExpirySkew)", "	expiry := leaf.NotAfter", "ttl"},
		mutation{"algo-mapping-swapped", "tun/server/keyless_rpc.go", "	case protocol.KeylessSignRequest_SHA384:\n		opts = crypto.SHA384", "	case protocol.KeylessSignRequest_SHA384:\n		opts = crypto.SHA512", "sign-gate"},
	)
	addSelfTests("C51",
		mutation{"own-entry-from-memory", "tun/server/client_rpc.go", "			key := tun.DestinationByChordKey(chord.Identity())\n			destination, err := s.lookupDestination(fnCtx, key)", "			if chord.Identity().GetAddress() == s.ChordTransport.Identity().GetAddress() {\n				return s.TunnelTransport.Identity(), nil\n			}\n			key := tun.DestinationByChordKey(chord.Identity())\n			destination, err := s.lookupDestination(fnCtx, key)", "offer-bound"},
		mutation{"address-not-recorded", "spec/chord/chord.go", "		seen[succ.Identity().GetAddress()] = true\n		succList = append(succList, succ)", "		succList = append(succList, succ)", "offer-bound"},
		mutation{"offer-all-successors", "tun/server/client_rpc.go", "	vnodes := chord.MakeSuccListByAddress(s.Chord, successors, tun.NumRedundantLinks)", "	vnodes := chord.MakeSuccListByAddress(s.Chord, successors, chord.ExtendedSuccessorEntries+1)", "offer-bound"},
		mutation{"dedup-by-id", "tun/server/client_rpc.go", "	vnodes := chord.MakeSuccListByAddress(s.Chord, successors, tun.NumRedundantLinks)", "	vnodes := chord.MakeSuccListByID(s.Chord, successors, tun.NumRedundantLinks)", "offer-bound"},
		mutation{"partial-result-on-error", "tun/server/client_rpc.go", "	servers, errors := promise.All(lookupCtx, lookupJobs...)\n	for _, err := range errors {\n		if err != nil {\n			return nil, err\n		}\n	}\n\n	return &protocol.GetNodesResponse{", "	servers, errors := promise.All(lookupCtx, lookupJobs...)\n	_ = errors\n\n	return &protocol.GetNodesResponse{", "offer-errors"},
	)
}

func srvFn(c *Ctx, name string) *Fn { return c.Func("tun/server", "Server", name) }

// successReturns lists the returns of fn whose error result is not provably non-nil.
func successReturns(fn *Fn) []*ast.ReturnStmt {
	var out []*ast.ReturnStmt
	named := namedErrResult(fn)
	for _, r := range fn.Returns() {
		fs := fn.FactsAt(r)
		if fs.Unreachable {
			continue
		}
		if len(r.Results) == 0 {
			if named != nil {
				// a named error result holding a freshly constructed error is a failure exit
				if call, _, ok := fs.BindingOf(named); ok {
					switch fn.CallKey(call) {
					case "fmt.Errorf", "errors.New":
						continue
					}
					if isTwirpErr(fn, call) {
						continue
					}
					if fs.Has(func(fa *Fact) bool { return fa.Kind == FCallFail && fa.Call == call }) {
						continue
					}
				}
				out = append(out, r)
			}
			continue
		}
		e := r.Results[len(r.Results)-1]
		if t := typeOf(fn.Info, e); t == nil || !(isErrorType(t) || types.IsInterface(t) || isNilIdent(fn.Info, e)) {
			continue
		}
		if !errorResultIsNonNil(fn, r, e, fs) && !isTwirpErr(fn, e) {
			out = append(out, r)
		}
	}
	return out
}

func isTwirpErr(fn *Fn, e ast.Expr) bool {
	call, ok := ast.Unparen(e).(*ast.CallExpr)
	if !ok {
		return false
	}
	if o := fn.Callee(call); o != nil && o.Pkg() != nil && o.Pkg().Path() == "github.com/twitchtv/twirp" {
		return true
	}
	return false
}

type factReq struct {
	name string
	ok   func(g *Fn, fs *FactSet) bool
}

func reqCallOK(keys ...string) factReq {
	return factReq{"ok(" + strings.Join(keys, "|") + ")", func(g *Fn, fs *FactSet) bool { return fs.CallOK(keys...) }}
}

func requireAt(c *Ctx, rule, construct string, g *Fn, n ast.Node, what string, reqs ...factReq) bool {
	fs := g.FactsAt(n)
	all := true
	var missing []string
	for _, r := range reqs {
		if !r.ok(g.enclosing(n), fs) {
			all = false
			missing = append(missing, r.name)
		}
	}
	c.Ob(rule, construct, n.Pos(), all, fmt.Sprintf("%s; not established on every path: %v", what, missing))
	if !all && os.Getenv("VERIF_DEBUG_FACTS") != "" {
		fmt.Fprintf(os.Stderr, "facts at %s (%s):\n%s\n", c.pos(n.Pos()), construct, fs.String())
	}
	return all
}

func cmpFalse(pred func(g *Fn, be *ast.BinaryExpr) bool) func(g *Fn, fs *FactSet) bool {
	return func(g *Fn, fs *FactSet) bool {
		return fs.Cmp(func(e, tag ast.Expr, truth bool, fa *Fact) bool {
			be, ok := e.(*ast.BinaryExpr)
			return ok && tag == nil && !truth && pred(g, be)
		})
	}
}

var authKeys = []string{"tun/server.extractAuthenticated"}

func runC25(c *Ctx) {
	// A1: hooks
	hooks := map[*types.Func]bool{}
	nsrv := 0
	for _, fn := range c.AllFuncs() {
		if isTestFile(c.Fset, fn.Decl.Pos()) {
			continue
		}
		for _, call := range fn.CallsTo(true, "spec/protocol.NewTunnelServiceServer", "spec/protocol.NewKeylessServiceServer") {
			nsrv++
			g := fn.enclosing(call)
			var hook types.Object
			ast.Inspect(call, func(n ast.Node) bool {
				kv, ok := n.(*ast.KeyValueExpr)
				if !ok {
					return true
				}
				if id, ok := kv.Key.(*ast.Ident); ok && id.Name == "RequestRouted" {
					hook = g.ObjOf(kv.Value)
				}
				return true
			})
			hf, _ := hook.(*types.Func)
			c.Ob("hook-installed", fmt.Sprintf("%s#%s", fn.Name, g.CallKey(call)), call.Pos(), hf != nil, "the twirp service is constructed with a RequestRouted hook")
			if hf != nil {
				hooks[hf] = true
			}
		}
	}
	c.Floor("twirp tunnel/keyless service constructions", nsrv, 2)
	allow := map[string]bool{"Ping": true, "RegisterIdentity": true}
	// interface methods
	pp := c.P("spec/protocol").Types.Scope()
	svcMethods := map[string]bool{}
	for _, in := range []string{"TunnelService", "KeylessService"} {
		it, _ := pp.Lookup(in).Type().Underlying().(*types.Interface)
		if it == nil {
			c.Failf("anchor unresolved: protocol.%s", in)
		}
		for i := 0; i < it.NumMethods(); i++ {
			svcMethods[it.Method(i).Name()] = true
		}
	}
	for hf := range hooks {
		h := c.FnOfObj(hf)
		if h == nil {
			c.Failf("hook %s has no body", hf.Name())
		}
		// Edges on which the routed method is known to be one of the allow-listed names
		// (switch case or an if / || chain of equalities) are removed; in what remains,
		// every success return must be cut by both authentication checks. A name outside
		// the allow-list is simply not removed, so its path needs the checks.
		isMethod := func(e ast.Expr) bool { return h.Prov(e) == "call:github.com/twitchtv/twirp.MethodName()#0" }
		var allowedEq func(e ast.Expr) bool
		allowedEq = func(e ast.Expr) bool {
			e = ast.Unparen(e)
			be, ok := e.(*ast.BinaryExpr)
			if !ok {
				return false
			}
			if be.Op == token.LOR {
				return allowedEq(be.X) && allowedEq(be.Y)
			}
			if be.Op != token.EQL {
				return false
			}
			var other ast.Expr
			switch {
			case isMethod(be.X):
				other = be.Y
			case isMethod(be.Y):
				other = be.X
			default:
				return false
			}
			v, ok := h.ConstVal(other)
			n := strings.Trim(v, "\"")
			return ok && allow[n] && svcMethods[n]
		}
		// impliesAllow: the condition having this truth value implies that the method is
		// one of the allow-listed names (any nesting of !, &&, ||, ==, !=)
		var impliesAllow func(e ast.Expr, truth bool) bool
		impliesAllow = func(e ast.Expr, truth bool) bool {
			e = ast.Unparen(e)
			switch x := e.(type) {
			case *ast.UnaryExpr:
				if x.Op == token.NOT {
					return impliesAllow(x.X, !truth)
				}
			case *ast.BinaryExpr:
				switch x.Op {
				case token.LAND:
					if truth {
						return impliesAllow(x.X, true) || impliesAllow(x.Y, true)
					}
					return impliesAllow(x.X, false) && impliesAllow(x.Y, false)
				case token.LOR:
					if truth {
						return impliesAllow(x.X, true) && impliesAllow(x.Y, true)
					}
					return impliesAllow(x.X, false) || impliesAllow(x.Y, false)
				case token.EQL, token.NEQ:
					var other ast.Expr
					switch {
					case isMethod(x.X):
						other = x.Y
					case isMethod(x.Y):
						other = x.X
					default:
						return false
					}
					v, ok := h.ConstVal(other)
					n := strings.Trim(v, "\"")
					return ok && allow[n] && svcMethods[n] && (x.Op == token.EQL) == truth
				}
			}
			return false
		}
		letThrough := map[string]bool{}
		reached, _ := h.Reach(nil, nil, func(b *cfgBlock, si int) bool {
			if len(b.Succs) == 2 && len(b.Nodes) > 0 {
				if cond, ok := b.Nodes[len(b.Nodes)-1].(ast.Expr); ok && h.caseOf[cond] == nil && impliesAllow(cond, si == 0) {
					letThrough["(if)"] = true
					return true
				}
			}
			for _, at := range h.edgeAtoms(b, si) {
				if !at.truth {
					continue
				}
				if at.tag != nil {
					if isMethod(at.tag) {
						if v, ok := h.ConstVal(at.e); ok && allow[strings.Trim(v, "\"")] && svcMethods[strings.Trim(v, "\"")] {
							letThrough[strings.Trim(v, "\"")] = true
							return true
						}
					}
					continue
				}
				if allowedEq(at.e) {
					letThrough["(if)"] = true
					return true
				}
			}
			return false
		})
		inReduced := map[ast.Node]bool{}
		for _, n := range reached {
			inReduced[n] = true
		}
		nsucc := 0
		for _, r := range successReturns(h) {
			nsucc++
			if !inReduced[r] {
				c.Ob("hook", "verifyClientIdentity#unauthenticated-methods", r.Pos(), true, "this success return is reachable only for the allow-listed methods {Ping, RegisterIdentity}")
				continue
			}
			requireAt(c, "hook", "verifyClientIdentity#success-requires-auth", h, r, "outside the allow-list {Ping, RegisterIdentity} a request is let through only after extractAuthenticated and getClientByToken succeeded",
				reqCallOK(authKeys...), reqCallOK("tun/server.Server.getClientByToken"))
		}
		c.Floor("hook success returns", nsucc, 2)
		c.Extra("hook_allow_listed_edges", len(letThrough))
		for _, call := range h.CallsTo(true, "tun/server.Server.saveClientToken") {
			requireAt(c, "hook", "verifyClientIdentity#token-write-requires-auth", h, call, "the hook writes the client token only for an authenticated, registered client",
				reqCallOK(authKeys...), reqCallOK("tun/server.Server.getClientByToken"))
		}
	}
	// getClientByToken summary
	gt := srvFn(c, "getClientByToken")
	sr := successReturns(gt)
	c.Floor("getClientByToken success returns", len(sr), 1)
	for _, r := range sr {
		requireAt(c, "hook", "getClientByToken#success-needs-record", gt, r, "a client is reported only when the DHT read succeeded, returned a non-empty record and the record decoded",
			reqCallOK("*.Get"),
			factReq{"len(val) != 0", func(g *Fn, fs *FactSet) bool {
				return fs.Cmp(func(e, tag ast.Expr, truth bool, fa *Fact) bool {
					be, ok := e.(*ast.BinaryExpr)
					if !ok || tag != nil {
						return false
					}
					v, _ := g.ConstVal(be.Y)
					isLen := isLenOf(g, be.X, func(ast.Expr) bool { return true })
					return isLen && v == "0" && ((be.Op == token.EQL && !truth) || (be.Op == token.NEQ && truth) || (be.Op == token.GTR && truth))
				})
			}},
			reqCallOK("*.UnmarshalVT"))
	}
	// A3: extractAuthenticated
	ea := c.Func("tun/server", "", "extractAuthenticated")
	for _, r := range successReturns(ea) {
		requireAt(c, "extract", "extractAuthenticated#success", ea, r, "authentication succeeds only with a delegation, a client certificate and an extracted identity",
			factReq{"delegation != nil", cmpFalse(func(g *Fn, be *ast.BinaryExpr) bool {
				return be.Op == token.EQL && isNilIdent(g.Info, be.Y) && g.Prov(be.X) == "call:spec/rpc.GetDelegation()"
			})},
			factReq{"certificate != nil", cmpFalse(func(g *Fn, be *ast.BinaryExpr) bool {
				return be.Op == token.EQL && isNilIdent(g.Info, be.Y) && strings.HasSuffix(g.Prov(be.X), ".Certificate")
			})},
			reqCallOK("spec/pki.ExtractCertificateIdentity"))
		if len(r.Results) == 3 {
			p0, p1 := ea.Prov(r.Results[0]), ea.Prov(r.Results[1])
			tokOK := false
			var tokExpr ast.Node = r.Results[0]
			if v := ea.varOf(r.Results[0]); v != nil {
				// the token literal may be built into a local first
				if defs := ea.defsOf(v); len(defs) == 1 && defs[0].rhs != nil {
					tokExpr = defs[0].rhs
				}
			}
			ast.Inspect(tokExpr, func(n ast.Node) bool {
				if kv, ok := n.(*ast.KeyValueExpr); ok {
					if id, ok := kv.Key.(*ast.Ident); ok && id.Name == "Token" {
						tokOK = ea.Prov(kv.Value) == "call:spec/pki.ExtractCertificateIdentity()#0.Token"
					}
				}
				return true
			})
			c.Ob("extract", "extractAuthenticated#results-from-certificate", r.Pos(), tokOK && p1 == "call:spec/pki.ExtractCertificateIdentity()#0.NodeIdentity()", fmt.Sprintf("token and node identity come from the certificate identity; found %s / %s", p0, p1))
		}
	}
	// the certificate passed is the delegation's
	for _, call := range ea.CallsTo(false, "spec/pki.ExtractCertificateIdentity") {
		c.Ob("extract", "extractAuthenticated#certificate-of-this-connection", call.Pos(), ea.Prov(call.Args[0]) == "call:spec/rpc.GetDelegation().Certificate", "the identity is extracted from the certificate of the connection the request arrived on")
	}

	// A4: handlers
	var names []string
	for n := range svcMethods {
		names = append(names, n)
	}
	sort.Strings(names)
	sensitive := func(g *Fn, call *ast.CallExpr) bool {
		if se, ok := ast.Unparen(call.Fun).(*ast.SelectorExpr); ok {
			pv := g.Prov(se.X)
			if pv == "recv.Chord" || pv == "recv.keylessCache" {
				return true
			}
			if se.Sel.Name == "Sign" && g.Info.Selections[se] != nil && strings.Contains(typeStr(g, se.X), "crypto.Signer") {
				return true
			}
		}
		k := g.CallKey(call)
		if k == "spec/tun.SaveCustomHostname" || k == "spec/tun.RemoveCustomHostname" || k == "spec/tun.FindCustomHostname" {
			return true
		}
		return false
	}
	for _, nm := range []string{"checkAcme", "getCertificate", "unadvertiseTunnel", "lookupDestination", "saveClientToken", "getClientByToken"} {
		_ = nm
	}
	gated := 0
	for _, m := range names {
		if m == "Ping" {
			continue
		}
		fn := c.FuncOpt("tun/server", "Server", m)
		if fn == nil {
			c.Ob("handler-gate", "Server."+m, token.NoPos, false, "service method not implemented on *server.Server")
			continue
		}
		gated++
		sites := fn.effectSites(sensitive)
		for _, es := range sites {
			fs := es.g.FactsAt(es.call)
			ok := fs.CallOK(authKeys...) || fs.CallOK("tun/server.Server.getCertificate")
			// the authenticating helpers themselves
			if es.via == "tun/server.(Server).getCertificate" {
				continue
			}
			c.Ob("handler-gate", fmt.Sprintf("Server.%s#%s", m, es.g.Str(es.call.Fun)), es.call.Pos(), ok, "DHT access / binding writes / key use happen only after the caller was authenticated on every path"+viaStr(es))
		}
		if m != "RegisterIdentity" || true {
			auth := fn.CallsTo(false, authKeys...)
			viaCert := fn.CallsTo(false, "tun/server.Server.getCertificate")
			c.Ob("handler-gate", "Server."+m+"#authenticates", fn.Decl.Pos(), len(auth)+len(viaCert) >= 1, "the handler authenticates the caller itself (the hook is not the only line of defence)")
		}
	}
	c.Floor("gated handler methods", gated, 10)
	gc := srvFn(c, "getCertificate")
	for _, r := range successReturns(gc) {
		requireAt(c, "handler-gate", "getCertificate#success-requires-auth", gc, r, "getCertificate succeeds only for an authenticated caller", reqCallOK(authKeys...))
	}
	for _, es := range gc.effectSites(sensitive) {
		c.Ob("handler-gate", "getCertificate#"+es.g.Str(es.call.Fun), es.call.Pos(), es.g.FactsAt(es.call).CallOK(authKeys...), "inside getCertificate every DHT / cache access follows authentication"+viaStr(es))
	}

	// A5: handler methods referenced only by the twirp constructors
	nref := 0
	srvType := c.P("tun/server").Types.Scope().Lookup("Server")
	for _, pk := range c.All {
		if pk.PkgPath == M+"/spec/protocol" {
			continue
		}
		for _, file := range pk.Syntax {
			if isTestFile(c.Fset, file.Pos()) {
				continue
			}
			ast.Inspect(file, func(n ast.Node) bool {
				se, ok := n.(*ast.SelectorExpr)
				if !ok {
					return true
				}
				sel := pk.TypesInfo.Selections[se]
				if sel == nil || (sel.Kind() != types.MethodVal && sel.Kind() != types.MethodExpr) || !svcMethods[se.Sel.Name] {
					return true
				}
				t := sel.Recv()
				if p, ok := t.(*types.Pointer); ok {
					t = p.Elem()
				}
				if named, ok := t.(*types.Named); ok && named.Obj() == srvType {
					nref++
					c.Ob("handler-gate", "direct-reference:"+se.Sel.Name, se.Pos(), false, "an RPC handler is referenced outside the twirp constructors (it would run without the RequestRouted hook)")
				}
				return true
			})
		}
	}
	c.Ob("handler-gate", "handlers-only-via-twirp", token.NoPos, nref == 0, fmt.Sprintf("%d direct references to RPC handler methods outside twirp", nref))
}

func caseNamesOf(h *Fn, r *ast.ReturnStmt) []string {
	var out []string
	ast.Inspect(h.Body, func(n ast.Node) bool {
		cc, ok := n.(*ast.CaseClause)
		if !ok {
			return true
		}
		inside := false
		for _, st := range cc.Body {
			if containsNode(st, r) {
				inside = true
			}
		}
		if inside {
			if cc.List == nil {
				out = append(out, "<default>")
			}
			for _, e := range cc.List {
				if v, ok := h.ConstVal(e); ok {
					out = append(out, strings.Trim(v, "\""))
				} else {
					out = append(out, "<non-constant>")
				}
			}
		}
		return true
	})
	return out
}

// ---------------------------------------------------------------------------------------

func lenCmp(g *Fn, be *ast.BinaryExpr, op token.Token, prov string, val string) bool {
	if be.Op != op {
		return false
	}
	call, ok := ast.Unparen(be.X).(*ast.CallExpr)
	if !ok || len(call.Args) != 1 {
		return false
	}
	if id, ok := call.Fun.(*ast.Ident); !ok || id.Name != "len" {
		return false
	}
	v, _ := g.ConstVal(be.Y)
	return v == val && g.Prov(call.Args[0]) == prov
}

// lenBounds derives, from the comparison facts, the interval the value of provenance lenProv
// (a len(...) or a local holding it) is known to lie in; hi == -1 means no upper bound.
func lenBounds(g *Fn, fs *FactSet, lenProv string) (lo, hi int64) {
	lo, hi = 0, -1
	tighten := func(op token.Token, k int64) {
		switch op {
		case token.EQL:
			if k > lo {
				lo = k
			}
			if hi < 0 || k < hi {
				hi = k
			}
		case token.LSS:
			if hi < 0 || k-1 < hi {
				hi = k - 1
			}
		case token.LEQ:
			if hi < 0 || k < hi {
				hi = k
			}
		case token.GTR:
			if k+1 > lo {
				lo = k + 1
			}
		case token.GEQ:
			if k > lo {
				lo = k
			}
		case token.NEQ:
			if k == lo {
				lo = k + 1
			}
		}
	}
	neg := map[token.Token]token.Token{token.EQL: token.NEQ, token.NEQ: token.EQL, token.LSS: token.GEQ, token.GEQ: token.LSS, token.GTR: token.LEQ, token.LEQ: token.GTR}
	mirror := map[token.Token]token.Token{token.EQL: token.EQL, token.NEQ: token.NEQ, token.LSS: token.GTR, token.GTR: token.LSS, token.LEQ: token.GEQ, token.GEQ: token.LEQ}
	for pass := 0; pass < 2; pass++ {
		fs.Cmp(func(e, tag ast.Expr, truth bool, fa *Fact) bool {
			be, ok := ast.Unparen(e).(*ast.BinaryExpr)
			if !ok || tag != nil {
				return false
			}
			op, isCmp := be.Op, neg[be.Op] != 0
			if !isCmp {
				return false
			}
			x, y := be.X, be.Y
			fg := g.enclosing(be)
			if fg.Prov(y) == lenProv {
				x, y = y, x
				op = mirror[op]
			}
			if fg.Prov(x) != lenProv {
				return false
			}
			v, ok := fg.ConstVal(y)
			if !ok {
				return false
			}
			var k int64
			if _, err := fmt.Sscanf(v, "%d", &k); err != nil {
				return false
			}
			if !truth {
				op = neg[op]
			}
			tighten(op, k)
			return false
		})
	}
	return lo, hi
}

func runC26(c *Ctx) {
	pt := srvFn(c, "PublishTunnel")
	const pToken = "call:tun/server.extractAuthenticated()#0"
	const pClient = "call:tun/server.extractAuthenticated()#1"
	const pHost = "param#1.GetHostname()"
	const pReq = "call:tun/server.uniqueNodes()"
	puts := pt.Calls(true, func(call *ast.CallExpr) bool {
		se, ok := call.Fun.(*ast.SelectorExpr)
		return ok && se.Sel.Name == "Put" && pt.enclosing(call).Prov(se.X) == "recv.Chord"
	})
	c.Floor("PublishTunnel route Put sites", len(puts), 1)
	ownerTrue := factReq{"PrefixContains == true", func(g *Fn, fs *FactSet) bool {
		return fs.Has(func(fa *Fact) bool { return fa.Kind == FTrue && fa.Idx == 0 && g.IsCall(fa.Call, "*.PrefixContains") })
	}}
	for _, put := range puts {
		g := pt.enclosing(put)
		requireAt(c, "publish-gate", "PublishTunnel#route-Put", pt, put, "a route is stored only for an authenticated client that holds the lease and owns the hostname, for 1..NumRedundantLinks distinct servers",
			reqCallOK(authKeys...),
			factReq{"len(requested) <= NumRedundantLinks", func(g *Fn, fs *FactSet) bool {
				_, hi := lenBounds(g, fs, "builtin:len("+pReq+")")
				return hi >= 0 && hi <= 3
			}},
			factReq{"len(requested) >= 1", func(g *Fn, fs *FactSet) bool {
				lo, _ := lenBounds(g, fs, "builtin:len("+pReq+")")
				return lo >= 1
			}},
			reqCallOK("*.Acquire"), reqCallOK("*.PrefixContains"), ownerTrue)
		// key and value provenance
		keyProv := g.Prov(put.Args[1])
		c.Ob("publish-provenance", "PublishTunnel#routing-key", put.Pos(), keyProv == "call:spec/tun.RoutingKey()", "the route key is tun.RoutingKey(...); found "+keyProv)
	}
	for _, call := range pt.CallsTo(true, "spec/tun.RoutingKey") {
		g := pt.enclosing(call)
		// index variable of a range over the destinations (one per requested server), plus one
		// (written in place or computed into a local first)
		slotProv := g.Prov(call.Args[1])
		okSlot := strings.HasPrefix(slotProv, "(") && strings.HasSuffix(slotProv, "promise.All()#0#0+const:1)") && !strings.Contains(slotProv, "|")
		c.Ob("publish-provenance", "PublishTunnel#RoutingKey(hostname, i+1)", call.Pos(), g.Prov(call.Args[0]) == pHost && okSlot, fmt.Sprintf("slot keys are (requested hostname, index+1) over the looked-up destinations; found (%s, %s)", g.Prov(call.Args[0]), g.Prov(call.Args[1])))
	}
	// bundle
	nb := 0
	ast.Inspect(pt.Body, func(n ast.Node) bool {
		cl, ok := n.(*ast.CompositeLit)
		if !ok || !strings.HasSuffix(typeStr(pt.enclosing(cl), cl), "protocol.TunnelRoute") {
			return true
		}
		nb++
		g := pt.enclosing(cl)
		for _, el := range cl.Elts {
			kv, ok := el.(*ast.KeyValueExpr)
			if !ok {
				continue
			}
			switch kv.Key.(*ast.Ident).Name {
			case "ClientDestination":
				c.Ob("publish-provenance", "PublishTunnel#bundle.ClientDestination", kv.Pos(), g.Prov(kv.Value) == pClient, "routes point to the authenticated client, not to anything in the request; found "+g.Prov(kv.Value))
			case "Hostname":
				c.Ob("publish-provenance", "PublishTunnel#bundle.Hostname", kv.Pos(), g.Prov(kv.Value) == pHost, "the bundle carries the hostname that was ownership-checked; found "+g.Prov(kv.Value))
			}
		}
		return true
	})
	c.Floor("TunnelRoute literals", nb, 1)
	for _, call := range pt.Calls(false, func(call *ast.CallExpr) bool { return pt.IsCall(call, "*.PrefixContains") }) {
		okP := pt.Prov(call.Args[1]) == "call:spec/tun.ClientHostnamesPrefix()" && pt.Prov(call.Args[2]) == pHost
		c.Ob("publish-provenance", "PublishTunnel#ownership-test-arguments", call.Pos(), okP, "ownership is tested for (prefix of the authenticated token, requested hostname)")
	}
	for _, fn := range []*Fn{pt, srvFn(c, "UnpublishTunnel"), srvFn(c, "ReleaseTunnel"), srvFn(c, "unadvertiseTunnel"), srvFn(c, "GenerateHostname"), srvFn(c, "RegisteredHostnames")} {
		for _, call := range fn.CallsTo(true, "spec/tun.ClientHostnamesPrefix", "spec/tun.ClientLeaseKey") {
			pv := fn.enclosing(call).Prov(call.Args[0])
			ok := pv == pToken || (fn.Decl.Name.Name == "unadvertiseTunnel" && pv == "param#1")
			c.Ob("publish-provenance", fn.Name+"#"+fn.CallKey(call)+"(token)", call.Pos(), ok, "per-client keys derive from the authenticated token; found "+pv)
		}
	}
	// B3 uniqueNodes
	un := c.Func("tun/server", "", "uniqueNodes")
	ok3, det3, keySel := dedupLoop(un, 0)
	keySel = lastSelector(keySel)
	c.Ob("dedup", "uniqueNodes#loop-obligations", un.Decl.Pos(), ok3, det3)
	dk := c.Func("spec/tun", "", "DestinationByTunnelKey")
	usedField := ""
	for _, call := range dk.Calls(false, func(call *ast.CallExpr) bool {
		se, ok := call.Fun.(*ast.SelectorExpr)
		return ok && dk.Prov(se.X) == "param#0"
	}) {
		usedField = call.Fun.(*ast.SelectorExpr).Sel.Name
	}
	c.Ob("dedup", "uniqueNodes#key-is-lookup-identity", un.Decl.Pos(), keySel != "" && keySel == usedField, fmt.Sprintf("servers are de-duplicated by the field that identifies them in destination lookups (%s); dedup key is %s", usedField, keySel))

	// B4 unadvertise
	ua := srvFn(c, "unadvertiseTunnel")
	dels := ua.Calls(true, func(call *ast.CallExpr) bool {
		se, ok := call.Fun.(*ast.SelectorExpr)
		return ok && se.Sel.Name == "Delete" && ua.enclosing(call).Prov(se.X) == "recv.Chord"
	})
	c.Floor("unadvertiseTunnel route deletes", len(dels), 1)
	for _, d := range dels {
		requireAt(c, "unpublish-gate", "unadvertiseTunnel#route-Delete", ua, d, "routes are deleted only when the hostname is registered to the caller's token", reqCallOK("*.PrefixContains"), ownerTrue)
	}
	for _, call := range ua.Calls(false, func(call *ast.CallExpr) bool { return ua.IsCall(call, "*.PrefixContains") }) {
		c.Ob("unpublish-gate", "unadvertiseTunnel#ownership-test-arguments", call.Pos(), ua.Prov(call.Args[1]) == "call:spec/tun.ClientHostnamesPrefix()" && ua.Prov(call.Args[2]) == "param#2", "ownership is tested for (prefix of the given token, given hostname)")
	}
	// all slots
	okSlots := false
	ast.Inspect(ua.Body, func(n ast.Node) bool {
		rs, ok := n.(*ast.RangeStmt)
		if !ok {
			return true
		}
		// the loop runs NumRedundantLinks times: over the constant, or over a slice made with
		// that length
		three := false
		if v, ok := ua.ConstVal(rs.X); ok && v == "3" {
			three = true
		} else if sv := ua.varOf(rs.X); sv != nil && rs.Key != nil {
			if defs := ua.defsOf(sv); len(defs) == 1 && defs[0].rhs != nil {
				if mk, ok := ast.Unparen(defs[0].rhs).(*ast.CallExpr); ok && len(mk.Args) == 2 {
					if id, ok := mk.Fun.(*ast.Ident); ok && id.Name == "make" {
						if v, ok := ua.ConstVal(mk.Args[1]); ok && v == "3" {
							three = true
						}
					}
				}
			}
		}
		if three && rs.Key != nil {
			want := "(" + ua.Prov(rs.Key) + "+const:1)"
			for _, call := range ua.CallsTo(true, "spec/tun.RoutingKey") {
				if containsNode(rs.Body, call) {
					g := ua.enclosing(call)
					if g.Prov(call.Args[1]) == want && g.Prov(call.Args[0]) == "param#2" {
						okSlots = true
					}
				}
			}
		}
		return true
	})
	c.Ob("unpublish-gate", "unadvertiseTunnel#all-slots", ua.Decl.Pos(), okSlots, "every slot 1..NumRedundantLinks of the hostname is deleted")
	for _, name := range []string{"UnpublishTunnel", "ReleaseTunnel"} {
		fn := srvFn(c, name)
		for _, call := range fn.CallsTo(false, "tun/server.Server.unadvertiseTunnel") {
			ok := fn.Prov(call.Args[1]) == pToken && fn.Prov(call.Args[2]) == pHost
			c.Ob("unpublish-gate", name+"#unadvertise(token, hostname)", call.Pos(), ok, "unadvertise is invoked for the authenticated token and the requested hostname")
			requireAt(c, "unpublish-gate", name+"#unadvertise-under-lease", fn, call, "routes are removed while holding the client's lease", reqCallOK("*.Acquire"), reqCallOK(authKeys...))
		}
	}
	rt := srvFn(c, "ReleaseTunnel")
	for _, call := range rt.Calls(false, func(call *ast.CallExpr) bool {
		return rt.IsCall(call, "*.PrefixRemove", "spec/tun.RemoveCustomHostname")
	}) {
		requireAt(c, "unpublish-gate", "ReleaseTunnel#"+rt.Str(call.Fun), rt, call, "the hostname and its custom binding are removed only after the ownership-checked unadvertise succeeded", reqCallOK("tun/server.Server.unadvertiseTunnel"))
	}
	for _, r := range successReturns(rt) {
		requireAt(c, "unpublish-gate", "ReleaseTunnel#success", rt, r, "release succeeds only after routes and registration were removed", reqCallOK("tun/server.Server.unadvertiseTunnel"), reqCallOK("*.PrefixRemove"))
	}
	// B5 lease pairing
	for _, name := range []string{"PublishTunnel", "UnpublishTunnel", "ReleaseTunnel"} {
		fn := srvFn(c, name)
		acq := fn.Calls(false, func(call *ast.CallExpr) bool { return fn.IsCall(call, "*.Acquire") })
		c.Floor(name+" lease acquisitions", len(acq), 1)
		for _, a := range acq {
			var dfr *ast.DeferStmt
			ast.Inspect(fn.Body, func(n ast.Node) bool {
				if d, ok := n.(*ast.DeferStmt); ok && fn.IsCall(d.Call, "*.Release") && dfr == nil {
					dfr = d
				}
				return true
			})
			ok := dfr != nil
			det := "no deferred Release"
			if ok {
				sameKey := types_ExprString(dfr.Call.Args[1]) == types_ExprString(a.Args[1])
				tok := strings.HasSuffix(fn.Prov(dfr.Call.Args[2]), ".Acquire()#0")
				// no return between acquire-ok and the defer
				reached, _ := fn.Reach(a, func(n ast.Node) bool { return n == ast.Node(dfr) }, nil)
				early := 0
				for _, n := range reached {
					if r, ok := n.(*ast.ReturnStmt); ok && fn.FactsAt(r).Has(func(fa *Fact) bool { return fa.Kind == FCallOK && fa.Call == a }) {
						early++
					}
				}
				ok = sameKey && tok && early == 0
				det = fmt.Sprintf("same key=%v, token of this acquisition=%v, exits before the defer=%d", sameKey, tok, early)
			}
			c.Ob("lease-pairing", name+"#release-deferred", a.Pos(), ok, "an acquired lease is released on every exit (deferred right after a successful Acquire, same key, returned token): "+det)
		}
	}
}

// dedupLoop checks the obligations of a "unique list" loop over parameter src:
// nil test precedes key extraction, seen[K(x)] test precedes the append, the same K is
// inserted as tested, the only growth is append(list, x). Returns the key selector name.
// seenSet abstracts the "already emitted" set of a de-duplicating loop: a local map that is
// written by `m[k] = v` (or by an entry of its initialising literal) and read by `m[k]` (maps
// to bool) or by the comma-ok form. Keys are compared by provenance, so a key computed once
// into a local, through a small key function or inline is the same key.
type seenInsert struct {
	at  ast.Node // the assignment, or the key/value element of the initialiser
	key string   // provenance of the key
	m   *types.Var
}

func (fn *Fn) seenInserts(within ast.Node) []seenInsert {
	var out []seenInsert
	ast.Inspect(within, func(n ast.Node) bool {
		switch x := n.(type) {
		case *ast.AssignStmt:
			for i, l := range x.Lhs {
				ix, ok := ast.Unparen(l).(*ast.IndexExpr)
				if !ok || i >= len(x.Rhs) && len(x.Rhs) != 1 {
					continue
				}
				m := fn.varOf(ix.X)
				if m == nil {
					continue
				}
				if _, isMap := m.Type().Underlying().(*types.Map); !isMap {
					continue
				}
				if len(x.Rhs) == len(x.Lhs) {
					if v, ok := fn.ConstVal(x.Rhs[i]); ok && v == "false" {
						continue // m[k] = false is not an insertion
					}
				}
				out = append(out, seenInsert{at: x, key: fn.enclosing(ix).Prov(ix.Index), m: m})
			}
			// m := map[K]V{k: v}
			for i, r := range x.Rhs {
				cl, ok := ast.Unparen(r).(*ast.CompositeLit)
				if !ok || i >= len(x.Lhs) {
					continue
				}
				m := fn.varOf(x.Lhs[i])
				if m == nil {
					continue
				}
				if _, isMap := m.Type().Underlying().(*types.Map); !isMap {
					continue
				}
				for _, el := range cl.Elts {
					if kv, ok := el.(*ast.KeyValueExpr); ok {
						out = append(out, seenInsert{at: kv, key: fn.Prov(kv.Key), m: m})
					}
				}
			}
		case *ast.ValueSpec:
			for i, r := range x.Values {
				cl, ok := ast.Unparen(r).(*ast.CompositeLit)
				if !ok || i >= len(x.Names) {
					continue
				}
				m, _ := fn.Info.Defs[x.Names[i]].(*types.Var)
				if m == nil {
					continue
				}
				if _, isMap := m.Type().Underlying().(*types.Map); !isMap {
					continue
				}
				for _, el := range cl.Elts {
					if kv, ok := el.(*ast.KeyValueExpr); ok {
						out = append(out, seenInsert{at: kv, key: fn.Prov(kv.Key), m: m})
					}
				}
			}
		}
		return true
	})
	return out
}

// notInSeen: the facts establish that key (by provenance) is not in map m: m[key] known false
// (bool-valued map), or the ok result of `_, ok := m[key]` known false.
func (fn *Fn) notInSeen(fs *FactSet, m *types.Var, key string) bool {
	isLookup := func(e ast.Expr) bool {
		ix, ok := ast.Unparen(e).(*ast.IndexExpr)
		return ok && fn.varOf(ix.X) == m && fn.enclosing(ix).Prov(ix.Index) == key
	}
	return fs.Cmp(func(e, tag ast.Expr, truth bool, fa *Fact) bool {
		if tag != nil || truth {
			return false
		}
		if isLookup(e) {
			if mt, ok := m.Type().Underlying().(*types.Map); ok {
				if b, ok := mt.Elem().Underlying().(*types.Basic); ok && b.Kind() == types.Bool {
					return true
				}
			}
			return false
		}
		if v := fn.varOf(e); v != nil {
			defs := fn.defsOf(v)
			if len(defs) != 1 || !isLookup(defs[0].rhs) {
				return false
			}
			if defs[0].multi {
				return defs[0].idx == 1 // _, ok := m[k]
			}
			// present := m[k] on a map to bool
			if mt, ok := m.Type().Underlying().(*types.Map); ok {
				if b, ok := mt.Elem().Underlying().(*types.Basic); ok && b.Kind() == types.Bool {
					return true
				}
			}
		}
		return false
	})
}

// lastSelector: "Identity().GetAddress()" -> "GetAddress".
func lastSelector(sel string) string {
	sel = strings.TrimSuffix(sel, "()")
	if i := strings.LastIndex(sel, "."); i >= 0 {
		sel = sel[i+1:]
	}
	return sel
}

// inSeen: the facts establish that key (by provenance) IS in map m: m[key] known true (map to
// bool), or the ok result of a comma-ok / single-value lookup known true.
func (fn *Fn) inSeen(fs *FactSet, m *types.Var, key string) bool {
	isLookup := func(e ast.Expr) bool {
		ix, ok := ast.Unparen(e).(*ast.IndexExpr)
		return ok && fn.varOf(ix.X) == m && fn.enclosing(ix).Prov(ix.Index) == key
	}
	boolMap := false
	if mt, ok := m.Type().Underlying().(*types.Map); ok {
		if b, ok := mt.Elem().Underlying().(*types.Basic); ok && b.Kind() == types.Bool {
			boolMap = true
		}
	}
	return fs.Cmp(func(e, tag ast.Expr, truth bool, fa *Fact) bool {
		if tag != nil || !truth {
			return false
		}
		if isLookup(e) {
			return boolMap
		}
		if v := fn.varOf(e); v != nil {
			defs := fn.defsOf(v)
			if len(defs) != 1 || !isLookup(defs[0].rhs) {
				return false
			}
			if defs[0].multi {
				return defs[0].idx == 1
			}
			return boolMap
		}
		return false
	})
}

// dedupLoop checks the loop obligations of a list builder that copies the distinct (by a key
// function) non-nil elements of parameter #srcParam, in order. It returns the verdict, a
// description and the key as a selector chain applied to the element (e.g. "ID()",
// "Identity().GetAddress()").
func dedupLoop(fn *Fn, srcParam int) (bool, string, string) {
	// the loop over the source list: `for _, x := range src`, or the index form
	// `for i := 0; i < len(src) [&& ...]; i++ { x := src[i]; ... }` (every element in order,
	// the index moved only by the post statement)
	srcProv := fmt.Sprintf("param#%d", srcParam)
	var loopBody *ast.BlockStmt
	var elem *types.Var
	elemProv := ""
	for _, n := range shallowNodes(fn.Body) {
		if loopBody != nil {
			break
		}
		switch r := n.(type) {
		case *ast.RangeStmt:
			if fn.Prov(r.X) == srcProv && r.Value != nil {
				loopBody, elem, elemProv = r.Body, fn.varOf(r.Value), fn.Prov(r.Value)
			}
		case *ast.ForStmt:
			init, ok1 := r.Init.(*ast.AssignStmt)
			post, ok2 := r.Post.(*ast.IncDecStmt)
			if !ok1 || !ok2 || r.Cond == nil || len(init.Lhs) != 1 || len(init.Rhs) != 1 || post.Tok != token.INC {
				continue
			}
			iv := fn.varOf(init.Lhs[0])
			if v0, _ := fn.ConstVal(init.Rhs[0]); iv == nil || v0 != "0" || fn.varOf(post.X) != iv {
				continue
			}
			bounded := false
			for _, cj := range conjuncts(r.Cond) {
				if be, ok := ast.Unparen(cj).(*ast.BinaryExpr); ok && be.Op == token.LSS && fn.varOf(be.X) == iv && isLenOf(fn, be.Y, func(x ast.Expr) bool { return fn.Prov(x) == srcProv }) {
					bounded = true
				}
			}
			if !bounded {
				continue
			}
			// the index is not written in the body; the element is a local defined once as src[i]
			written := false
			var ev *types.Var
			for _, m := range shallowNodes(r.Body) {
				switch y := m.(type) {
				case *ast.AssignStmt:
					for j, l := range y.Lhs {
						if fn.varOf(l) == iv {
							written = true
						}
						if j < len(y.Rhs) && len(y.Lhs) == len(y.Rhs) {
							if ix, ok := ast.Unparen(y.Rhs[j]).(*ast.IndexExpr); ok && fn.Prov(ix.X) == srcProv && fn.varOf(ix.Index) == iv {
								if lv := fn.varOf(l); lv != nil && len(fn.defsOf(lv)) == 1 {
									ev = lv
								}
							}
						}
					}
				case *ast.IncDecStmt:
					if fn.varOf(y.X) == iv {
						written = true
					}
				}
			}
			if !written && ev != nil {
				loopBody, elem = r.Body, ev
				elemProv = fn.Prov(&ast.Ident{NamePos: r.Body.Pos()}) // replaced just below
				for _, d := range fn.defsOf(ev) {
					elemProv = fn.Prov(d.rhs)
				}
			}
		}
	}
	if loopBody == nil || elem == nil {
		return false, "range over the source list not found", ""
	}
	rs := struct{ Body *ast.BlockStmt }{loopBody}
	var appends []*ast.CallExpr
	ast.Inspect(rs.Body, func(n ast.Node) bool {
		if call, ok := n.(*ast.CallExpr); ok {
			if id, ok := call.Fun.(*ast.Ident); ok && id.Name == "append" {
				if _, isB := fn.Info.Uses[id].(*types.Builtin); isB {
					appends = append(appends, call)
				}
			}
		}
		return true
	})
	if len(appends) != 1 || len(appends[0].Args) != 2 || fn.varOf(appends[0].Args[1]) != elem {
		return false, "the loop must grow the result only by append(list, element)", ""
	}
	ap := appends[0]
	// the insertion of the element's key; at that point the key was tested absent (the
	// insertion itself invalidates the fact, so it is read there and not at the append)
	okSeen, okIns := false, false
	keyProv := ""
	var insAt ast.Node
	ins := fn.seenInserts(rs.Body)
	for _, in := range ins {
		if !strings.HasPrefix(in.key, elemProv+".") {
			continue
		}
		okIns = true
		keyProv, insAt = in.key, in.at
		okSeen = fn.notInSeen(fn.FactsAt(in.at), in.m, in.key)
	}
	if len(ins) != 1 {
		okIns = false // exactly one insertion per iteration: the element's key
	}
	// the insertion and the append belong together: neither is reachable, within one
	// iteration, without the other having been passed or still to come
	okPair := false
	if insAt != nil {
		var apStmt ast.Node = ap
		reachedNoIns, _ := fn.Reach(nil, func(n ast.Node) bool { return containsNode(n, insAt) }, nil)
		apWithoutIns := false
		for _, n := range reachedNoIns {
			if containsNode(n, apStmt) {
				apWithoutIns = true
			}
		}
		if !apWithoutIns {
			okPair = true // every path to the append passes the insertion
		} else {
			// append first: then the guard must hold at the append and the insertion follows
			okPair = fn.notInSeen(fn.FactsAt(ap), ins[0].m, keyProv)
		}
	}
	okNil := fn.FactsAt(ap).Cmp(func(e, tag ast.Expr, truth bool, fa *Fact) bool {
		be, ok := e.(*ast.BinaryExpr)
		if !ok || tag != nil || !isNilIdent(fn.Info, be.Y) || fn.varOf(be.X) != elem {
			return false
		}
		return be.Op == token.EQL && !truth || be.Op == token.NEQ && truth
	})
	sel := strings.TrimPrefix(keyProv, elemProv+".")
	ok := okSeen && okNil && okIns && okPair
	return ok, fmt.Sprintf("append guarded by nil test=%v; the element's key is inserted exactly once per iteration=%v, only when tested absent=%v, on the append's path=%v (K=%s)", okNil, okIns, okSeen, okPair, sel), sel
}

// ---------------------------------------------------------------------------------------

func runC29(c *Ctx) {
	av := srvFn(c, "AcmeValidate")
	const pToken = "call:tun/server.extractAuthenticated()#0"
	const pClient = "call:tun/server.extractAuthenticated()#1"
	const pNorm = "call:spec/acme.Normalize()#0"
	sinks := av.Calls(false, func(call *ast.CallExpr) bool {
		return av.IsCall(call, "spec/tun.SaveCustomHostname") || av.IsCall(call, "*.PrefixAppend")
	})
	c.Floor("AcmeValidate binding writes", len(sinks), 2)
	isFound := func(e ast.Expr) bool {
		return av.varOf(e) != nil && av.Prov(e) == "recv.checkAcme()#0"
	}
	isCnameEq := func(be *ast.BinaryExpr) bool {
		l, r := av.Prov(be.X), av.Prov(be.Y)
		a, b := "recv.Resolver.LookupCNAME()#0", "call:spec/acme.GenerateCustomRecord()#1"
		// cname is declared with var and assigned once
		return (strings.Contains(l, a) && r == b) || (strings.Contains(r, a) && l == b)
	}
	for _, s := range sinks {
		requireAt(c, "bind-gate", "AcmeValidate#"+av.Str(s.Fun), av, s, "a binding is written only after authentication, normalization and checkAcme succeeded",
			reqCallOK(authKeys...), reqCallOK("spec/acme.Normalize"), reqCallOK("tun/server.Server.checkAcme"))
		// disjunctive guard: unreachable when the 'found' edge and the 'cname == content' edge are removed
		reached, _ := av.Reach(nil, nil, func(b *cfgBlock, si int) bool {
			for _, at := range av.edgeAtoms(b, si) {
				if at.tag != nil {
					continue
				}
				if isFound(at.e) && at.truth {
					return true
				}
				if be, ok := at.e.(*ast.BinaryExpr); ok && isCnameEq(be) && ((be.Op == token.NEQ && !at.truth) || (be.Op == token.EQL && at.truth)) {
					return true
				}
			}
			return false
		})
		bypass := false
		for _, n := range reached {
			if containsNode(n, s) {
				bypass = true
			}
		}
		c.Ob("bind-gate", "AcmeValidate#"+av.Str(s.Fun)+"<-found-or-cname-proof", s.Pos(), !bypass, "with the edges 'existing binding of this caller found' and 'CNAME equals the expected content' removed, the write must be unreachable (no path binds a hostname without one of the two proofs)")
	}
	// provenance of the proof
	for _, call := range av.CallsTo(false, "spec/acme.GenerateCustomRecord") {
		ok := av.Prov(call.Args[0]) == pNorm && av.Prov(call.Args[1]) == "recv.Acme" && av.Prov(call.Args[2]) == pToken+".GetToken()"
		c.Ob("bind-provenance", "AcmeValidate#GenerateCustomRecord(normalized, zone, authenticated token)", call.Pos(), ok, fmt.Sprintf("found (%s, %s, %s)", av.Prov(call.Args[0]), av.Prov(call.Args[1]), av.Prov(call.Args[2])))
	}
	for _, call := range av.Calls(false, func(call *ast.CallExpr) bool { return av.IsCall(call, "*.LookupCNAME") }) {
		c.Ob("bind-provenance", "AcmeValidate#LookupCNAME(challenge name)", call.Pos(), av.Prov(call.Args[1]) == "call:spec/acme.GenerateCustomRecord()#0", "the CNAME looked up is the challenge name; found "+av.Prov(call.Args[1]))
	}
	for _, call := range av.CallsTo(false, "spec/tun.SaveCustomHostname") {
		okH := av.Prov(call.Args[2]) == pNorm
		okB := false
		ast.Inspect(call.Args[3], func(n ast.Node) bool {
			if cl, ok := n.(*ast.CompositeLit); ok {
				m := map[string]string{}
				for _, el := range cl.Elts {
					if kv, ok := el.(*ast.KeyValueExpr); ok {
						m[kv.Key.(*ast.Ident).Name] = av.Prov(kv.Value)
					}
				}
				okB = m["ClientIdentity"] == pClient && m["ClientToken"] == pToken
			}
			return true
		})
		c.Ob("bind-provenance", "AcmeValidate#saved-binding", call.Pos(), okH && okB, "the binding stored for the normalized hostname carries the authenticated identity and token")
	}
	for _, call := range av.Calls(false, func(call *ast.CallExpr) bool { return av.IsCall(call, "*.PrefixAppend") }) {
		c.Ob("bind-provenance", "AcmeValidate#registers-hostname-under-token", call.Pos(), av.Prov(call.Args[1]) == "call:spec/tun.ClientHostnamesPrefix()" && av.Prov(call.Args[2]) == pNorm, "the normalized hostname is registered under the authenticated token's prefix")
	}
	// raw hostname only into Normalize
	for _, name := range []string{"AcmeInstruction", "AcmeValidate", "getCertificate"} {
		fn := srvFn(c, name)
		raw := "param#1.GetHostname()"
		if name == "getCertificate" {
			raw = "param#2"
		}
		nraw := 0
		for _, call := range fn.Calls(true, func(*ast.CallExpr) bool { return true }) {
			g := fn.enclosing(call)
			for _, a := range call.Args {
				if g.Prov(a) == raw {
					nraw++
					c.Ob("bind-provenance", name+"#raw-hostname-only-normalized", call.Pos(), g.IsCall(call, "spec/acme.Normalize"), "the hostname as sent by the client flows only into acme.Normalize; every check and key uses the normalized form (found it passed to "+g.Str(call.Fun)+")")
				}
			}
		}
		c.Floor(name+" uses of the raw hostname", nraw, 1)
		for _, call := range fn.CallsTo(false, "tun/server.Server.checkAcme") {
			c.Ob("bind-provenance", name+"#checkAcme(normalized)", call.Pos(), fn.Prov(call.Args[1]) == pNorm && fn.Prov(call.Args[3]) == pToken && fn.Prov(call.Args[4]) == pClient, "checkAcme runs on the normalized hostname with the authenticated token and identity")
		}
	}
	// checkAcme summary
	ca := srvFn(c, "checkAcme")
	okSubject := false
	for _, lit := range ca.Lits() {
		g := ca.Closure(lit)
		for _, r := range g.Returns() {
			if len(r.Results) == 1 && g.Prov(r.Results[0]) == "param#1" {
				okSubject = true
			}
		}
	}
	c.Ob("checkacme", "checkAcme#pow-subject-is-hostname", ca.Decl.Pos(), okSubject, "the proof of work is verified for the hostname being bound")
	for _, call := range ca.CallsTo(false, "spec/pow.VerifySolution") {
		c.Ob("checkacme", "checkAcme#pow-of-request", call.Pos(), ca.Prov(call.Args[0]) == "param#2", "the verified proof is the one in the request")
	}
	sr := successReturns(ca)
	c.Floor("checkAcme success returns", len(sr), 2)
	// "the hostname is outside zone": the substring test, or the label-aligned pair
	// (hostname != zone and no "."+zone suffix) - both keep the zone itself and every name
	// below it out
	containsOf := func(field string) factReq {
		return factReq{"hostname outside s." + field + " (!Contains, or != zone && !HasSuffix \".\"+zone)", func(g *Fn, fs *FactSet) bool {
			zone := "recv." + field
			if fs.Has(func(fa *Fact) bool {
				return fa.Kind == FFalse && g.IsCall(fa.Call, "strings.Contains") && g.Prov(fa.Call.Args[0]) == "param#1" && g.Prov(fa.Call.Args[1]) == zone
			}) {
				return true
			}
			notEq := fs.Cmp(func(e, tag ast.Expr, truth bool, fa *Fact) bool {
				be, ok := e.(*ast.BinaryExpr)
				if !ok || tag != nil || !(be.Op == token.EQL && !truth || be.Op == token.NEQ && truth) {
					return false
				}
				l, r := g.Prov(be.X), g.Prov(be.Y)
				return l == "param#1" && r == zone || r == "param#1" && l == zone
			})
			notBelow := fs.Has(func(fa *Fact) bool {
				if fa.Kind != FFalse || !g.IsCall(fa.Call, "strings.HasSuffix") || g.Prov(fa.Call.Args[0]) != "param#1" {
					return false
				}
				be, ok := ast.Unparen(fa.Call.Args[1]).(*ast.BinaryExpr)
				if !ok || be.Op != token.ADD {
					return false
				}
				dot, _ := g.ConstVal(be.X)
				return dot == "\".\"" && g.Prov(be.Y) == zone
			})
			return notEq && notBelow
		}}
	}
	for _, r := range sr {
		requireAt(c, "checkacme", "checkAcme#success", ca, r, "checkAcme passes only after the proof verified and the hostname is outside the apex/acme zones and not a bare domain",
			reqCallOK("spec/pow.VerifySolution"), containsOf("Acme"), containsOf("Apex"),
			factReq{"Count(hostname, \".\") >= 2", cmpFalse(func(g *Fn, be *ast.BinaryExpr) bool {
				v, _ := g.ConstVal(be.Y)
				call, ok := ast.Unparen(be.X).(*ast.CallExpr)
				return ok && be.Op == token.LSS && v == "2" && g.IsCall(call, "strings.Count")
			})})
		if v, _ := ca.ConstVal(r.Results[0]); v == "true" {
			eq := func(what string, pred func(g *Fn, fa *Fact) bool) factReq {
				return factReq{what, func(g *Fn, fs *FactSet) bool { return fs.Has(func(fa *Fact) bool { return pred(g, fa) }) }}
			}
			requireAt(c, "checkacme", "checkAcme#found-only-for-owner", ca, r, "an existing binding counts only when its token, id and address equal the caller's",
				eq("token equal", func(g *Fn, fa *Fact) bool {
					if fa.Kind != FTrue || !g.IsCall(fa.Call, "bytes.Equal") || len(fa.Call.Args) != 2 {
						return false
					}
					a, b := g.Prov(fa.Call.Args[0]), g.Prov(fa.Call.Args[1])
					stored := func(p string) bool { return strings.HasSuffix(p, ".GetClientToken().GetToken()") }
					asked := func(p string) bool { return p == "param#3.GetToken()" }
					return stored(a) && asked(b) || stored(b) && asked(a)
				}),
				factReq{"id equal", func(g *Fn, fs *FactSet) bool {
					return fs.Equal(func(x, y ast.Expr) bool {
						return strings.HasSuffix(g.Prov(x), ".GetClientIdentity().GetId()") && g.Prov(y) == "param#4.GetId()"
					})
				}},
				factReq{"address equal", func(g *Fn, fs *FactSet) bool {
					return fs.Equal(func(x, y ast.Expr) bool {
						return strings.HasSuffix(g.Prov(x), ".GetClientIdentity().GetAddress()") && g.Prov(y) == "param#4.GetAddress()"
					})
				}},
				reqCallOK("spec/tun.FindCustomHostname"))
		}
	}
	for _, call := range ca.CallsTo(false, "spec/tun.FindCustomHostname") {
		c.Ob("checkacme", "checkAcme#binding-of-this-hostname", call.Pos(), ca.Prov(call.Args[2]) == "param#1", "the binding looked up is the one of the hostname being checked")
	}
}

// ---------------------------------------------------------------------------------------

func runC30(c *Ctx) {
	gc := srvFn(c, "getCertificate")
	const pNorm = "call:spec/acme.Normalize()#0"
	foundTrue := factReq{"found == true", func(g *Fn, fs *FactSet) bool {
		return fs.Has(func(fa *Fact) bool { return fa.Kind == FTrue && fa.Idx == 0 && g.IsCall(fa.Call, "tun/server.Server.checkAcme") })
	}}
	gets := gc.Calls(false, func(call *ast.CallExpr) bool {
		se, ok := call.Fun.(*ast.SelectorExpr)
		return ok && gc.Prov(se.X) == "recv.keylessCache"
	})
	c.Floor("keyless cache lookups", len(gets), 1)
	for _, g := range gets {
		requireAt(c, "keyless-gate", "getCertificate#cache.Get", gc, g, "the certificate cache is consulted only for an authenticated client bound to the hostname",
			reqCallOK(authKeys...), reqCallOK("spec/acme.Normalize"), reqCallOK("tun/server.Server.checkAcme"), foundTrue)
		c.Ob("keyless-gate", "getCertificate#cache-key-normalized", g.Pos(), gc.Prov(g.Args[1]) == pNorm, "the cache is keyed by the normalized hostname")
	}
	for _, r := range successReturns(gc) {
		requireAt(c, "keyless-gate", "getCertificate#success", gc, r, "a certificate is returned only for an authenticated client bound to the hostname",
			reqCallOK(authKeys...), reqCallOK("tun/server.Server.checkAcme"), foundTrue)
		c.Ob("keyless-gate", "getCertificate#returns-cached-cert", r.Pos(), strings.HasSuffix(gc.Prov(r.Results[0]), ".Get()#0.cert"), "the returned certificate is the cache result; found "+gc.Prov(r.Results[0]))
	}
	for _, name := range []string{"GetCertificate", "Sign"} {
		fn := srvFn(c, name)
		for _, call := range fn.CallsTo(false, "tun/server.Server.getCertificate") {
			c.Ob("keyless-gate", name+"#getCertificate(request proof, request hostname)", call.Pos(), fn.Prov(call.Args[1]) == "param#1.GetProof()" && fn.Prov(call.Args[2]) == "param#1.GetHostname()", "the gate is evaluated on the request's own proof and hostname")
		}
	}
	sg := srvFn(c, "Sign")
	signs := sg.Calls(false, func(call *ast.CallExpr) bool {
		se, ok := call.Fun.(*ast.SelectorExpr)
		return ok && se.Sel.Name == "Sign" && strings.Contains(typeStr(sg, se.X), "crypto.Signer")
	})
	c.Floor("Sign sites", len(signs), 1)
	// table form of the algorithm map: entry, ok := TABLE[req.GetAlgo()] with TABLE a
	// package-level map literal keyed by the algorithm constants
	var tableEntry *ast.CompositeLit
	tableProv := ""
	var tableIdx *ast.IndexExpr
	ast.Inspect(sg.Body, func(n ast.Node) bool {
		ix, ok := n.(*ast.IndexExpr)
		if !ok || sg.Prov(ix.Index) != "param#1.GetAlgo()" {
			return true
		}
		if gv, ok := sg.ObjOf(ix.X).(*types.Var); ok && gv.Pkg() != nil && gv.Parent() == gv.Pkg().Scope() {
			if lit := globalInit(c, gv); lit != nil {
				tableEntry, tableIdx = lit, ix
				tableProv = sg.Prov(ix)
			}
		}
		return true
	})
	_ = tableProv
	// fromTable: e is a field of the entry looked up in the table for the request's algorithm
	var fromTable func(e ast.Expr) bool
	fromTable = func(e ast.Expr) bool {
		se, ok := ast.Unparen(e).(*ast.SelectorExpr)
		if !ok {
			// a local holding such a field
			if v := sg.varOf(e); v != nil {
				defs := sg.defsOf(v)
				if len(defs) == 0 {
					return false
				}
				for _, d := range defs {
					// the looked-up entry itself (a table of plain hashes), or a field of it
					if d.rhs != nil && ast.Unparen(d.rhs) == ast.Expr(tableIdx) && d.idx == 0 {
						continue
					}
					if d.rhs == nil || d.multi || !fromTable(d.rhs) {
						return false
					}
				}
				return true
			}
			return false
		}
		v := sg.varOf(se.X)
		if v == nil {
			return ast.Unparen(se.X) == ast.Expr(tableIdx)
		}
		defs := sg.defsOf(v)
		if len(defs) == 0 {
			return false
		}
		for _, d := range defs {
			if d.rhs == nil || ast.Unparen(d.rhs) != ast.Expr(tableIdx) || d.idx != 0 {
				return false
			}
		}
		return true
	}
	for _, s := range signs {
		requireAt(c, "sign-gate", "Sign#signer.Sign", sg, s, "the private key signs only after getCertificate succeeded and the digest has the length of the selected hash",
			reqCallOK("tun/server.Server.getCertificate"),
			factReq{"len(digest) == size of the selected hash", func(g *Fn, fs *FactSet) bool {
				opt := g.varOf(s.Args[2])
				// sizeOfSelected: e is <selected>.Size() or <selected>.HashFunc().Size(), where
				// <selected> is the very variable handed to signer.Sign
				sizeOfSelected := func(e ast.Expr) bool {
					call, ok := ast.Unparen(e).(*ast.CallExpr)
					if !ok || g.CallKey(call) != "crypto.Hash.Size" {
						return tableEntry != nil && fromTable(e)
					}
					r := ast.Unparen(call.Fun.(*ast.SelectorExpr).X)
					if hc, ok := r.(*ast.CallExpr); ok && strings.HasSuffix(g.CallKey(hc), ".HashFunc") {
						if se, ok := ast.Unparen(hc.Fun).(*ast.SelectorExpr); ok {
							r = ast.Unparen(se.X)
						}
					}
					return opt != nil && g.varOf(r) == opt
				}
				digestLen := func(e ast.Expr) bool {
					call, ok := ast.Unparen(e).(*ast.CallExpr)
					if !ok || len(call.Args) != 1 {
						return false
					}
					id, ok := ast.Unparen(call.Fun).(*ast.Ident)
					if !ok {
						return false
					}
					if b, ok := g.Info.Uses[id].(*types.Builtin); !ok || b.Name() != "len" {
						return false
					}
					pv := g.Prov(call.Args[0])
					return pv == "param#1.GetDigest()" || pv == "param#1.Digest"
				}
				return fs.Equal(func(x, y ast.Expr) bool { return digestLen(x) && sizeOfSelected(y) })
			}})
		okOpts := sg.varOf(s.Args[2]) != nil
		if tableEntry != nil {
			okOpts = fromTable(s.Args[2])
		}
		c.Ob("sign-gate", "Sign#signs-request-digest-with-opts", s.Pos(), strings.HasPrefix(sg.Prov(s.Args[1]), "param#1.") && okOpts, "the request digest is signed with the selected options")
		se := s.Fun.(*ast.SelectorExpr)
		c.Ob("sign-gate", "Sign#key-of-gated-certificate", s.Pos(), strings.Contains(sg.Prov(se.X), "recv.getCertificate()#0.PrivateKey"), "the signing key is the gated certificate's key; found "+sg.Prov(se.X))
	}
	// algorithm table
	wantAlgo := map[string]string{"KeylessSignRequest_SHA256": "SHA256", "KeylessSignRequest_SHA384": "SHA384", "KeylessSignRequest_SHA512": "SHA512"}
	seenAlgo := 0
	isAlgo := func(e ast.Expr) bool { return sg.enclosing(e).Prov(e) == "param#1.GetAlgo()" }
	isHashType := func(e ast.Expr) bool {
		t := typeStr(sg, e)
		return strings.HasSuffix(t, "crypto.SignerOpts") || strings.HasSuffix(t, "crypto.Hash")
	}
	// selection sites: where the hash option gets its value. Either an assignment to a local of
	// type crypto.SignerOpts / crypto.Hash, or a return of an immediately invoked literal whose
	// result is bound to such a local (what an extracted helper looks like once inlined). A
	// return that also yields a constant false "supported" flag which signer.Sign is known to
	// have seen true cannot be the one that selected the option.
	selection := func(at ast.Node, rhs ast.Expr) {
		g := sg.enclosing(at)
		pos, _ := sg.FactsAt(at).EqConsts(g, isAlgo)
		name := ""
		if len(pos) == 1 {
			name = pos[0]
		}
		got := constName(g, rhs)
		if want, ok := wantAlgo[name]; ok {
			seenAlgo++
			c.Ob("sign-gate", "Sign#algo:"+name, at.Pos(), got == want, "request algorithm "+name+" selects crypto."+want+"; found crypto."+got)
		} else {
			c.Ob("sign-gate", "Sign#algo:"+name+"->"+got, at.Pos(), false, fmt.Sprintf("the hash option is assigned outside the three enumerated algorithm cases (algorithms known here: %v)", pos))
		}
	}
	ast.Inspect(sg.Body, func(n ast.Node) bool {
		as, ok := n.(*ast.AssignStmt)
		if !ok {
			return true
		}
		if len(as.Lhs) == len(as.Rhs) {
			for i, l := range as.Lhs {
				if sg.enclosing(as).varOf(l) == nil || !isHashType(l) {
					continue
				}
				if _, isCall := ast.Unparen(as.Rhs[i]).(*ast.CallExpr); isCall {
					continue
				}
				selection(as, as.Rhs[i])
			}
			return true
		}
		if len(as.Rhs) != 1 {
			return true
		}
		call, ok := ast.Unparen(as.Rhs[0]).(*ast.CallExpr)
		if !ok {
			return true
		}
		lit, ok := ast.Unparen(call.Fun).(*ast.FuncLit)
		if !ok {
			return true
		}
		for i, l := range as.Lhs {
			if !isHashType(l) {
				continue
			}
			lg := sg.Closure(lit)
			for _, r := range lg.Returns() {
				if i >= len(r.Results) {
					c.Ob("sign-gate", "Sign#algo:bare-return", r.Pos(), false, "the literal selecting the hash returns through named results; not summarised")
					continue
				}
				refused := false
				for j, other := range r.Results {
					if v, ok := lg.ConstVal(other); ok && v == "false" && j != i {
						seen := true
						for _, s2 := range signs {
							if !sg.FactsAt(s2).Has(func(fa *Fact) bool { return fa.Kind == FTrue && fa.Call == call && fa.Idx == j }) {
								seen = false
							}
						}
						refused = refused || seen
					}
				}
				if refused {
					continue
				}
				selection(r, r.Results[i])
			}
		}
		return true
	})
	if tableEntry != nil {
		// each key maps to its own hash, with that hash's digest size
		stdSize := map[string]string{"SHA256": "32", "SHA384": "48", "SHA512": "64"}
		keys := map[string]bool{}
		for _, el := range tableEntry.Elts {
			kv, ok := el.(*ast.KeyValueExpr)
			if !ok {
				continue
			}
			name := constName(sg, kv.Key)
			keys[name] = true
			hash, size := "", ""
			if strings.HasSuffix(typeStr(sg, kv.Value), "crypto.Hash") {
				hash = constName(sg, kv.Value)
			}
			if cl, ok := kv.Value.(*ast.CompositeLit); ok {
				for _, fe := range cl.Elts {
					v := fe
					if fkv, ok := fe.(*ast.KeyValueExpr); ok {
						v = fkv.Value
					}
					if strings.HasSuffix(typeStr(sg, v), "crypto.Hash") {
						hash = constName(sg, v)
					} else if cv, ok := sg.ConstVal(v); ok {
						size = cv
					}
				}
			}
			if want, ok := wantAlgo[name]; ok {
				seenAlgo++
				c.Ob("sign-gate", "Sign#algo:"+name, kv.Pos(), hash == want, "request algorithm "+name+" selects crypto."+want+"; found crypto."+hash)
				if size != "" {
					c.Ob("sign-gate", "Sign#digest-size:"+name, kv.Pos(), size == stdSize[want], fmt.Sprintf("the digest length demanded for %s is the size of crypto.%s (%s bytes); the table says %s", name, want, stdSize[want], size))
				}
			} else {
				c.Ob("sign-gate", "Sign#algo:"+name+"->"+hash, kv.Pos(), false, "the table admits an algorithm outside the three enumerated ones")
			}
		}
		// unsupported -> refused: the comma-ok of the lookup is tested and its false side returns an error
		okMiss := false
		ast.Inspect(sg.Body, func(n ast.Node) bool {
			as, ok := n.(*ast.AssignStmt)
			if !ok || len(as.Lhs) != 2 || len(as.Rhs) != 1 || ast.Unparen(as.Rhs[0]) != ast.Expr(tableIdx) {
				return true
			}
			okVar := sg.varOf(as.Lhs[1])
			for _, r := range sg.Returns() {
				if len(r.Results) == 2 && isTwirpErr(sg, r.Results[1]) && sg.FactsAt(r).Cmp(func(e, tag ast.Expr, truth bool, fa *Fact) bool {
					return tag == nil && !truth && okVar != nil && sg.varOf(e) == okVar
				}) {
					okMiss = true
				}
			}
			return true
		})
		c.Ob("sign-gate", "Sign#unsupported-algorithm-rejected", sg.Decl.Pos(), okMiss && len(keys) == 3, "an algorithm outside the table is refused with an error, never defaulted")
		c.Floor("Sign algorithm cases", seenAlgo, 3)
	}
	// an unsupported algorithm is refused: at signer.Sign the algorithm is one of the three
	for _, s2 := range signs {
		_, neg := sg.FactsAt(s2).EqConsts(sg, isAlgo)
		_ = neg
	}
	okDef := false
	for _, r := range sg.Returns() {
		if len(r.Results) != 2 || !isTwirpErr(sg, r.Results[1]) {
			continue
		}
		_, neg := sg.FactsAt(r).EqConsts(sg, isAlgo)
		n := 0
		for _, k := range neg {
			if _, ok := wantAlgo[k]; ok {
				n++
			}
		}
		if n == 3 {
			okDef = true
		}
	}
	if tableEntry == nil {
		c.Ob("sign-gate", "Sign#unsupported-algorithm-rejected", sg.Decl.Pos(), okDef, "an algorithm outside the table is refused with an error, never defaulted")
		c.Floor("Sign algorithm cases", seenAlgo, 3)
	}

	// computeKeylessTTL
	tt := c.Func("tun/server", "", "computeKeylessTTL")
	var remDef *ast.AssignStmt
	var remIdx int
	for i, st := range tt.Body.List {
		if as, ok := st.(*ast.AssignStmt); ok && len(as.Lhs) == 1 {
			if id, ok := as.Lhs[0].(*ast.Ident); ok && id.Name == "remaining" {
				remDef, remIdx = as, i
			}
		}
	}
	if remDef == nil {
		c.Failf("computeKeylessTTL: definition of the remaining lifetime not found (undecided)")
	}
	pv := tt.Prov(remDef.Rhs[0])
	c.Ob("ttl", "computeKeylessTTL#remaining=NotAfter-skew-now", remDef.Pos(), strings.HasSuffix(pv, ".NotAfter.Add().Sub()"), "remaining = leaf.NotAfter.Add(-skew).Sub(now); found "+pv)
	okSkew, okNow := false, false
	ast.Inspect(tt.Body, func(n ast.Node) bool {
		call, ok := n.(*ast.CallExpr)
		if !ok {
			return true
		}
		if se, ok := call.Fun.(*ast.SelectorExpr); ok {
			if se.Sel.Name == "Add" && strings.HasSuffix(tt.Prov(se.X), ".NotAfter") {
				if u, ok := call.Args[0].(*ast.UnaryExpr); ok && u.Op == token.SUB && constName(tt, u.X) == "keylessExpirySkew" {
					okSkew = true
				}
			}
			if se.Sel.Name == "Sub" && tt.Prov(call.Args[0]) == "param#1" {
				okNow = true
			}
		}
		return true
	})
	c.Ob("ttl", "computeKeylessTTL#skew-and-now", remDef.Pos(), okSkew && okNow, "the skew constant is subtracted from NotAfter and the current time is the parameter")
	// the leaf whose NotAfter is used: cert.Leaf, or the parsed first chain element when Leaf is unset
	var leafVar *types.Var
	ast.Inspect(tt.Body, func(n ast.Node) bool {
		if se, ok := n.(*ast.SelectorExpr); ok && se.Sel.Name == "NotAfter" {
			leafVar = tt.varOf(se.X)
		}
		return true
	})
	okLeaf, okParse := false, false
	if leafVar != nil {
		for _, d := range tt.defsOf(leafVar) {
			pv := tt.enclosing(d.rhs).Prov(d.rhs)
			if pv == "param#0.Leaf" {
				okLeaf = true
			}
			if strings.HasPrefix(pv, "call:crypto/x509.ParseCertificate()") {
				for _, call := range tt.CallsTo(true, "crypto/x509.ParseCertificate") {
					if tt.Prov(call.Args[0]) == "param#0.Certificate[const:0]" {
						okParse = true
					}
				}
			}
		}
	}
	c.Ob("ttl", "computeKeylessTTL#leaf-from-Leaf-or-parsed-chain", tt.Decl.Pos(), okLeaf && okParse, "the expiry is read from cert.Leaf, or from the parsed first chain certificate when Leaf is unset (a tls.Certificate built from PEM/DER has no Leaf); otherwise such a certificate is cached for the full positive TTL regardless of its expiry")
	pc, _ := c.P("tun/server").Types.Scope().Lookup("keylessPositiveTTL").(*types.Const)
	if pc == nil {
		c.Failf("anchor unresolved: keylessPositiveTTL")
	}
	P, _ := constToVal(pc.Val()).(*big.Int)
	remObj := tt.Info.Defs[remDef.Lhs[0].(*ast.Ident)]
	one := big.NewInt(1_000_000_000)
	for _, rem := range []*big.Int{big.NewInt(-5), big.NewInt(0), big.NewInt(1), new(big.Int).Sub(P, big.NewInt(1)), P, new(big.Int).Add(P, big.NewInt(1)), new(big.Int).Mul(P, big.NewInt(100))} {
		env := &evalEnv{f: tt, vars: map[types.Object]Val{remObj: rem}}
		var got *big.Int
		func() {
			defer func() {
				if r := recover(); r != nil {
					if u, ok := r.(evalUndecided); ok {
						c.Failf("computeKeylessTTL decision list not evaluable: %s", u.msg)
					}
					panic(r)
				}
			}()
			ret := env.block(tt.Body.List[remIdx+1:])
			if ret != nil && len(ret.vals) == 1 {
				got, _ = ret.vals[0].(*big.Int)
			}
		}()
		want := one
		if rem.Sign() > 0 {
			want = rem
			if rem.Cmp(P) > 0 {
				want = P
			}
		}
		c.Ob("ttl", fmt.Sprintf("computeKeylessTTL#remaining=%v", rem), remDef.Pos(), got != nil && got.Cmp(want) == 0, fmt.Sprintf("TTL is min(remaining, %v) when remaining > 0 and the 1 s floor otherwise: got %v, want %v", P, got, want))
	}
	// loader uses it
	ld := srvFn(c, "keylessCertLoader")
	c.Ob("ttl", "keylessCertLoader#uses-computeKeylessTTL", ld.Decl.Pos(), len(ld.CallsTo(false, "tun/server.computeKeylessTTL")) == 1, "the cache loader derives the entry TTL from the certificate")
	// every exit carries an explicit, positive TTL (the cache keeps a zero-TTL entry for ever)
	_, noTTL := ld.Reach(nil, func(m ast.Node) bool {
		as, ok := m.(*ast.AssignStmt)
		return ok && len(as.Lhs) == 1 && types_ExprString(as.Lhs[0]) == "ret.TTL"
	}, nil)
	c.Ob("ttl", "keylessCertLoader#every-exit-sets-a-ttl", ld.Decl.Pos(), len(noTTL) == 0, fmt.Sprintf("on every path to every exit ret.TTL is assigned; %d exit(s) reachable without an assignment", len(noTTL)))
	for _, call := range ld.CallsTo(false, "tun/server.computeKeylessTTL") {
		// a non-positive computed TTL is replaced before the entry is returned
		okPos := false
		for _, r := range ld.Returns() {
			fs := ld.FactsAt(r)
			if fs.Has(func(fa *Fact) bool { return fa.Call == call }) || true {
				if fs.Cmp(func(e, tag ast.Expr, truth bool, fa *Fact) bool {
					be, ok := e.(*ast.BinaryExpr)
					return ok && tag == nil && types_ExprString(be.X) == "ret.TTL" && (be.Op == token.LEQ && !truth || be.Op == token.GTR && truth)
				}) {
					okPos = true
				}
			}
		}
		// the guard may be followed by a join; accept the structural form: an if on ret.TTL <= 0 assigning a constant TTL
		ast.Inspect(ld.Body, func(n ast.Node) bool {
			ifs, ok := n.(*ast.IfStmt)
			if !ok {
				return true
			}
			be, ok := ifs.Cond.(*ast.BinaryExpr)
			if ok && types_ExprString(be.X) == "ret.TTL" && be.Op == token.LEQ && ifs.Pos() > call.Pos() {
				for _, st := range ifs.Body.List {
					if as, ok := st.(*ast.AssignStmt); ok && len(as.Lhs) == 1 && types_ExprString(as.Lhs[0]) == "ret.TTL" && constName(ld, as.Rhs[0]) != "" {
						okPos = true
					}
				}
			}
			return true
		})
		c.Ob("ttl", "keylessCertLoader#computed-ttl-made-positive", call.Pos(), okPos, "a computed TTL that is not positive is replaced by a constant one before the entry is cached")
	}
}

// ---------------------------------------------------------------------------------------

func runC51(c *Ctx) {
	gn := srvFn(c, "GetNodes")
	mk := gn.CallsTo(false, "spec/chord.MakeSuccListByAddress")
	other := gn.CallsTo(false, "spec/chord.MakeSuccListByID")
	c.Ob("offer-bound", "GetNodes#list-by-address", gn.Decl.Pos(), len(mk) == 1 && len(other) == 0, "the offered endpoints come from the address-deduplicated successor list")
	for _, call := range mk {
		v, _ := gn.ConstVal(call.Args[2])
		c.Ob("offer-bound", "GetNodes#bounded-by-NumRedundantLinks", call.Pos(), v == "3" && gn.Prov(call.Args[0]) == "recv.Chord" && strings.HasSuffix(gn.Prov(call.Args[1]), ".GetSuccessors()#0"), "at most NumRedundantLinks (3) entries, starting with this node; bound found: "+v)
		requireAt(c, "offer-bound", "GetNodes#authenticated", gn, call, "only authenticated clients are offered endpoints", reqCallOK(authKeys...))
	}
	// the list itself is well-formed (the C12 obligations of the address variant)
	succListObligations(c, "offer-bound", "MakeSuccListByAddress")

	// jobs: one per element of that list
	okJobs := false
	ast.Inspect(gn.Body, func(n ast.Node) bool {
		rs, ok := n.(*ast.RangeStmt)
		if !ok || gn.Prov(rs.X) != "call:spec/chord.MakeSuccListByAddress()" {
			return true
		}
		napp := 0
		ast.Inspect(rs.Body, func(m ast.Node) bool {
			if call, ok := m.(*ast.CallExpr); ok {
				if id, ok := call.Fun.(*ast.Ident); ok && id.Name == "append" && gn.enclosing(call) == gn {
					napp++
				}
			}
			return true
		})
		okJobs = napp == 1
		return true
	})
	c.Ob("offer-bound", "GetNodes#one-job-per-list-element", gn.Decl.Pos(), okJobs, "exactly one lookup job is created per element of the bounded list")
	for _, call := range gn.CallsTo(true, "spec/tun.DestinationByChordKey") {
		g := gn.enclosing(call)
		c.Ob("offer-bound", "GetNodes#job-key", call.Pos(), strings.HasSuffix(g.Prov(call.Args[0]), ".Identity()") && strings.Contains(g.Prov(call.Args[0]), "MakeSuccListByAddress()"), "each job looks up the destination of its own list element; found "+g.Prov(call.Args[0]))
	}
	// what a job answers comes from the published record it looked up: every success
	// return of a job literal yields <lookupDestination result>.GetTunnel(), reached only
	// when that lookup succeeded (a cached / locally known copy would keep a node on
	// offer whose record is gone)
	njob := 0
	for _, lit := range gn.Lits() {
		g := gn.Closure(lit)
		if lit.Type.Results == nil || len(lit.Type.Results.List) != 2 || !strings.HasSuffix(typeStr(g, lit.Type.Results.List[0].Type), "protocol.Node") {
			continue
		}
		for _, r := range g.Returns() {
			if len(r.Results) != 2 || !isNilIdent(g.Info, r.Results[1]) {
				continue
			}
			njob++
			pv := g.Prov(r.Results[0])
			okRec := strings.Contains(pv, ".lookupDestination()#0.GetTunnel()") && g.FactsAt(r).CallOK("tun/server.Server.lookupDestination")
			c.Ob("offer-bound", "GetNodes#job-answers-from-the-looked-up-record", r.Pos(), okRec, "a job's node is the tunnel endpoint of the destination record it just looked up, after that lookup succeeded; found "+pv)
		}
	}
	c.Floor("GetNodes job success returns", njob, 1)
	// response only from promise.All results, after the error loop
	for _, r := range successReturns(gn) {
		okResp := false
		ast.Inspect(r, func(n ast.Node) bool {
			if kv, ok := n.(*ast.KeyValueExpr); ok {
				if id, ok := kv.Key.(*ast.Ident); ok && id.Name == "Nodes" {
					okResp = gn.Prov(kv.Value) == "call:util/promise.All()#0"
				}
			}
			return true
		})
		c.Ob("offer-bound", "GetNodes#response-from-jobs", r.Pos(), okResp, "the response lists exactly the job results")
		// every error of the jobs was inspected: the range over errors precedes
		// (a range over the errors, or an index loop bounded by their number)
		type errLoopT struct {
			Body *ast.BlockStmt
			X    ast.Node
		}
		var errLoop *errLoopT
		ast.Inspect(gn.Body, func(n ast.Node) bool {
			switch x := n.(type) {
			case *ast.RangeStmt:
				if gn.Prov(x.X) == "call:util/promise.All()#1" {
					errLoop = &errLoopT{x.Body, x.X}
				}
			case *ast.ForStmt:
				if x.Cond != nil {
					for _, cj := range conjuncts(x.Cond) {
						if be, ok := ast.Unparen(cj).(*ast.BinaryExpr); ok && be.Op == token.LSS && isLenOf(gn, be.Y, func(e ast.Expr) bool { return gn.Prov(e) == "call:util/promise.All()#1" }) {
							if init, ok := x.Init.(*ast.AssignStmt); ok && len(init.Rhs) == 1 {
								if v0, _ := gn.ConstVal(init.Rhs[0]); v0 == "0" {
									errLoop = &errLoopT{x.Body, x.Cond}
								}
							}
						}
					}
				}
			}
			return true
		})
		okErr := false
		if errLoop != nil {
			for _, rr := range gn.Returns() {
				if containsNode(errLoop.Body, rr) && len(rr.Results) == 2 && isNilIdent(gn.Info, rr.Results[0]) {
					fs := gn.FactsAt(rr)
					okErr = fs.Cmp(func(e, tag ast.Expr, truth bool, fa *Fact) bool {
						be, ok := e.(*ast.BinaryExpr)
						return ok && truth && be.Op == token.NEQ && isNilIdent(gn.Info, be.Y)
					})
				}
			}
			// the response return is after the loop
			reached, _ := gn.Reach(nil, func(n ast.Node) bool { return n == ast.Node(errLoop.X) || containsNode(n, errLoop.X) }, nil)
			for _, n := range reached {
				if n == ast.Node(r) {
					okErr = false
				}
			}
		}
		c.Ob("offer-errors", "GetNodes#any-job-error-fails-the-call", r.Pos(), okErr, "the job errors are inspected before the response is built and the first error fails the RPC")
	}
}
