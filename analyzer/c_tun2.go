package main

import (
	"fmt"
	"go/ast"
	"go/token"
	"go/types"
	"math/big"
	"regexp/syntax"
	"strings"
)

func init() {
	register(&propDef{ID: "C27", Level: "other",
		Decides:    "the dial path hands out only a connection to a client of the hostname's routes: DialClient returns a connection only from getConn(route) for a route of the cache result of link.GetHostname(), after rpc.Send(conn, link) of the same link succeeded; a cache result with an error is returned before any dial; routes are tried in cache order (C28 puts local ones first); some-route-no-direct -> ErrTunnelClientNotConnected, otherwise ErrDestinationNotFound; getConn dials the client directly iff the route's tunnel address is ours, else opens a proxy stream, sends the route, and maps STATUS_OK -> conn, NO_DIRECT -> ErrTunnelClientNotConnected; handleProxyConn dials the client only when the route's tunnel address is ours and reports a status frame on every exit.",
		NotDecided: "whether 'routes exist but every dial failed with another error' should read not-connected (the code answers not-found; recorded as observation O1).",
		Run:        runC27})
	register(&propDef{ID: "C28", Level: "other",
		Decides:    "the route loader's decision list on every path: not-found (negative TTL) exactly where the not-found counter is known to equal the number of slots, lookup-failed (failed TTL) exactly where the error counter is, otherwise the non-nil routes with the positive TTL; the counters are identified by what they count (incremented where the job's error is known to be fs.ErrNotExist / known to be another non-nil error), not by name; jobs read RoutingKey(hostname, 1..NumRedundantLinks) and report an empty slot as the bare fs.ErrNotExist; failedTTL < negativeTTL < positiveTTL; the sort comparator, evaluated over local/remote valuations, puts a local route before a remote one and never a remote before a local.",
		NotDecided: "the cache library's behaviour; sort.SliceStable's handling of a comparator that is not irreflexive on two local routes (harmless: both are local).",
		Run:        runC28})
	register(&propDef{ID: "C31", Level: "other",
		Decides:    "the acceptance guard chain on every path: VerifySolution succeeds only after key length, signature length, non-empty solution, ed25519.Verify(request key, solution, signature), Parse ok, difficulty equality, non-zero expiry, |now - expiry| <= 2*Expires and Hashcash.Verify(subject of that key) passed; Hashcash.Verify succeeds only after algorithm, expiry, subject equality and the bit test passed; Solve and Verify derive the bit-test arguments identically; and the bit test itself, evaluated exhaustively for every difficulty 0..26 over leading-zero classes of the hash bytes (its operands are used only through ==0 and >>k==0, checked), accepts exactly hashes with at least that many leading zero bits.",
		NotDecided: "SHA-256 / ed25519 themselves (trusted).",
		Run:        runC31})
	register(&propDef{ID: "C32", Level: "other",
		Decides:    "issuance and renewal gates on every path: RenewCertificate issues only after the old certificate verified against the configured CA pool with ClientAuth usage, an identity was extracted, the version is not v1, the proof of work verified, the certificate key is ed25519 and equals the proof key; the renewed request keeps the old subject and uses the proof key; RequestCertificate builds the subject with MakeSubjectV2(id, sha256 of the proof key) computed in the proof's subject callback and certifies the proof key; ExtractCertificateIdentity takes the whole CN as the v2 token and the third CN part as the v1 token, and builds an identity only for a subject tag equal to a version constant (one literal per version under that tag's path facts, or one literal whose Version is the tag itself, decided by enumerating the tag over {v1, v2, other}).",
		NotDecided: "x509 verification and certificate generation internals (trusted).",
		Run:        runC32})
	register(&propDef{ID: "C33", Level: "other",
		Decides:    "Normalize returns exactly the value it tested with nonDnsRegex, and that regex (parsed with regexp/syntax) is the complement of [a-z0-9.-], so every successful output is over that alphabet; the wildcard, IP-literal and public-certificate-eligibility rejections are applied on every successful path, and the ASCII conversion is the non-mapping idna.ToASCII (a mapping profile would turn fullwidth/ideographic spellings of local names and IPs into accepted outputs after the checks ran); the challenge target depends on the token only through hex(SHA-224(token)).",
		NotDecided: "idempotence and the rejection of IPs/local names (certmagic / idna library behaviour); collision resistance of SHA-224 (trusted).",
		Run:        runC33})

	addSelfTests("C27",
		mutation{"link-not-sent", "tun/server/server.go", "		connError = rpc.Send(clientConn, link)\n		if connError != nil {\n			l.Error(\"Failed to send link information to client\",\n				zap.Error(connError),\n			)\n			clientConn.Close()\n			continue\n		}\n", "", "dial"},
		mutation{"cache-error-ignored", "tun/server/server.go", "	if ret.err != nil {\n		return nil, ret.err\n	}\n", "", "dial"},
		mutation{"proxy-any-destination", "tun/server/server.go", "		err = tun.ErrDestinationNotFound\n		return\n	}\n\n	clientConn, err = s.TunnelTransport.DialStream", "		err = nil\n	}\n\n	clientConn, err = s.TunnelTransport.DialStream", "proxy"},
		mutation{"nodirect-as-notfound", "tun/server/server.go", "	if isNoRoute {\n		return nil, tun.ErrTunnelClientNotConnected\n	}\n", "	if isNoRoute {\n		return nil, tun.ErrDestinationNotFound\n	}\n", "classification"},
		mutation{"status-by-if-chain", "tun/server/server.go", "		switch status.GetStatus() {\n		case protocol.TunnelStatusCode_STATUS_OK:\n			return conn, nil\n		case protocol.TunnelStatusCode_NO_DIRECT:\n			return nil, tun.ErrTunnelClientNotConnected\n		default:", "		if status.GetStatus() == protocol.TunnelStatusCode_STATUS_OK {\n			return conn, nil\n		}\n		switch status.GetStatus() {\n		case protocol.TunnelStatusCode_NO_DIRECT:\n			return nil, tun.ErrTunnelClientNotConnected\n		default:", "!getconn"},
		mutation{"status-any-non-error-is-ok", "tun/server/server.go", "		switch status.GetStatus() {\n		case protocol.TunnelStatusCode_STATUS_OK:\n			return conn, nil\n		case protocol.TunnelStatusCode_NO_DIRECT:\n			return nil, tun.ErrTunnelClientNotConnected\n		default:", "		switch status.GetStatus() {\n		case protocol.TunnelStatusCode_NO_DIRECT:\n			return nil, tun.ErrTunnelClientNotConnected\n		case protocol.TunnelStatusCode_STATUS_OK, protocol.TunnelStatusCode_UNKNOWN_ERROR:\n			return conn, nil\n		default:", "getconn"},
		mutation{"status-nodirect-swallowed", "tun/server/server.go", "		case protocol.TunnelStatusCode_NO_DIRECT:\n			return nil, tun.ErrTunnelClientNotConnected\n", "", "getconn"},
	)
	addSelfTests("C28",
		mutation{"counts-swapped", "tun/server/route_cache.go", "		case fs.ErrNotExist:\n			numNotFound++\n		default:\n			numError++", "		case fs.ErrNotExist:\n			numError++\n		default:\n			numNotFound++", "loader"},
		mutation{"failed-ttl-skipped-on-timeout", "tun/server/route_cache.go", "		ret.TTL = routeFailedTTL // also cache failed result with an even shorter ttl\n", "		if lookupCtx.Err() == nil {\n			ret.TTL = routeFailedTTL\n		}\n", "loader"},
		mutation{"negative-cached-long", "tun/server/route_cache.go", "		ret.TTL = routeNegativeTTL // cache negative result with shorter ttl", "		ret.TTL = routePositiveTTL // cache negative result with shorter ttl", "loader"},
		mutation{"remote-first", "tun/server/route_cache.go", "		return filtered[i].GetTunnelDestination().GetAddress() == s.TunnelTransport.Identity().GetAddress()", "		return filtered[i].GetTunnelDestination().GetAddress() != s.TunnelTransport.Identity().GetAddress()", "comparator"},
		mutation{"slots-zero-based", "tun/server/route_cache.go", "		k := i + 1\n", "		k := i\n", "loader"},
		mutation{"ttl-order", "tun/server/route_cache.go", "	routeNegativeTTL = time.Second * 15", "	routeNegativeTTL = time.Minute * 15", "ttl-order"},
		mutation{"any-notfound-is-notfound", "tun/server/route_cache.go", "	if numLookup == numNotFound {", "	if numNotFound > 0 {", "loader"},
	)
	addSelfTests("C31",
		mutation{"signature-unchecked", "spec/pow/pow.go", "	if !ed25519.Verify(pubKey, []byte(req.GetSolution()), req.GetSignature()) {\n		return nil, twirp.InvalidArgumentError(\"signature\", \"not a valid signature of solution by pub_key\")\n	}\n", "", "pow-gate"},
		mutation{"difficulty-at-least", "spec/pow/pow.go", "	if hc.Difficulty != p.Difficulty {", "	if hc.Difficulty > p.Difficulty {", "pow-gate"},
		mutation{"bits-off-by-one", "util/hashcash/hashcash.go", "		pad := 8 - bits\n", "		pad := 9 - bits\n", "verifybits"},
		mutation{"bits-early-accept", "util/hashcash/hashcash.go", "		if bits > 8 {\n			bits -= 8\n			if 0 != hash[i] {\n				return false\n			}\n			continue\n		}", "		if bits > 8 {\n			bits -= 8\n			continue\n		}", "verifybits"},
		mutation{"subject-unchecked", "util/hashcash/hashcash.go", "	if subject != h.Subject {\n		return ErrInvalidSubject\n	}\n", "", "hashcash-gate"},
		mutation{"window-one-sided", "spec/pow/pow.go", "	if time.Since(hc.ExpiresAt).Abs() > p.Expires*2 {", "	if time.Since(hc.ExpiresAt) > p.Expires*2 {", "pow-gate"},
	)
	addSelfTests("C32",
		mutation{"renew-any-key", "pki/client_rpc.go", "	if !bytes.Equal(d.PubKey, oldPubKey) {\n		return nil, twirp.PermissionDenied.Error(\"proof does not match current certificate key\")\n	}\n", "	if !bytes.Equal(oldPubKey, oldPubKey) {\n		return nil, twirp.PermissionDenied.Error(\"proof does not match current certificate key\")\n	}\n", "renew-gate"},
		mutation{"renew-v1-allowed", "pki/client_rpc.go", "	if identity.Version == pki.TokenV1 {\n		return nil, twirp.FailedPrecondition.Error(\"v1 certificates cannot be renewed; please use the migration tool (util/migrator) to upgrade to v2\")\n	}\n", "", "renew-gate"},
		mutation{"renew-new-subject", "pki/client_rpc.go", "		Subject:   oldCert.Subject, // Preserve exact subject from old certificate", "		Subject:   pki.MakeSubjectV2(identity.ID, hashed),", "renew-provenance"},
		mutation{"v2-token-is-hash-only", "spec/pki/token.go", "			Token:   []byte(cn),", "			Token:   []byte(parts[2]),", "identity"},
		mutation{"identity-by-if-chain", "spec/pki/token.go", "	switch parts[0] {\n	case string(TokenV1):\n		return &Identity{", "	if parts[0] != string(TokenV1) && parts[0] != string(TokenV2) {\n		return nil, errors.New(\"pki: unknown subject in certificate\")\n	}\n	switch parts[0] {\n	case string(TokenV1):\n		return &Identity{", "!identity"},
		mutation{"identity-v2-for-any-other-tag", "spec/pki/token.go", "	case string(TokenV2):\n		return &Identity{\n			ID:      util.Must(strconv.ParseUint(parts[1], 10, 64)),\n			Token:   []byte(cn),\n			Version: TokenV2,\n		}, nil\n	default:\n		return nil, errors.New(\"pki: unknown subject in certificate\")\n	}", "	default:\n		return &Identity{\n			ID:      util.Must(strconv.ParseUint(parts[1], 10, 64)),\n			Token:   []byte(cn),\n			Version: TokenV2,\n		}, nil\n	}", "identity"},
		mutation{"renew-ca-unverified", "pki/client_rpc.go", "	if err != nil {\n		return nil, twirp.PermissionDenied.Error(\"certificate not issued by this CA\")\n	}\n", "	_ = err\n", "renew-gate"},
	)
	addSelfTests("C33",
		mutation{"regex-allows-upper", "spec/acme/acme.go", "`[^a-z0-9-.]+`", "`[^a-zA-Z0-9-.]+`", "alphabet"},
		mutation{"returns-untested-value", "spec/acme/acme.go", "	return uni, nil\n}", "	return trimmed, nil\n}", "normalize"},
		mutation{"ip-literal-allowed", "spec/acme/acme.go", "	if certmagic.SubjectIsIP(trimmed) {", "	if certmagic.SubjectIsIP(trimmed) && strings.Contains(trimmed, \":\") {", "normalize"},
		mutation{"wildcard-allowed", "spec/acme/acme.go", "	if strings.Contains(trimmed, \"*\") {\n		return \"\", fmt.Errorf(\"acme: wildcard zone is not supported\")\n	}\n", "", "normalize"},
		mutation{"token-not-hashed", "spec/acme/acme.go", "	return generateRecord(zone, delegation, EncodeClientToken(token))", "	return generateRecord(zone, delegation, hex.EncodeToString(token[:4]))", "challenge"},
	)
}

func runC27(c *Ctx) {
	dc := srvFn(c, "DialClient")
	gets := dc.Calls(false, func(call *ast.CallExpr) bool {
		se, ok := call.Fun.(*ast.SelectorExpr)
		return ok && se.Sel.Name == "Get" && dc.Prov(se.X) == "recv.routeCache"
	})
	c.Floor("DialClient cache lookups", len(gets), 1)
	for _, g := range gets {
		c.Ob("dial", "DialClient#routes-of-link-hostname", g.Pos(), dc.Prov(g.Args[1]) == "param#1.GetHostname()", "routes are looked up for the hostname of the link; found "+dc.Prov(g.Args[1]))
	}
	gcs := dc.CallsTo(false, "tun/server.Server.getConn")
	c.Floor("DialClient getConn sites", len(gcs), 1)
	for _, call := range gcs {
		pv := dc.Prov(call.Args[1])
		c.Ob("dial", "DialClient#getConn(route-of-cache-result)", call.Pos(), strings.Contains(pv, "recv.routeCache.Get()#0.routes"), "only routes from the cache result are dialled; found "+pv)
		// no dial when the cache result carries an error
		okErr := dc.FactsAt(call).Cmp(func(e, tag ast.Expr, truth bool, fa *Fact) bool {
			be, ok := e.(*ast.BinaryExpr)
			return ok && !truth && be.Op == token.NEQ && isNilIdent(dc.Info, be.Y) && strings.HasSuffix(dc.Prov(be.X), ".Get()#0.err")
		}) && dc.FactsAt(call).Has(func(fa *Fact) bool { return fa.Kind == FCallOK && len(gets) > 0 && fa.Call == gets[0] })
		c.Ob("dial", "DialClient#no-dial-on-lookup-error", call.Pos(), okErr, "nothing is dialled when the route lookup reported an error (either the cached error or the loader error)")
	}
	// the range is over ret.routes in order
	okOrder := false
	ast.Inspect(dc.Body, func(n ast.Node) bool {
		if rs, ok := n.(*ast.RangeStmt); ok && strings.HasSuffix(dc.Prov(rs.X), ".Get()#0.routes") {
			okOrder = true
		}
		return true
	})
	c.Ob("dial", "DialClient#routes-tried-in-cache-order", dc.Decl.Pos(), okOrder, "routes are tried in the order the cache holds them (the loader sorts local routes first)")
	for _, r := range successReturns(dc) {
		if isNilIdent(dc.Info, r.Results[0]) {
			continue
		}
		requireAt(c, "dial", "DialClient#returns-connection", dc, r, "a connection is returned only when getConn succeeded and the link was delivered to the client",
			reqCallOK("tun/server.Server.getConn"), reqCallOK("spec/rpc.Send"))
		c.Ob("dial", "DialClient#returned-conn-is-getConn-result", r.Pos(), strings.Contains(dc.Prov(r.Results[0]), "recv.getConn()#0"), "the returned connection is the one getConn produced; found "+dc.Prov(r.Results[0]))
	}
	for _, call := range dc.CallsTo(false, "spec/rpc.Send") {
		c.Ob("dial", "DialClient#sends-the-link", call.Pos(), dc.Prov(call.Args[1]) == "param#1" && strings.Contains(dc.Prov(call.Args[0]), "recv.getConn()#0"), "the link (carrying the hostname) is sent on the dialled connection")
	}
	// classification. The "some route had no direct connection" flag is found by what it
	// records, not by its name: a boolean local that is set to true under a positive
	// tun.IsNoDirect test of a dial error (and never set to true anywhere else).
	flag := map[*types.Var]bool{}
	for _, fnode := range shallowNodes(dc.Body) {
		as, ok := fnode.(*ast.AssignStmt)
		if !ok || len(as.Lhs) != 1 || len(as.Rhs) != 1 {
			continue
		}
		v := dc.varOf(as.Lhs[0])
		if v == nil {
			continue
		}
		if cv, _ := dc.ConstVal(as.Rhs[0]); cv != "true" {
			continue
		}
		okRec := dc.FactsAt(as).Has(func(fa *Fact) bool { return fa.Kind == FTrue && dc.IsCall(fa.Call, "spec/tun.IsNoDirect") })
		c.Ob("classification", "DialClient#no-direct-recorded", as.Pos(), okRec, "a route counts as 'client not connected' only when the dial error is a no-direct error")
		if okRec {
			if _, seen := flag[v]; !seen {
				flag[v] = true
			}
		} else {
			flag[v] = false
		}
	}
	isFlag := func(e ast.Expr) bool {
		v := dc.varOf(e)
		return v != nil && flag[v]
	}
	nclass := 0
	for _, r := range dc.Returns() {
		pv := dc.Prov(r.Results[1])
		switch pv {
		case "global:spec/tun.ErrTunnelClientNotConnected":
			nclass++
			ok := dc.FactsAt(r).Cmp(func(e, tag ast.Expr, truth bool, fa *Fact) bool {
				return tag == nil && truth && isFlag(e)
			})
			c.Ob("classification", "DialClient#not-connected-iff-some-no-direct", r.Pos(), ok, "not-connected is reported when some route's client had no direct connection and none succeeded")
		case "global:spec/tun.ErrDestinationNotFound":
			nclass++
			ok := dc.FactsAt(r).Cmp(func(e, tag ast.Expr, truth bool, fa *Fact) bool {
				return tag == nil && !truth && isFlag(e)
			})
			c.Ob("classification", "DialClient#not-found-otherwise", r.Pos(), ok, "not-found is the fallback when no route reported no-direct")
		default:
			// the verdict kept in a local instead of a flag: it starts as not-found
			// (one definition, at the top level of the body, before every other) and
			// is only ever overwritten with not-connected, under a positive no-direct
			// test of a dial error.
			v := dc.varOf(r.Results[1])
			if v == nil || v.Parent() == nil || v.Parent() == v.Pkg().Scope() || dc.paramIndex(v) != -2 {
				continue
			}
			nNF, nNC, okNF, okNC, other := 0, 0, true, true, false
			var firstNC, posNF token.Pos
			for _, fnode := range shallowNodes(dc.Body) {
				var rhs ast.Expr
				switch x := fnode.(type) {
				case *ast.AssignStmt:
					for i, l := range x.Lhs {
						if dc.varOf(l) == v {
							if len(x.Lhs) == len(x.Rhs) {
								rhs = x.Rhs[i]
							} else {
								other = true
							}
						}
					}
				case *ast.ValueSpec:
					for i, nm := range x.Names {
						if dc.Info.Defs[nm] == types.Object(v) {
							if len(x.Values) == len(x.Names) {
								rhs = x.Values[i]
							} else if len(x.Values) != 0 {
								other = true
							}
						}
					}
				}
				if rhs == nil {
					continue
				}
				switch dc.Prov(rhs) {
				case "global:spec/tun.ErrDestinationNotFound":
					nNF++
					posNF = fnode.Pos()
					top := false
					for _, st := range dc.Body.List {
						if st == fnode {
							top = true
						}
						if ds, isDecl := st.(*ast.DeclStmt); isDecl && containsNode(ds, fnode) {
							top = true
						}
					}
					okNF = okNF && top
				case "global:spec/tun.ErrTunnelClientNotConnected":
					nNC++
					if firstNC == token.NoPos || fnode.Pos() < firstNC {
						firstNC = fnode.Pos()
					}
					okRec := dc.FactsAt(fnode).Has(func(fa *Fact) bool { return fa.Kind == FTrue && dc.IsCall(fa.Call, "spec/tun.IsNoDirect") })
					c.Ob("classification", "DialClient#no-direct-recorded", fnode.Pos(), okRec, "a route counts as 'client not connected' only when the dial error is a no-direct error")
					okNC = okNC && okRec
				default:
					other = true
				}
			}
			if nNF+nNC == 0 {
				continue
			}
			nclass += 2
			c.Ob("classification", "DialClient#not-connected-iff-some-no-direct", r.Pos(), !other && nNC >= 1 && okNC, "not-connected is reported when some route's client had no direct connection and none succeeded")
			c.Ob("classification", "DialClient#not-found-otherwise", r.Pos(), !other && nNF == 1 && okNF && (firstNC == token.NoPos || posNF < firstNC), "not-found is the fallback when no route reported no-direct")
		}
	}
	c.Floor("DialClient classification returns", nclass, 2)
	c.Note("O1: when routes exist and every dial fails with an error other than no-direct, DialClient answers ErrDestinationNotFound (the 'fallback'); the statement's 'not-connected when none of their clients is reachable' can be read either way; not armed.")

	// getConn
	gc := srvFn(c, "getConn")
	dials := gc.Calls(false, func(call *ast.CallExpr) bool { return gc.IsCall(call, "*.DialStream") })
	c.Floor("getConn dial sites", len(dials), 2)
	sameAddr := func(g *Fn, be *ast.BinaryExpr) bool {
		l, r := g.Prov(be.X), g.Prov(be.Y)
		a, b := ".GetTunnelDestination().GetAddress()", "recv.TunnelTransport.Identity().GetAddress()"
		return (strings.HasSuffix(l, a) && r == b) || (strings.HasSuffix(r, a) && l == b)
	}
	for _, d := range dials {
		kind := constName(gc, d.Args[2])
		fs := gc.FactsAt(d)
		isLocal := fs.Cmp(func(e, tag ast.Expr, truth bool, fa *Fact) bool {
			be, ok := e.(*ast.BinaryExpr)
			return ok && sameAddr(gc, be) && ((be.Op == token.EQL && truth) || (be.Op == token.NEQ && !truth))
		})
		isRemote := fs.Cmp(func(e, tag ast.Expr, truth bool, fa *Fact) bool {
			be, ok := e.(*ast.BinaryExpr)
			return ok && sameAddr(gc, be) && ((be.Op == token.EQL && !truth) || (be.Op == token.NEQ && truth))
		})
		switch kind {
		case "Stream_DIRECT":
			c.Ob("getconn", "getConn#direct-iff-local", d.Pos(), isLocal && gc.Prov(d.Args[1]) == "param#1.GetClientDestination()", "the client is dialled directly only when the route's tunnel server is this node, and the dialled peer is the route's client")
		case "Stream_PROXY":
			c.Ob("getconn", "getConn#proxy-iff-remote", d.Pos(), isRemote && gc.Prov(d.Args[1]) == "param#1.GetChordDestination()", "otherwise a proxy stream to the route's chord node is opened")
		default:
			c.Ob("getconn", "getConn#dial-kind:"+kind, d.Pos(), false, "unexpected stream kind")
		}
	}
	// the remote status is read from the path facts at each return (a switch on the status
	// and an if-chain are decided alike)
	isStatus := func(e ast.Expr) bool { return strings.HasSuffix(gc.Prov(e), ".GetStatus()") }
	okCases := map[string]bool{}
	for _, r := range gc.Returns() {
		fs := gc.FactsAt(r)
		pos, neg := fs.EqConsts(gc, isStatus)
		is := func(name string) bool {
			for _, k := range pos {
				if k == name {
					return true
				}
			}
			return false
		}
		if is("TunnelStatusCode_STATUS_OK") {
			okCases["TunnelStatusCode_STATUS_OK"] = true
			c.Ob("getconn", "getConn#STATUS_OK->conn", r.Pos(), strings.Contains(gc.Prov(r.Results[0]), "DialStream()#0") && isNilIdent(gc.Info, r.Results[1]) && fs.CallOK("spec/rpc.Send") && fs.CallOK("spec/rpc.BoundedReceive"), "the proxied connection is handed out only after the route was sent and the remote answered STATUS_OK")
		}
		if is("TunnelStatusCode_NO_DIRECT") {
			okCases["TunnelStatusCode_NO_DIRECT"] = true
			c.Ob("getconn", "getConn#NO_DIRECT->not-connected", r.Pos(), gc.Prov(r.Results[1]) == "global:spec/tun.ErrTunnelClientNotConnected", "a remote NO_DIRECT status becomes ErrTunnelClientNotConnected")
		}
		if len(pos) == 0 && len(neg) > 0 && len(r.Results) == 2 {
			// any other status: never a connection
			c.Ob("getconn", "getConn#other-status->error", r.Pos(), isNilIdent(gc.Info, r.Results[0]) && !isNilIdent(gc.Info, r.Results[1]), "a status other than STATUS_OK never yields a connection")
		}
		// a connection obtained through the proxy is returned only under STATUS_OK
		if len(r.Results) == 2 && strings.Contains(gc.Prov(r.Results[0]), "DialStream()#0") && isNilIdent(gc.Info, r.Results[1]) && fs.CallOK("spec/rpc.Send") {
			c.Ob("getconn", "getConn#proxied-conn-only-under-STATUS_OK", r.Pos(), is("TunnelStatusCode_STATUS_OK"), "the proxied connection is returned as usable only when the remote reported STATUS_OK")
		}
	}
	c.Ob("getconn", "getConn#status-cases", gc.Decl.Pos(), okCases["TunnelStatusCode_STATUS_OK"] && okCases["TunnelStatusCode_NO_DIRECT"], "both remote status codes are distinguished")
	for _, call := range gc.CallsTo(false, "spec/rpc.Send") {
		c.Ob("getconn", "getConn#sends-route", call.Pos(), gc.Prov(call.Args[1]) == "param#1", "the proxy peer is told which route (client) to connect to")
	}

	// handleProxyConn
	hp := srvFn(c, "handleProxyConn")
	for _, d := range hp.Calls(false, func(call *ast.CallExpr) bool { return hp.IsCall(call, "*.DialStream") }) {
		ok := hp.FactsAt(d).Cmp(func(e, tag ast.Expr, truth bool, fa *Fact) bool {
			be, ok := e.(*ast.BinaryExpr)
			if !ok {
				return false
			}
			l, r := hp.Prov(be.X), hp.Prov(be.Y)
			m := strings.HasSuffix(l, ".GetTunnelDestination().GetAddress()") && r == "recv.TunnelTransport.Identity().GetAddress()"
			return m && ((be.Op == token.NEQ && !truth) || (be.Op == token.EQL && truth))
		})
		c.Ob("proxy", "handleProxyConn#dial-only-for-own-address", d.Pos(), ok && hp.FactsAt(d).CallOK("spec/rpc.BoundedReceive"), "a proxied request is served only when its route names this node as the tunnel server, after the route was received")
		c.Ob("proxy", "handleProxyConn#dials-route-client", d.Pos(), strings.HasSuffix(hp.Prov(d.Args[1]), ".GetClientDestination()") && constName(hp, d.Args[2]) == "Stream_DIRECT", "the dialled peer is the received route's client")
	}
	// deferred status frame first
	okDefer := false
	for _, st := range hp.Body.List {
		d, ok := st.(*ast.DeferStmt)
		if !ok {
			continue
		}
		if lit, ok := d.Call.Fun.(*ast.FuncLit); ok && len(lit.Body.List) > 0 {
			if es, ok := lit.Body.List[0].(*ast.ExprStmt); ok {
				if call, ok := es.X.(*ast.CallExpr); ok && hp.IsCall(call, "spec/tun.SendStatusProto") {
					g := hp.Closure(lit)
					okDefer = g.Prov(call.Args[0]) == "param#1" && g.varOf(call.Args[1]) != nil
					// close on error, pipe otherwise
					closes := methodCalls(g, false, "Close")
					pipes := g.CallsTo(false, "spec/tun.Pipe")
					okC := len(closes) == 1 && g.FactsAt(closes[0]).Cmp(func(e, tag ast.Expr, truth bool, fa *Fact) bool {
						be, ok := e.(*ast.BinaryExpr)
						return ok && !fa.Inherited && truth && be.Op == token.NEQ && isNilIdent(g.Info, be.Y)
					})
					okP := len(pipes) == 1 && g.FactsAt(pipes[0]).Cmp(func(e, tag ast.Expr, truth bool, fa *Fact) bool {
						be, ok := e.(*ast.BinaryExpr)
						return ok && !fa.Inherited && !truth && be.Op == token.NEQ && isNilIdent(g.Info, be.Y)
					})
					c.Ob("proxy", "handleProxyConn#close-on-error-pipe-otherwise", d.Pos(), okC && okP, "on error the stream is closed, otherwise it is piped to the client connection")
				}
			}
		}
		break
	}
	c.Ob("proxy", "handleProxyConn#status-frame-on-every-exit", hp.Decl.Pos(), okDefer, "the first statement defers sending the status frame built from the function's error, so every exit reports a status")
	// the early exits set err
	for _, r := range hp.Returns() {
		fs := hp.FactsAt(r)
		if fs.Cmp(func(e, tag ast.Expr, truth bool, fa *Fact) bool {
			be, ok := e.(*ast.BinaryExpr)
			return ok && truth && be.Op == token.NEQ && strings.HasSuffix(hp.Prov(be.X), ".GetTunnelDestination().GetAddress()")
		}) {
			// err assigned a sentinel before returning
			okSet := false
			for _, as := range assignsTo(hp, "err") {
				if hp.Prov(as.Rhs[0]) == "global:spec/tun.ErrDestinationNotFound" {
					reached, _ := hp.Reach(as, nil, nil)
					for _, n := range reached {
						if n == ast.Node(r) {
							okSet = true
						}
					}
				}
			}
			c.Ob("proxy", "handleProxyConn#wrong-destination-reports-error", r.Pos(), okSet, "a request for another server is answered with an error status, not served")
		}
	}
}

// ---------------------------------------------------------------------------------------

func runC28(c *Ctx) {
	ld := srvFn(c, "routeCacheLoader")
	// The three counters are identified by their roles, not their names: the total is the
	// variable (or constant) worth NumRedundantLinks; the not-found counter is the one
	// incremented where the job's error is known to be fs.ErrNotExist; the error counter the
	// one incremented where it is known to be neither nil nor fs.ErrNotExist.
	// known(fs, isSubj, isVal): +1 the facts say subj == val, -1 they say subj != val, 0 neither
	// (comparisons in either operand order, either polarity, or a tagged switch on subj).
	known := func(g *Fn, fs *FactSet, isSubj, isVal func(e ast.Expr) bool) int {
		res := 0
		fs.Cmp(func(e, tag ast.Expr, truth bool, fa *Fact) bool {
			if tag != nil {
				if isSubj(tag) && isVal(e) || isSubj(e) && isVal(tag) {
					if truth {
						res = 1
					} else if res == 0 {
						res = -1
					}
				}
				return false
			}
			be, ok := ast.Unparen(e).(*ast.BinaryExpr)
			if !ok || be.Op != token.EQL && be.Op != token.NEQ {
				return false
			}
			if !(isSubj(be.X) && isVal(be.Y) || isSubj(be.Y) && isVal(be.X)) {
				return false
			}
			if (be.Op == token.EQL) == truth {
				res = 1
			} else if res == 0 {
				res = -1
			}
			return false
		})
		return res
	}
	isJobErr := func(e ast.Expr) bool { return strings.Contains(ld.enclosing(e).Prov(e), "promise.All()#1") }
	isNotExist := func(e ast.Expr) bool { return ld.enclosing(e).Prov(e) == "global:io/fs.ErrNotExist" }
	isNilE := func(e ast.Expr) bool { return isNilIdent(ld.Info, e) }
	var notFoundVar, errorVar *types.Var
	// only the classification loop over the jobs' errors counts outcomes
	inErrLoop := func(n ast.Node) bool {
		in := false
		ast.Inspect(ld.Body, func(x ast.Node) bool {
			if rs, ok := x.(*ast.RangeStmt); ok && containsNode(rs.Body, n) && strings.Contains(ld.enclosing(rs).Prov(rs.X), "promise.All()#1") {
				in = true
			}
			return !in
		})
		return in
	}
	nc := 0
	ast.Inspect(ld.Body, func(x ast.Node) bool {
		inc, ok := x.(*ast.IncDecStmt)
		if !ok || inc.Tok != token.INC {
			return true
		}
		v := ld.enclosing(inc).varOf(inc.X)
		if v == nil || !inErrLoop(inc) {
			return true
		}
		fs := ld.FactsAt(inc)
		g := ld.enclosing(inc)
		switch {
		case known(g, fs, isJobErr, isNotExist) == 1:
			nc++
			notFoundVar = v
			c.Ob("loader", "routeCacheLoader#count-not-found", inc.Pos(), true, "the not-found counter counts the slots whose job reported fs.ErrNotExist")
		case known(g, fs, isJobErr, isNotExist) == -1 && known(g, fs, isJobErr, isNilE) == -1:
			nc++
			errorVar = v
			c.Ob("loader", "routeCacheLoader#count-error", inc.Pos(), true, "the error counter counts the slots whose job reported any other error")
		default:
			c.Ob("loader", "routeCacheLoader#count:"+v.Name(), inc.Pos(), false, "a counter is incremented where the job's error is neither known to be fs.ErrNotExist nor known to be another non-nil error")
		}
		return true
	})
	c.Floor("loader counters", nc, 2)
	// the job table has NumRedundantLinks entries, and promise.All answers with one
	// outcome per job: the length of the table, of the outcomes or of the errors is
	// the total as well.
	isJobTable := func(g *Fn, e ast.Expr) bool {
		lv := g.varOf(e)
		if lv == nil {
			return false
		}
		defs := g.defsOf(lv)
		if len(defs) != 1 || defs[0].multi {
			return false
		}
		mk, ok := ast.Unparen(defs[0].rhs).(*ast.CallExpr)
		if !ok || len(mk.Args) != 2 {
			return false
		}
		if id, ok := mk.Fun.(*ast.Ident); !ok || id.Name != "make" || g.Info.Uses[id] != types.Universe.Lookup("make") {
			return false
		}
		v, ok := g.enclosing(mk).ConstVal(mk.Args[1])
		return ok && v == "3"
	}
	onePerJob := func() bool {
		all := c.Func("util/promise", "", "All")
		rets := all.Returns()
		if len(rets) == 0 {
			return false
		}
		for _, r := range rets {
			if len(r.Results) != 2 {
				return false
			}
			for _, res := range r.Results {
				lv := all.varOf(res)
				if lv == nil {
					return false
				}
				defs := all.defsOf(lv)
				if len(defs) != 1 || defs[0].multi {
					return false
				}
				mk, ok := ast.Unparen(defs[0].rhs).(*ast.CallExpr)
				if !ok || len(mk.Args) != 2 {
					return false
				}
				if id, ok := mk.Fun.(*ast.Ident); !ok || id.Name != "make" {
					return false
				}
				if !isLenOf(all, mk.Args[1], func(x ast.Expr) bool { return all.Prov(x) == "param#1" }) {
					return false
				}
			}
		}
		return true
	}
	isTotal := func(e ast.Expr) bool {
		g := ld.enclosing(e)
		if v, ok := g.ConstVal(e); ok {
			return v == "3"
		}
		if isLenOf(g, e, func(x ast.Expr) bool {
			if isJobTable(g, x) {
				return true
			}
			if pv := g.Prov(x); pv == "call:util/promise.All()#0" || pv == "call:util/promise.All()#1" {
				for _, call := range ld.CallsTo(true, "util/promise.All") {
					if !call.Ellipsis.IsValid() || len(call.Args) != 2 || !isJobTable(g.enclosing(call), call.Args[1]) {
						return false
					}
				}
				return onePerJob()
			}
			return false
		}) {
			return true
		}
		if lv := g.varOf(e); lv != nil {
			defs := g.defsOf(lv)
			if len(defs) == 1 && defs[0].rhs != nil && !defs[0].multi {
				v, ok := g.enclosing(defs[0].rhs).ConstVal(defs[0].rhs)
				return ok && v == "3"
			}
		}
		return false
	}
	isVar := func(v *types.Var) func(e ast.Expr) bool {
		return func(e ast.Expr) bool { return v != nil && ld.enclosing(e).varOf(e) == v }
	}
	// allEmpty / allErrored: what the facts at a node say about total == counter
	allEmpty := func(fs *FactSet) int { return known(ld, fs, isTotal, isVar(notFoundVar)) }
	allErrored := func(fs *FactSet) int { return known(ld, fs, isTotal, isVar(errorVar)) }
	n := 0
	ast.Inspect(ld.Body, func(x ast.Node) bool {
		as, ok := x.(*ast.AssignStmt)
		if !ok || len(as.Lhs) != 1 || ld.enclosing(as) != ld {
			return true
		}
		lhs := types_ExprString(as.Lhs[0])
		if i := strings.Index(lhs, "."); i >= 0 && ld.paramOrResult(as.Lhs[0]) {
			lhs = "ret" + lhs[i:]
		}
		rhs := ld.Prov(as.Rhs[0])
		rc := constName(ld, as.Rhs[0])
		fs := ld.FactsAt(as)
		switch {
		case lhs == "ret.Value.err" && rhs == "global:spec/tun.ErrDestinationNotFound":
			n++
			c.Ob("loader", "routeCacheLoader#not-found-iff-all-empty", as.Pos(), allEmpty(fs) == 1, "not-found exactly when every slot was empty")
		case lhs == "ret.Value.err" && rhs == "global:spec/tun.ErrLookupFailed":
			n++
			c.Ob("loader", "routeCacheLoader#failed-iff-all-errored", as.Pos(), allErrored(fs) == 1 && allEmpty(fs) == -1, "lookup-failed exactly when every slot errored")
		case lhs == "ret.TTL" && rc == "routeNegativeTTL":
			n++
			c.Ob("loader", "routeCacheLoader#negative-ttl", as.Pos(), allEmpty(fs) == 1, "the negative TTL is used for the not-found result")
		case lhs == "ret.TTL" && rc == "routeFailedTTL":
			n++
			c.Ob("loader", "routeCacheLoader#failed-ttl", as.Pos(), allErrored(fs) == 1, "the failed TTL is used for the lookup-failed result")
		case lhs == "ret.TTL" && rc == "routePositiveTTL":
			n++
			c.Ob("loader", "routeCacheLoader#positive-ttl", as.Pos(), allEmpty(fs) == -1 && allErrored(fs) == -1, "the positive TTL is used only when routes are returned")
		case lhs == "ret.TTL":
			c.Ob("loader", "routeCacheLoader#ttl:"+types_ExprString(as.Rhs[0]), as.Pos(), false, "unexpected TTL assignment")
		case lhs == "ret.Value.routes":
			n++
			// filtered in place by slices.DeleteFunc: what is kept comes from its
			// first argument
			for _, dcall := range ld.CallsTo(false, "slices.DeleteFunc") {
				if rhs == "call:slices.DeleteFunc()" && len(dcall.Args) == 2 {
					rhs = ld.Prov(dcall.Args[0])
				}
			}
			c.Ob("loader", "routeCacheLoader#routes-result", as.Pos(), allEmpty(fs) == -1 && allErrored(fs) == -1 && strings.Contains(rhs, "promise.All()#0"), "routes are returned only when neither all-empty nor all-errored; found "+rhs)
		}
		return true
	})
	c.Floor("loader result assignments", n, 6)
	// every result carries an explicit TTL: the cache treats the zero TTL as "never
	// expires", so an exit that skipped the assignment caches its (negative, failed or
	// positive) result for ever
	_, noTTL := ld.Reach(nil, func(m ast.Node) bool {
		as, ok := m.(*ast.AssignStmt)
		return ok && len(as.Lhs) == 1 && types_ExprString(as.Lhs[0]) == "ret.TTL"
	}, nil)
	var at token.Pos = ld.Decl.Pos()
	if len(noTTL) > 0 && noTTL[0].Ret != nil {
		at = noTTL[0].Ret.Pos()
	}
	c.Ob("loader", "routeCacheLoader#every-exit-sets-a-ttl", at, len(noTTL) == 0, fmt.Sprintf("on every path to every exit ret.TTL is assigned (a zero TTL means no expiry in the cache: the result would outlive even the positive ones); %d exit(s) reachable without an assignment", len(noTTL)))
	// the total and the job table
	okLookup := false
	for _, nd := range shallowNodes(ld.Body) {
		if be, ok := nd.(*ast.BinaryExpr); ok && (be.Op == token.EQL || be.Op == token.NEQ) {
			if isTotal(be.X) && (isVar(notFoundVar)(be.Y) || isVar(errorVar)(be.Y)) || isTotal(be.Y) && (isVar(notFoundVar)(be.X) || isVar(errorVar)(be.X)) {
				okLookup = true
			}
		}
		if sw, ok := nd.(*ast.SwitchStmt); ok && sw.Tag != nil && isTotal(sw.Tag) {
			okLookup = true
		}
	}
	c.Ob("loader", "routeCacheLoader#numLookup==NumRedundantLinks", ld.Decl.Pos(), okLookup, "the number of looked-up slots is NumRedundantLinks (3)")
	for _, call := range ld.CallsTo(true, "spec/tun.RoutingKey") {
		g := ld.enclosing(call)
		pv := g.Prov(call.Args[1])
		// k := i + 1 with i ranging over the job slice of length NumRedundantLinks
		c.Ob("loader", "routeCacheLoader#slot-keys-1..N", call.Pos(), g.Prov(call.Args[0]) == "param#1" && strings.HasSuffix(pv, "+const:1)") && strings.Contains(pv, "#0"), "jobs read RoutingKey(hostname, index+1); found ("+g.Prov(call.Args[0])+", "+pv+")")
		// empty slot -> bare fs.ErrNotExist
		okEmpty := false
		for _, r := range g.Returns() {
			if len(r.Results) == 2 && g.Prov(r.Results[1]) == "global:io/fs.ErrNotExist" {
				okEmpty = g.FactsAt(r).Cmp(func(e, tag ast.Expr, truth bool, fa *Fact) bool {
					be, ok := e.(*ast.BinaryExpr)
					if !ok || !truth {
						return false
					}
					v, _ := g.ConstVal(be.Y)
					return be.Op == token.EQL && v == "0" && isLenOf(g, be.X, func(ast.Expr) bool { return true })
				})
			}
		}
		c.Ob("loader", "routeCacheLoader#empty-slot-is-bare-ErrNotExist", call.Pos(), okEmpty, "an empty slot is reported as the bare fs.ErrNotExist sentinel (the loader classifies with ==)")
	}
	// nil routes filtered
	nFilter := 0
	for _, dcall := range ld.CallsTo(false, "slices.DeleteFunc") {
		ok := false
		if lit, isLit := ast.Unparen(dcall.Args[1]).(*ast.FuncLit); isLit && len(lit.Body.List) == 1 {
			if r, isRet := lit.Body.List[0].(*ast.ReturnStmt); isRet && len(r.Results) == 1 {
				g := ld.Closure(lit)
				if be, isBin := ast.Unparen(r.Results[0]).(*ast.BinaryExpr); isBin && be.Op == token.EQL {
					ok = isNilIdent(ld.Info, be.Y) && g.Prov(be.X) == "lit.param#0" || isNilIdent(ld.Info, be.X) && g.Prov(be.Y) == "lit.param#0"
				}
			}
		}
		c.Ob("loader", "routeCacheLoader#nil-routes-filtered", dcall.Pos(), ok, "only successfully decoded (non-nil) routes are kept: the deletion predicate is 'the route is nil'")
		nFilter++
	}
	for _, call := range ld.Calls(false, func(call *ast.CallExpr) bool {
		id, ok := call.Fun.(*ast.Ident)
		return ok && id.Name == "append"
	}) {
		ok := ld.FactsAt(call).Cmp(func(e, tag ast.Expr, truth bool, fa *Fact) bool {
			be, ok := e.(*ast.BinaryExpr)
			return ok && truth && be.Op == token.NEQ && isNilIdent(ld.Info, be.Y)
		})
		c.Ob("loader", "routeCacheLoader#nil-routes-filtered", call.Pos(), ok, "only successfully decoded (non-nil) routes are kept")
		nFilter++
	}
	c.Floor("loader nil-route filter sites", nFilter, 1)
	// TTL order
	sc := c.P("tun/server").Types.Scope()
	val := func(n string) *big.Int {
		k, _ := sc.Lookup(n).(*types.Const)
		if k == nil {
			c.Failf("anchor unresolved: %s", n)
		}
		v, _ := constToVal(k.Val()).(*big.Int)
		return v
	}
	f, ng, p := val("routeFailedTTL"), val("routeNegativeTTL"), val("routePositiveTTL")
	c.Ob("ttl-order", "failed<negative<positive", token.NoPos, f.Cmp(ng) < 0 && ng.Cmp(p) < 0 && f.Sign() > 0, fmt.Sprintf("routeFailedTTL=%v < routeNegativeTTL=%v < routePositiveTTL=%v", f, ng, p))
	// comparator
	var cmpLit *ast.FuncLit
	for _, call := range ld.CallsTo(false, "sort.SliceStable", "sort.Slice", "slices.SortStableFunc") {
		if len(call.Args) == 2 {
			cmpLit, _ = call.Args[1].(*ast.FuncLit)
		}
	}
	if cmpLit == nil {
		c.Ob("comparator", "routes#sorted-by-locality", ld.Decl.Pos(), false, "the routes are put in local-first order by a stable sort with a comparator literal; no such sort was found (another reordering idiom is undecided: e.g. moving only the first local route forward leaves a second local route behind a remote one)")
		return
	}
	g := ld.Closure(cmpLit)
	type val2 struct{ li, lj bool }
	res := map[val2]bool{}
	for _, v := range []val2{{true, true}, {true, false}, {false, true}, {false, false}} {
		ext := func(f *Fn, call *ast.CallExpr, recv Val, args []Val) (Val, bool) {
			pv := f.Prov(call)
			if !strings.HasSuffix(pv, ".GetAddress()") {
				return nil, false
			}
			switch {
			case strings.Contains(pv, "recv.TunnelTransport.Identity()"):
				return "local", true
			case strings.Contains(pv, "[lit.param#0]"):
				if v.li {
					return "local", true
				}
				return "remote-i", true
			case strings.Contains(pv, "[lit.param#1]"):
				if v.lj {
					return "local", true
				}
				return "remote-j", true
			}
			return nil, false
		}
		out, err := g.EvalFn([]Val{big.NewInt(0), big.NewInt(1)}, ext)
		if err != nil {
			c.Failf("route comparator not evaluable: %v", err)
		}
		res[v], _ = out[0].(bool)
	}
	c.Ob("comparator", "routes#local-before-remote", cmpLit.Pos(), res[val2{true, false}], "less(local, remote) must be true")
	c.Ob("comparator", "routes#remote-not-before-local", cmpLit.Pos(), !res[val2{false, true}], "less(remote, local) must be false")
	c.Ob("comparator", "routes#remote-remote-stable", cmpLit.Pos(), !res[val2{false, false}], "less(remote, remote) must be false (stable order among remote routes)")
	c.Extra("comparator_table", fmt.Sprintf("less(L,L)=%v less(L,R)=%v less(R,L)=%v less(R,R)=%v", res[val2{true, true}], res[val2{true, false}], res[val2{false, true}], res[val2{false, false}]))
	c.Extra("exhaustive_comparator_valuations", 4)
}

// ---------------------------------------------------------------------------------------

func runC31(c *Ctx) {
	vs := c.Func("spec/pow", "", "VerifySolution")
	lenEq := func(getter, constant string) factReq {
		return factReq{"len(req." + getter + "()) == " + constant, cmpFalse(func(g *Fn, be *ast.BinaryExpr) bool {
			call, ok := ast.Unparen(be.X).(*ast.CallExpr)
			if !ok || be.Op != token.NEQ || len(call.Args) != 1 {
				return false
			}
			return g.Prov(call.Args[0]) == "param#0."+getter+"()" && constName(g, be.Y) == constant
		})}
	}
	sr := successReturns(vs)
	c.Floor("VerifySolution success returns", len(sr), 1)
	for _, r := range sr {
		requireAt(c, "pow-gate", "VerifySolution#success", vs, r, "a proof is accepted only after every check passed",
			lenEq("GetPubKey", "PublicKeySize"), lenEq("GetSignature", "SignatureSize"),
			factReq{"solution non-empty", func(g *Fn, fs *FactSet) bool {
				isSol := func(e ast.Expr) bool { return g.Prov(e) == "param#0.GetSolution()" }
				// len(s) == 0 false, len(s) != 0 / > 0 true, s == "" false, s != "" true
				return fs.Cmp(func(e, tag ast.Expr, truth bool, fa *Fact) bool {
					be, ok := ast.Unparen(e).(*ast.BinaryExpr)
					if !ok || tag != nil {
						return false
					}
					x, y, op := be.X, be.Y, be.Op
					if v, okc := g.ConstVal(x); okc && (v == "0" || v == `""`) {
						// constant on the left: mirror
						x, y = y, x
						switch op {
						case token.LSS:
							op = token.GTR
						case token.GTR:
							op = token.LSS
						case token.LEQ:
							op = token.GEQ
						case token.GEQ:
							op = token.LEQ
						}
					}
					v, okc := g.ConstVal(y)
					if !okc {
						return false
					}
					switch {
					case v == "0" && isLenOf(g, x, isSol), v == `""` && isSol(x):
						switch op {
						case token.EQL, token.LEQ:
							return !truth
						case token.NEQ, token.GTR:
							return truth
						}
					}
					return false
				})
			}},
			factReq{"ed25519.Verify", func(g *Fn, fs *FactSet) bool {
				return fs.Has(func(fa *Fact) bool {
					if fa.Kind != FTrue || !g.IsCall(fa.Call, "crypto/ed25519.Verify") {
						return false
					}
					a := fa.Call.Args
					return g.Prov(a[0]) == "param#0.GetPubKey()" && g.Prov(a[1]) == "param#0.GetSolution()" && g.Prov(a[2]) == "param#0.GetSignature()"
				})
			}},
			reqCallOK("util/hashcash.Parse"),
			factReq{"difficulty equal", cmpFalse(func(g *Fn, be *ast.BinaryExpr) bool {
				return be.Op == token.NEQ && strings.HasSuffix(g.Prov(be.X), ".Difficulty") && g.Prov(be.Y) == "param#1.Difficulty"
			})},
			factReq{"expiry non-zero", func(g *Fn, fs *FactSet) bool {
				return fs.Has(func(fa *Fact) bool {
					return fa.Kind == FFalse && strings.HasSuffix(g.Prov(fa.Call), ".ExpiresAt.IsZero()")
				})
			}},
			factReq{"|now-exp| <= 2*Expires", cmpFalse(func(g *Fn, be *ast.BinaryExpr) bool {
				l := g.Prov(be.X)
				okR := false
				if m, ok := ast.Unparen(be.Y).(*ast.BinaryExpr); ok && m.Op == token.MUL {
					v, _ := g.ConstVal(m.Y)
					okR = g.Prov(m.X) == "param#1.Expires" && v == "2"
				}
				return be.Op == token.GTR && l == "call:time.Since().Abs()" && okR
			})},
			reqCallOK("util/hashcash.Hashcash.Verify"))
	}
	for _, call := range vs.CallsTo(false, "util/hashcash.Parse") {
		c.Ob("pow-gate", "VerifySolution#parses-signed-solution", call.Pos(), vs.Prov(call.Args[0]) == "param#0.GetSolution()", "the parsed stamp is the signed solution")
	}
	for _, call := range vs.CallsTo(false, "util/hashcash.Hashcash.Verify") {
		c.Ob("pow-gate", "VerifySolution#subject-of-presented-key", call.Pos(), vs.Prov(call.Args[0]) == "param#1.GetSubject()", "the expected subject is derived from the presented key; found "+vs.Prov(call.Args[0]))
	}
	for _, call := range vs.Calls(false, func(call *ast.CallExpr) bool {
		se, ok := call.Fun.(*ast.SelectorExpr)
		return ok && se.Sel.Name == "GetSubject"
	}) {
		c.Ob("pow-gate", "VerifySolution#GetSubject(request key)", call.Pos(), vs.Prov(call.Args[0]) == "param#0.GetPubKey()", "the subject callback receives the request's key")
	}
	for _, call := range vs.CallsTo(false, "time.Since") {
		c.Ob("pow-gate", "VerifySolution#window-on-stamp-expiry", call.Pos(), strings.HasSuffix(vs.Prov(call.Args[0]), ".ExpiresAt"), "the window is measured against the stamp's own expiry")
	}
	// Hashcash.Verify
	hv := c.Func("util/hashcash", "Hashcash", "Verify")
	hsr := successReturns(hv)
	c.Floor("Hashcash.Verify success returns", len(hsr), 1)
	for _, r := range hsr {
		requireAt(c, "hashcash-gate", "Hashcash.Verify#success", hv, r, "a stamp verifies only with the supported algorithm, unexpired, for the expected subject and passing the bit test",
			factReq{"alg == SHA-256", cmpFalse(func(g *Fn, be *ast.BinaryExpr) bool {
				v, _ := g.ConstVal(be.X)
				return be.Op == token.NEQ && v == "\"SHA-256\"" && g.Prov(be.Y) == "recv.Alg"
			})},
			factReq{"subject equal", cmpFalse(func(g *Fn, be *ast.BinaryExpr) bool {
				return be.Op == token.NEQ && ((g.Prov(be.X) == "param#0" && g.Prov(be.Y) == "recv.Subject") || (g.Prov(be.Y) == "param#0" && g.Prov(be.X) == "recv.Subject"))
			})},
			factReq{"not expired", func(g *Fn, fs *FactSet) bool {
				// the test "the stamp has an expiry and it lies in the past" is known false;
				// the past-test in any of its spellings: ExpiresAt.Sub(now) < 0,
				// time.Until(ExpiresAt) < 0, now.After(ExpiresAt), ExpiresAt.Before(now),
				// time.Since(ExpiresAt) > 0
				isExp := func(e ast.Expr) bool { return g.Prov(e) == "recv.ExpiresAt" }
				isNow := func(e ast.Expr) bool {
					call, ok := ast.Unparen(e).(*ast.CallExpr)
					return ok && g.IsCall(call, "time.Now")
				}
				inPast := func(e ast.Expr) bool {
					e = ast.Unparen(e)
					if call, ok := e.(*ast.CallExpr); ok {
						if se, ok := call.Fun.(*ast.SelectorExpr); ok && len(call.Args) == 1 {
							switch {
							case g.IsCall(call, "time.Time.After") && isNow(se.X) && isExp(call.Args[0]):
								return true
							case g.IsCall(call, "time.Time.Before") && isExp(se.X) && isNow(call.Args[0]):
								return true
							}
						}
						return false
					}
					be, ok := e.(*ast.BinaryExpr)
					if !ok {
						return false
					}
					v, _ := g.ConstVal(be.Y)
					call, isCall := ast.Unparen(be.X).(*ast.CallExpr)
					if v != "0" || !isCall || len(call.Args) != 1 {
						return false
					}
					switch {
					case be.Op == token.LSS && g.IsCall(call, "time.Until") && isExp(call.Args[0]):
						return true
					case be.Op == token.GTR && g.IsCall(call, "time.Since") && isExp(call.Args[0]):
						return true
					case be.Op == token.LSS && g.IsCall(call, "time.Time.Sub"):
						se := call.Fun.(*ast.SelectorExpr)
						return isExp(se.X) && isNow(call.Args[0])
					}
					return false
				}
				return fs.Cmp(func(e, tag ast.Expr, truth bool, fa *Fact) bool {
					if truth || tag != nil {
						return false
					}
					for _, cj := range conjuncts(e) {
						if inPast(cj) {
							return true // (possibly guarded by !ExpiresAt.IsZero())
						}
					}
					return false
				})
			}},
			factReq{"verifyBits", func(g *Fn, fs *FactSet) bool {
				return fs.Has(func(fa *Fact) bool { return fa.Kind == FTrue && g.IsCall(fa.Call, "util/hashcash.verifyBits") })
			}})
	}
	// Solve / Verify derive (hash[:n], bits, n) identically
	sv := c.Func("util/hashcash", "Hashcash", "Solve")
	shape := func(fn *Fn) string {
		var s []string
		for _, call := range fn.CallsTo(false, "util/hashcash.verifyBits") {
			for _, a := range call.Args {
				s = append(s, fn.Prov(a))
			}
		}
		return strings.Join(s, " ; ")
	}
	a, b := shape(hv), shape(sv)
	c.Ob("hashcash-gate", "Solve/Verify#same-bit-test-arguments", sv.Decl.Pos(), a != "" && normalizeHashProv(a) == normalizeHashProv(b), fmt.Sprintf("solver and verifier call verifyBits with identically derived (prefix, bits, n): verify [%s] solve [%s]", a, b))

	// verifyBits exhaustive
	vb := c.Func("util/hashcash", "", "verifyBits")
	bad, why := bytesOnlyZeroAndShiftTested(vb)
	c.Ob("verifybits", "verifyBits#operand-discipline", vb.Decl.Pos(), bad == nil, "hash bytes are used only as `hash[i] == 0` / `hash[i] != 0` / `hash[i] >> k == 0`, so a byte matters only through its number of leading zero bits; offending use: "+nodeStr(c, bad)+" "+why)
	if bad != nil {
		return
	}
	reps := []int64{0, 1, 2, 4, 8, 16, 32, 64, 128, 255}
	lz := func(v int64) int {
		n := 0
		for b := 7; b >= 0; b-- {
			if v&(1<<uint(b)) != 0 {
				break
			}
			n++
		}
		return n
	}
	evals, nontrivial := 0, 0
	failures := 0
	var firstFail string
	for bits := 0; bits <= 26; bits++ {
		n := bits / 8
		if bits%8 > 0 {
			n++
		}
		// enumerate byte vectors of length n over the representatives
		idx := make([]int, n)
		for {
			hash := make([]Val, n)
			lead := 0
			counting := true
			for i := 0; i < n; i++ {
				v := reps[idx[i]]
				hash[i] = big.NewInt(v)
				if counting {
					lead += lz(v)
					if v != 0 {
						counting = false
					}
				}
			}
			got, err := vb.EvalFn([]Val{sliceVal(hash), big.NewInt(int64(bits)), big.NewInt(int64(n))}, nil)
			if err != nil {
				c.Failf("verifyBits not evaluable: %v", err)
			}
			evals++
			want := lead >= bits
			if bits > 0 {
				nontrivial++
			}
			if g, _ := got[0].(bool); g != want {
				failures++
				if firstFail == "" {
					firstFail = fmt.Sprintf("bits=%d hash prefix=%v (leading zero bits %d): verifyBits=%v, expected %v", bits, hash, lead, g, want)
				}
			}
			// next vector
			k := n - 1
			for k >= 0 {
				idx[k]++
				if idx[k] < len(reps) {
					break
				}
				idx[k] = 0
				k--
			}
			if k < 0 {
				break
			}
		}
	}
	c.Ob("verifybits", "verifyBits#exhaustive(bits 0..26 x leading-zero classes)", vb.Decl.Pos(), failures == 0, fmt.Sprintf("%d evaluations, %d disagreements with 'leading zero bits >= bits'. %s", evals, failures, firstFail))
	c.Extra("verifybits_evaluations", evals)
	c.Extra("verifybits_nontrivial", nontrivial)
	c.Extra("exhaustive", true)
}

func normalizeHashProv(s string) string {
	// both sides compute sha256.Sum256(...)[:n]; the hashed text differs by construction
	// (h.String() vs prefix+Sep+solution), so compare the shape after the hash call
	parts := strings.Split(s, " ; ")
	for i, p := range parts {
		if j := strings.Index(p, "sha256.Sum256()"); j >= 0 {
			parts[i] = p[j:]
		}
	}
	return strings.Join(parts, " ; ")
}

// ---------------------------------------------------------------------------------------

func runC32(c *Ctx) {
	rn := c.Func("pki", "Server", "RenewCertificate")
	gen := rn.CallsTo(false, "spec/pki.GenerateCertificate")
	c.Floor("RenewCertificate issue sites", len(gen), 1)
	for _, call := range gen {
		requireAt(c, "renew-gate", "RenewCertificate#issue", rn, call, "a renewed certificate is issued only after every check passed",
			reqCallOK("crypto/x509.ParseCertificate"),
			reqCallOK("crypto/x509.Certificate.Verify"),
			reqCallOK("spec/pki.ExtractCertificateIdentity"),
			factReq{"version != v1", cmpFalse(func(g *Fn, be *ast.BinaryExpr) bool {
				return be.Op == token.EQL && strings.HasSuffix(g.Prov(be.X), ".Version") && constName(g, be.Y) == "TokenV1"
			})},
			reqCallOK("spec/pow.VerifySolution"),
			factReq{"certificate key is ed25519", func(g *Fn, fs *FactSet) bool {
				return fs.Cmp(func(e, tag ast.Expr, truth bool, fa *Fact) bool {
					id, ok := e.(*ast.Ident)
					return ok && truth && strings.HasSuffix(g.Prov(id), ".PublicKey.(type)#1")
				})
			}},
			factReq{"proof key == certificate key", func(g *Fn, fs *FactSet) bool {
				return fs.Has(func(fa *Fact) bool {
					if fa.Kind != FTrue {
						return false
					}
					var a, b string
					switch {
					case g.IsCall(fa.Call, "bytes.Equal"):
						a, b = g.Prov(fa.Call.Args[0]), g.Prov(fa.Call.Args[1])
					case g.IsCall(fa.Call, "crypto/ed25519.PublicKey.Equal"):
						// key.Equal(other): the same byte comparison, in constant time
						se, ok := ast.Unparen(fa.Call.Fun).(*ast.SelectorExpr)
						if !ok {
							return false
						}
						a, b = g.Prov(se.X), g.Prov(fa.Call.Args[0])
					default:
						return false
					}
					isProof := func(s string) bool { return s == "call:spec/pow.VerifySolution()#0.PubKey" }
					isCert := func(s string) bool { return strings.HasSuffix(s, ".PublicKey.(type)#0") }
					return (isProof(a) && isCert(b)) || (isProof(b) && isCert(a))
				})
			}})
		// request fields
		ast.Inspect(call.Args[2], func(n ast.Node) bool {
			kv, ok := n.(*ast.KeyValueExpr)
			if !ok {
				return true
			}
			switch kv.Key.(*ast.Ident).Name {
			case "Subject":
				c.Ob("renew-provenance", "RenewCertificate#keeps-subject", kv.Pos(), strings.HasSuffix(rn.Prov(kv.Value), "x509.ParseCertificate()#0.Subject") && !strings.Contains(rn.Prov(kv.Value), "ClientCA"), "the renewed certificate keeps the old certificate's subject (identity); found "+rn.Prov(kv.Value))
			case "PublicKey":
				c.Ob("renew-provenance", "RenewCertificate#certifies-proof-key", kv.Pos(), rn.Prov(kv.Value) == "call:spec/pow.VerifySolution()#0.PubKey", "the certified key is the proof key (equal to the old key)")
			}
			return true
		})
	}
	// the verified certificate is the parsed request certificate, against the configured CA with ClientAuth
	for _, call := range rn.CallsTo(false, "crypto/x509.Certificate.Verify") {
		se := call.Fun.(*ast.SelectorExpr)
		okCert := strings.Contains(rn.Prov(se.X), "x509.ParseCertificate()#0")
		roots, usage := "", ""
		ast.Inspect(call.Args[0], func(n ast.Node) bool {
			if kv, ok := n.(*ast.KeyValueExpr); ok {
				switch kv.Key.(*ast.Ident).Name {
				case "Roots":
					roots = rn.Prov(kv.Value)
				case "KeyUsages":
					usage = types_ExprString(kv.Value)
				}
			}
			return true
		})
		c.Ob("renew-gate", "RenewCertificate#verify-against-client-CA", call.Pos(), okCert && roots == "call:crypto/x509.NewCertPool()" && strings.Contains(usage, "ExtKeyUsageClientAuth"), fmt.Sprintf("the presented certificate is verified against a pool (roots=%s) with ClientAuth usage (%s)", roots, usage))
	}
	okPool := false
	for _, call := range methodCalls(rn, false, "AddCert") {
		okPool = strings.Contains(rn.Prov(call.Args[0]), "x509.ParseCertificate()#0") && len(rn.CallsTo(false, "crypto/x509.ParseCertificate")) == 2
		var caParse *ast.CallExpr
		for _, pc := range rn.CallsTo(false, "crypto/x509.ParseCertificate") {
			if strings.Contains(rn.Prov(pc.Args[0]), "recv.ClientCA.Certificate") {
				caParse = pc
			}
		}
		okPool = okPool && caParse != nil
	}
	c.Ob("renew-gate", "RenewCertificate#pool-holds-configured-CA", rn.Decl.Pos(), okPool, "the verification pool contains the configured client CA certificate")
	for _, call := range rn.CallsTo(false, "spec/pki.ExtractCertificateIdentity") {
		c.Ob("renew-gate", "RenewCertificate#identity-of-presented-cert", call.Pos(), strings.Contains(rn.Prov(call.Args[0]), "x509.ParseCertificate()#0"), "the identity is extracted from the presented certificate")
	}

	// RequestCertificate
	rq := c.Func("pki", "Server", "RequestCertificate")
	for _, call := range rq.CallsTo(false, "spec/pki.GenerateCertificate") {
		requireAt(c, "issue-gate", "RequestCertificate#issue", rq, call, "a certificate is issued only after the proof of work verified", reqCallOK("spec/pow.VerifySolution"))
		ast.Inspect(call.Args[2], func(n ast.Node) bool {
			kv, ok := n.(*ast.KeyValueExpr)
			if !ok {
				return true
			}
			switch kv.Key.(*ast.Ident).Name {
			case "Subject":
				c.Ob("issue-provenance", "RequestCertificate#subject-v2", kv.Pos(), rq.Prov(kv.Value) == "call:spec/pki.MakeSubjectV2()", "the subject is MakeSubjectV2(...)")
			case "PublicKey":
				c.Ob("issue-provenance", "RequestCertificate#certifies-proof-key", kv.Pos(), rq.Prov(kv.Value) == "call:spec/pow.VerifySolution()#0.PubKey", "the certified key is the proof key")
			}
			return true
		})
	}
	for _, call := range rq.CallsTo(false, "spec/pki.MakeSubjectV2") {
		// the hash handed to MakeSubjectV2 is sha256 of the key the proof's subject callback
		// receives: every value the argument can hold (besides the zero it starts as) comes
		// from crypto/sha256, and every sha256 computation in the function is fed exactly the
		// callback's key parameter (New/Write/Sum and the one-shot Sum256 are alike)
		okHash := true
		nsha := 0
		for _, alt := range splitAlts(rq.Prov(call.Args[1])) {
			switch {
			case alt == "zero" || alt == "nil":
			case strings.Contains(alt, "crypto/sha256.New().Sum()"), strings.Contains(alt, "crypto/sha256.Sum256()"):
				nsha++
			default:
				okHash = false
			}
		}
		okHash = okHash && nsha > 0
		fed := 0
		for _, w := range methodCalls(rq, true, "Write") {
			g := rq.enclosing(w)
			if strings.Contains(g.Prov(w.Fun.(*ast.SelectorExpr).X), "sha256.New()") {
				fed++
				if g.Prov(w.Args[0]) != "lit.param#0" {
					okHash = false
				}
			}
		}
		for _, sc := range rq.CallsTo(true, "crypto/sha256.Sum256") {
			fed++
			if rq.enclosing(sc).Prov(sc.Args[0]) != "lit.param#0" {
				okHash = false
			}
		}
		okHash = okHash && fed > 0
		c.Ob("issue-provenance", "RequestCertificate#subject-hash-of-proof-key", call.Pos(), okHash && rq.Prov(call.Args[0]) == "call:spec/chord.Random()", "the subject carries sha256 of the proof key (computed in the proof's subject callback) and a fresh id")
	}
	// ExtractCertificateIdentity
	ei := c.Func("spec/pki", "", "ExtractCertificateIdentity")
	nid := 0
	// per constructed Identity: the Version field names the format, the Token follows from
	// it, and the literal is reached only when the subject's first part equals that
	// version's tag (path facts: switch arm or if-chain)
	isTag := func(e ast.Expr) bool { return strings.HasSuffix(ei.Prov(e), "strings.SplitN()[const:0]") }
	ast.Inspect(ei.Body, func(n ast.Node) bool {
		lit, ok := n.(*ast.CompositeLit)
		if !ok {
			return true
		}
		if tv, ok := ei.Info.Types[lit]; !ok || !strings.HasSuffix(tv.Type.String(), "spec/pki.Identity") {
			return true
		}
		ver, tokenPv := "", ""
		var verExpr, tokExpr ast.Expr
		var tokPos token.Pos = lit.Pos()
		for _, el := range lit.Elts {
			kv, ok := el.(*ast.KeyValueExpr)
			if !ok {
				continue
			}
			switch kv.Key.(*ast.Ident).Name {
			case "Version":
				ver = constName(ei, kv.Value)
				verExpr = kv.Value
			case "Token":
				tokenPv, tokPos = ei.Prov(kv.Value), kv.Pos()
				tokExpr = kv.Value
			}
		}
		if ver == "" && verExpr != nil && isTag(verExpr) {
			// One literal for both formats: the Version field is the subject's tag itself
			// (converted). Then the tag must be known, here, to be one of the version
			// constants, and the token must follow from it. Decided by enumerating the tag
			// over {TokenV1, TokenV2, anything else} and evaluating the path facts - and
			// the guards of the token's definitions - that speak only about the tag.
			n := identityByTag(c, ei, lit, verExpr, tokExpr, isTag)
			nid += n
			return true
		}
		if ver == "" {
			c.Ob("identity", "ExtractCertificateIdentity#identity-has-a-constant-version", lit.Pos(), false, "every constructed identity carries one of the version constants")
			return true
		}
		nid++
		switch ver {
		case "TokenV2":
			c.Ob("identity", "ExtractCertificateIdentity#v2-token-is-whole-CN", tokPos, tokenPv == "param#0.Subject.CommonName", "a v2 identity's token is the whole common name (unique per subject: version, id and key hash); found "+tokenPv)
		case "TokenV1":
			c.Ob("identity", "ExtractCertificateIdentity#v1-token-is-third-part", tokPos, strings.Contains(tokenPv, "strings.SplitN()[const:2]"), "a v1 identity's token is the third CN part; found "+tokenPv)
		default:
			c.Ob("identity", "ExtractCertificateIdentity#version:"+ver, lit.Pos(), false, "unexpected identity version")
		}
		// the literal is built only for a subject whose tag is this version's value
		want := ""
		if o, ok := c.P("spec/pki").Types.Scope().Lookup(ver).(*types.Const); ok {
			want = o.Val().ExactString()
		}
		pos, _ := ei.FactsAt(lit).EqConsts(ei, isTag)
		hit := false
		for _, k := range pos {
			if k == want || k == ver {
				hit = true
			}
		}
		c.Ob("identity", "ExtractCertificateIdentity#"+ver+"-only-for-its-own-tag", lit.Pos(), hit && want != "", fmt.Sprintf("an identity of version %s is built only when the subject's first part equals %s; the tag is known to equal %v here", ver, want, pos))
		return true
	})
	c.Floor("identity token constructions", nid, 2)
}

// evalBool3 evaluates a boolean expression built from !, &&, || over atoms whose value the
// callback may or may not know.
func evalBool3(e ast.Expr, atom func(e ast.Expr) (bool, bool)) (bool, bool) {
	e = ast.Unparen(e)
	switch x := e.(type) {
	case *ast.UnaryExpr:
		if x.Op == token.NOT {
			v, k := evalBool3(x.X, atom)
			return !v, k
		}
	case *ast.BinaryExpr:
		if x.Op == token.LAND || x.Op == token.LOR {
			a, ka := evalBool3(x.X, atom)
			b, kb := evalBool3(x.Y, atom)
			if x.Op == token.LAND {
				if ka && !a || kb && !b {
					return false, true
				}
				return a && b, ka && kb
			}
			if ka && a || kb && b {
				return true, true
			}
			return a || b, ka && kb
		}
	}
	return atom(e)
}

// identityByTag decides the single-literal form of ExtractCertificateIdentity (see the call
// site); it returns the number of version constants the literal can be built for.
func identityByTag(c *Ctx, ei *Fn, lit *ast.CompositeLit, verExpr, tokExpr ast.Expr, isTag func(ast.Expr) bool) int {
	consts := []string{"TokenV1", "TokenV2"}
	unconv := func(e ast.Expr) ast.Expr {
		e = ast.Unparen(e)
		for {
			cv, ok := e.(*ast.CallExpr)
			if !ok || len(cv.Args) != 1 {
				return e
			}
			if tv, ok := ei.Info.Types[cv.Fun]; !ok || !tv.IsType() {
				return e
			}
			e = ast.Unparen(cv.Args[0])
		}
	}
	verConst := func(e ast.Expr) string {
		n := constName(ei, unconv(e))
		for _, k := range consts {
			if n == k {
				return n
			}
		}
		return ""
	}
	// atom under the assumption tag == assumed ("" = some other value)
	atomFor := func(assumed string) func(e ast.Expr) (bool, bool) {
		return func(e ast.Expr) (bool, bool) {
			be, ok := ast.Unparen(e).(*ast.BinaryExpr)
			if !ok || be.Op != token.EQL && be.Op != token.NEQ {
				return false, false
			}
			var k string
			switch {
			case isTag(be.X) && verConst(be.Y) != "":
				k = verConst(be.Y)
			case isTag(be.Y) && verConst(be.X) != "":
				k = verConst(be.X)
			default:
				return false, false
			}
			return (k == assumed) == (be.Op == token.EQL), true
		}
	}
	// consistent: no tag-only fact at node contradicts the assumption; unknownExtra: a fact
	// at node, absent at the literal, that the assumption does not decide
	factKey := func(fa *Fact) string { return fmt.Sprintf("%d:%v:%v", fa.Expr.Pos(), fa.Truth, fa.Tag != nil) }
	atLit := map[string]bool{}
	for _, fa := range ei.FactsAt(lit).Facts {
		if fa.Kind == FCmp && fa.Expr != nil {
			atLit[factKey(fa)] = true
		}
	}
	check := func(node ast.Node, assumed string, extraOnly bool) (consistent, decided bool) {
		consistent, decided = true, true
		for _, fa := range ei.FactsAt(node).Facts {
			if fa.Kind != FCmp || fa.Expr == nil {
				continue
			}
			if extraOnly && atLit[factKey(fa)] {
				continue
			}
			var v, known bool
			if fa.Tag != nil {
				if isTag(fa.Tag) && verConst(fa.Expr) != "" {
					v, known = verConst(fa.Expr) == assumed, true
				}
			} else {
				v, known = evalBool3(fa.Expr, atomFor(assumed))
			}
			if !known {
				if extraOnly {
					decided = false
				}
				continue
			}
			if v != fa.Truth {
				consistent = false
			}
		}
		return
	}
	otherOK, _ := check(lit, "", false)
	c.Ob("identity", "ExtractCertificateIdentity#identity-has-a-constant-version", lit.Pos(), !otherOK, "the Version field is the subject's tag, and where the identity is built the tag is known to be one of the version constants")
	for _, nd := range shallowNodes(ei.Body) {
		switch nd.(type) {
		case *ast.ForStmt, *ast.RangeStmt:
			c.Ob("identity", "ExtractCertificateIdentity#token-follows-version", nd.Pos(), false, "a loop in the function: which definition of the token reaches the identity is not decided")
			return 0
		}
	}
	n := 0
	for _, ver := range consts {
		if ok, _ := check(lit, ver, false); !ok {
			continue
		}
		n++
		// the token under tag == ver: the last definition (in source order; the function has
		// no loops) whose guard holds under the assumption
		tokenPv := ""
		decided := true
		// ([]byte(token) and the like: a conversion carries its operand's value)
		for {
			call, ok := ast.Unparen(tokExpr).(*ast.CallExpr)
			if !ok || len(call.Args) != 1 {
				break
			}
			if tv, ok := ei.Info.Types[call.Fun]; !ok || !tv.IsType() {
				break
			}
			tokExpr = call.Args[0]
		}
		if v := ei.varOf(tokExpr); v != nil {
			var best *vdef
			defs := ei.defsOf(v)
			for i := range defs {
				d := &defs[i]
				if d.rhs == nil || d.multi {
					decided = false
					continue
				}
				var at ast.Node = d.rhs
				cons, dec := check(at, ver, true)
				if !dec {
					decided = false
				}
				if cons && (best == nil || d.pos > best.pos) {
					best = d
				}
			}
			if best != nil {
				tokenPv = ei.Prov(best.rhs)
			}
		} else {
			tokenPv = ei.Prov(tokExpr)
		}
		switch ver {
		case "TokenV2":
			c.Ob("identity", "ExtractCertificateIdentity#v2-token-is-whole-CN", lit.Pos(), decided && tokenPv == "param#0.Subject.CommonName", "a v2 identity's token is the whole common name (unique per subject: version, id and key hash); found "+tokenPv)
		case "TokenV1":
			c.Ob("identity", "ExtractCertificateIdentity#v1-token-is-third-part", lit.Pos(), decided && strings.Contains(tokenPv, "strings.SplitN()[const:2]"), "a v1 identity's token is the third CN part; found "+tokenPv)
		}
		c.Ob("identity", "ExtractCertificateIdentity#"+ver+"-only-for-its-own-tag", lit.Pos(), true, "the identity's version is the subject's tag itself")
	}
	return n
}

// ---------------------------------------------------------------------------------------

func runC33(c *Ctx) {
	nz := c.Func("spec/acme", "", "Normalize")
	// regex literal
	var reLit string
	var rePos token.Pos
	p := c.P("spec/acme")
	for _, file := range p.Syntax {
		for _, d := range file.Decls {
			gd, ok := d.(*ast.GenDecl)
			if !ok {
				continue
			}
			for _, sp := range gd.Specs {
				vs, ok := sp.(*ast.ValueSpec)
				if !ok {
					continue
				}
				for i, nm := range vs.Names {
					if nm.Name == "nonDnsRegex" && i < len(vs.Values) {
						if call, ok := vs.Values[i].(*ast.CallExpr); ok && len(call.Args) == 1 {
							if tv, ok := p.TypesInfo.Types[call.Args[0]]; ok && tv.Value != nil {
								reLit = constantString(tv)
								rePos = call.Pos()
							}
						}
					}
				}
			}
		}
	}
	if reLit == "" {
		c.Failf("anchor unresolved: nonDnsRegex literal")
	}
	re, err := syntax.Parse(reLit, syntax.Perl)
	okRe := err == nil
	det := ""
	if okRe {
		re = re.Simplify()
		// expect: one-or-more of a char class that is the complement of [a-z0-9.-]
		cls := re
		if re.Op == syntax.OpPlus || re.Op == syntax.OpStar {
			cls = re.Sub[0]
		}
		if cls.Op != syntax.OpCharClass {
			okRe = false
			det = "not a character class"
		} else {
			allowed := map[rune]bool{}
			for r := rune(0); r < 0x250; r++ {
				in := false
				for i := 0; i+1 < len(cls.Rune); i += 2 {
					if r >= cls.Rune[i] && r <= cls.Rune[i+1] {
						in = true
					}
				}
				if !in {
					allowed[r] = true
				}
			}
			want := "abcdefghijklmnopqrstuvwxyz0123456789-."
			okRe = len(allowed) == len(want)
			for _, r := range want {
				if !allowed[r] {
					okRe = false
				}
			}
			var got []rune
			for r := range allowed {
				got = append(got, r)
			}
			det = fmt.Sprintf("characters NOT matched by the rejection class: %d (want exactly %q)", len(got), want)
		}
	}
	c.Ob("alphabet", "nonDnsRegex#complement-of-[a-z0-9.-]", rePos, okRe, "the rejection regex matches every character outside [a-z0-9.-] and nothing inside: "+det)
	sr := successReturns(nz)
	c.Floor("Normalize success returns", len(sr), 1)
	for _, r := range sr {
		ret := nz.Prov(r.Results[0])
		// the returned value is the one handed to the regex test
		tested := ""
		for _, call := range nz.Calls(false, func(call *ast.CallExpr) bool {
			se, ok := call.Fun.(*ast.SelectorExpr)
			return ok && nz.Prov(se.X) == "global:spec/acme.nonDnsRegex"
		}) {
			tested = nz.Prov(call.Args[0])
		}
		c.Ob("normalize", "Normalize#returns-the-tested-value", r.Pos(), tested != "" && ret == tested, fmt.Sprintf("the value returned (%s) is the value tested against the alphabet (%s)", ret, tested))
		requireAt(c, "normalize", "Normalize#success", nz, r, "a hostname is accepted only if it qualifies for a public certificate (certmagic: rejects internal/loopback names and addresses), has no wildcard, is not an IP literal (certmagic lets public IP literals through), converts to ASCII and has no character outside the alphabet",
			factReq{"SubjectQualifiesForPublicCert", func(g *Fn, fs *FactSet) bool {
				return fs.Has(func(fa *Fact) bool {
					return fa.Kind == FTrue && g.IsCall(fa.Call, "github.com/caddyserver/certmagic.SubjectQualifiesForPublicCert")
				})
			}},
			factReq{"no wildcard", func(g *Fn, fs *FactSet) bool {
				return fs.Has(func(fa *Fact) bool {
					// strings.Contains(x, "*"), ContainsRune(x, '*'), ContainsAny(x, "*") or
					// IndexByte/IndexRune/Index(...) >= 0 are the same test
					if fa.Kind != FFalse || !g.IsCall(fa.Call, "strings.Contains", "strings.ContainsRune", "strings.ContainsAny") {
						return false
					}
					v, _ := g.ConstVal(fa.Call.Args[1])
					return v == "\"*\"" || v == "42"
				})
			}},
			factReq{"not an IP literal", func(g *Fn, fs *FactSet) bool {
				return fs.Has(func(fa *Fact) bool {
					if fa.Kind == FFalse && g.IsCall(fa.Call, "github.com/caddyserver/certmagic.SubjectIsIP") {
						return true
					}
					return fa.Kind == FNil && g.IsCall(fa.Call, "net.ParseIP")
				}) || fs.Cmp(func(e, tag ast.Expr, truth bool, fa *Fact) bool {
					be, ok := e.(*ast.BinaryExpr)
					if !ok || tag != nil {
						return false
					}
					call, ok := ast.Unparen(be.X).(*ast.CallExpr)
					return ok && g.IsCall(call, "net.ParseIP") && isNilIdent(g.Info, be.Y) && ((be.Op == token.NEQ && !truth) || (be.Op == token.EQL && truth))
				})
			}},
			reqCallOK("golang.org/x/net/idna.ToASCII"),
			factReq{"no invalid character", func(g *Fn, fs *FactSet) bool {
				// the regex found nothing in the converted name: len(FindStringIndex(x)) > 0
				// false (or == 0 true, or the index nil), or MatchString(x) false
				isConv := func(e ast.Expr) bool { return strings.Contains(g.Prov(e), "idna.ToASCII()#0") }
				isFind := func(e ast.Expr) bool {
					if !strings.Contains(g.Prov(e), "nonDnsRegex.FindStringIndex()") {
						return false
					}
					for _, fc := range methodCalls(g, false, "FindStringIndex") {
						if !isConv(fc.Args[0]) {
							return false
						}
					}
					return true
				}
				if fs.Has(func(fa *Fact) bool {
					return fa.Kind == FFalse && g.IsCall(fa.Call, "regexp.Regexp.MatchString") && strings.HasSuffix(g.Prov(fa.Call.Fun.(*ast.SelectorExpr).X), "nonDnsRegex") && isConv(fa.Call.Args[0])
				}) {
					return true
				}
				return fs.Cmp(func(e, tag ast.Expr, truth bool, fa *Fact) bool {
					be, ok := ast.Unparen(e).(*ast.BinaryExpr)
					if !ok || tag != nil {
						return false
					}
					if isNilIdent(g.Info, be.Y) && isFind(be.X) {
						return be.Op == token.EQL && truth || be.Op == token.NEQ && !truth
					}
					v, _ := g.ConstVal(be.Y)
					if v != "0" || !isLenOf(g, be.X, isFind) {
						return false
					}
					switch be.Op {
					case token.GTR, token.NEQ:
						return !truth
					case token.EQL, token.LEQ:
						return truth
					}
					return false
				})
			}})
	}
	// the conversion must not map characters after the eligibility checks ran on the unmapped text
	for _, call := range nz.Calls(false, func(call *ast.CallExpr) bool {
		o := nz.Callee(call)
		return o != nil && o.Pkg() != nil && o.Pkg().Path() == "golang.org/x/net/idna" && strings.HasPrefix(o.Name(), "ToASCII")
	}) {
		k := nz.CallKey(call)
		recv := ""
		if se, ok := call.Fun.(*ast.SelectorExpr); ok {
			recv = nz.Prov(se.X)
		}
		okProfile := k == "golang.org/x/net/idna.ToASCII" || (k == "golang.org/x/net/idna.Profile.ToASCII" && strings.HasSuffix(recv, "idna.Punycode"))
		c.Ob("normalize", "Normalize#non-mapping-idna-profile", call.Pos(), okProfile, "the eligibility checks run on the text before conversion, so the conversion must be the non-mapping Punycode profile (idna.ToASCII); found "+k+" on "+recv)
	}

	// challenge records
	gcr := c.Func("spec/acme", "", "GenerateCustomRecord")
	okTok := false
	for _, call := range gcr.CallsTo(false, "spec/acme.generateRecord") {
		okTok = gcr.Prov(call.Args[2]) == "call:spec/acme.EncodeClientToken()" && gcr.Prov(call.Args[0]) == "param#0" && gcr.Prov(call.Args[1]) == "param#1"
	}
	for _, call := range gcr.CallsTo(false, "spec/acme.EncodeClientToken") {
		okTok = okTok && gcr.Prov(call.Args[0]) == "param#2"
	}
	c.Ob("challenge", "GenerateCustomRecord#subdomain-is-encoded-token", gcr.Decl.Pos(), okTok, "the record's subdomain is EncodeClientToken(token)")
	ect := c.Func("spec/acme", "", "EncodeClientToken")
	// SHA-224 over exactly the token: New224/Write/Sum(nil) or the one-shot Sum224
	n224 := ect.CallsTo(false, "crypto/sha256.New224")
	s224 := ect.CallsTo(false, "crypto/sha256.Sum224")
	okEnc := len(n224)+len(s224) == 1
	nw := 0
	for _, w := range methodCalls(ect, false, "Write") {
		nw++
		okEnc = okEnc && ect.Prov(w.Args[0]) == "param#0"
	}
	for _, sc := range s224 {
		nw++
		okEnc = okEnc && ect.Prov(sc.Args[0]) == "param#0"
	}
	okEnc = okEnc && nw == 1
	for _, sm := range methodCalls(ect, false, "Sum") {
		// Sum(b) appends to b: only Sum(nil) is the digest alone
		okEnc = okEnc && len(sm.Args) == 1 && isNilIdent(ect.Info, sm.Args[0])
	}
	okHex := false
	for _, r := range ect.Returns() {
		okHex = strings.HasPrefix(ect.Prov(r.Results[0]), "call:encoding/hex.EncodeToString()")
		if call, ok := r.Results[0].(*ast.CallExpr); ok && len(call.Args) == 1 {
			pv := ect.Prov(call.Args[0])
			okHex = okHex && (strings.Contains(pv, "sha256.New224().Sum()") || pv == "call:crypto/sha256.Sum224()[:]")
		}
	}
	c.Ob("challenge", "EncodeClientToken#hex(sha224(token))", ect.Decl.Pos(), okEnc && okHex, "the encoding is the hex of SHA-224 over exactly the token, an injective encoding of a collision-resistant hash: distinct tokens give distinct targets")
	gr := c.Func("spec/acme", "", "generateRecord")
	// the content (second result) is built from the subdomain: written into the builder that
	// yields it, or the leading operand of the concatenation assigned to / returned as it
	wrote := false
	for _, w := range methodCalls(gr, false, "WriteString") {
		if gr.Prov(w.Args[0]) == "param#2" {
			wrote = true
		}
	}
	leftmost := func(e ast.Expr) ast.Expr {
		for {
			be, ok := ast.Unparen(e).(*ast.BinaryExpr)
			if !ok || be.Op != token.ADD {
				return ast.Unparen(e)
			}
			e = be.X
		}
	}
	if gr.Type.Results != nil {
		var contentObj types.Object
		i := 0
		for _, fld := range gr.Type.Results.List {
			for _, nm := range fld.Names {
				if i == 1 {
					contentObj = gr.Info.Defs[nm]
				}
				i++
			}
		}
		for _, nd := range shallowNodes(gr.Body) {
			switch x := nd.(type) {
			case *ast.AssignStmt:
				for j, l := range x.Lhs {
					if contentObj != nil && gr.ObjOf(l) == contentObj && j < len(x.Rhs) && len(x.Lhs) == len(x.Rhs) {
						if _, isCat := ast.Unparen(x.Rhs[j]).(*ast.BinaryExpr); isCat && gr.Prov(leftmost(x.Rhs[j])) == "param#2" {
							wrote = true
						}
					}
				}
			case *ast.ReturnStmt:
				if len(x.Results) == 2 {
					if _, isCat := ast.Unparen(x.Results[1]).(*ast.BinaryExpr); isCat && gr.Prov(leftmost(x.Results[1])) == "param#2" {
						wrote = true
					}
				}
			}
		}
	}
	c.Ob("challenge", "generateRecord#content-starts-with-subdomain", gr.Decl.Pos(), wrote, "the subdomain is written into the record content")
}
