package main

import (
	"fmt"
	"go/ast"
	"go/token"
	"go/types"
	"math/big"
	"strconv"
	"strings"
)

func init() {
	register(&propDef{ID: "C38", Level: "other",
		Decides:    "the framing discipline: in receive, the buffer allocation, the payload read and the decode are cut on every path by checker(size) == true; BoundedReceive's checker is size <= max (evaluated on every order type) and Receive's accepts everything; exactly `size` payload bytes are read and a short read is an error; writer and reader agree on the prefix: same LengthSize constant, both big-endian uint32, payload at offset LengthSize, and Send reports a short write.",
		NotDecided: "equality of decoded and encoded messages (vtproto codec, trusted).",
		Run:        runC38})
	register(&propDef{ID: "C40", Level: "other",
		Decides:    "the piping skeleton: Pipe adds exactly as many waiters as goroutines it launches, the two pipe() calls are mirror images (src,dst)/(dst,src), the error channel's capacity covers every sender, and it is closed only after wg.Wait(); in pipe(), after the copy returns both Close calls execute on every path before exit and wg.Done is deferred; an error is sent only when non-nil.",
		NotDecided: "that every byte is delivered (io.CopyBuffer, trusted).",
		Run:        runC40})
	register(&propDef{ID: "C42", Level: "other",
		Decides:    "dispatch-table agreement: for each handler map the static types of all Store keys equal the static types of all Load keys (sync.Map compares keys including their dynamic type), stored values have the asserted type; acceptChord looks up the virtual handler by (int32(kind), peer id) first and the physical one by kind only when that misses; when nothing is found the stream is closed and no handler runs; the handler found is invoked with the received delegate.",
		NotDecided: "which handlers the application registers.",
		Run:        runC42})
	register(&propDef{ID: "C46", Level: "other",
		Decides:    "the fan-out skeleton of promise.All: wg.Add(len(fns)) with exactly one goroutine per function and a deferred wg.Done in each; each goroutine writes only results[i]/errors[i] of its own index parameter; done is closed only after wg.Wait(); every return is preceded by a receive from done, also on the cancellation branch; results and errors have len(fns) elements.",
		NotDecided: "scheduling (the functions must themselves honour cancellation, as documented).",
		Run:        runC46})
	register(&propDef{ID: "C47", Level: "other",
		Decides:    "ParseAddresses' structure: overrides replace the base list only when non-empty after coalescing (trim + drop empties); an empty list is an error; inside the loop the duplicate test precedes validation and the append, `seen` is updated only after validation, the non-IP rejection excludes exactly the Fly host constant, the only growth is one append per surviving input in input order with the entry's own address/host; overrideHostIPVersion forces IPv4 for exactly that constant; NetworkForVersion maps V4 -> proto4, V6 -> proto6, anything else -> proto.",
		NotDecided: "net.SplitHostPort / net.ParseIP results (library behaviour).",
		Run:        runC47})

	addSelfTests("C38",
		mutation{"allocate-before-check", "spec/rpc/rpc.go", "	ms := binary.BigEndian.Uint32(sb[:])\n	if !checker(ms) {\n		return fmt.Errorf(\"RPC message is too large\")\n	}\n\n	mb := pool.Get(int(ms))\n	defer pool.Put(mb)\n", "	ms := binary.BigEndian.Uint32(sb[:])\n	mb := pool.Get(int(ms))\n	defer pool.Put(mb)\n	if !checker(ms) {\n		return fmt.Errorf(\"RPC message is too large\")\n	}\n", "framing"},
		mutation{"bound-exclusive", "spec/rpc/rpc.go", "		return size <= max", "		return size < max", "bound"},
		mutation{"little-endian-writer", "spec/rpc/rpc.go", "	binary.BigEndian.PutUint32(mb[0:LengthSize], uint32(l))", "	binary.LittleEndian.PutUint32(mb[0:LengthSize], uint32(l))", "prefix-agreement"},
		mutation{"short-read-accepted", "spec/rpc/rpc.go", "	if ms != uint32(n) {\n		return fmt.Errorf(\"expected %d bytes to be read but %d bytes was read\", ms, n)\n	}\n", "", "framing"},
	)
	addSelfTests("C40",
		mutation{"one-side-left-open", "spec/tun/pipe.go", "	src.Close()\n	dst.Close()\n", "	src.Close()\n", "pipe"},
		mutation{"close-before-wait", "spec/tun/pipe.go", "		wg.Wait()\n		close(err)", "		close(err)\n		wg.Wait()", "pipe"},
		mutation{"same-direction-twice", "spec/tun/pipe.go", "	go pipe(wg, err, dst, src)\n	go func() {", "	go pipe(wg, err, src, dst)\n	go func() {", "pipe"},
		mutation{"unbuffered-errors", "spec/tun/pipe.go", "	err := make(chan error, 2)", "	err := make(chan error, 1)", "pipe"},
	)
	addSelfTests("C42",
		mutation{"virtual-key-type-mismatch", "spec/transport/router.go", "		m.Store(target.GetId(), handler)", "		m.Store(int64(target.GetId()), handler)", "key-types"},
		mutation{"physical-first", "spec/transport/router.go", "				handler, ok = m.Load(delegate.Identity.GetId())\n				if !ok {\n					// fallback to root handler\n					handler, ok = s.physicalChordHandlers.Load(delegate.Kind)\n				}", "				handler, ok = s.physicalChordHandlers.Load(delegate.Kind)\n				if !ok {\n					handler, ok = m.Load(delegate.Identity.GetId())\n				}", "dispatch-order"},
		mutation{"unhandled-not-closed", "spec/transport/router.go", "				delegate.Close()\n				continue\n			}\n			go handler.(StreamHandler)(delegate)\n		}\n	}\n}\n\nfunc (s *StreamRouter) acceptTunnel", "				continue\n			}\n			go handler.(StreamHandler)(delegate)\n		}\n	}\n}\n\nfunc (s *StreamRouter) acceptTunnel", "unhandled"},
		mutation{"tunnel-key-int32", "spec/transport/router.go", "	s.tunnelHandlers.Store(kind, handler)", "	s.tunnelHandlers.Store(int32(kind), handler)", "key-types"},
	)
	addSelfTests("C46",
		mutation{"return-on-cancel", "util/promise/promise.go", "	case <-fnCtx.Done():\n		// assert that the fn returns first\n		<-done\n	}", "	case <-fnCtx.Done():\n	}", "fanout"},
		mutation{"shared-index", "util/promise/promise.go", "			results[i] = v\n		}(i, fn)", "			results[0] = v\n		}(i, fn)", "fanout"},
		mutation{"close-without-wait", "util/promise/promise.go", "		wg.Wait()\n		close(done)", "		close(done)\n		wg.Wait()", "fanout"},
	)
	addSelfTests("C47",
		mutation{"seen-before-validation", "cmd/internal/listen/listen.go", "		host, _, err := net.SplitHostPort(a)\n		if err != nil {\n			return nil, err\n		}", "		seen[a] = struct{}{}\n		host, _, err := net.SplitHostPort(a)\n		if err != nil {\n			return nil, err\n		}", "listen"},
		mutation{"any-hostname-allowed", "cmd/internal/listen/listen.go", "		if host != \"\" && net.ParseIP(host) == nil && host != FlyGlobalServicesHost {", "		if host != \"\" && net.ParseIP(host) == nil && !strings.HasPrefix(host, \"fly-\") {", "listen"},
		mutation{"empty-override-wins", "cmd/internal/listen/listen.go", "	if trimmed := coalesceAddrs(overrides); len(trimmed) > 0 {\n		addrs = trimmed\n	}", "	if len(overrides) > 0 {\n		addrs = coalesceAddrs(overrides)\n	}", "listen"},
		mutation{"network-by-if-chain", "cmd/internal/listen/listen.go", "	switch version {\n	case IPV4:\n		return proto + \"4\"\n	case IPV6:\n		return proto + \"6\"\n	default:\n		return proto\n	}", "	if version == IPV4 {\n		return proto + \"4\"\n	}\n	if version == IPV6 {\n		return proto + \"6\"\n	}\n	return proto", "!listen"},
		mutation{"network-if-chain-v4-for-all", "cmd/internal/listen/listen.go", "	switch version {\n	case IPV4:\n		return proto + \"4\"\n	case IPV6:\n		return proto + \"6\"\n	default:\n		return proto\n	}", "	if version != IPV6 {\n		return proto + \"4\"\n	}\n	return proto + \"6\"", "listen"},
		mutation{"v6-network-swapped", "cmd/internal/listen/listen.go", "	case IPV6:\n		return proto + \"6\"", "	case IPV6:\n		return proto + \"4\"", "listen"},
	)
}

func runC38(c *Ctx) {
	rc := c.Func("spec/rpc", "", "receive")
	checker := rc.Calls(false, func(call *ast.CallExpr) bool {
		id, ok := call.Fun.(*ast.Ident)
		return ok && rc.paramIndex(rc.Info.ObjectOf(id)) == 2
	})
	// the bound is either a predicate parameter applied to the announced size, or a numeric
	// limit parameter the size is compared with
	limitForm := false
	if len(checker) == 0 {
		i := 0
		for _, fld := range rc.Type.Params.List {
			for range fld.Names {
				if i == 2 {
					if b, ok := rc.Info.TypeOf(fld.Type).Underlying().(*types.Basic); ok && b.Info()&types.IsInteger != 0 {
						limitForm = true
					}
				}
				i++
			}
		}
	}
	if !limitForm {
		c.Floor("receive checker sites", len(checker), 1)
	}
	sizeWithinLimit := func(g *Fn, fs *FactSet) bool {
		return fs.Cmp(func(e, tag ast.Expr, truth bool, fa *Fact) bool {
			be, ok := ast.Unparen(e).(*ast.BinaryExpr)
			if !ok || tag != nil {
				return false
			}
			isSize := func(x ast.Expr) bool { return strings.Contains(g.Prov(x), "BigEndian.Uint32()") }
			isLimit := func(x ast.Expr) bool { return g.Prov(x) == "param#2" }
			switch {
			case isSize(be.X) && isLimit(be.Y):
				return be.Op == token.GTR && !truth || be.Op == token.LEQ && truth
			case isLimit(be.X) && isSize(be.Y):
				return be.Op == token.LSS && !truth || be.Op == token.GEQ && truth
			}
			return false
		})
	}
	passed := factReq{"checker(size) == true", func(g *Fn, fs *FactSet) bool {
		if limitForm {
			return sizeWithinLimit(g, fs)
		}
		return fs.Has(func(fa *Fact) bool { return fa.Kind == FTrue && len(checker) > 0 && fa.Call == checker[0] })
	}}
	sinks := rc.Calls(false, func(call *ast.CallExpr) bool {
		k := rc.CallKey(call)
		if strings.HasSuffix(k, "pool.Get") || strings.HasSuffix(k, ".Get") && strings.Contains(k, "buffer-pool") {
			return true
		}
		if se, ok := call.Fun.(*ast.SelectorExpr); ok && se.Sel.Name == "UnmarshalVT" {
			return true
		}
		return false
	})
	c.Floor("receive allocation/decode sites", len(sinks), 2)
	for _, s := range sinks {
		requireAt(c, "framing", "receive#"+rc.Str(s.Fun)+"-after-size-check", rc, s, "the payload buffer is allocated / decoded only after the announced size passed the checker", passed)
	}
	rf := rc.CallsTo(false, "io.ReadFull")
	c.Floor("receive ReadFull sites", len(rf), 2)
	if len(rf) >= 2 {
		requireAt(c, "framing", "receive#payload-read-after-size-check", rc, rf[1], "the payload is read only after the size check", passed)
		c.Ob("framing", "receive#reads-exactly-size-bytes", rf[1].Pos(), strings.Contains(rc.Prov(rf[1].Args[1]), "Get()") && (limitForm || len(checker) > 0 && strings.HasSuffix(rc.Prov(checker[0].Args[0]), "BigEndian.Uint32()")) && func() bool {
			// the buffer is taken with the announced size
			for _, gc := range rc.Calls(false, func(call *ast.CallExpr) bool {
				k := rc.CallKey(call)
				return strings.HasSuffix(k, "pool.Get") || strings.HasSuffix(k, ".Get") && strings.Contains(k, "buffer-pool")
			}) {
				if len(gc.Args) == 1 && strings.Contains(rc.Prov(gc.Args[0]), "BigEndian.Uint32()") {
					return true
				}
			}
			return false
		}(), "the payload buffer has the announced size (pool.Get(int(size))) and ReadFull fills it")
	}
	for _, call := range sinks {
		if se, ok := call.Fun.(*ast.SelectorExpr); ok && se.Sel.Name == "UnmarshalVT" {
			// the count ReadFull returned equals the announced size (whatever the two are called)
			okShort := rc.FactsAt(call).Equal(func(x, y ast.Expr) bool {
				px, py := rc.enclosing(x).Prov(x), rc.enclosing(y).Prov(y)
				return strings.Contains(px, "BigEndian.Uint32()") && strings.HasSuffix(py, "io.ReadFull()#0")
			}) && rc.FactsAt(call).Has(func(fa *Fact) bool { return fa.Kind == FCallOK && len(rf) >= 2 && fa.Call == rf[len(rf)-1] })
			c.Ob("framing", "receive#short-read-is-error", call.Pos(), okShort, "decoding happens only when exactly `size` bytes were read")
		}
	}
	// checkers
	br := c.Func("spec/rpc", "", "BoundedReceive")
	for _, lit := range br.Lits() {
		g := br.Closure(lit)
		n := 0
		for _, ord := range weakOrderings(2) {
			size, mx := rankVal(ord[0]), rankVal(ord[1])
			// max is the enclosing function's parameter: evaluate the literal with max bound through ext-free env
			env := &evalEnv{f: g, vars: map[types.Object]Val{}}
			for _, fld := range lit.Type.Params.List {
				for _, nm := range fld.Names {
					env.vars[g.Info.Defs[nm]] = size
				}
			}
			for _, fld := range br.Type.Params.List {
				for _, nm := range fld.Names {
					if nm.Name == "max" || types.Identical(br.Info.Defs[nm].Type(), types.Typ[types.Uint32]) {
						env.vars[br.Info.Defs[nm]] = mx
					}
				}
			}
			var got bool
			impure := ""
			func() {
				defer func() {
					if r := recover(); r != nil {
						if u, ok := r.(evalUndecided); ok {
							impure = u.msg
							return
						}
						panic(r)
					}
				}()
				ret := env.block(lit.Body.List)
				got, _ = ret.vals[0].(bool)
			}()
			if impure != "" {
				c.Ob("bound", "BoundedReceive#decision-is-a-pure-comparison-of-size-and-bound", lit.Pos(), false, "the accept decision is a function of the announced size and the caller's bound alone; it also depends on: "+impure)
				break
			}
			want := size.Cmp(mx) <= 0
			n++
			c.Ob("bound", fmt.Sprintf("BoundedReceive#ordertype(size,max)=%v", ord), lit.Pos(), got == want, fmt.Sprintf("size=%v max=%v: accepted=%v, must be %v (accept exactly size <= max)", size, mx, got, want))
		}
	}
	if limitForm {
		// the caller's bound is handed to receive as the limit
		for _, call := range br.CallsTo(false, "spec/rpc.receive") {
			c.Ob("bound", "BoundedReceive#bound-is-the-limit", call.Pos(), len(call.Args) == 3 && br.Prov(call.Args[2]) == "param#2", "BoundedReceive passes its max as the limit receive compares the announced size with (accept exactly size <= max)")
		}
		c.Floor("BoundedReceive delegation", len(br.CallsTo(false, "spec/rpc.receive")), 1)
	} else {
		c.Floor("BoundedReceive checker literals", len(br.Lits()), 1)
	}
	for _, call := range br.CallsTo(false, "spec/rpc.receive") {
		c.Ob("bound", "BoundedReceive#delegates", call.Pos(), br.Prov(call.Args[0]) == "param#0" && br.Prov(call.Args[1]) == "param#1", "BoundedReceive passes its stream and message to receive")
	}
	// prefix agreement
	sd := c.Func("spec/rpc", "", "Send")
	put := sd.Calls(false, func(call *ast.CallExpr) bool { return strings.HasSuffix(sd.CallKey(call), "bigEndian.PutUint32") })
	get := rc.Calls(false, func(call *ast.CallExpr) bool { return strings.HasSuffix(rc.CallKey(call), "bigEndian.Uint32") })
	c.Ob("prefix-agreement", "Send/receive#big-endian-uint32", sd.Decl.Pos(), len(put) == 1 && len(get) == 1, "both sides encode the length as a big-endian uint32")
	if len(put) == 1 {
		sl, _ := put[0].Args[0].(*ast.SliceExpr)
		okPre := sl != nil && constName(sd, sl.High) == "LengthSize" && strings.Contains(sd.Prov(put[0].Args[1]), ".SizeVT()")
		c.Ob("prefix-agreement", "Send#prefix-is-size-in-first-LengthSize-bytes", put[0].Pos(), okPre, "the first LengthSize bytes carry the message size")
	}
	okPayload := false
	for _, call := range methodCalls(sd, false, "MarshalToSizedBufferVT") {
		if sl, ok := call.Args[0].(*ast.SliceExpr); ok && constName(sd, sl.Low) == "LengthSize" && sl.High == nil {
			okPayload = true
		}
	}
	c.Ob("prefix-agreement", "Send#payload-at-offset-LengthSize", sd.Decl.Pos(), okPayload, "the payload is marshalled right after the prefix")
	okArr := false
	ast.Inspect(rc.Body, func(n ast.Node) bool {
		if vs, ok := n.(*ast.ValueSpec); ok {
			if at, ok := vs.Type.(*ast.ArrayType); ok && constName(rc, at.Len) == "LengthSize" {
				okArr = true
			}
		}
		return true
	})
	c.Ob("prefix-agreement", "receive#prefix-buffer-is-LengthSize", rc.Decl.Pos(), okArr, "the reader reads a LengthSize-byte prefix")
	// a short write: an error return where the count Write returned is known to differ from
	// the length of the frame (the size the buffer was taken with)
	okShortW := false
	frameLen := ""
	for _, gc := range sd.Calls(false, func(call *ast.CallExpr) bool {
		k := sd.CallKey(call)
		return strings.HasSuffix(k, "pool.Get") || strings.HasSuffix(k, ".Get") && strings.Contains(k, "buffer-pool")
	}) {
		if len(gc.Args) == 1 {
			frameLen = sd.Prov(gc.Args[0])
		}
	}
	for _, r := range sd.Returns() {
		if isNilIdent(sd.Info, r.Results[0]) {
			continue
		}
		if sd.FactsAt(r).Cmp(func(e, tag ast.Expr, truth bool, fa *Fact) bool {
			be, ok := ast.Unparen(e).(*ast.BinaryExpr)
			if !ok || tag != nil || !(be.Op == token.NEQ && truth || be.Op == token.EQL && !truth) {
				return false
			}
			px, py := sd.Prov(be.X), sd.Prov(be.Y)
			isN := func(p string) bool { return strings.HasSuffix(p, ".Write()#0") }
			return frameLen != "" && (isN(px) && py == frameLen || isN(py) && px == frameLen)
		}) {
			okShortW = true
		}
	}
	c.Ob("prefix-agreement", "Send#short-write-is-error", sd.Decl.Pos(), okShortW, "a short write is reported")
	_ = big.NewInt
}

// ---------------------------------------------------------------------------------------

func runC40(c *Ctx) {
	pp := c.Func("spec/tun", "", "Pipe")
	// Pipe starts, with go, one closer (the literal that waits for the group) and the
	// workers: whatever else it starts - a declared function, a local closure, a literal.
	adds := methodCalls(pp, false, "Add")
	var goPipes []*ast.CallExpr
	var closer *ast.FuncLit
	var pi *Fn
	sameWorker := true
	ast.Inspect(pp.Body, func(n ast.Node) bool {
		gs, ok := n.(*ast.GoStmt)
		if !ok || pp.enclosing(gs) != pp {
			return true
		}
		var w *Fn
		if l, ok := ast.Unparen(gs.Call.Fun).(*ast.FuncLit); ok {
			if len(methodCalls(pp.Closure(l), false, "Wait")) > 0 {
				closer = l
				return true
			}
			w = pp.Closure(l)
		} else if l := pp.litOfCallee(gs.Call); l != nil {
			w = pp.Closure(l)
		} else {
			w = pp.FnOfCallee(gs.Call)
		}
		if w == nil {
			c.Failf("Pipe: the function started at %s is not resolved (undecided)", c.pos(gs.Pos()))
		}
		if pi != nil && pi != w {
			sameWorker = false
		}
		pi = w
		goPipes = append(goPipes, gs.Call)
		return true
	})
	if pi == nil {
		c.Failf("Pipe: no copy worker is started (undecided)")
	}
	c.nfuncs[pi] = true
	nadd := ""
	if len(adds) == 1 {
		nadd, _ = pp.ConstVal(adds[0].Args[0])
	}
	c.Ob("pipe", "Pipe#wg.Add-matches-goroutines", pp.Decl.Pos(), nadd == fmt.Sprint(len(goPipes)) && len(goPipes) == 2 && sameWorker, fmt.Sprintf("wg.Add(%s) for %d pipe goroutines", nadd, len(goPipes)))
	// which of the worker's parameters are the two streams: those the two starts hand
	// Pipe's own two ends to
	var streamIdx []int
	if len(goPipes) == 2 {
		a, b := goPipes[0], goPipes[1]
		for i := range a.Args {
			if pv := pp.Prov(a.Args[i]); pv == "param#0" || pv == "param#1" {
				streamIdx = append(streamIdx, i)
			}
		}
		mirror := len(streamIdx) == 2 && len(a.Args) == len(b.Args)
		if mirror {
			x, y := streamIdx[0], streamIdx[1]
			mirror = pp.Prov(a.Args[x]) == pp.Prov(b.Args[y]) && pp.Prov(a.Args[y]) == pp.Prov(b.Args[x]) && pp.Prov(a.Args[x]) != pp.Prov(a.Args[y])
		}
		c.Ob("pipe", "Pipe#two-directions", a.Pos(), mirror, "the two goroutines copy in opposite directions between the same two ends")
	}
	// paramOf: the position among the worker's parameters that e holds, or -1
	paramOf := func(g *Fn, e ast.Expr) int {
		pv := g.Prov(e)
		pv = strings.TrimPrefix(pv, "lit.")
		if !strings.HasPrefix(pv, "param#") {
			return -1
		}
		n, err := strconv.Atoi(strings.TrimPrefix(pv, "param#"))
		if err != nil {
			return -1
		}
		return n
	}
	isStream := func(g *Fn, e ast.Expr) bool {
		k := paramOf(g, e)
		return len(streamIdx) == 2 && k >= 0 && (k == streamIdx[0] || k == streamIdx[1])
	}
	// sharedWith: e, inside the worker, is the object Pipe's expression pe denotes - the
	// captured variable itself, or the parameter the starts pass it to
	sharedWith := func(g *Fn, e ast.Expr, pe ast.Expr) bool {
		pv := pp.varOf(stripAddr(pe))
		if pv == nil {
			return false
		}
		if v := g.varOf(stripAddr(e)); v != nil && v == pv {
			return true
		}
		k := paramOf(g, e)
		if k < 0 {
			return false
		}
		for _, gc := range goPipes {
			if k >= len(gc.Args) || pp.varOf(stripAddr(gc.Args[k])) != pv {
				return false
			}
		}
		return true
	}
	capOK := false
	ast.Inspect(pp.Body, func(n ast.Node) bool {
		if call, ok := n.(*ast.CallExpr); ok {
			if id, ok := call.Fun.(*ast.Ident); ok && id.Name == "make" && len(call.Args) == 2 {
				if _, isChan := typeOf(pp.Info, call).Underlying().(*types.Chan); isChan {
					v, _ := pp.ConstVal(call.Args[1])
					capOK = v == fmt.Sprint(len(goPipes))
				}
			}
		}
		return true
	})
	c.Ob("pipe", "Pipe#error-channel-capacity-covers-senders", pp.Decl.Pos(), capOK, "the error channel can hold one error per direction, so a sender never blocks after the reader is gone")
	okClose := false
	if closer != nil {
		g := pp.Closure(closer)
		waits := methodCalls(g, false, "Wait")
		closes := g.Calls(false, func(call *ast.CallExpr) bool {
			id, ok := call.Fun.(*ast.Ident)
			return ok && id.Name == "close"
		})
		if len(waits) == 1 && len(closes) == 1 {
			reached, _ := g.Reach(nil, func(n ast.Node) bool { return containsNode(n, waits[0]) }, nil)
			okClose = true
			for _, n := range reached {
				if containsNode(n, closes[0]) {
					okClose = false
				}
			}
		}
	}
	c.Ob("pipe", "Pipe#close-after-wait", pp.Decl.Pos(), okClose, "the error channel is closed only after both directions finished")
	// the worker
	wpos := pi.Body.Pos()
	cp := pi.CallsTo(true, "io.CopyBuffer")
	closes := methodCalls(pi, true, "Close")
	okBoth := len(cp) == 1 && len(closes) == 2
	if okBoth {
		// both closes on every path from the copy to an exit
		// (the copy and the closes may sit together in an invoked literal - an inlined
		// "copy then close" helper: the paths are then those of the literal)
		cg := pi.enclosing(cp[0])
		okBoth = cg == pi || cg.Lit != nil && invokedInPlace(pi, cg.Lit)
		for _, cl := range closes {
			if pi.enclosing(cl) != cg {
				okBoth = false
				continue
			}
			_, exits := cg.Reach(cp[0], func(n ast.Node) bool { return containsNode(n, cl) }, nil)
			if len(exits) > 0 {
				okBoth = false
			}
		}
		recv := map[int]bool{}
		for _, cl := range closes {
			g := pi.enclosing(cl)
			if isStream(g, cl.Fun.(*ast.SelectorExpr).X) {
				recv[paramOf(g, cl.Fun.(*ast.SelectorExpr).X)] = true
			}
		}
		okBoth = okBoth && len(recv) == 2
	}
	c.Ob("pipe", "pipe#copy-delegated-to-io.CopyBuffer", wpos, len(cp) == 1, "the byte transfer itself is io.CopyBuffer (trusted: it forwards the bytes of a Read that also returned an error, handles short writes, returns at EOF); a hand-written copy loop is not decided by this check and is reported")
	c.Ob("pipe", "pipe#both-ends-closed-after-copy", wpos, okBoth, "after the copy returns both ends are closed on every path")
	okDone := false
	if len(pi.Body.List) > 0 && len(adds) == 1 {
		if d, ok := pi.Body.List[0].(*ast.DeferStmt); ok {
			if se, ok := d.Call.Fun.(*ast.SelectorExpr); ok && se.Sel.Name == "Done" && sharedWith(pi, se.X, adds[0].Fun.(*ast.SelectorExpr).X) {
				okDone = true
			}
		}
	}
	c.Ob("pipe", "pipe#wg.Done-deferred-first", wpos, okDone, "wg.Done is deferred first, so it runs on every exit")
	var errChan ast.Expr
	for _, r := range pp.Returns() {
		if len(r.Results) == 1 {
			errChan = r.Results[0]
		}
	}
	ast.Inspect(pi.Body, func(n ast.Node) bool {
		if s, ok := n.(*ast.SendStmt); ok {
			g := pi.enclosing(s)
			okErr := g.FactsAt(s).Cmp(func(e, tag ast.Expr, truth bool, fa *Fact) bool {
				be, ok := e.(*ast.BinaryExpr)
				return ok && truth && be.Op == token.NEQ && isNilIdent(pi.Info, be.Y)
			})
			c.Ob("pipe", "pipe#only-errors-are-sent", s.Pos(), okErr && errChan != nil && sharedWith(g, s.Chan, errChan), "only a non-nil copy error is reported")
		}
		return true
	})
	if len(cp) == 1 {
		g := pi.enclosing(cp[0])
		c.Ob("pipe", "pipe#copies-between-its-ends", cp[0].Pos(), isStream(g, cp[0].Args[0]) && isStream(g, cp[0].Args[1]) && paramOf(g, cp[0].Args[0]) != paramOf(g, cp[0].Args[1]), "the copy runs between the two ends given")
	}
}

// stripAddr removes a leading & (and parentheses): &wg and wg name the same object.
func stripAddr(e ast.Expr) ast.Expr {
	e = ast.Unparen(e)
	if u, ok := e.(*ast.UnaryExpr); ok && u.Op == token.AND {
		return ast.Unparen(u.X)
	}
	return e
}

// invokedInPlace: lit is called exactly where it is written (an inlined helper), inside f.
func invokedInPlace(f *Fn, lit *ast.FuncLit) bool {
	found := false
	ast.Inspect(f.Body, func(n ast.Node) bool {
		if call, ok := n.(*ast.CallExpr); ok && ast.Unparen(call.Fun) == ast.Expr(lit) {
			found = true
		}
		return !found
	})
	return found
}

// ---------------------------------------------------------------------------------------

func runC42(c *Ctx) {
	// key types per map
	type acc struct{ store, load map[string]bool }
	maps := map[string]*acc{}
	get := func(k string) *acc {
		if maps[k] == nil {
			maps[k] = &acc{map[string]bool{}, map[string]bool{}}
		}
		return maps[k]
	}
	nval := 0
	for _, fn := range c.AllFuncs("spec/transport") {
		if recvName(fn.Decl) != "StreamRouter" {
			continue
		}
		for _, call := range fn.Calls(true, func(call *ast.CallExpr) bool {
			se, ok := call.Fun.(*ast.SelectorExpr)
			return ok && (se.Sel.Name == "Store" || se.Sel.Name == "Load") && strings.HasSuffix(typeStr(fn.enclosing(call), se.X), "sync.Map")
		}) {
			g := fn.enclosing(call)
			se := call.Fun.(*ast.SelectorExpr)
			name := g.Prov(se.X)
			if strings.Contains(name, "virtualChordHandlers") {
				name = "virtual-inner"
			}
			kt := typeStr(g, call.Args[0])
			if se.Sel.Name == "Store" {
				get(name).store[kt] = true
				nval++
				c.Ob("key-types", name+"#stored-value-is-StreamHandler@"+fn.Name, call.Pos(), strings.HasSuffix(typeStr(g, call.Args[1]), "transport.StreamHandler"), "stored values have the type the dispatcher asserts; found "+typeStr(g, call.Args[1]))
			} else {
				get(name).load[kt] = true
			}
		}
	}
	c.Floor("handler maps", len(maps), 3)
	for name, a := range maps {
		same := len(a.store) == 1 && len(a.load) == 1
		for k := range a.store {
			if !a.load[k] {
				same = false
			}
		}
		c.Ob("key-types", name+"#store-and-load-key-types-agree", 0, same, fmt.Sprintf("sync.Map keys are compared with their dynamic type: stored key types %s, looked-up key types %s", setStr(a.store), setStr(a.load)))
	}
	// outer virtual map keyed by int32(kind) on both sides
	nouter := 0
	outerOK := true
	for _, fn := range c.AllFuncs("spec/transport") {
		for _, call := range fn.Calls(true, func(call *ast.CallExpr) bool {
			se, ok := call.Fun.(*ast.SelectorExpr)
			return ok && strings.HasSuffix(fn.enclosing(call).Prov(se.X), ".virtualChordHandlers") && (se.Sel.Name == "Load" || se.Sel.Name == "LoadOrStoreLazy")
		}) {
			nouter++
			g := fn.enclosing(call)
			pv := g.Prov(call.Args[0])
			if !(pv == "param#0" || strings.HasSuffix(pv, ".Kind")) {
				outerOK = false
			}
		}
	}
	c.Ob("key-types", "virtual-outer#keyed-by-stream-kind", 0, nouter >= 2 && outerOK, "the outer virtual map is keyed by the stream kind on both sides")
	// acceptChord order
	ac := c.Func("spec/transport", "StreamRouter", "acceptChord")
	var physLoads, virtLoads []*ast.CallExpr
	for _, call := range methodCalls(ac, false, "Load") {
		pv := ac.enclosing(call).Prov(call.Fun.(*ast.SelectorExpr).X)
		switch {
		case strings.HasSuffix(pv, ".physicalChordHandlers"):
			physLoads = append(physLoads, call)
		case strings.Contains(pv, "virtualChordHandlers.Load()#0"):
			virtLoads = append(virtLoads, call)
		}
	}
	c.Floor("acceptChord lookups", len(physLoads)+len(virtLoads), 2)
	for _, pl := range physLoads {
		// physical lookup only when no virtual map exists for the kind, or the virtual
		// lookup missed: with the edges "outer map not found" and "virtual handler not found"
		// removed, the lookup is unreachable (the two may lead to one shared fallback)
		g := ac.enclosing(pl)
		isMiss := func(at atom) bool {
			if at.tag != nil || at.truth {
				return false
			}
			pv := g.Prov(at.e)
			return strings.HasSuffix(pv, ".virtualChordHandlers.Load()#1") || strings.Contains(pv, ".virtualChordHandlers.Load()#0.Load()#1")
		}
		reached, _ := g.Reach(nil, nil, func(b *cfgBlock, si int) bool {
			for _, at := range g.edgeAtoms(b, si) {
				if isMiss(at) {
					return true
				}
			}
			return false
		})
		bypass := false
		for _, n := range reached {
			if containsNode(n, pl) {
				bypass = true
			}
		}
		c.Ob("dispatch-order", "acceptChord#physical-only-after-virtual-missed", pl.Pos(), !bypass, "the physical handler is consulted only when there is no virtual handler for (kind, peer id)")
		c.Ob("dispatch-order", "acceptChord#physical-by-kind", pl.Pos(), strings.HasSuffix(g.Prov(pl.Args[0]), ".Kind"), "the physical handler is looked up by the stream kind")
	}
	for _, v := range virtLoads {
		c.Ob("dispatch-order", "acceptChord#virtual-by-peer-id", v.Pos(), strings.HasSuffix(ac.enclosing(v).Prov(v.Args[0]), ".Identity.GetId()"), "the virtual handler is looked up by the peer node id")
	}
	for _, name := range []string{"acceptChord", "acceptTunnel"} {
		fn := c.Func("spec/transport", "StreamRouter", name)
		// handler invocation requires ok; the !ok branch closes and continues
		ninv := 0
		ast.Inspect(fn.Body, func(n ast.Node) bool {
			gs, ok := n.(*ast.GoStmt)
			if !ok {
				return true
			}
			ninv++
			fs := fn.FactsAt(gs)
			// the lookup's found flag (whatever it is called) is known true: a boolean local
			// every definition of which is the second result of a handler-map Load
			isFoundFlag := func(e ast.Expr) bool { return handlerFoundFlag(fn, e, 0) }
			okFound := fs.Cmp(func(e, tag ast.Expr, truth bool, fa *Fact) bool {
				return tag == nil && truth && isFoundFlag(e)
			})
			c.Ob("unhandled", name+"#handler-runs-only-when-found", gs.Pos(), okFound, "a handler is started only when the lookup found one")
			okArg := len(gs.Call.Args) == 1 && fn.varOf(gs.Call.Args[0]) != nil
			if ta, ok := gs.Call.Fun.(*ast.TypeAssertExpr); ok {
				okArg = okArg && strings.HasSuffix(typeStr(fn, ta.Type), "transport.StreamHandler")
			}
			c.Ob("unhandled", name+"#handler-gets-the-delegate", gs.Pos(), okArg, "the found handler is invoked with the received delegate")
			return true
		})
		c.Floor(name+" handler invocations", ninv, 1)
		for _, cl := range methodCalls(fn, false, "Close") {
			fs := fn.FactsAt(cl)
			okMiss := fs.Cmp(func(e, tag ast.Expr, truth bool, fa *Fact) bool {
				return tag == nil && !truth && handlerFoundFlag(fn, e, 0)
			})
			c.Ob("unhandled", name+"#unhandled-stream-closed", cl.Pos(), okMiss, "a stream with no handler is closed")
		}
		c.Ob("unhandled", name+"#closes-stream-on-miss", fn.Decl.Pos(), len(methodCalls(fn, false, "Close")) >= 1, "the dispatcher closes a stream nobody handles (otherwise the peer hangs on an open stream)")
	}
}

// handlerFoundFlag: e is a boolean that is true only where a handler-table Load found an
// entry: a local every definition of which is the second result of such a Load, or of a known
// literal (an inlined lookup helper) each of whose returns yields a Load's results as they
// are, a constant false, such a flag, or true where such a flag is known true.
func handlerFoundFlag(g *Fn, e ast.Expr, depth int) bool {
	if depth > 3 {
		return false
	}
	g = g.enclosing(e)
	isLoad := func(h *Fn, x ast.Expr) bool {
		call, ok := ast.Unparen(x).(*ast.CallExpr)
		if !ok {
			return false
		}
		se, ok := call.Fun.(*ast.SelectorExpr)
		return ok && se.Sel.Name == "Load" && strings.Contains(h.Prov(se.X), "Handlers")
	}
	v := g.varOf(e)
	if v == nil || !types.Identical(v.Type(), types.Typ[types.Bool]) {
		return false
	}
	defs := g.defsOf(v)
	if len(defs) == 0 {
		return false
	}
	for _, d := range defs {
		if d.rhs == nil || !d.multi || d.idx != 1 {
			return false
		}
		h := g.enclosing(d.rhs)
		if isLoad(h, d.rhs) {
			continue
		}
		call, ok := ast.Unparen(d.rhs).(*ast.CallExpr)
		if !ok {
			return false
		}
		lit := h.litOfCallee(call)
		if lit == nil {
			return false
		}
		lg := h.Closure(lit)
		rets := lg.Returns()
		if len(rets) == 0 {
			return false
		}
		for _, r := range rets {
			switch len(r.Results) {
			case 1:
				if !isLoad(lg, r.Results[0]) {
					return false
				}
			case 2:
				if cv, isConst := lg.ConstVal(r.Results[1]); isConst {
					if cv == "false" {
						continue
					}
					if !lg.FactsAt(r).Cmp(func(x, tag ast.Expr, truth bool, fa *Fact) bool {
						return tag == nil && truth && handlerFoundFlag(lg, x, depth+1)
					}) {
						return false
					}
					continue
				}
				if !handlerFoundFlag(lg, r.Results[1], depth+1) {
					return false
				}
			default:
				return false
			}
		}
	}
	return true
}

// ---------------------------------------------------------------------------------------

func runC46(c *Ctx) {
	al := c.Func("util/promise", "", "All")
	adds := methodCalls(al, false, "Add")
	okAdd := len(adds) == 1 && al.Prov(adds[0].Args[0]) == "builtin:len(param#1)"
	c.Ob("fanout", "All#wg.Add(len(fns))", al.Decl.Pos(), okAdd, "the wait group expects one completion per function")
	// one goroutine per fn in a range over fns
	var worker *ast.FuncLit
	var waiter *ast.FuncLit
	var keyVar, valVar *types.Var // captured per-iteration loop variables, when that form is used
	ast.Inspect(al.Body, func(n ast.Node) bool {
		gs, ok := n.(*ast.GoStmt)
		if !ok {
			return true
		}
		lit, ok := gs.Call.Fun.(*ast.FuncLit)
		if !ok {
			return true
		}
		inRange := false
		ast.Inspect(al.Body, func(m ast.Node) bool {
			if rs, ok := m.(*ast.RangeStmt); ok && al.Prov(rs.X) == "param#1" && containsNode(rs.Body, gs) {
				inRange = true
				// the goroutine receives the loop variables as arguments, or captures loop
				// variables that are per-iteration (declared by the range with :=, in a module
				// whose go directive is >= 1.22)
				okArgs := len(gs.Call.Args) == 2 && al.varOf(gs.Call.Args[0]) == al.varOf(rs.Key) && al.varOf(gs.Call.Args[1]) == al.varOf(rs.Value)
				if len(gs.Call.Args) == 0 && rs.Tok == token.DEFINE && perIterationLoopVars(al) {
					okArgs = true
					keyVar, valVar = al.varOf(rs.Key), al.varOf(rs.Value)
				}
				c.Ob("fanout", "All#goroutine-gets-its-own-index", gs.Pos(), okArgs, "each goroutine is handed its own index and function")
			}
			return true
		})
		if inRange {
			worker = lit
		} else {
			waiter = lit
		}
		return true
	})
	if worker == nil || waiter == nil {
		c.Failf("promise.All: worker / waiter goroutines not recognised (undecided)")
	}
	w := al.Closure(worker)
	okDone := false
	if len(worker.Body.List) > 0 {
		if d, ok := worker.Body.List[0].(*ast.DeferStmt); ok {
			if se, ok := d.Call.Fun.(*ast.SelectorExpr); ok && se.Sel.Name == "Done" {
				okDone = true
			}
		}
	}
	c.Ob("fanout", "All#worker-defers-Done", worker.Pos(), okDone, "each worker signals completion on every exit")
	nw := 0
	ast.Inspect(worker.Body, func(n ast.Node) bool {
		as, ok := n.(*ast.AssignStmt)
		if !ok {
			return true
		}
		for _, l := range as.Lhs {
			ix, ok := l.(*ast.IndexExpr)
			if !ok {
				continue
			}
			nw++
			okIdx := w.Prov(ix.Index) == "lit.param#0" || keyVar != nil && w.varOf(ix.Index) == keyVar
			c.Ob("fanout", "All#worker-writes-only-its-slot:"+types_ExprString(ix.X), as.Pos(), okIdx, "a worker writes results/errors only at its own index; found index "+w.Prov(ix.Index))
		}
		return true
	})
	c.Floor("worker slot writes", nw, 2)
	nrun := 0
	for _, call := range w.Calls(false, func(call *ast.CallExpr) bool {
		id, ok := call.Fun.(*ast.Ident)
		if !ok {
			return false
		}
		g := w.enclosing(call)
		return g.Prov(id) == "lit.param#1" || valVar != nil && (g.varOf(id) == valVar || g.Prov(id) == "param#1#1")
	}) {
		nrun++
		c.Ob("fanout", "All#worker-runs-its-function-with-ctx", call.Pos(), w.enclosing(call).Prov(call.Args[0]) == "param#0", "the worker runs its own function with the caller's context")
	}
	// ... or hands its function and the context to a helper that runs it
	isFnVar := func(g *Fn, e ast.Expr) bool {
		return g.Prov(e) == "lit.param#1" || valVar != nil && (g.varOf(e) == valVar || g.Prov(e) == "param#1#1")
	}
	for _, call := range w.Calls(false, func(call *ast.CallExpr) bool { return w.FnOfCallee(call) != nil }) {
		g := w.enclosing(call)
		h := w.FnOfCallee(call)
		fi, ci := -1, -1
		for i, a := range call.Args {
			if isFnVar(g, a) {
				fi = i
			}
			if g.Prov(a) == "param#0" {
				ci = i
			}
		}
		if fi < 0 {
			continue
		}
		for _, inner := range h.Calls(false, func(ic *ast.CallExpr) bool {
			id, ok := ic.Fun.(*ast.Ident)
			return ok && h.Prov(id) == fmt.Sprintf("param#%d", fi)
		}) {
			nrun++
			c.Ob("fanout", "All#worker-runs-its-function-with-ctx", call.Pos(), ci >= 0 && len(inner.Args) == 1 && h.Prov(inner.Args[0]) == fmt.Sprintf("param#%d", ci), "the worker runs its own function with the caller's context (through "+h.Name+")")
		}
	}
	c.Floor("worker function invocations", nrun, 1)
	g := al.Closure(waiter)
	waits := methodCalls(g, false, "Wait")
	closes := g.Calls(false, func(call *ast.CallExpr) bool {
		id, ok := call.Fun.(*ast.Ident)
		return ok && id.Name == "close"
	})
	okClose := len(waits) == 1 && len(closes) == 1
	if okClose {
		reached, _ := g.Reach(nil, func(n ast.Node) bool { return containsNode(n, waits[0]) }, nil)
		for _, n := range reached {
			if containsNode(n, closes[0]) {
				okClose = false
			}
		}
	}
	c.Ob("fanout", "All#done-closed-after-Wait", waiter.Pos(), okClose, "done is closed only after every worker finished")
	// every return preceded by a receive from done - the channel the waiter closes
	var doneVar *types.Var
	if len(closes) == 1 && len(closes[0].Args) == 1 {
		doneVar = g.varOf(closes[0].Args[0])
	}
	isRecvDone := func(n ast.Node) bool {
		found := false
		ast.Inspect(n, func(m ast.Node) bool {
			if u, ok := m.(*ast.UnaryExpr); ok && u.Op == token.ARROW && strings.Contains(al.Prov(u.X), "builtin:make") && doneVar != nil && al.varOf(u.X) == doneVar {
				found = true
			}
			return true
		})
		return found
	}
	_, exits := al.Reach(nil, func(n ast.Node) bool { return isRecvDone(n) }, nil)
	c.Ob("fanout", "All#returns-only-after-done", al.Decl.Pos(), len(exits) == 0, fmt.Sprintf("no exit is reachable without receiving from done (also on the cancellation branch): %d bypassing exits", len(exits)))
	// result slices sized len(fns)
	nmk := 0
	ast.Inspect(al.Body, func(n ast.Node) bool {
		if call, ok := n.(*ast.CallExpr); ok {
			if id, ok := call.Fun.(*ast.Ident); ok && id.Name == "make" && len(call.Args) == 2 {
				if _, isArr := call.Args[0].(*ast.ArrayType); isArr {
					nmk++
					c.Ob("fanout", "All#slice-has-len(fns)", call.Pos(), al.Prov(call.Args[1]) == "builtin:len(param#1)", "results and errors have one slot per function")
				}
			}
		}
		return true
	})
	c.Floor("result slices", nmk, 2)
	for _, r := range al.Returns() {
		c.Ob("fanout", "All#returns-both-slices", r.Pos(), len(r.Results) == 2 && strings.Contains(al.Prov(r.Results[0]), "builtin:make") && strings.Contains(al.Prov(r.Results[1]), "builtin:make"), "the aligned slices are returned")
	}
}

// ---------------------------------------------------------------------------------------

func runC47(c *Ctx) {
	pa := c.Func("cmd/internal/listen", "", "ParseAddresses")
	// overrides replace only when non-empty after coalescing. Which list the loop runs over is
	// found by executing the function up to the loop, with coalesceAddrs(base) and
	// coalesceAddrs(overrides) modelled as lists of 0, 1 or 2 marked elements (the choice can
	// only depend on their lengths: any other operation on them is outside the evaluator):
	// the loop must see the overrides' list when it is non-empty and the base list otherwise
	// (and the function fails without a loop when both are empty).
	okOv := false
	ovWhy := ""
	{
		var loop *ast.RangeStmt
		for _, nd := range shallowNodes(pa.Body) {
			if r, ok := nd.(*ast.RangeStmt); ok && loop == nil {
				loop = r
			}
		}
		type stopAtLoop struct{ list Val }
		okOv = loop != nil
		for nb := 0; nb <= 2 && okOv; nb++ {
			for no := 0; no <= 2 && okOv; no++ {
				mk := func(tag string, n int) sliceVal {
					out := sliceVal{}
					for i := 0; i < n; i++ {
						out = append(out, fmt.Sprintf("%s%d", tag, i))
					}
					return out
				}
				env := &evalEnv{f: pa, vars: map[types.Object]Val{}}
				i := 0
				for _, fld := range pa.Type.Params.List {
					for _, nm := range fld.Names {
						env.vars[pa.Info.Defs[nm]] = objVal{id: big.NewInt(int64(100 + i))}
						i++
					}
				}
				env.ext = func(f *Fn, call *ast.CallExpr, recv Val, args []Val) (Val, bool) {
					if f.IsCall(call, "cmd/internal/listen.coalesceAddrs") && len(args) == 1 {
						if o, ok := args[0].(objVal); ok {
							switch o.id.Int64() {
							case 101:
								return mk("base", nb), true
							case 102:
								return mk("override", no), true
							}
						}
					}
					if f.IsCall(call, "fmt.Errorf", "errors.New") {
						return objVal{id: big.NewInt(999)}, true
					}
					return nil, false
				}
				env.pre = func(f *Fn, call *ast.CallExpr) (Val, bool) {
					if id, ok := ast.Unparen(call.Fun).(*ast.Ident); ok {
						if b, ok := f.Info.Uses[id].(*types.Builtin); ok && b.Name() == "make" {
							return objVal{id: big.NewInt(int64(call.Pos()))}, true
						}
					}
					return nil, false
				}
				var seenList Val
				var ret *returned
				func() {
					defer func() {
						if r := recover(); r != nil {
							switch x := r.(type) {
							case stopAtLoop:
								seenList = x.list
							case evalUndecided:
								okOv = false
								ovWhy = "not evaluable up to the loop: " + x.msg
							default:
								panic(r)
							}
						}
					}()
					for _, st := range pa.Body.List {
						if containsNode(st, loop) {
							if st != ast.Stmt(loop) {
								undecided("the address loop is nested in another statement")
							}
							panic(stopAtLoop{env.expr(loop.X)})
						}
						if ret = env.stmt(st); ret != nil {
							return
						}
					}
				}()
				if !okOv {
					break
				}
				want := mk("override", no)
				if no == 0 {
					want = mk("base", nb)
				}
				if nb == 0 && no == 0 {
					// nothing to listen on: an error, no loop
					if ret == nil || len(ret.vals) != 2 {
						okOv = false
						ovWhy = "with both lists empty the function does not fail before the loop"
					} else if _, isNil := ret.vals[1].(nilVal); isNil {
						okOv = false
						ovWhy = "with both lists empty the function returns a nil error"
					}
					continue
				}
				got, isList := seenList.(sliceVal)
				if !isList || len(got) != len(want) {
					okOv = false
					ovWhy = fmt.Sprintf("with %d base and %d override entries the loop runs over %v", nb, no, seenList)
					continue
				}
				for k := range want {
					if got[k] != want[k] {
						okOv = false
						ovWhy = fmt.Sprintf("with %d base and %d override entries the loop runs over %v", nb, no, seenList)
					}
				}
			}
		}
	}
	c.Ob("listen", "ParseAddresses#overrides-only-when-non-empty-after-trim", pa.Decl.Pos(), okOv, "overrides replace the base list only if something remains after trimming and dropping empties; "+ovWhy)
	okBase := false
	for _, call := range pa.CallsTo(false, "cmd/internal/listen.coalesceAddrs") {
		if pa.Prov(call.Args[0]) == "param#1" {
			okBase = true
		}
	}
	c.Ob("listen", "ParseAddresses#base-coalesced", pa.Decl.Pos(), okBase, "the base list is coalesced too")
	// loop
	var rs *ast.RangeStmt
	ast.Inspect(pa.Body, func(n ast.Node) bool {
		if r, ok := n.(*ast.RangeStmt); ok && rs == nil {
			rs = r
		}
		return true
	})
	if rs == nil {
		c.Failf("ParseAddresses: loop not found")
	}
	elem := pa.varOf(rs.Value)
	var ap *ast.CallExpr
	var inss []*ast.AssignStmt
	ast.Inspect(rs.Body, func(n ast.Node) bool {
		switch x := n.(type) {
		case *ast.CallExpr:
			if id, ok := x.Fun.(*ast.Ident); ok && id.Name == "append" {
				ap = x
			}
		case *ast.AssignStmt:
			if len(x.Lhs) == 1 {
				if ix, ok := x.Lhs[0].(*ast.IndexExpr); ok && pa.varOf(ix.Index) == elem {
					inss = append(inss, x)
				}
			}
		}
		return true
	})
	if ap == nil || len(inss) == 0 {
		c.Failf("ParseAddresses: append / seen insertion not recognised (undecided)")
	}
	notSeen := factReq{"not seen before", func(g *Fn, fs *FactSet) bool {
		// the element is known absent from the map the insertion writes
		for _, in := range pa.seenInserts(rs.Body) {
			if pa.notInSeen(fs, in.m, in.key) {
				return true
			}
		}
		return false
	}}
	// host classes, as far as the code can tell them apart: empty, the Fly host, an IP
	// literal, anything else. The facts (about the host) known at the site are executed on the
	// evaluator for a representative of each class, with net.ParseIP modelled; a class is
	// admitted when every such fact evaluates to the truth value recorded for it. Exactly the
	// first three classes must be admitted. A fact about the host the evaluator cannot run
	// (any other string operation) leaves the site undecided, which fails it.
	flyVal := ""
	if k, ok := c.P("cmd/internal/listen").Types.Scope().Lookup("FlyGlobalServicesHost").(*types.Const); ok {
		flyVal, _ = constToVal(k.Val()).(string)
	}
	if flyVal == "" {
		c.Failf("anchor unresolved: FlyGlobalServicesHost")
	}
	hostClasses := []struct{ name, rep string }{{"empty", ""}, {"fly", flyVal}, {"ip", "192.0.2.7"}, {"other", "zz-not-an-ip-7f3a.invalid"}}
	hostAdmitted := func(g *Fn, fs *FactSet) (map[string]bool, string) {
		isHost := func(f *Fn, e ast.Expr) bool {
			return f.varOf(e) != nil && f.Prov(e) == "call:net.SplitHostPort()#0"
		}
		admitted := map[string]bool{}
		nfacts := 0
		for _, hc := range hostClasses {
			ok := true
			for _, fa := range fs.Facts {
				if fa.Kind != FCmp || fa.Expr == nil || fa.Tag != nil {
					continue
				}
				fg := pa.enclosing(fa.Expr)
				mentions := false
				ast.Inspect(fa.Expr, func(n ast.Node) bool {
					if id, isId := n.(*ast.Ident); isId && isHost(pa.enclosing(id), id) {
						mentions = true
					}
					return true
				})
				if !mentions {
					continue
				}
				nfacts++
				env := &evalEnv{f: fg, vars: map[types.Object]Val{}}
				ast.Inspect(fa.Expr, func(n ast.Node) bool {
					if id, isId := n.(*ast.Ident); isId && isHost(pa.enclosing(id), id) {
						env.vars[pa.enclosing(id).Info.ObjectOf(id)] = hc.rep
					}
					return true
				})
				env.ext = func(f *Fn, call *ast.CallExpr, recv Val, args []Val) (Val, bool) {
					if f.IsCall(call, "net.ParseIP") && len(args) == 1 {
						if sv, isStr := args[0].(string); isStr {
							if sv == "192.0.2.7" {
								return objVal{id: big.NewInt(7)}, true
							}
							return nilVal{}, true
						}
					}
					return nil, false
				}
				var got Val
				undec := ""
				func() {
					defer func() {
						if r := recover(); r != nil {
							if u, isU := r.(evalUndecided); isU {
								undec = u.msg
								return
							}
							panic(r)
						}
					}()
					got = env.expr(fa.Expr)
				}()
				if undec != "" {
					return nil, "a test of the host is outside the evaluator: " + undec
				}
				b, isBool := got.(bool)
				if !isBool {
					return nil, "a test of the host does not evaluate to a boolean"
				}
				if b != fa.Truth {
					ok = false
				}
			}
			admitted[hc.name] = ok
		}
		if nfacts == 0 {
			return nil, "no test of the host is known to have been made"
		}
		return admitted, ""
	}
	validated := []factReq{
		reqCallOK("net.SplitHostPort"),
		{"host is empty, an IP, or the Fly host", func(g *Fn, fs *FactSet) bool {
			adm, why := hostAdmitted(g, fs)
			if why != "" {
				return false
			}
			return adm["empty"] && adm["fly"] && adm["ip"] && !adm["other"]
		}},
	}
	for _, ins := range inss {
		requireAt(c, "listen", "ParseAddresses#seen-updated-after-validation", pa, ins, "an address is remembered only after it was validated (a rejected duplicate must be rejected again)", append([]factReq{notSeen}, validated...)...)
	}
	requireAt(c, "listen", "ParseAddresses#append-after-dedup-and-validation", pa, ap, "an address is emitted only if it was not seen before and passed validation; the non-IP rejection excludes exactly the Fly host constant", append([]factReq{notSeen}, validated...)...)
	// the entry's fields: read where the appended value is built (in the append itself, or at
	// the returns of the literal that produces it)
	okFields := false
	elemProv := pa.Prov(rs.Value)
	for _, vs := range valueSites(pa, ap, ap.Args[len(ap.Args)-1]) {
		var cl *ast.CompositeLit
		ast.Inspect(vs.val, func(n ast.Node) bool {
			if x, ok := n.(*ast.CompositeLit); ok && cl == nil {
				cl = x
			}
			return cl == nil
		})
		if cl == nil {
			if v := vs.g.varOf(vs.val); v != nil {
				if defs := vs.g.defsOf(v); len(defs) == 1 && defs[0].rhs != nil {
					cl, _ = ast.Unparen(defs[0].rhs).(*ast.CompositeLit)
				}
			}
		}
		if cl == nil {
			continue
		}
		if len(cl.Elts) == 0 {
			continue // the zero value that accompanies an error
		}
		m := map[string]string{}
		for _, el := range cl.Elts {
			if kv, ok := el.(*ast.KeyValueExpr); ok {
				m[kv.Key.(*ast.Ident).Name] = vs.g.Prov(kv.Value)
			}
		}
		okFields = m["Address"] == elemProv && m["Host"] == "call:net.SplitHostPort()#0" && m["Network"] == "call:cmd/internal/listen.NetworkForVersion()" && m["Version"] == "call:cmd/internal/listen.overrideHostIPVersion()"
	}
	c.Ob("listen", "ParseAddresses#entry-fields", ap.Pos(), okFields, "each output carries its own address, its host, the (possibly overridden) IP version and the network derived from it")
	// empty -> error
	okEmpty := false
	for _, r := range pa.Returns() {
		if pa.FactsAt(r).Cmp(func(e, tag ast.Expr, truth bool, fa *Fact) bool {
			be, ok := e.(*ast.BinaryExpr)
			if !ok {
				return false
			}
			v, _ := pa.ConstVal(be.Y)
			return ok && truth && be.Op == token.EQL && v == "0"
		}) && !isNilIdent(pa.Info, r.Results[1]) {
			okEmpty = true
		}
	}
	c.Ob("listen", "ParseAddresses#empty-list-is-error", pa.Decl.Pos(), okEmpty, "no addresses at all is an error")
	// coalesce
	co := c.Func("cmd/internal/listen", "", "coalesceAddrs")
	okCo := false
	for _, call := range co.Calls(false, func(call *ast.CallExpr) bool {
		id, ok := call.Fun.(*ast.Ident)
		return ok && id.Name == "append"
	}) {
		okCo = co.Prov(call.Args[1]) == "call:strings.TrimSpace()" && co.FactsAt(call).Cmp(func(e, tag ast.Expr, truth bool, fa *Fact) bool {
			be, ok := e.(*ast.BinaryExpr)
			if !ok {
				return false
			}
			v, _ := co.ConstVal(be.Y)
			return ok && !truth && be.Op == token.EQL && v == "\"\""
		})
	}
	c.Ob("listen", "coalesceAddrs#trim-and-drop-empty", co.Decl.Pos(), okCo, "entries are trimmed and empty ones dropped, order preserved")
	// overrideHostIPVersion
	ov := c.Func("cmd/internal/listen", "", "overrideHostIPVersion")
	nOv := 0
	for _, r := range ov.Returns() {
		fs := ov.FactsAt(r)
		isFly := func(truth bool) bool {
			return fs.Cmp(func(e, tag ast.Expr, t bool, fa *Fact) bool {
				be, ok := e.(*ast.BinaryExpr)
				return ok && t == truth && be.Op == token.EQL && constName(ov, be.Y) == "FlyGlobalServicesHost" && ov.Prov(be.X) == "param#0"
			})
		}
		if constName(ov, r.Results[0]) == "IPV4" {
			nOv++
			c.Ob("listen", "overrideHostIPVersion#v4-for-fly-host", r.Pos(), isFly(true), "IPv4 is forced exactly for the Fly host")
		} else {
			nOv++
			c.Ob("listen", "overrideHostIPVersion#unchanged-otherwise", r.Pos(), isFly(false) && ov.Prov(r.Results[0]) == "param#1", "every other host keeps its classified version")
		}
	}
	c.Floor("overrideHostIPVersion returns", nOv, 2)
	// NetworkForVersion
	nf := c.Func("cmd/internal/listen", "", "NetworkForVersion")
	want := map[string]string{"IPV4": "\"4\"", "IPV6": "\"6\""}
	got := map[string]string{}
	defOK := false
	// decided per return from the path facts, so a switch, an if-chain and early returns
	// are all read alike
	isVer := func(e ast.Expr) bool { return nf.Prov(e) == "param#1" }
	nret := 0
	for _, r := range nf.Returns() {
		if len(r.Results) != 1 {
			continue
		}
		nret++
		pos, neg := nf.FactsAt(r).EqConsts(nf, isVer)
		if len(pos) == 0 {
			// the remaining versions
			negs := map[string]bool{}
			for _, k := range neg {
				negs[k] = true
			}
			defOK = nf.Prov(r.Results[0]) == "param#0" && negs["IPV4"] && negs["IPV6"]
			continue
		}
		be, ok := ast.Unparen(r.Results[0]).(*ast.BinaryExpr)
		if ok && be.Op == token.ADD && nf.Prov(be.X) == "param#0" {
			v, _ := nf.ConstVal(be.Y)
			for _, k := range pos {
				got[k] = v
			}
		} else {
			for _, k := range pos {
				got[k] = "?" + nf.Str(r.Results[0])
			}
		}
	}
	c.Floor("NetworkForVersion returns", nret, 3)
	c.Ob("listen", "NetworkForVersion#mapping", nf.Decl.Pos(), got["IPV4"] == want["IPV4"] && got["IPV6"] == want["IPV6"] && defOK, fmt.Sprintf("V4 -> proto4, V6 -> proto6, default -> proto; found %v default=%v", got, defOK))
}

// perIterationLoopVars: the module's go directive is at least 1.22, so the variables a
// `for ... := range` declares are fresh in every iteration (a closure started in the body
// captures its own copy).
func perIterationLoopVars(f *Fn) bool {
	if f.Pkg == nil || f.Pkg.Module == nil {
		return false
	}
	parts := strings.SplitN(f.Pkg.Module.GoVersion, ".", 3)
	if len(parts) < 2 {
		return false
	}
	var major, minor int
	fmt.Sscanf(parts[0], "%d", &major)
	fmt.Sscanf(parts[1], "%d", &minor)
	return major > 1 || major == 1 && minor >= 22
}
