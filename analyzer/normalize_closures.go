package main

// Normalisation of local closures used as statement helpers.
//
//	add := func(kind K, key string) { keys = append(keys, &E{Type: kind, Key: key}) }
//	...
//	add(SIMPLE, k)
//
// is what a maintainer writes to fold three duplicated statements into one. The rules read
// statements where they execute, so such a call - an expression statement calling a local
// variable that is defined exactly once, by a literal without results, returns, defers or
// recover - is replaced by the literal's body in a block that first binds the parameters:
//
//	{ var kind K = SIMPLE; var key string = k; _, _ = kind, key; keys = append(...) }
//
// which is the same program provided every free identifier of the literal (and of its
// parameter types) means the same thing at the call site, and no argument mentions a name an
// earlier parameter declares; both are checked, a site failing them is left alone.

import (
	"fmt"
	"go/ast"
	"go/token"
	"go/types"
	"os"
	"sort"
	"strings"
)

func (c *Ctx) inlineLocalClosures(cur map[string][]byte) (changed bool, log []string) {
	for _, p := range c.All {
		if !strings.HasPrefix(p.PkgPath, M) {
			continue
		}
		for _, f := range p.Syntax {
			fname := c.Fset.File(f.Pos()).Name()
			if strings.HasSuffix(fname, "_test.go") || isGenerated(fname) {
				continue
			}
			content := cur[fname]
			if content == nil {
				content, _ = os.ReadFile(fname)
			}
			var edits []refactorEdit
			for _, d := range f.Decls {
				fd, ok := d.(*ast.FuncDecl)
				if !ok || fd.Body == nil {
					continue
				}
				edits = append(edits, c.closureEdits(p, fd, content, &log)...)
			}
			if len(edits) == 0 {
				continue
			}
			sort.Slice(edits, func(i, j int) bool { return edits[i].start > edits[j].start })
			out := content
			okApply := true
			for i, e := range edits {
				if i > 0 && e.end > edits[i-1].start {
					okApply = false // overlapping (nested) sites: next round
					continue
				}
				out = append(append(append([]byte{}, out[:e.start]...), e.text...), out[e.end:]...)
			}
			_ = okApply
			cur[fname] = out
			changed = true
		}
	}
	return changed, log
}

func (c *Ctx) closureEdits(p *packagesPkg, fd *ast.FuncDecl, content []byte, log *[]string) []refactorEdit {
	info := p.TypesInfo
	off := func(pos token.Pos) int { return c.Fset.Position(pos).Offset }
	// single-definition closure variables
	type cand struct {
		v    *types.Var
		lit  *ast.FuncLit
		defs int
	}
	cands := map[*types.Var]*cand{}
	note := func(lhs ast.Expr, id *ast.Ident, rhs ast.Expr) {
		var v *types.Var
		if id != nil {
			v, _ = info.Defs[id].(*types.Var)
			if v == nil {
				v, _ = info.Uses[id].(*types.Var)
			}
		} else if lid, ok := ast.Unparen(lhs).(*ast.Ident); ok {
			v, _ = info.ObjectOf(lid).(*types.Var)
		}
		if v == nil {
			return
		}
		cd := cands[v]
		if cd == nil {
			cd = &cand{v: v}
			cands[v] = cd
		}
		cd.defs++
		if rhs != nil {
			cd.lit, _ = ast.Unparen(rhs).(*ast.FuncLit)
		} else {
			cd.lit = nil
		}
	}
	ast.Inspect(fd.Body, func(n ast.Node) bool {
		switch x := n.(type) {
		case *ast.AssignStmt:
			for i, l := range x.Lhs {
				var r ast.Expr
				if len(x.Rhs) == len(x.Lhs) {
					r = x.Rhs[i]
				}
				note(l, nil, r)
			}
		case *ast.ValueSpec:
			for i, nm := range x.Names {
				var r ast.Expr
				if i < len(x.Values) && len(x.Values) == len(x.Names) {
					r = x.Values[i]
				}
				if len(x.Values) == 0 {
					// var f func(): zero definition, assigned later
					note(nil, nm, nil)
					continue
				}
				note(nil, nm, r)
			}
		case *ast.UnaryExpr:
			if x.Op == token.AND {
				if id, ok := ast.Unparen(x.X).(*ast.Ident); ok {
					if v, ok := info.ObjectOf(id).(*types.Var); ok {
						if cd := cands[v]; cd != nil {
							cd.defs += 2 // address taken: may be reassigned elsewhere
						} else {
							cands[v] = &cand{v: v, defs: 2}
						}
					}
				}
			}
		}
		return true
	})
	simple := func(lit *ast.FuncLit) bool {
		if lit == nil || lit.Type.Results != nil && len(lit.Type.Results.List) > 0 {
			return false
		}
		if lit.Type.Params != nil {
			for _, fld := range lit.Type.Params.List {
				if _, variadic := fld.Type.(*ast.Ellipsis); variadic {
					return false
				}
			}
		}
		ok := true
		ast.Inspect(lit.Body, func(n ast.Node) bool {
			switch x := n.(type) {
			case *ast.FuncLit:
				return false
			case *ast.ReturnStmt, *ast.DeferStmt, *ast.LabeledStmt:
				ok = false
			case *ast.BranchStmt:
				if x.Tok == token.GOTO {
					ok = false
				}
			case *ast.CallExpr:
				if id, isId := ast.Unparen(x.Fun).(*ast.Ident); isId && id.Name == "recover" {
					ok = false
				}
			}
			return ok
		})
		return ok
	}
	var edits []refactorEdit
	ast.Inspect(fd.Body, func(n ast.Node) bool {
		es, ok := n.(*ast.ExprStmt)
		if !ok {
			return true
		}
		call, ok := ast.Unparen(es.X).(*ast.CallExpr)
		if !ok {
			return true
		}
		id, ok := ast.Unparen(call.Fun).(*ast.Ident)
		if !ok {
			return true
		}
		v, ok := info.Uses[id].(*types.Var)
		if !ok {
			return true
		}
		cd := cands[v]
		if os.Getenv("VERIF_DEBUG_CLOSURES") != "" {
			fmt.Fprintf(os.Stderr, "closure call %s at %s: cand=%v\n", id.Name, c.pos(call.Pos()), cd)
		}
		if cd == nil || cd.defs != 1 || !simple(cd.lit) {
			return true
		}
		lit := cd.lit
		if lit.Pos() <= call.Pos() && call.End() <= lit.End() {
			return true // recursive use
		}
		// parameters
		type prm struct {
			name, typ string
		}
		var prms []prm
		if lit.Type.Params != nil {
			for _, fld := range lit.Type.Params.List {
				typ := string(content[off(fld.Type.Pos()):off(fld.Type.End())])
				if len(fld.Names) == 0 {
					prms = append(prms, prm{"_", typ})
				}
				for _, nm := range fld.Names {
					prms = append(prms, prm{nm.Name, typ})
				}
			}
		}
		if len(prms) != len(call.Args) || call.Ellipsis.IsValid() {
			return true
		}
		// no argument mentions a name declared by an earlier parameter
		declared := map[string]bool{}
		for i, a := range call.Args {
			bad := false
			ast.Inspect(a, func(m ast.Node) bool {
				if aid, ok := m.(*ast.Ident); ok && declared[aid.Name] {
					bad = true
				}
				return true
			})
			if bad {
				return true
			}
			if prms[i].name != "_" {
				declared[prms[i].name] = true
			}
		}
		// every free identifier of the literal resolves to the same object at the call site
		scope := p.Types.Scope().Innermost(call.Pos())
		if scope == nil {
			*log = append(*log, fmt.Sprintf("closure %s at %s: no scope information, left alone", id.Name, c.pos(call.Pos())))
			return true
		}
		same := true
		check := func(root ast.Node) {
			var visit func(m ast.Node) bool
			visit = func(m ast.Node) bool {
				if se, ok := m.(*ast.SelectorExpr); ok {
					// only the operand is looked up by name (a package name, or a value)
					ast.Inspect(se.X, visit)
					return false
				}
				uid, ok := m.(*ast.Ident)
				if !ok {
					return true
				}
				o := info.Uses[uid]
				if o == nil {
					return true
				}
				if vv, ok := o.(*types.Var); ok && vv.IsField() {
					return true
				}
				if ff, ok := o.(*types.Func); ok && ff.Signature().Recv() != nil {
					return true
				}
				if lit.Pos() <= o.Pos() && o.Pos() < lit.End() {
					return true // declared inside the literal
				}
				if _, found := scope.LookupParent(uid.Name, call.Pos()); found != o {
					same = false
					if os.Getenv("VERIF_DEBUG_CLOSURES") != "" {
						fmt.Fprintf(os.Stderr, "  name %s: %v vs %v\n", uid.Name, o, found)
					}
				}
				return true
			}
			ast.Inspect(root, visit)
		}
		check(lit.Type)
		check(lit.Body)
		if !same {
			*log = append(*log, fmt.Sprintf("closure %s at %s: a name means something else at the call site, left alone", id.Name, c.pos(call.Pos())))
			return true
		}
		var b strings.Builder
		b.WriteString("{\n")
		var names []string
		for i, pr := range prms {
			arg := string(content[off(call.Args[i].Pos()):off(call.Args[i].End())])
			fmt.Fprintf(&b, "var %s %s = %s\n", pr.name, pr.typ, arg)
			if pr.name != "_" {
				names = append(names, pr.name)
			}
		}
		if len(names) > 0 {
			fmt.Fprintf(&b, "%s = %s\n", strings.TrimSuffix(strings.Repeat("_, ", len(names)), ", "), strings.Join(names, ", "))
		}
		b.Write(content[off(lit.Body.Lbrace)+1 : off(lit.Body.Rbrace)])
		b.WriteString("\n}")
		edits = append(edits, refactorEdit{start: off(es.Pos()), end: off(es.End()), text: []byte(b.String())})
		*log = append(*log, fmt.Sprintf("inlined local closure %s at %s", id.Name, c.pos(call.Pos())))
		return false
	})
	if len(edits) > 0 {
		// the closure variable may have no use left: keep the program compiling
		seen := map[*types.Var]bool{}
		ast.Inspect(fd.Body, func(n ast.Node) bool {
			var lits []*ast.FuncLit
			var ids []*ast.Ident
			var end token.Pos
			switch x := n.(type) {
			case *ast.AssignStmt:
				if x.Tok == token.DEFINE && len(x.Lhs) == len(x.Rhs) {
					for i, l := range x.Lhs {
						if lid, ok := l.(*ast.Ident); ok {
							if fl, ok := ast.Unparen(x.Rhs[i]).(*ast.FuncLit); ok {
								lits, ids = append(lits, fl), append(ids, lid)
							}
						}
					}
					end = x.End()
				}
			case *ast.DeclStmt:
				if gd, ok := x.Decl.(*ast.GenDecl); ok && gd.Tok == token.VAR {
					for _, sp := range gd.Specs {
						if vs, ok := sp.(*ast.ValueSpec); ok && len(vs.Names) == len(vs.Values) {
							for i, nm := range vs.Names {
								if fl, ok := ast.Unparen(vs.Values[i]).(*ast.FuncLit); ok {
									lits, ids = append(lits, fl), append(ids, nm)
								}
							}
						}
					}
					end = x.End()
				}
			}
			for i := range lits {
				v, _ := info.Defs[ids[i]].(*types.Var)
				if cd := cands[v]; v != nil && cd != nil && cd.lit == lits[i] && cd.defs == 1 && !seen[v] && simple(cd.lit) {
					seen[v] = true
					edits = append(edits, refactorEdit{start: off(end), end: off(end), text: []byte("\n_ = " + ids[i].Name + "\n")})
				}
			}
			return true
		})
	}
	return edits
}
