package main

import (
	"os"
	"math/big"
	"fmt"
	"go/ast"
	"go/token"
	"go/types"
	"strings"
)

const (
	pSelf  = "recv.ID()"
	pPred  = "recv.getPredecessor().ID()"
	pSucc  = "recv.getSuccessor().ID()"
	pKey0  = "param#0"
	pFldPr = "recv.predecessor"
)

func init() {
	register(&propDef{ID: "C01", Level: "other",
		Decides:    "every ring-interval test on the lookup path (FindSuccessor x2, closestPrecedingNode) selects exactly the set the Chord ownership rule requires (compared on all 13 order types, so permuted/complemented rewrites of the same set pass), each is followed by the right consequence on every path (own range -> self, successor range -> successor, otherwise forward; first preceding finger from the top wins, fallback self), and finger targets are self + 2^(k-1) on the ring for k in [1,48], stored in finger k.",
		NotDecided: "that finger tables are actually repaired at run time, and any end-to-end lookup result on a concrete ring.",
		Run:        runC01})
	register(&propDef{ID: "C02", Level: "other",
		Decides:    "the pointer-update discipline convergence depends on: the interval tests in Notify and stabilize select the sets the protocol requires (all order types); LocalNode.predecessor / successors / fingers[k].node are written only by the enumerated functions and only with their mutex write-held; stabilize notifies the new head on every path where the list was refreshed and the node is not leaving; Notify adopts a candidate only by compare-and-set against the snapshot it decided on (checkPredecessor likewise clears only the predecessor it probed); every fix-finger round calls fixK(k) for every k in 1..MaxFingerEntries with no early exit.",
		NotDecided: "convergence itself (a liveness property over schedules).",
		Run:        runC02})
	register(&propDef{ID: "C05", Level: "other",
		Decides:    "the key range moved on a join is exactly the range whose ownership moves: transferKeysUpward selects RangeKeys(low, newPredecessor) with low = previous predecessor (self when nil) only after testing that the new predecessor lies strictly inside (low, self); a leave moves everything (RangeKeys(0,0)); kvMiddleware's ownership tests select (self, surrogate] -> forward and not (predecessor, self] -> stale on all order types; in Join and Leave the pointer advisory to the predecessor (Finish*(stabilize, no release)) is never sent after the successor's membership lock was released.",
		NotDecided: "placement after real churn; duplicates left behind when RemoveKeys fails (it is only logged).",
		Run:        runC05})
	register(&propDef{ID: "C08", Level: "other",
		Decides:    "no nil dereference of the neighbour pointers: every value loaded from LocalNode.predecessor / LocalNode.surrogate / getPredecessor() / getSuccessor() (all may be nil: checkPredecessor clears a dead predecessor) is tested non-nil on every path before a method is called on it, in every function of package chord and one call deep through parameters; and every sentinel RequestToJoin returns from its own decision is a retryable one or ErrDuplicateJoinerID.",
		NotDecided: "errors propagated from the lookup (FindSuccessor) or from the forwarded request; behaviour of remote nodes.",
		Run:        runC08})
	register(&propDef{ID: "C09", Level: "other",
		Decides:    "every forwarding call in LocalNode that re-issues the same request to a node chosen by a function that can return the receiver itself (FindSuccessor -> closestPrecedingNode() fallback; RequestToJoin / kvMiddleware -> FindSuccessor result) is cut, on every path, by an identity test excluding the receiver - unchanged arguments plus a possible self target is unbounded recursion; and the ListKeys ring walk has both exits (back at self, repeated node).",
		NotDecided: "termination of lookups that bounce between distinct nodes with inconsistent fingers (needs a ring).",
		Run:        runC09})

	addSelfTests("C01",
		mutation{"own-range-open", "chord/local_chord.go", "chord.Between(pre.ID(), key, n.ID(), true)", "chord.Between(pre.ID(), key, n.ID(), false)", "interval"},
		mutation{"succ-range-swapped", "chord/local_chord.go", "chord.Between(n.ID(), key, succ.ID(), true)", "chord.Between(succ.ID(), key, n.ID(), true)", "interval"},
		mutation{"finger-closed", "chord/local_chord.go", "chord.Between(n.ID(), f.ID(), key, false)", "chord.Between(n.ID(), f.ID(), key, true)", "interval"},
		mutation{"finger-target-off-by-one", "chord/local_tasks.go", "chord.ModuloSum(n.ID(), 1<<(k-1))", "chord.ModuloSum(n.ID(), 1<<k)", "finger-target"},
		mutation{"finger-scan-ascending", "chord/local_chord.go", "for k := chord.MaxFingerEntries; k >= 1; k-- {", "for k := 1; k <= chord.MaxFingerEntries; k++ {", "finger-scan"},
		mutation{"finger-last-hit-wins", "chord/local_chord.go", "			finger = f\n			return false", "			finger = f\n			return true", "finger-first-hit"},
	)
	mutExtra["fingerprint-rotate-xor-fold"] = [2]string{"	\"fmt\"\n", "	\"fmt\"\n	\"math/bits\"\n"}
	addSelfTests("C02",
		mutation{"notify-closed-interval", "chord/local_chord.go", "chord.Between(predecessorSnapshot.ID(), predecessor.ID(), n.ID(), false)", "chord.Between(predecessorSnapshot.ID(), predecessor.ID(), n.ID(), true)", "interval"},
		mutation{"stabilize-interval-swapped", "chord/local_tasks.go", "chord.Between(n.ID(), newSucc.ID(), head.ID(), false)", "chord.Between(head.ID(), newSucc.ID(), n.ID(), false)", "interval"},
		mutation{"pred-write-under-rlock", "chord/local_tasks.go", "		n.predecessorMu.Lock()\n		if n.predecessor == pre {", "		n.predecessorMu.RLock()\n		if n.predecessor == pre {", "guarded-write"},
		mutation{"fingerprint-rotate-xor-fold", "chord/local_tasks.go", "	hasher := xxh3.New()\n	buf := make([]byte, 8)\n	for _, node := range nodes {\n		if node == nil {\n			continue\n		}\n		binary.BigEndian.PutUint64(buf, node.ID())\n		hasher.Write(buf)\n	}\n	return hasher.Sum64()", "	var sum uint64\n	for _, node := range nodes {\n		if node == nil {\n			continue\n		}\n		sum = bits.RotateLeft64(sum, 17) ^ node.ID()\n	}\n	_, _ = xxh3.Hash, binary.BigEndian\n	return sum", "list-fingerprint"},
		mutation{"fingerprint-fnv-fold", "chord/local_tasks.go", "	hasher := xxh3.New()\n	buf := make([]byte, 8)\n	for _, node := range nodes {\n		if node == nil {\n			continue\n		}\n		binary.BigEndian.PutUint64(buf, node.ID())\n		hasher.Write(buf)\n	}\n	return hasher.Sum64()", "	sum := uint64(14695981039346656037)\n	for _, node := range nodes {\n		if node == nil {\n			continue\n		}\n		sum = (sum ^ node.ID()) * 1099511628211\n		sum ^= sum >> 29\n	}\n	_, _ = xxh3.Hash, binary.BigEndian\n	return sum", "!list-fingerprint"},
		mutation{"fingerprint-skips-first-entry", "chord/local_tasks.go", "	for _, node := range nodes {\n		if node == nil {\n			continue\n		}\n		binary.BigEndian.PutUint64(buf, node.ID())", "	for i, node := range nodes {\n		if node == nil || i == 0 {\n			continue\n		}\n		binary.BigEndian.PutUint64(buf, node.ID())", "list-fingerprint"},
		mutation{"fingerprint-stored-after-unlock", "chord/local_tasks.go", "		n.successorsMu.Lock()\n		n.updateSuccessorsList(listHash, succList)\n		n.successorsMu.Unlock()", "		n.successorsMu.Lock()\n		n.successors = succList\n		n.successorsMu.Unlock()\n		n.succListHash.Store(listHash)", "guarded-write"},
		mutation{"fix-finger-stops-at-self", "chord/local_tasks.go", "		if changed {\n			fixed = append(fixed, k)\n		}\n	}", "		if changed {\n			fixed = append(fixed, k)\n		} else if k > 1 {\n			break\n		}\n	}", "finger-coverage"},
		mutation{"fix-finger-skips-on-error-before-fix", "chord/local_tasks.go", "		changed, err := n.fixK(k)\n		if err != nil {\n			continue\n		}", "		if n.checkNodeState(false) != nil {\n			continue\n		}\n		changed, err := n.fixK(k)\n		if err != nil {\n			continue\n		}", "finger-coverage"},
		mutation{"check-predecessor-without-cas", "chord/local_tasks.go", "		if n.predecessor == pre {\n			n.predecessor = nil\n			n.logger.Info(\"Discovered dead predecessor\",\n				zap.Object(\"old\", pre.Identity()),\n				zap.String(\"new\", \"nil\"),\n			)\n		}", "		n.predecessor = nil\n		n.logger.Info(\"Discovered dead predecessor\",\n			zap.Object(\"old\", pre.Identity()),\n			zap.String(\"new\", \"nil\"),\n		)", "snapshot-cas"},
		mutation{"notify-surrogate-cas-outside-lock", "chord/local_chord.go", "		n.surrogateMu.Lock()\n		if surrogateSnapshot == n.surrogate {", "		unchanged := surrogateSnapshot == n.surrogate\n		n.surrogateMu.Lock()\n		if unchanged {", "snapshot-cas"},
		mutation{"notify-without-cas", "chord/local_chord.go", "		if predecessorSnapshot == n.predecessor {\n			n.predecessor = candidatePredecessor\n		}", "		n.predecessor = candidatePredecessor", "notify-cas"},
		mutation{"stabilize-no-notify", "chord/local_tasks.go", "if modified && len(succList) > 0 && n.checkNodeState(true) == nil {", "if modified && len(succList) > 1 && n.checkNodeState(true) == nil {", "stabilize-notify"},
	)
	addSelfTests("C05",
		mutation{"join-release-before-advisory", "chord/local_membership.go", "	if err := predecessor.FinishJoin(true, false); err != nil { // advisory to let predecessor update successor list\n		n.logger.Warn(\"error sending advisory to predecessor\", zap.Error(err))\n	}\n	n.state.Set(chord.Active)                                     // release local join lock\n	if err := successors[0].FinishJoin(false, true); err != nil { // release successor join lock\n		n.logger.Warn(\"error releasing join lock in successor\", zap.Error(err))\n	}", "	n.state.Set(chord.Active)                                     // release local join lock\n	if err := successors[0].FinishJoin(false, true); err != nil { // release successor join lock\n		n.logger.Warn(\"error releasing join lock in successor\", zap.Error(err))\n	}\n	if err := predecessor.FinishJoin(true, false); err != nil { // advisory to let predecessor update successor list\n		n.logger.Warn(\"error sending advisory to predecessor\", zap.Error(err))\n	}", "advisory-order"},
		mutation{"join-no-advisory", "chord/local_membership.go", "	if err := predecessor.FinishJoin(true, false); err != nil { // advisory to let predecessor update successor list\n		n.logger.Warn(\"error sending advisory to predecessor\", zap.Error(err))\n	}\n	n.state.Set(chord.Active) ", "	n.state.Set(chord.Active) ", "advisory-order"},
		mutation{"join-advisory-after-local-set", "chord/local_membership.go", "	if err := predecessor.FinishJoin(true, false); err != nil { // advisory to let predecessor update successor list\n		n.logger.Warn(\"error sending advisory to predecessor\", zap.Error(err))\n	}\n	n.state.Set(chord.Active)                                     // release local join lock\n", "	n.state.Set(chord.Active)                                     // release local join lock\n	if err := predecessor.FinishJoin(true, false); err != nil { // advisory to let predecessor update successor list\n		n.logger.Warn(\"error sending advisory to predecessor\", zap.Error(err))\n	}\n", "!advisory-order"},
		mutation{"low-default-then-override", "chord/local_chord.go", "	if prevPredecessor == nil {\n		low = n\n	} else {\n		low = prevPredecessor\n	}", "	low = n\n	if prevPredecessor != nil {\n		low = prevPredecessor\n	}", "!range-args"},
		mutation{"low-always-self", "chord/local_chord.go", "	if prevPredecessor == nil {\n		low = n\n	} else {\n		low = prevPredecessor\n	}", "	low = n\n	if prevPredecessor == nil {\n		low = n\n	}", "range-args"},
		mutation{"low-prev-even-when-nil", "chord/local_chord.go", "	if prevPredecessor == nil {\n		low = n\n	} else {\n		low = prevPredecessor\n	}", "	low = prevPredecessor", "range-args"},
		mutation{"range-from-self", "chord/local_chord.go", "keys, err = n.kv.RangeKeys(ctx, low.ID(), newPredecessor.ID())", "keys, err = n.kv.RangeKeys(ctx, n.ID(), newPredecessor.ID())", "range-args"},
		mutation{"surrogate-test-open", "chord/local_kv.go", "chord.Between(n.ID(), id, n.surrogate.Identity().GetId(), true)", "chord.Between(n.ID(), id, n.surrogate.Identity().GetId(), false)", "interval"},
		mutation{"stale-test-not-negated", "chord/local_kv.go", "n.predecessor != nil && !chord.Between(n.predecessor.ID(), id, n.ID(), true)", "n.predecessor != nil && chord.Between(n.predecessor.ID(), id, n.ID(), true)", "interval"},
		mutation{"leave-partial-range", "chord/local_chord.go", "keys, err := n.kv.RangeKeys(ctx, 0, 0)", "keys, err := n.kv.RangeKeys(ctx, 0, n.ID())", "range-args"},
	)
	addSelfTests("C08",
		mutation{"executeLeave-no-nil-check", "chord/local_membership.go", "	if pre == nil {\n		return nil, nil, fmt.Errorf(\"retrying on nil predecessor\")\n	}\n", "	_ = fmt.Errorf\n", "nil-guard"},
		mutation{"join-nonretryable", "chord/local_membership.go", "return nil, nil, chord.ErrJoinInvalidSuccessor", "return nil, nil, chord.ErrNodeGone", "join-refusal"},
	)
	addSelfTests("C09",
		mutation{"join-forward-unguarded", "chord/local_membership.go", "	if succ.ID() != n.ID() {\n		return succ.RequestToJoin(joiner)\n	}", "	if succ.ID() != joiner.ID() {\n		return succ.RequestToJoin(joiner)\n	}", "self-forward"},
		mutation{"listkeys-no-repeat-exit", "chord/local_kv.go", "			return nil, fmt.Errorf(\"ring is unstable\")\n", "			_ = fmt.Errorf(\"ring is unstable\")\n", "ring-walk"},
	)
}

func chordFn(c *Ctx, recv, name string) *Fn { return c.Func("chord", recv, name) }

// checkSiteSet is checkSite for sites whose consequence is decided from path facts about the
// call itself (FTrue / FFalse of s.call): how the test is written around the call - negated
// with an early exit, or positive with the action nested - does not matter then, only the set
// the call selects does.
func checkSiteSet(c *Ctx, rule string, fn *Fn, sites []*betweenSite, low, target, high string, incl bool, meaning string) *betweenSite {
	s := findSite(sites, low, target, high)
	if s != nil && s.neg {
		cp := *s
		cp.neg = false
		for i, x := range sites {
			if x == s {
				sites[i] = &cp
			}
		}
	}
	return checkSite(c, rule, fn, sites, low, target, high, incl, false, meaning)
}

func checkSite(c *Ctx, rule string, fn *Fn, sites []*betweenSite, low, target, high string, incl, neg bool, meaning string) *betweenSite {
	between := c.Func("spec/chord", "", "Between")
	s := findSite(sites, low, target, high)
	construct := fmt.Sprintf("%s#(%s,%s,%s)", fn.Name, low, target, high)
	if s == nil {
		var have []string
		for _, x := range sites {
			have = append(have, x.String())
		}
		c.Ob(rule, construct, fn.Body.Pos(), false, fmt.Sprintf("no ring-interval test over these roles (%s); sites present: %v", meaning, have))
		return nil
	}
	ok, why := s.sameSet(c, between, low, target, high, incl, neg)
	c.Ob(rule, construct, s.call.Pos(), ok, fmt.Sprintf("%s: site is %s; required set: %s in (%s, %s%s negated=%v. %s", meaning, s, target, low, high, map[bool]string{true: "]", false: ")"}[incl], neg, why))
	if !ok {
		return nil
	}
	return s
}

func runC01(c *Ctx) {
	listFingerprintRule(c)
	fs := chordFn(c, "LocalNode", "FindSuccessor")
	sites := fs.betweenSites()
	s1 := checkSiteSet(c, "interval", fs, sites, pPred, pKey0, pSelf, true, "key is in our own range (predecessor, self]")
	s2 := checkSiteSet(c, "interval", fs, sites, pSelf, pKey0, pSucc, true, "key is in the successor's range (self, successor]")
	c.Floor("FindSuccessor interval sites", len(sites), 2)
	// consequences
	nret := 0
	for _, r := range fs.Returns() {
		if len(r.Results) != 2 {
			continue
		}
		pv := fs.Prov(r.Results[0])
		facts := fs.FactsAt(r)
		switch pv {
		case "recv":
			nret++
			ok := s1 != nil && facts.Has(func(fa *Fact) bool { return fa.Kind == FTrue && fa.Call == s1.call })
			c.Ob("lookup-consequence", "FindSuccessor#return-self", r.Pos(), ok, "the node answers `self` only on paths where key in (predecessor, self] held")
		case "recv.getSuccessor()":
			nret++
			ok := s2 != nil && facts.Has(func(fa *Fact) bool { return fa.Kind == FTrue && fa.Call == s2.call })
			c.Ob("lookup-consequence", "FindSuccessor#return-successor", r.Pos(), ok, "the node answers `successor` only on paths where key in (self, successor] held")
		case "nil":
		default:
			if call, ok := ast.Unparen(r.Results[0]).(*ast.CallExpr); ok || len(r.Results) == 1 {
				_ = call
			}
		}
	}
	fwd := fs.Calls(false, func(call *ast.CallExpr) bool {
		se, ok := call.Fun.(*ast.SelectorExpr)
		return ok && se.Sel.Name == "FindSuccessor" && fs.Prov(se.X) != "recv"
	})
	for _, call := range fwd {
		se := call.Fun.(*ast.SelectorExpr)
		facts := fs.FactsAt(call)
		ok := s2 != nil && s1 != nil && facts.Has(func(fa *Fact) bool { return fa.Kind == FFalse && fa.Call == s2.call })
		c.Ob("lookup-consequence", "FindSuccessor#forward", call.Pos(), ok, "forwarding happens only on paths where the key was not in (self, successor]")
		c.Ob("lookup-consequence", "FindSuccessor#forward-target", call.Pos(), forwardTargetOK(fs.Prov(se.X)) && len(call.Args) == 1 && fs.Prov(call.Args[0]) == pKey0,
			"the request is forwarded, with the same key, to closestPrecedingNode(key) or to the immediate successor (both make progress); found target "+fs.Prov(se.X))
	}
	c.Floor("FindSuccessor consequences", nret+len(fwd), 3)

	// closestPrecedingNode
	cp := chordFn(c, "LocalNode", "closestPrecedingNode")
	csites := cp.betweenSites()
	const pFinger = "lit.param#1.ID()"
	s3 := checkSiteSet(c, "interval", cp, csites, pSelf, pFinger, pKey0, false, "finger strictly precedes the key: finger in (self, key)")
	if s3 != nil {
		// the finger is adopted only on the pass edge and iteration stops there
		lit := s3.f
		adopted := 0
		ast.Inspect(lit.Body, func(n ast.Node) bool {
			as, ok := n.(*ast.AssignStmt)
			if !ok || len(as.Lhs) != 1 || len(as.Rhs) != 1 {
				return true
			}
			if lit.Prov(as.Rhs[0]) == "lit.param#1" {
				adopted++
				ok := lit.FactsAt(as).Has(func(fa *Fact) bool { return fa.Kind == FTrue && fa.Call == s3.call })
				c.Ob("finger-adopt", "closestPrecedingNode#adopt", as.Pos(), ok, "a finger is chosen only when it precedes the key")
				// the next statement on this path must stop the iteration: return false
				_, exits := lit.Reach(as, nil, nil)
				stops := len(exits) > 0
				// the value returned after an adoption is false: the constant, or an expression
				// that is false given that the interval test held (the adoption is reachable only
				// under it): `return !precedes`
				underTest := func(e ast.Expr) (bool, bool) {
					e = ast.Unparen(e)
					if e == ast.Expr(s3.call) {
						return true, true
					}
					if v := lit.varOf(e); v != nil {
						if defs := lit.defsOf(v); len(defs) == 1 && !defs[0].multi && defs[0].rhs != nil && ast.Unparen(defs[0].rhs) == ast.Expr(s3.call) {
							return true, true
						}
					}
					if cv, ok := lit.ConstVal(e); ok {
						return cv == "true", true
					}
					// `result == nil` right after `result = f`: f is not nil, the interval test
					// called f.ID() on this very path
					if be, ok := e.(*ast.BinaryExpr); ok && (be.Op == token.EQL || be.Op == token.NEQ) && isNilIdent(lit.Info, be.Y) {
						if v := lit.varOf(be.X); v != nil && v == lit.varOf(as.Lhs[0]) {
							derefd := false
							ast.Inspect(s3.call, func(m ast.Node) bool {
								if se, ok := m.(*ast.SelectorExpr); ok && lit.varOf(se.X) != nil && lit.varOf(se.X) == lit.varOf(as.Rhs[0]) {
									derefd = true
								}
								return true
							})
							if derefd {
								return be.Op == token.NEQ, true
							}
						}
					}
					return false, false
				}
				for _, ex := range exits {
					if ex.Ret == nil || len(ex.Ret.Results) != 1 {
						stops = false
						continue
					}
					if v, known := evalBool3(ex.Ret.Results[0], underTest); !known || v {
						stops = false
					}
				}
				c.Ob("finger-first-hit", "closestPrecedingNode#stop-after-hit", as.Pos(), stops, "after adopting a finger the visitor returns false, so the highest preceding finger wins")
			}
			return true
		})
		c.Floor("finger adoption sites", adopted, 1)
	}
	// fallback to the receiver when no finger precedes
	fb := false
	for _, r := range cp.Returns() {
		if len(r.Results) == 1 {
			// `return n` after the scan, or a result variable that starts as the receiver
			// and is only overwritten by the adoption above
			for _, alt := range splitAlts(cp.Prov(r.Results[0])) {
				if alt == "recv" {
					fb = true
				}
			}
		}
	}
	c.Ob("finger-fallback", "closestPrecedingNode#fallback-self", cp.Body.Pos(), fb, "falls back to the receiver when no finger precedes the key (see C09 for the termination side)")

	// fingerRangeView: k from MaxFingerEntries down to 1, stop flag honoured
	fr := chordFn(c, "LocalNode", "fingerRangeView")
	okScan := false
	var loopPos token.Pos = fr.Body.Pos()
	ast.Inspect(fr.Body, func(n ast.Node) bool {
		fl, ok := n.(*ast.ForStmt)
		if !ok {
			return true
		}
		loopPos = fl.Pos()
		init, ok1 := fl.Init.(*ast.AssignStmt)
		post, ok3 := fl.Post.(*ast.IncDecStmt)
		if ok1 && ok3 && fl.Cond != nil && len(init.Rhs) == 1 && len(init.Lhs) == 1 {
			iv, _ := fr.ConstVal(init.Rhs[0])
			kv := fr.varOf(init.Lhs[0])
			// the bound on k is one conjunct of the condition (a stop flag may be another)
			for _, cj := range conjuncts(fl.Cond) {
				cond, ok2 := ast.Unparen(cj).(*ast.BinaryExpr)
				if !ok2 || kv == nil || fr.varOf(cond.X) != kv || fr.varOf(post.X) != kv {
					continue
				}
				cv, _ := fr.ConstVal(cond.Y)
				if iv == "48" && cond.Op == token.GEQ && cv == "1" && post.Tok == token.DEC {
					okScan = true
				}
				if iv == "48" && cond.Op == token.GTR && cv == "0" && post.Tok == token.DEC {
					okScan = true
				}
			}
		}
		return false
	})
	c.Ob("finger-scan", "fingerRangeView#descending", loopPos, okScan, "fingers are visited from MaxFingerEntries (48) down to 1")

	// fixK / fixFinger
	fk := chordFn(c, "LocalNode", "fixK")
	ms := fk.CallsTo(false, "spec/chord.ModuloSum")
	c.Floor("fixK ModuloSum sites", len(ms), 1)
	for _, call := range ms {
		okT := false
		det := ""
		if len(call.Args) == 2 && fk.Prov(call.Args[0]) == pSelf {
			if be, ok := ast.Unparen(call.Args[1]).(*ast.BinaryExpr); ok && be.Op == token.SHL {
				xv, _ := fk.ConstVal(be.X)
				if sub, ok := ast.Unparen(be.Y).(*ast.BinaryExpr); ok && sub.Op == token.SUB {
					sv, _ := fk.ConstVal(sub.Y)
					if xv == "1" && sv == "1" && fk.Prov(sub.X) == "param#0" {
						okT = true
					}
				}
			}
			det = fk.Str(call.Args[1])
		}
		c.Ob("finger-target", "fixK#target", call.Pos(), okT, "finger k targets ModuloSum(self, 1<<(k-1)); found offset "+det)
	}
	// looked-up node stored into fingers[k] with the same k
	stored := 0
	for _, call := range fk.Calls(false, func(call *ast.CallExpr) bool {
		se, ok := call.Fun.(*ast.SelectorExpr)
		return ok && se.Sel.Name == "computeUpdate"
	}) {
		se := call.Fun.(*ast.SelectorExpr)
		ix, ok := ast.Unparen(se.X).(*ast.IndexExpr)
		okIdx := ok && fk.Prov(ix.Index) == "param#0" && fk.FieldKey(ix.X) == "chord.LocalNode.fingers"
		c.Ob("finger-target", "fixK#same-k", call.Pos(), okIdx, "the node found for k is stored in fingers[k]")
		if len(call.Args) == 1 {
			if lit, ok := call.Args[0].(*ast.FuncLit); ok {
				g := fk.Closure(lit)
				ast.Inspect(lit.Body, func(n ast.Node) bool {
					if as, ok := n.(*ast.AssignStmt); ok && len(as.Lhs) == 1 && g.FieldKey(as.Lhs[0]) == "chord.fingerEntry.node" {
						stored++
						pv := g.Prov(as.Rhs[0])
						c.Ob("finger-target", "fixK#stores-lookup-result", as.Pos(), pv == "recv.FindSuccessor()#0", "fingers[k].node = result of FindSuccessor(target); found "+pv)
					}
					return true
				})
			}
		}
	}
	c.Floor("fixK finger stores", stored, 1)
	fsCalls := fk.Calls(false, func(call *ast.CallExpr) bool {
		se, ok := call.Fun.(*ast.SelectorExpr)
		return ok && se.Sel.Name == "FindSuccessor"
	})
	for _, call := range fsCalls {
		c.Ob("finger-target", "fixK#lookup-arg", call.Pos(), len(call.Args) == 1 && fk.Prov(call.Args[0]) == "call:spec/chord.ModuloSum()", "FindSuccessor is asked for the computed target")
	}
	ff := chordFn(c, "LocalNode", "fixFinger")
	okLoop := false
	ast.Inspect(ff.Body, func(n ast.Node) bool {
		fl, ok := n.(*ast.ForStmt)
		if !ok {
			return true
		}
		init, ok1 := fl.Init.(*ast.AssignStmt)
		cond, ok2 := fl.Cond.(*ast.BinaryExpr)
		if ok1 && ok2 && len(init.Rhs) == 1 {
			iv, _ := ff.ConstVal(init.Rhs[0])
			cv, _ := ff.ConstVal(cond.Y)
			if iv == "1" && ((cond.Op == token.LEQ && cv == "48") || (cond.Op == token.LSS && cv == "49")) {
				okLoop = true
			}
		}
		return false
	})
	c.Ob("finger-target", "fixFinger#k-in-1..48", ff.Body.Pos(), okLoop, "k ranges over [1, MaxFingerEntries] so 1<<(k-1) <= 2^47 < 2^48 (no shift overflow; with C11 the target is on the ring)")
}

// ---------------------------------------------------------------------------------------

// fieldWrites lists assignments to the given field key in package chord.
type fieldWrite struct {
	fn   *Fn
	stmt *ast.AssignStmt
	lhs  ast.Expr
}

func fieldWrites(c *Ctx, relpkg string, field string) []fieldWrite {
	var out []fieldWrite
	for _, fn := range c.AllFuncs(relpkg) {
		ast.Inspect(fn.Body, func(n ast.Node) bool {
			as, ok := n.(*ast.AssignStmt)
			if !ok {
				return true
			}
			for _, l := range as.Lhs {
				if fn.FieldKey(l) == field {
					out = append(out, fieldWrite{fn, as, l})
				}
			}
			return true
		})
	}
	return out
}

func runC02(c *Ctx) {
	// (a) interval roles
	nt := chordFn(c, "LocalNode", "Notify")
	nsites := nt.betweenSites()
	const pSnap = "recv.predecessor.ID()"
	ntSite := checkSiteSet(c, "interval", nt, nsites, pSnap, "param#0.ID()", pSelf, false, "the notifying node is closer than the current predecessor: candidate in (oldPredecessor, self)")
	// consequence: the notifier becomes the candidate only when there was no predecessor, the
	// old one did not answer a ping, or the notifier lies in (oldPredecessor, self): with
	// those three edges removed no assignment of the notifier to the candidate is reachable
	if ntSite != nil {
		// the value an elementary test has when none of the three conditions holds (the
		// predecessor exists, it answered the ping, the notifier is not in the interval)
		plain := func(e ast.Expr) (bool, bool) {
			e = ast.Unparen(e)
			if e == ast.Expr(ntSite.call) {
				return false, true
			}
			be, ok := e.(*ast.BinaryExpr)
			if !ok || be.Op != token.EQL && be.Op != token.NEQ {
				return false, false
			}
			x, y := be.X, be.Y
			if isNilIdent(nt.Info, x) {
				x, y = y, x
			}
			if !isNilIdent(nt.Info, y) {
				return false, false
			}
			pv := nt.Prov(x)
			switch {
			case pv == "recv.predecessor":
				return be.Op == token.NEQ, true // not nil
			case strings.HasSuffix(pv, ".Ping()"):
				return be.Op == token.EQL, true // nil error
			}
			return false, false
		}
		// an edge is removed when it cannot be taken unless one of the three conditions
		// holds: its condition, evaluated with the plain values, is known to have the other
		// truth value
		isCut := func(at atom) bool {
			if at.tag != nil {
				return false
			}
			v, known := evalBool3(at.e, plain)
			return known && v != at.truth
		}
		reached, _ := nt.Reach(nil, nil, func(b *cfgBlock, si int) bool {
			for _, at := range nt.edgeAtoms(b, si) {
				if os.Getenv("VERIF_DEBUG_FACTS") != "" {
					fmt.Fprintf(os.Stderr, "notify edge atom %s=%v cut=%v\n", types.ExprString(at.e), at.truth, isCut(at))
				}
				if isCut(at) {
					return true
				}
			}
			return false
		})
		nadopt := 0
		for _, nd := range shallowNodes(nt.Body) {
			as, ok := nd.(*ast.AssignStmt)
			if !ok || len(as.Lhs) != 1 || len(as.Rhs) != 1 || nt.varOf(as.Lhs[0]) == nil || nt.Prov(as.Rhs[0]) != "param#0" {
				continue
			}
			nadopt++
			bypass := false
			for _, n := range reached {
				if n == ast.Node(as) {
					bypass = true
				}
			}
			c.Ob("notify-consequence", "Notify#candidate-only-when-closer-or-predecessor-gone", as.Pos(), !bypass, "the notifying node becomes the candidate predecessor only if there is no predecessor, the old one is dead, or the notifier lies in (oldPredecessor, self)")
		}
		c.Floor("Notify candidate adoptions", nadopt, 1)
	}
	st := chordFn(c, "LocalNode", "stabilize")
	ssites := st.betweenSites()
	// head = succList[0]; newSucc = head.GetPredecessor()
	var stSite *betweenSite
	for _, s := range ssites {
		stSite = s
	}
	if stSite != nil {
		between := c.Func("spec/chord", "", "Between")
		okSelf := stSite.roles[0] == pSelf
		okMid := strings.Contains(stSite.roles[1], ".GetPredecessor()#0.ID()")
		okHigh := strings.HasSuffix(stSite.roles[2], "[const:0].ID()")
		ok, why := true, ""
		if okSelf && okMid && okHigh {
			ok, why = stSite.sameSet(c, between, stSite.roles[0], stSite.roles[1], stSite.roles[2], false, false)
		}
		c.Ob("interval", "chord.(LocalNode).stabilize#(self,succ.pred,head)", stSite.call.Pos(), okSelf && okMid && okHigh && ok,
			fmt.Sprintf("a node that slipped in between: head.predecessor in (self, head), open; site is %s %s", stSite, why))
	}
	c.Floor("Notify/stabilize interval sites", len(nsites)+len(ssites), 2)

	// (b) who-may-write, with the mutex write-held
	type wr struct {
		field, lock string
		allowed     map[string]bool
		floor       int
	}
	tables := []wr{
		{"chord.LocalNode.predecessor", "predecessorMu", map[string]bool{"chord.(LocalNode).Join": true, "chord.(LocalNode).Notify": true, "chord.(LocalNode).RequestToJoin": true, "chord.(LocalNode).checkPredecessor": true}, 4},
		{"chord.LocalNode.successors", "successorsMu", map[string]bool{"chord.(LocalNode).Create": true, "chord.(LocalNode).Join": true, "chord.(LocalNode).updateSuccessorsList": true}, 1},
		{"chord.LocalNode.surrogate", "surrogateMu", map[string]bool{"chord.(LocalNode).Notify": true, "chord.(LocalNode).RequestToJoin": true, "chord.(LocalNode).executeLeave": true}, 3},
	}
	for _, t := range tables {
		ws := fieldWrites(c, "chord", t.field)
		c.Floor("writers of "+t.field, len(ws), t.floor)
		for _, w := range ws {
			root := w.fn.root()
			c.Ob("who-may-write", t.field+"<-"+root.Name, w.stmt.Pos(), t.allowed[root.Name], "this field is assigned only by the enumerated membership/maintenance functions")
			held := lockHeldAt(w.fn, w.stmt, t.lock, 'W')
			c.Ob("guarded-write", t.field+"<-"+root.Name, w.stmt.Pos(), held, "written with "+t.lock+" write-held (directly, in an enclosing function, or in every caller)")
		}
	}
	// fingers[k].node only inside computeUpdate closures or computeUpdate itself
	fw := fieldWrites(c, "chord", "chord.fingerEntry.node")
	for _, w := range fw {
		inUpd := false
		g := w.fn.enclosing(w.stmt)
		if g.Lit != nil {
			for _, call := range g.Parent.Calls(true, func(call *ast.CallExpr) bool {
				se, ok := call.Fun.(*ast.SelectorExpr)
				return ok && se.Sel.Name == "computeUpdate" && len(call.Args) == 1 && call.Args[0] == ast.Expr(g.Lit)
			}) {
				_ = call
				inUpd = true
			}
		}
		c.Ob("guarded-write", "chord.fingerEntry.node<-"+w.fn.root().Name, w.stmt.Pos(), inUpd, "finger entries are written only inside fingerEntry.computeUpdate (which holds the entry's lock)")
	}
	c.Floor("finger writers", len(fw), 2)
	cu := chordFn(c, "fingerEntry", "computeUpdate")
	for _, call := range cu.Calls(false, func(call *ast.CallExpr) bool {
		id, ok := call.Fun.(*ast.Ident)
		return ok && cu.paramIndex(cu.Info.ObjectOf(id)) == 0
	}) {
		c.Ob("guarded-write", "fingerEntry.computeUpdate#callback-under-lock", call.Pos(), cu.FactsAt(call).Held("f", 'W') || cu.FactsAt(call).Held("f.RWMutex", 'W'), "the update callback runs with the entry's lock write-held")
	}

	// (c) stabilize notifies on every path where modified && non-empty && not leaving
	notifies := st.Calls(false, func(call *ast.CallExpr) bool {
		se, ok := call.Fun.(*ast.SelectorExpr)
		return ok && se.Sel.Name == "Notify"
	})
	c.Floor("stabilize Notify sites", len(notifies), 1)
	for _, call := range notifies {
		se := call.Fun.(*ast.SelectorExpr)
		// the guard of the notify must be exactly: modified && len(list) > 0 && checkNodeState(true) == nil
		var ifs *ast.IfStmt
		ast.Inspect(st.Body, func(n ast.Node) bool {
			if i, ok := n.(*ast.IfStmt); ok && containsNode(i.Body, call) {
				ifs = i
			}
			return true
		})
		okGuard := false
		det := ""
		if ifs != nil {
			var ats []atom
			collectAtoms(ifs.Cond, true, &ats)
			need := map[string]bool{"modified": false, "nonempty": false, "notleaving": false}
			extra := []string{}
			for _, at := range ats {
				s := types.ExprString(at.e)
				switch {
				case at.truth && st.varOf(at.e) != nil && s == "modified":
					need["modified"] = true
				case at.truth && isLenCmp(st, at.e, token.GTR, "0"), at.truth && isLenCmp(st, at.e, token.GEQ, "1"), at.truth && isLenCmp(st, at.e, token.NEQ, "0"):
					need["nonempty"] = true
				case at.truth && strings.Contains(s, "checkNodeState(true) == nil"):
					need["notleaving"] = true
				default:
					extra = append(extra, s)
				}
			}
			okGuard = need["modified"] && need["nonempty"] && need["notleaving"] && len(extra) == 0
			det = fmt.Sprintf("guard atoms %v, unexpected extra conditions %v", need, extra)
		}
		c.Ob("stabilize-notify", "stabilize#notify-guard", call.Pos(), okGuard, "the successor is notified whenever the list was refreshed, is non-empty and the node is not leaving - no narrower condition: "+det)
		c.Ob("stabilize-notify", "stabilize#notify-head", call.Pos(), strings.HasSuffix(st.Prov(se.X), "[const:0]") && len(call.Args) == 1 && st.Prov(call.Args[0]) == "recv", "Notify(self) is sent to the head of the refreshed list; target "+st.Prov(se.X))
		// not skipped by an earlier return once modified is true: every return between the
		// refresh loop and the notify is a return of an error from an empty head
		_ = ifs
	}
	// the notify `if` must be reachable from every assignment modified = true (no early return)
	for _, as := range assignsTo(st, "modified") {
		if v, _ := st.ConstVal(as.Rhs[0]); v != "true" {
			continue
		}
		reached, _ := st.Reach(as, nil, nil)
		seen := false
		for _, n := range reached {
			for _, call := range notifies {
				if containsNode(n, call) {
					seen = true
				}
			}
		}
		// and no path from here to an exit avoids the guard test
		_, exits := st.Reach(as, func(n ast.Node) bool {
			e, ok := n.(ast.Expr)
			return ok && strings.Contains(types.ExprString(e), "checkNodeState(true)")
		}, nil)
		c.Ob("stabilize-notify", "stabilize#refresh-reaches-notify", as.Pos(), seen && len(exits) == 0, fmt.Sprintf("every path from a list refresh passes the notify decision (exits bypassing it: %d)", len(exits)))
	}

	// (d) Notify's deferred compare-and-set
	ncas := 0
	for _, w := range fieldWrites(c, "chord", "chord.LocalNode.predecessor") {
		if w.fn.root().Name != "chord.(LocalNode).Notify" {
			continue
		}
		ncas++
		g := w.fn.enclosing(w.stmt)
		ok := g.FactsAt(w.stmt).Cmp(func(e ast.Expr, tag ast.Expr, truth bool, fa *Fact) bool {
			be, ok := e.(*ast.BinaryExpr)
			if !ok || be.Op != token.EQL || !truth {
				return false
			}
			l, r := g.FieldKey(be.X), g.FieldKey(be.Y)
			other := be.X
			if l == "chord.LocalNode.predecessor" {
				other = be.Y
			} else if r != "chord.LocalNode.predecessor" {
				return false
			}
			return g.Prov(other) == "recv.predecessor"
		})
		c.Ob("notify-cas", "Notify#predecessor-cas", w.stmt.Pos(), ok, "the predecessor is replaced only if it still equals the snapshot the decision was made on")
		c.Ob("notify-cas", "Notify#adopts-candidate", w.stmt.Pos(), strings.Contains(g.Prov(w.stmt.Rhs[0]), "param#0"), "the adopted value is the notifying node; found "+g.Prov(w.stmt.Rhs[0]))
	}
	c.Floor("Notify predecessor writes", ncas, 1)
	snapshotCASRule(c)
	fingerCoverageRule(c)
	listFingerprintRule(c)
	// the fingerprint stabilize compares against is replaced together with the list it
	// describes: every succListHash.Store runs with successorsMu write-held (two rounds
	// interleaving between the list write and the hash write leave a stale list paired
	// with the fresh list's hash - every later round then skips the update)
	nfp := 0
	for _, fn := range c.AllFuncs("chord") {
		for _, call := range fn.Calls(true, func(call *ast.CallExpr) bool {
			se, ok := call.Fun.(*ast.SelectorExpr)
			return ok && se.Sel.Name == "Store" && fn.enclosing(call).FieldKey(se.X) == "chord.LocalNode.succListHash"
		}) {
			nfp++
			c.Ob("guarded-write", "chord.LocalNode.succListHash.Store<-"+fn.root().Name, call.Pos(), lockHeldAt(fn, call, "successorsMu", 'W'), "the successor-list fingerprint is stored with successorsMu write-held, in the critical section that replaces the list")
		}
	}
	c.Floor("succListHash stores", nfp, 1)
}

func isLenCmp(f *Fn, e ast.Expr, op token.Token, val string) bool {
	be, ok := ast.Unparen(e).(*ast.BinaryExpr)
	if !ok || be.Op != op {
		return false
	}
	call, ok := ast.Unparen(be.X).(*ast.CallExpr)
	if !ok {
		return false
	}
	id, ok := call.Fun.(*ast.Ident)
	if !ok || id.Name != "len" {
		return false
	}
	v, ok := f.ConstVal(be.Y)
	return ok && v == val
}

func assignsTo(f *Fn, name string) []*ast.AssignStmt {
	var out []*ast.AssignStmt
	ast.Inspect(f.Body, func(n ast.Node) bool {
		if as, ok := n.(*ast.AssignStmt); ok && len(as.Lhs) == 1 && len(as.Rhs) == 1 {
			if id, ok := as.Lhs[0].(*ast.Ident); ok && id.Name == name {
				out = append(out, as)
			}
		}
		return true
	})
	return out
}

// lockHeldAt: lock recv.<lockField> is held (mode) at node n of fn: locally, inherited
// from an enclosing function for a deferred/synchronous literal, or at every static call
// site of fn within the package (one level, "caller holds the lock").
func lockHeldAt(fn *Fn, n ast.Node, lockField string, mode byte) bool {
	g := fn.enclosing(n)
	held := func(fs *FactSet) bool {
		return fs.Has(func(fa *Fact) bool {
			return fa.Kind == FHeld && strings.HasSuffix(fa.Lock, "."+lockField) && (mode == 'R' || fa.Mode == 'W')
		})
	}
	if held(g.FactsAt(n)) {
		return true
	}
	root := fn.root()
	if root.Obj == nil {
		return false
	}
	// every caller holds it
	callers := 0
	all := true
	for _, cf := range fn.C.AllFuncs(relPkg(root.Pkg.PkgPath)) {
		for _, call := range cf.Calls(true, func(call *ast.CallExpr) bool { return cf.Callee(call) == root.Obj }) {
			callers++
			if !held(cf.FactsAt(call)) {
				all = false
			}
		}
	}
	return callers > 0 && all
}

// ---------------------------------------------------------------------------------------

func runC05(c *Ctx) {
	advisoryBeforeRelease(c)
	up := chordFn(c, "LocalNode", "transferKeysUpward")
	// low = prevPredecessor (param#1) or recv when nil
	const pLow = "param#1.ID()|recv.ID()"
	const pNew = "param#2.ID()"
	sites := up.betweenSites()
	s := checkSiteSet(c, "interval", up, sites, pLow, pNew, pSelf, false, "the transfer happens only when the new predecessor lies strictly inside (low, self)")
	rk := up.CallsTo(false, "spec/chord.KVProvider.RangeKeys", "spec/chord.KV.RangeKeys")
	c.Floor("transferKeysUpward RangeKeys sites", len(rk), 1)
	for _, call := range rk {
		ok := len(call.Args) == 3 && up.Prov(call.Args[1]) == pLow && up.Prov(call.Args[2]) == pNew
		c.Ob("range-args", "transferKeysUpward#RangeKeys(low,newPredecessor)", call.Pos(), ok, fmt.Sprintf("moved range is (low, newPredecessor]; found (%s, %s)", up.Prov(call.Args[1]), up.Prov(call.Args[2])))
		if s != nil {
			okCut := up.FactsAt(call).Has(func(fa *Fact) bool { return fa.Kind == FTrue && fa.Call == s.call })
			c.Ob("range-guard", "transferKeysUpward#RangeKeys-after-interval-test", call.Pos(), okCut, "keys are selected only after the joiner was found inside our range")
		}
	}
	// low selection: nil previous predecessor -> self. Decided on the definitions of the
	// variable and the paths between them (if/else, default-then-override and a helper
	// expression are alike): (1) every assignment of the previous predecessor to low is
	// made knowing it is non-nil; (2) with the "previous predecessor is nil" edges removed,
	// the first use of low is unreachable without passing such an assignment; (3) every
	// other definition is the node itself.
	lowOK := false
	{
		var lowVar *types.Var
		for _, call := range rk {
			if len(call.Args) == 3 {
				if se, ok := ast.Unparen(call.Args[1]).(*ast.CallExpr); ok {
					if sel, ok := se.Fun.(*ast.SelectorExpr); ok {
						lowVar = up.varOf(sel.X)
					}
				}
			}
		}
		isPrevNil := func(e ast.Expr, truth bool) (isNil, ok bool) {
			be, isBin := ast.Unparen(e).(*ast.BinaryExpr)
			if !isBin || (be.Op != token.EQL && be.Op != token.NEQ) {
				return false, false
			}
			x, y := be.X, be.Y
			if isNilIdent(up.Info, x) {
				x, y = y, x
			}
			if !isNilIdent(up.Info, y) || up.Prov(x) != "param#1" {
				return false, false
			}
			return (be.Op == token.EQL) == truth, true
		}
		if lowVar != nil {
			var prevDefs []ast.Node
			okDefs := true
			for _, d := range up.defNodes(lowVar) {
				var rhs ast.Expr
				switch x := d.(type) {
				case *ast.AssignStmt:
					for i, l := range x.Lhs {
						if up.varOf(l) == lowVar && i < len(x.Rhs) {
							rhs = x.Rhs[i]
						}
					}
				case *ast.ValueSpec:
					for i, nm := range x.Names {
						if up.Info.Defs[nm] == types.Object(lowVar) && i < len(x.Values) {
							rhs = x.Values[i]
						}
					}
				}
				if rhs == nil {
					continue // declaration without a value
				}
				switch up.Prov(rhs) {
				case "param#1":
					prevDefs = append(prevDefs, d)
					if !up.FactsAt(d).Cmp(func(e, tag ast.Expr, truth bool, fa *Fact) bool {
						isNil, ok := isPrevNil(e, truth)
						return ok && tag == nil && !isNil
					}) {
						okDefs = false
					}
				case "recv":
				default:
					okDefs = false
				}
			}
			// first use: the interval test / RangeKeys
			var uses []ast.Node
			ast.Inspect(up.Body, func(n ast.Node) bool {
				if se, ok := n.(*ast.SelectorExpr); ok && up.varOf(se.X) == lowVar {
					uses = append(uses, se)
				}
				return true
			})
			reached, _ := up.Reach(nil, func(n ast.Node) bool {
				for _, d := range prevDefs {
					if n == d {
						return true
					}
				}
				return false
			}, func(b *cfgBlock, si int) bool {
				for _, at := range up.edgeAtoms(b, si) {
					if isNil, ok := isPrevNil(at.e, at.truth); ok && at.tag == nil && isNil {
						return true
					}
				}
				return false
			})
			leak := false
			for _, n := range reached {
				for _, u := range uses {
					if containsNode(n, u) {
						isDef := false
						for _, d := range prevDefs {
							if n == d {
								isDef = true
							}
						}
						if !isDef {
							leak = true
						}
					}
				}
			}
			lowOK = okDefs && len(prevDefs) > 0 && len(uses) > 0 && !leak
			if !lowOK && len(uses) > 0 {
				// the other way round: low starts as the previous predecessor and is
				// replaced by self where it turned out nil - every definition is one of the
				// two, self is assigned only where low (or the previous predecessor) is known
				// nil, and no use is reachable from a "previous predecessor" definition
				// without passing the edge on which low is known non-nil
				isLowNil := func(e ast.Expr, truth bool) (isNil, ok bool) {
					be, isBin := ast.Unparen(e).(*ast.BinaryExpr)
					if !isBin || (be.Op != token.EQL && be.Op != token.NEQ) {
						return false, false
					}
					x, y := be.X, be.Y
					if isNilIdent(up.Info, x) {
						x, y = y, x
					}
					if !isNilIdent(up.Info, y) || up.varOf(x) != lowVar {
						return false, false
					}
					return (be.Op == token.EQL) == truth, true
				}
				alt := true
				nPrev, nSelf := 0, 0
				for _, d := range up.defNodes(lowVar) {
					var rhs ast.Expr
					switch x := d.(type) {
					case *ast.AssignStmt:
						for i, l := range x.Lhs {
							if up.varOf(l) == lowVar && i < len(x.Rhs) {
								rhs = x.Rhs[i]
							}
						}
					case *ast.ValueSpec:
						for i, nm := range x.Names {
							if up.Info.Defs[nm] == types.Object(lowVar) && i < len(x.Values) {
								rhs = x.Values[i]
							}
						}
					}
					if rhs == nil {
						alt = false
						continue
					}
					switch up.Prov(rhs) {
					case "param#1":
						nPrev++
					case "recv":
						nSelf++
						if !up.FactsAt(d).Cmp(func(e, tag ast.Expr, truth bool, fa *Fact) bool {
							if tag != nil {
								return false
							}
							if isNil, ok := isLowNil(e, truth); ok && isNil {
								return true
							}
							isNil, ok := isPrevNil(e, truth)
							return ok && isNil
						}) {
							alt = false
						}
					default:
						alt = false
					}
				}
				for _, u := range uses {
					bad, decided := up.CutFromDefs(u, lowVar, func(p string) bool { return p == "param#1" }, func(at atom) bool {
						if at.tag != nil {
							return false
						}
						isNil, ok := isLowNil(at.e, at.truth)
						return ok && !isNil
					})
					if !decided || bad != nil {
						alt = false
					}
				}
				lowOK = alt && nPrev > 0 && nSelf > 0
			}
		}
	}
	c.Ob("range-args", "transferKeysUpward#low-defaults-to-self", up.Body.Pos(), lowOK, "low is the previous predecessor, or self when there is none")

	down := chordFn(c, "LocalNode", "transferKeysDownward")
	rk2 := down.CallsTo(false, "spec/chord.KVProvider.RangeKeys", "spec/chord.KV.RangeKeys")
	c.Floor("transferKeysDownward RangeKeys sites", len(rk2), 1)
	for _, call := range rk2 {
		a, _ := down.ConstVal(call.Args[1])
		b, _ := down.ConstVal(call.Args[2])
		c.Ob("range-args", "transferKeysDownward#RangeKeys(0,0)", call.Pos(), a == "0" && b == "0", "a leaving node hands over everything: RangeKeys(0,0) selects the whole ring in both backends (C17)")
	}

	kvm := c.Func("chord", "", "kvMiddleware")
	ks := kvm.betweenSites()
	const kSelf = "param#1.ID()"
	const kID = "call:spec/chord.Hash()"
	const kSur = "param#1.surrogate.Identity().GetId()"
	const kPre = "param#1.predecessor.ID()"
	s1 := checkSite(c, "interval", kvm, ks, kSelf, kID, kSur, true, false, "ownership moved to the surrogate: id in (self, surrogate]")
	s2 := checkSite(c, "interval", kvm, ks, kPre, kID, kSelf, true, true, "not ours: id outside (predecessor, self]")
	c.Floor("kvMiddleware interval sites", len(ks), 2)
	// consequences
	for _, r := range kvm.Returns() {
		if len(r.Results) != 2 {
			continue
		}
		if call, ok := ast.Unparen(r.Results[0]).(*ast.CallExpr); ok && len(r.Results) == 1 {
			_ = call
		}
	}
	nh := 0
	for _, call := range kvm.Calls(true, func(call *ast.CallExpr) bool {
		id, ok := call.Fun.(*ast.Ident)
		return ok && kvm.paramIndex(kvm.Info.ObjectOf(id)) == 3
	}) {
		if len(call.Args) != 4 {
			continue
		}
		nh++
		g := kvm.enclosing(call)
		tgt := g.Prov(call.Args[1])
		facts := g.FactsAt(call)
		underS1 := func(fs *FactSet) bool {
			return s1 != nil && fs.Has(func(fa *Fact) bool { return fa.Kind == FTrue && fa.Call == s1.call })
		}
		switch tgt {
		case "param#1.surrogate":
			ok := underS1(facts)
			if v := g.varOf(call.Args[1]); !ok && v != nil {
				// the target was picked inside the locked section and the call happens
				// after it: every assignment of the surrogate to the variable sits under
				// the test, and the call runs only when one was made
				defs := g.defsOf(v)
				ok = len(defs) > 0
				for _, d := range defs {
					if d.rhs == nil || !underS1(kvm.enclosing(d.rhs).FactsAt(d.rhs)) {
						ok = false
					}
				}
				ok = ok && facts.Cmp(func(e, tag ast.Expr, truth bool, fa *Fact) bool {
					be, isBin := e.(*ast.BinaryExpr)
					return isBin && tag == nil && g.varOf(be.X) == v && isNilIdent(g.Info, be.Y) && (be.Op == token.NEQ && truth || be.Op == token.EQL && !truth)
				})
			}
			c.Ob("ownership-consequence", "kvMiddleware#forward-to-surrogate", call.Pos(), ok, "requests are forwarded to the surrogate only when id in (self, surrogate]")
		case "param#1.kv":
			if o := kvm.ObjOf(call.Args[2]); o != nil && o.Name() == "targetReplication" {
				continue // replication bypass: the sender already did the ownership checks (C04 lists it)
			}
			okA := s1 != nil && (facts.Has(func(fa *Fact) bool { return fa.Kind == FFalse && fa.Call == s1.call }) || facts.Cmp(func(e, tag ast.Expr, truth bool, fa *Fact) bool {
				return !truth && containsNode(e, s1.call)
			}))
			okB := s2 != nil && facts.Cmp(func(e, tag ast.Expr, truth bool, fa *Fact) bool {
				return !truth && containsNode(e, s2.call)
			})
			c.Ob("ownership-consequence", "kvMiddleware#local-after-surrogate-test", call.Pos(), okA, "the local store is used only when the surrogate test did not fire")
			c.Ob("ownership-consequence", "kvMiddleware#local-after-range-test", call.Pos(), okB, "the local store is used only when the id was not outside (predecessor, self]")
		}
	}
	c.Floor("kvMiddleware handler invocations", nh, 4)
}

// ---------------------------------------------------------------------------------------

func runC08(c *Ctx) {
	nilable := func(pv string) bool {
		for _, alt := range strings.Split(pv, "|") {
			switch {
			case strings.HasSuffix(alt, ".predecessor"), strings.HasSuffix(alt, ".surrogate"),
				strings.HasSuffix(alt, ".getPredecessor()"), strings.HasSuffix(alt, ".getSuccessor()"):
				if strings.HasPrefix(alt, "recv") || strings.HasPrefix(alt, "param#") {
					return true
				}
			}
		}
		return false
	}
	loads := 0
	fnsWith := map[string]bool{}
	for _, fn := range c.AllFuncs("chord") {
		if fn.Decl.Recv == nil && fn.Decl.Name.Name != "kvMiddleware" {
			continue
		}
		if r := recvName(fn.Decl); r != "" && r != "LocalNode" {
			continue
		}
		// method calls X.M(...) where X's provenance is a nilable pointer
		ast.Inspect(fn.Body, func(n ast.Node) bool {
			call, ok := n.(*ast.CallExpr)
			if !ok {
				return true
			}
			se, ok := ast.Unparen(call.Fun).(*ast.SelectorExpr)
			if !ok {
				return true
			}
			g := fn.enclosing(call)
			if sel := g.Info.Selections[se]; sel == nil || sel.Kind() != types.MethodVal {
				return true
			}
			t := typeOf(g.Info, se.X)
			if t == nil || !types.IsInterface(t) {
				return true
			}
			pv := g.Prov(se.X)
			if !nilable(pv) {
				return true
			}
			loads++
			fnsWith[fn.Name] = true
			ok2 := g.nonNilAt(call, se.X, func(p string) bool { return nilable(p) })
			c.Ob("nil-guard", fmt.Sprintf("%s#%s.%s", fn.Name, types.ExprString(se.X), se.Sel.Name), call.Pos(), ok2,
				fmt.Sprintf("%s comes from %s, which may be nil (checkPredecessor clears a dead predecessor; neighbours are unset before Join); it must be tested non-nil on every path before .%s() is called", types.ExprString(se.X), pv, se.Sel.Name))
			return true
		})
		// nilable values passed as arguments: the callee must guard its parameter
		for _, call := range fn.Calls(true, func(call *ast.CallExpr) bool { return true }) {
			g := fn.enclosing(call)
			callee := g.Callee(call)
			cf := c.FnOfObj(callee)
			if cf == nil || cf.Pkg.PkgPath != M+"/chord" {
				continue
			}
			for ai, a := range call.Args {
				t := typeOf(g.Info, a)
				if t == nil || !types.IsInterface(t) || !nilable(g.Prov(a)) {
					continue
				}
				if g.nonNilAt(call, a, func(p string) bool { return nilable(p) }) {
					continue
				}
				// find parameter object ai of callee
				var pobj types.Object
				i := 0
				for _, fld := range cf.Type.Params.List {
					for _, nm := range fld.Names {
						if i == ai {
							pobj = cf.Info.Defs[nm]
						}
						i++
					}
				}
				if pobj == nil {
					continue
				}
				ast.Inspect(cf.Body, func(n ast.Node) bool {
					c2, ok := n.(*ast.CallExpr)
					if !ok {
						return true
					}
					se, ok := ast.Unparen(c2.Fun).(*ast.SelectorExpr)
					if !ok {
						return true
					}
					if id, ok := ast.Unparen(se.X).(*ast.Ident); ok && cf.Info.ObjectOf(id) == pobj {
						loads++
						c.Ob("nil-guard", fmt.Sprintf("%s#param:%s.%s<-%s", cf.Name, id.Name, se.Sel.Name, fn.Name), c2.Pos(), cf.nonNilAt(c2, se.X, nil),
							fmt.Sprintf("%s passes a possibly-nil %s as %s; the callee must test it before calling .%s()", fn.Name, g.Prov(a), id.Name, se.Sel.Name))
					}
					return true
				})
			}
		}
	}
	c.Floor("method calls on possibly-nil neighbour pointers", loads, 12)
	c.Extra("functions_with_nilable_loads", len(fnsWith))

	// refusals decided by RequestToJoin itself
	rj := chordFn(c, "LocalNode", "RequestToJoin")
	retryable := retryableSentinels(c)
	nref := 0
	// its own return statements, and those of literals nested in it (a check moved into an
	// extracted helper is an invoked literal after normalisation)
	ast.Inspect(rj.Body, func(n ast.Node) bool {
		r, ok := n.(*ast.ReturnStmt)
		if !ok {
			return true
		}
		g := rj.enclosing(r)
		for _, res := range r.Results {
			if t := typeOf(g.Info, res); t == nil || !isErrorType(t) {
				continue
			}
			for _, pv := range splitAlts(g.Prov(res)) {
				if !strings.HasPrefix(pv, "global:spec/chord.Err") {
					continue
				}
				name := strings.TrimPrefix(pv, "global:spec/chord.")
				nref++
				c.Ob("join-refusal", "RequestToJoin#returns-"+name, r.Pos(), retryable[name] || name == "ErrDuplicateJoinerID", "a refusal decided by RequestToJoin must be retryable (or the duplicate-id rejection of an invalid joiner)")
			}
		}
		return true
	})
	c.Floor("RequestToJoin sentinel returns", nref, 4)
}

// retryableSentinels evaluates the errorDef registry: name -> retryable flag constant.
func retryableSentinels(c *Ctx) map[string]bool {
	out := map[string]bool{}
	p := c.P("spec/chord")
	for _, file := range p.Syntax {
		for _, d := range file.Decls {
			gd, ok := d.(*ast.GenDecl)
			if !ok || gd.Tok != token.VAR {
				continue
			}
			for _, sp := range gd.Specs {
				vs := sp.(*ast.ValueSpec)
				for i, nm := range vs.Names {
					if i >= len(vs.Values) {
						continue
					}
					call, ok := vs.Values[i].(*ast.CallExpr)
					if !ok {
						continue
					}
					if id, ok := call.Fun.(*ast.Ident); !ok || id.Name != "errorDef" || len(call.Args) != 2 {
						continue
					}
					if tv, ok := p.TypesInfo.Types[call.Args[1]]; ok && tv.Value != nil {
						out[nm.Name] = tv.Value.ExactString() == "true"
					}
				}
			}
		}
	}
	return out
}

// ---------------------------------------------------------------------------------------

func runC09(c *Ctx) {
	// functions whose result may be the receiver itself
	mayReturnSelf := func(fn *Fn, idx int) bool {
		for _, r := range fn.Returns() {
			if idx < len(r.Results) {
				for _, alt := range splitAlts(fn.Prov(r.Results[idx])) {
					if alt == "recv" {
						return true
					}
				}
			}
		}
		return false
	}
	fsFn := chordFn(c, "LocalNode", "FindSuccessor")
	cpFn := chordFn(c, "LocalNode", "closestPrecedingNode")
	c.Note("may return the receiver: FindSuccessor=%v closestPrecedingNode=%v", mayReturnSelf(fsFn, 0), mayReturnSelf(cpFn, 0))
	selfSources := map[string]bool{}
	if mayReturnSelf(fsFn, 0) {
		selfSources["recv.FindSuccessor()#0"] = true
		selfSources["param#1.FindSuccessor()#0"] = true
	}
	if mayReturnSelf(cpFn, 0) {
		selfSources["recv.closestPrecedingNode()"] = true
	}
	type fw struct {
		fn     *Fn
		method string // forwarded method, "" = handler callback
	}
	sites := 0
	check := func(fn *Fn, call *ast.CallExpr, target ast.Expr, what string) {
		pv := fn.Prov(target)
		may := false
		for _, alt := range strings.Split(pv, "|") {
			if selfSources[alt] {
				may = true
			}
		}
		if !may {
			return
		}
		sites++
		self := "recv"
		if fn.Decl.Recv == nil {
			self = "param#1"
		}
		// identity test: target.ID() != self.ID() true, or == false, or target != self.
		// guarded(g, at, target): when `at` executes, target is not the receiver. A target
		// produced by an invoked literal (an inlined "pick the next hop" helper) is guarded
		// if each of the literal's returns is.
		var guarded func(g *Fn, at ast.Node, target ast.Expr, depth int) bool
		guarded = func(g *Fn, at ast.Node, target ast.Expr, depth int) bool {
			tpv := g.Prov(target)
			maySelf := false
			for _, alt := range splitAlts(tpv) {
				if selfSources[alt] {
					maySelf = true
				}
			}
			if !maySelf {
				return true
			}
			if depth > 3 {
				return false
			}
			litReturns := func(call *ast.CallExpr, idx int) (bool, bool) {
				lit := g.litOfCallee(call)
				if lit == nil {
					return false, false
				}
				h := g.enclosing(lit).Closure(lit)
				all := true
				for _, r := range h.Returns() {
					if idx >= len(r.Results) || !guarded(h, r, r.Results[idx], depth+1) {
						all = false
					}
				}
				return all, true
			}
			if tc, ok := ast.Unparen(target).(*ast.CallExpr); ok {
				if res, isLit := litReturns(tc, 0); isLit {
					return res
				}
			}
			want := types.ExprString(ast.Unparen(target))
			identity := func(e ast.Expr, truth bool) bool {
				be, ok := e.(*ast.BinaryExpr)
				if !ok || (be.Op != token.EQL && be.Op != token.NEQ) {
					return false
				}
				if (be.Op == token.NEQ) != truth {
					return false
				}
				l, r := types.ExprString(be.X), types.ExprString(be.Y)
				lp, rp := g.Prov(be.X), g.Prov(be.Y)
				// the target by its spelling, or a local that holds the target's ID()
				isT := func(s, p string) bool {
					return s == want+".ID()" || s == want || p == tpv+".ID()" && !strings.Contains(tpv, "|")
				}
				isS := func(p string) bool { return p == self+".ID()" || p == self }
				return (isT(l, lp) && isS(rp)) || (isT(r, rp) && isS(lp))
			}
			// `switch target.ID() { case self.ID(): ... default: forward }`: the case not taken
			identityTag := func(tag, e ast.Expr, truth bool) bool {
				if truth {
					return false
				}
				return identity(&ast.BinaryExpr{X: tag, Op: token.NEQ, Y: e}, true)
			}
			if v := g.varOf(target); v != nil {
				defs := g.defsOf(v)
				allLit := len(defs) > 0
				res := true
				for _, d := range defs {
					dc, isCall := ast.Unparen(d.rhs).(*ast.CallExpr)
					if !isCall {
						allLit = false
						break
					}
					r, isLit := litReturns(dc, d.idx)
					if !isLit {
						allLit = false
						break
					}
					res = res && r
				}
				if allLit {
					return res
				}
				bad, okDefs := g.CutFromDefs(at, v, func(p string) bool { return selfSources[p] }, func(at atom) bool {
					if at.tag != nil {
						return identityTag(at.tag, at.e, at.truth)
					}
					return identity(at.e, at.truth)
				})
				if okDefs {
					return bad == nil
				}
			}
			return g.FactsAt(at).Cmp(func(e, tag ast.Expr, truth bool, fa *Fact) bool {
				if tag != nil {
					return identityTag(tag, e, truth)
				}
				return identity(e, truth)
			})
		}
		want := types.ExprString(ast.Unparen(target))
		ok := guarded(fn, call, target, 0)
		c.Ob("self-forward", fmt.Sprintf("%s#%s", fn.Name, what), call.Pos(), ok,
			fmt.Sprintf("the request is re-issued with unchanged arguments to %s = %s, which can be the receiver itself; without an identity test (target != self) on every path this recurses without bound", want, pv))
	}
	for _, name := range []string{"FindSuccessor", "RequestToJoin"} {
		fn := chordFn(c, "LocalNode", name)
		for _, call := range fn.Calls(false, func(call *ast.CallExpr) bool {
			se, ok := call.Fun.(*ast.SelectorExpr)
			return ok && se.Sel.Name == name && fn.Prov(se.X) != "recv"
		}) {
			// unchanged arguments?
			same := true
			for i, a := range call.Args {
				if fn.Prov(a) != fmt.Sprintf("param#%d", i) {
					same = false
				}
			}
			if same {
				check(fn, call, call.Fun.(*ast.SelectorExpr).X, "forward-"+name)
			}
		}
	}
	kvm := c.Func("chord", "", "kvMiddleware")
	for _, call := range kvm.Calls(false, func(call *ast.CallExpr) bool {
		id, ok := call.Fun.(*ast.Ident)
		return ok && kvm.paramIndex(kvm.Info.ObjectOf(id)) == 3
	}) {
		if len(call.Args) == 4 {
			check(kvm, call, call.Args[1], "handler-remote")
		}
	}
	c.Floor("forwarding sites with a possibly-self target", sites, 3)

	// ListKeys ring walk exits
	lk := chordFn(c, "LocalNode", "ListKeys")
	var loop *ast.ForStmt
	ast.Inspect(lk.Body, func(n ast.Node) bool {
		if fl, ok := n.(*ast.ForStmt); ok && fl.Cond == nil && loop == nil {
			loop = fl
		}
		return true
	})
	if loop == nil {
		c.Failf("ListKeys: ring-walk loop not found (undecided)")
	}
	// decided from path facts at the loop's exits, so `break`, an early `return list, nil` and a
	// walk moved into an (inlined) helper are alike. The cursor is the variable that receives
	// the FindSuccessor result inside the loop.
	backAtSelf, repeat, marks := false, false, false
	lf := lk.enclosing(loop)
	var cursor *types.Var
	ast.Inspect(loop.Body, func(n ast.Node) bool {
		if as, ok := n.(*ast.AssignStmt); ok && len(as.Rhs) == 1 && len(as.Lhs) == 2 {
			if call, ok := ast.Unparen(as.Rhs[0]).(*ast.CallExpr); ok {
				if se, ok := call.Fun.(*ast.SelectorExpr); ok && se.Sel.Name == "FindSuccessor" {
					cursor = lf.varOf(as.Lhs[0])
				}
			}
		}
		return true
	})
	// the id of the node the step found: cursor.ID(), written in place or held in a local
	isCursorID := func(e ast.Expr) bool {
		if cursor == nil {
			return false
		}
		if call, ok := ast.Unparen(e).(*ast.CallExpr); ok && len(call.Args) == 0 {
			if se, ok := call.Fun.(*ast.SelectorExpr); ok && se.Sel.Name == "ID" && lf.varOf(se.X) == cursor {
				return true
			}
		}
		// a local defined once as cursor.ID()
		if v := lf.varOf(e); v != nil {
			if defs := lf.defsOf(v); len(defs) == 1 && !defs[0].multi && defs[0].rhs != nil {
				if call, ok := ast.Unparen(defs[0].rhs).(*ast.CallExpr); ok && len(call.Args) == 0 {
					if se, ok := call.Fun.(*ast.SelectorExpr); ok && se.Sel.Name == "ID" && lf.varOf(se.X) == cursor {
						return true
					}
				}
			}
		}
		return false
	}
	atSelf := func(fs *FactSet) bool {
		return fs.Equal(func(x, y ast.Expr) bool { return isCursorID(x) && lf.Prov(y) == pSelf })
	}
	// the visited set: a map indexed by the cursor's id
	var seenMap *types.Var
	for _, nd := range shallowNodes(loop.Body) {
		if ix, ok := nd.(*ast.IndexExpr); ok && isCursorID(ix.Index) {
			if m := lf.varOf(ix.X); m != nil {
				if _, isMap := m.Type().Underlying().(*types.Map); isMap {
					seenMap = m
				}
			}
		}
	}
	visited := func(fs *FactSet) bool {
		if seenMap == nil {
			return false
		}
		for _, nd := range shallowNodes(loop.Body) {
			if ix, ok := nd.(*ast.IndexExpr); ok && isCursorID(ix.Index) && lf.varOf(ix.X) == seenMap {
				if lf.inSeen(fs, seenMap, lf.Prov(ix.Index)) {
					return true
				}
			}
		}
		return false
	}
	ast.Inspect(loop.Body, func(n ast.Node) bool {
		switch x := n.(type) {
		case *ast.FuncLit:
			return false
		case *ast.BranchStmt:
			if x.Tok == token.BREAK && lf.FactsAt(x).Unreachable == false && atSelf(lf.FactsAt(x)) {
				backAtSelf = true
			}
		case *ast.ReturnStmt:
			if len(x.Results) == 0 {
				return true
			}
			last := x.Results[len(x.Results)-1]
			fs := lf.FactsAt(x)
			if isNilIdent(lf.Info, last) && atSelf(fs) {
				backAtSelf = true
			}
			if !isNilIdent(lf.Info, last) && lf.varOf(last) == nil && visited(fs) {
				repeat = true // a constructed error under "this node was visited before"
			}
		}
		return true
	})
	for _, in := range lf.seenInserts(loop.Body) {
		if seenMap != nil && in.m == seenMap {
			if as, ok := in.at.(*ast.AssignStmt); ok && len(as.Lhs) == 1 {
				if ix, ok := ast.Unparen(as.Lhs[0]).(*ast.IndexExpr); ok && isCursorID(ix.Index) {
					marks = true
				}
			}
		}
	}
	c.Ob("ring-walk", "ListKeys#exit-back-at-self", loop.Pos(), backAtSelf, "the walk stops when it is back at the receiver")
	c.Ob("ring-walk", "ListKeys#exit-on-repeat", loop.Pos(), repeat && marks, "a node seen twice ends the walk with an error (every visited node is marked)")
	// progress: each step asks for successor of next.ID()+1
	prog := false
	for _, call := range lk.CallsTo(false, "spec/chord.ModuloSum") {
		if v, _ := lk.ConstVal(call.Args[1]); v == "1" && strings.HasSuffix(types.ExprString(call.Args[0]), ".ID()") {
			prog = true
		}
	}
	c.Ob("ring-walk", "ListKeys#advances", loop.Pos(), prog, "each step looks up the owner of (current id + 1)")
}

func forwardTargetOK(pv string) bool {
	for _, alt := range strings.Split(pv, "|") {
		if alt != "recv.closestPrecedingNode()" && alt != "recv.getSuccessor()" {
			return false
		}
	}
	return pv != ""
}

// advisoryBeforeRelease: a joiner (leaver) tells its predecessor to refresh its successor
// pointers while the successor's membership lock is still held. Once that lock is gone the
// predecessor may start its own leave (join); if it still believes the old successor is
// adjacent, its keys are handed to a node that does not own them (C05).
func advisoryBeforeRelease(c *Ctx) {
	n := 0
	for _, it := range []struct{ fn, finish string }{{"Join", "FinishJoin"}, {"Leave", "FinishLeave"}} {
		f := chordFn(c, "LocalNode", it.fn)
		isAdvisory := func(g *Fn, call *ast.CallExpr) bool {
			se, ok := ast.Unparen(call.Fun).(*ast.SelectorExpr)
			if !ok || se.Sel.Name != it.finish || len(call.Args) != 2 || g.Info.Selections[se] == nil {
				return false
			}
			a, _ := g.ConstVal(call.Args[0])
			b, _ := g.ConstVal(call.Args[1])
			return a == "true" && b == "false"
		}
		adv := f.effectSites(isAdvisory)
		c.Ob("advisory-order", it.fn+"#predecessor-advisory-present", f.Decl.Pos(), len(adv) > 0, "the predecessor is told to update its successor pointers ("+it.finish+"(true, false))")
		for _, es := range f.effectSites(finishRelease(it.finish)) {
			if isAdvisory(es.g, es.call) {
				continue
			}
			n++
			late := ""
			reached, _ := es.g.Reach(es.call, nil, nil)
			for _, r := range reached {
				for _, a := range adv {
					if a.g == es.g && containsNode(r, a.call) {
						late = c.pos(a.call.Pos())
					}
				}
			}
			c.Ob("advisory-order", it.fn+"#no-advisory-after-successor-release", es.call.Pos(), late == "", "the pointer advisory to the predecessor is never sent after the successor's membership lock was released; advisory reachable after the release at "+late+viaStr(es))
		}
	}
	c.Floor("successor release sites in Join/Leave", n, 2)
}

// snapshotCASRule: the maintenance paths (Notify, checkPredecessor) decide on a snapshot of
// a neighbour pointer taken in an earlier critical section, do slow work (a ping, interval
// tests), and come back to write. A membership change may have replaced the pointer in
// between (a joiner became predecessor): the write is legitimate only as a compare-and-set
// against that snapshot, tested in the same critical section as the write.
func snapshotCASRule(c *Ctx) {
	n := 0
	for _, t := range []struct{ field, lock string }{
		{"chord.LocalNode.predecessor", "predecessorMu"},
		{"chord.LocalNode.surrogate", "surrogateMu"},
	} {
		short := t.field[strings.LastIndex(t.field, ".")+1:]
		for _, w := range fieldWrites(c, "chord", t.field) {
			root := w.fn.root().Name
			if root != "chord.(LocalNode).Notify" && root != "chord.(LocalNode).checkPredecessor" {
				continue
			}
			n++
			g := w.fn.enclosing(w.stmt)
			// the snapshot tests of this function: field == snapshot (either operand order)
			isTest := func(e ast.Expr) (bool, bool) {
				be, ok := ast.Unparen(e).(*ast.BinaryExpr)
				if !ok || (be.Op != token.EQL && be.Op != token.NEQ) {
					return false, false
				}
				other := be.X
				if g.FieldKey(be.X) == t.field {
					other = be.Y
				} else if g.FieldKey(be.Y) != t.field {
					return false, false
				}
				if g.FieldKey(other) == t.field || g.Prov(other) != "recv."+short {
					return false, false
				}
				return true, be.Op == token.EQL
			}
			var test ast.Expr
			testTruth := true
			// edge-cut form (facts about fields do not survive the method calls between the
			// test and the write): with the edges on which a snapshot test holds removed,
			// the write is unreachable from the entry
			reached, _ := g.Reach(nil, nil, func(b *cfgBlock, si int) bool {
				for _, at := range g.edgeAtoms(b, si) {
					if ok, eq := isTest(at.e); ok && at.tag == nil && at.truth == eq {
						test, testTruth = at.e, at.truth
						return true
					}
				}
				return false
			})
			for _, m := range reached {
				if m == ast.Node(w.stmt) {
					test = nil
				}
			}
			same := false
			if test != nil {
				same = lockHeldAt(w.fn, test, t.lock, 'W') && lockHeldAt(w.fn, w.stmt, t.lock, 'W')
				between, _ := g.Reach(test, func(m ast.Node) bool { return m == ast.Node(w.stmt) }, func(b *cfgBlock, si int) bool {
					// only the paths on which the test held lead to the write
					for _, at := range g.edgeAtoms(b, si) {
						if at.e == test && at.truth != testTruth {
							return true
						}
					}
					return false
				})
				for _, m := range between {
					if m == ast.Node(w.stmt) {
						continue
					}
					ast.Inspect(m, func(x ast.Node) bool {
						if call, ok := x.(*ast.CallExpr); ok {
							if se, ok := call.Fun.(*ast.SelectorExpr); ok && (se.Sel.Name == "Unlock" || se.Sel.Name == "RUnlock") && strings.HasSuffix(g.Prov(se.X), "."+t.lock) {
								// released on the way only if the write is still ahead of the release
								after, _ := g.Reach(m, func(y ast.Node) bool { return y == ast.Node(w.stmt) }, nil)
								for _, y := range after {
									if y == ast.Node(w.stmt) {
										same = false
									}
								}
							}
						}
						return true
					})
				}
			}
			c.Ob("snapshot-cas", strings.TrimPrefix(root, "chord.(LocalNode).")+"#"+short+"-written-only-if-unchanged-since-snapshot", w.stmt.Pos(), test != nil && same,
				"a maintenance path writes "+short+" only after testing, in the same "+t.lock+" critical section, that it still equals the snapshot the decision was made on (a join completing in between must not be overwritten)")
		}
	}
	c.Floor("maintenance pointer writes", n, 4)
}

// fingerCoverageRule: every fix-finger round refreshes every entry. The round is a loop
// over k = 1..MaxFingerEntries whose body calls fixK(k) before anything else can leave the
// iteration, and nothing leaves the loop early: an entry that is skipped keeps pointing at
// whatever it pointed to - after a leave, at a node that is gone (C02 asks every finger to
// end up at the true owner).
func fingerCoverageRule(c *Ctx) {
	ff := chordFn(c, "LocalNode", "fixFinger")
	var loop *ast.ForStmt
	ast.Inspect(ff.Body, func(n ast.Node) bool {
		if fl, ok := n.(*ast.ForStmt); ok && loop == nil {
			loop = fl
		}
		return loop == nil
	})
	if loop == nil {
		c.Ob("finger-coverage", "fixFinger#loop", ff.Decl.Pos(), false, "no loop over the finger entries found")
		return
	}
	okBounds := false
	var loopVar *types.Var
	if init, ok := loop.Init.(*ast.AssignStmt); ok && len(init.Lhs) == 1 && len(init.Rhs) == 1 {
		loopVar = ff.varOf(init.Lhs[0])
		iv, _ := ff.ConstVal(init.Rhs[0])
		if cond, ok := loop.Cond.(*ast.BinaryExpr); ok && ff.varOf(cond.X) == loopVar && loopVar != nil {
			cv, _ := ff.ConstVal(cond.Y)
			post, _ := loop.Post.(*ast.IncDecStmt)
			okBounds = iv == "1" && post != nil && post.Tok == token.INC && ff.varOf(post.X) == loopVar &&
				((cond.Op == token.LEQ && cv == "48") || (cond.Op == token.LSS && cv == "49"))
		}
	}
	c.Ob("finger-coverage", "fixFinger#visits-1..MaxFingerEntries", loop.Pos(), okBounds, "the round walks k = 1, 2, ..., MaxFingerEntries")
	// fixK(k) opens the iteration
	okFirst := false
	if len(loop.Body.List) > 0 {
		ast.Inspect(loop.Body.List[0], func(n ast.Node) bool {
			if call, ok := n.(*ast.CallExpr); ok && ff.IsCall(call, "chord.LocalNode.fixK") && len(call.Args) == 1 && ff.varOf(call.Args[0]) == loopVar && loopVar != nil {
				okFirst = true
			}
			return true
		})
	}
	c.Ob("finger-coverage", "fixFinger#every-iteration-fixes-k", loop.Body.Pos(), okFirst, "each iteration starts by calling fixK(k) with the loop variable")
	// nothing leaves the loop early
	var early []string
	var scan func(n ast.Node, breakable int)
	scan = func(n ast.Node, breakable int) {
		ast.Inspect(n, func(m ast.Node) bool {
			switch x := m.(type) {
			case *ast.FuncLit:
				return false
			case *ast.ForStmt, *ast.RangeStmt, *ast.SwitchStmt, *ast.TypeSwitchStmt, *ast.SelectStmt:
				if m != n {
					scan(m, breakable+1)
					return false
				}
			case *ast.ReturnStmt:
				early = append(early, "return at "+c.pos(x.Pos()))
			case *ast.BranchStmt:
				if x.Tok == token.GOTO || (x.Tok == token.BREAK && (breakable == 0 || x.Label != nil)) {
					early = append(early, x.Tok.String()+" at "+c.pos(x.Pos()))
				}
			case *ast.CallExpr:
				if id, ok := x.Fun.(*ast.Ident); ok && id.Name == "panic" {
					early = append(early, "panic at "+c.pos(x.Pos()))
				}
			}
			return true
		})
	}
	scan(loop.Body, 0)
	loopVarWritten := false
	ast.Inspect(loop.Body, func(m ast.Node) bool {
		switch x := m.(type) {
		case *ast.AssignStmt:
			for _, l := range x.Lhs {
				if loopVar != nil && ff.varOf(l) == loopVar {
					loopVarWritten = true
				}
			}
		case *ast.IncDecStmt:
			if loopVar != nil && ff.varOf(x.X) == loopVar {
				loopVarWritten = true
			}
		}
		return true
	})
	c.Ob("finger-coverage", "fixFinger#no-early-exit-from-the-round", loop.Pos(), len(early) == 0 && !loopVarWritten, "no break / return / goto leaves the round before the last entry and the body does not move k: every entry is refreshed every round; found: "+strings.Join(early, ", "))
}

// listFingerprintRule: stabilize decides "did the successor list change?" by comparing a
// fingerprint of the new list with the stored one; two different lists with the same
// fingerprint mean the update is skipped and the node keeps a stale successor for good.
//   - a fingerprint computed by a library hash (hash.Hash64-style: New, Write, Sum64) is
//     accepted when every non-nil entry's ID is written, in order, as a fixed-width
//     encoding, and the sum of that hasher is what is returned (the hash itself is trusted);
//   - a hand-written fold is executed on every list of up to three entries over a few ids
//     (including 0 and a nil entry): two different ID sequences with the same fingerprint
//     are reported with the witness lists. A collision found this way is a real one.
func listFingerprintRule(c *Ctx) {
	hf := chordFn(c, "LocalNode", "hash")
	var hasher *ast.CallExpr
	for _, call := range hf.Calls(false, func(call *ast.CallExpr) bool {
		k := hf.CallKey(call)
		return strings.HasSuffix(k, "xxh3.New") || strings.HasPrefix(k, "hash/") && strings.Contains(k, ".New") || strings.HasPrefix(k, "crypto/") && strings.HasSuffix(k, ".New")
	}) {
		hasher = call
	}
	if hasher != nil {
		// structural form
		var loop *ast.RangeStmt
		ast.Inspect(hf.Body, func(n ast.Node) bool {
			if r, ok := n.(*ast.RangeStmt); ok && loop == nil && hf.Prov(r.X) == "param#0" {
				loop = r
			}
			return true
		})
		okFeed, okSkip, okSum := false, true, false
		if loop != nil {
			elem := hf.varOf(loop.Value)
			var put, write *ast.CallExpr
			ast.Inspect(loop.Body, func(n ast.Node) bool {
				switch x := n.(type) {
				case *ast.CallExpr:
					k := hf.CallKey(x)
					if strings.HasSuffix(k, "ndian.PutUint64") || strings.HasSuffix(k, "ndian.AppendUint64") {
						put = x
					}
					if se, ok := x.Fun.(*ast.SelectorExpr); ok && se.Sel.Name == "Write" && strings.Contains(hf.Prov(se.X), ".New()") {
						write = x
					}
				case *ast.BranchStmt:
					// the only entries skipped are nil ones
					if !hf.FactsAt(x).Cmp(func(e, tag ast.Expr, truth bool, fa *Fact) bool {
						be, ok := e.(*ast.BinaryExpr)
						return ok && tag == nil && truth && be.Op == token.EQL && hf.varOf(be.X) == elem && isNilIdent(hf.Info, be.Y)
					}) {
						okSkip = false
					}
				case *ast.ReturnStmt:
					okSkip = false
				}
				return true
			})
			if put != nil && write != nil && len(put.Args) == 2 && len(write.Args) == 1 && elem != nil {
				idv := ast.Unparen(put.Args[1])
				if call, ok := idv.(*ast.CallExpr); ok {
					if se, ok := call.Fun.(*ast.SelectorExpr); ok && se.Sel.Name == "ID" && hf.varOf(se.X) == elem {
						okFeed = hf.ObjOf(put.Args[0]) != nil && hf.ObjOf(put.Args[0]) == hf.ObjOf(write.Args[0])
					}
				}
			}
		}
		for _, r := range hf.Returns() {
			if len(r.Results) == 1 {
				if call, ok := ast.Unparen(r.Results[0]).(*ast.CallExpr); ok {
					if se, ok := call.Fun.(*ast.SelectorExpr); ok && strings.HasPrefix(se.Sel.Name, "Sum") && strings.Contains(hf.Prov(se.X), ".New()") {
						okSum = true
					}
				}
			}
		}
		c.Ob("list-fingerprint", "LocalNode.hash#every-id-fed-in-order-to-a-library-hash", hf.Decl.Pos(), loop != nil && okFeed && okSkip && okSum, "the successor-list fingerprint feeds the 8-byte encoding of every non-nil entry's ID, in list order, to one library hasher and returns its sum (skipping only nil entries)")
		c.Trust("the library hash used for the successor-list fingerprint does not collide on distinct inputs in practice")
		return
	}
	// hand-written fold: execute it
	ids := []*big.Int{big.NewInt(0), big.NewInt(1), big.NewInt(2), new(big.Int).Lsh(big.NewInt(1), 47)}
	type cand struct {
		list sliceVal
		key  string // the ID sequence of the non-nil entries
		show string
	}
	var cands []cand
	var gen func(prefix []int, n int)
	gen = func(prefix []int, n int) {
		if len(prefix) == n {
			var sl sliceVal
			var key, show []string
			for _, i := range prefix {
				if i < 0 {
					sl = append(sl, nilVal{})
					show = append(show, "nil")
					continue
				}
				sl = append(sl, objVal{ids[i]})
				key = append(key, ids[i].String())
				show = append(show, ids[i].String())
			}
			cands = append(cands, cand{sl, strings.Join(key, ","), "[" + strings.Join(show, " ") + "]"})
			return
		}
		for i := -1; i < len(ids); i++ {
			gen(append(append([]int{}, prefix...), i), n)
		}
	}
	for n := 0; n <= 3; n++ {
		gen(nil, n)
	}
	ext := func(f *Fn, call *ast.CallExpr, recv Val, args []Val) (Val, bool) {
		if se, ok := ast.Unparen(call.Fun).(*ast.SelectorExpr); ok && se.Sel.Name == "ID" {
			if o, ok := recv.(objVal); ok {
				return o.id, true
			}
		}
		if f.IsCall(call, "math/bits.RotateLeft64") && len(args) == 2 {
			x, ok1 := args[0].(*big.Int)
			k, ok2 := args[1].(*big.Int)
			if ok1 && ok2 {
				r := uint(((k.Int64() % 64) + 64) % 64)
				mask := new(big.Int).Sub(new(big.Int).Lsh(big.NewInt(1), 64), big.NewInt(1))
				hi := new(big.Int).And(new(big.Int).Lsh(x, r), mask)
				lo := new(big.Int).Rsh(x, 64-r)
				return new(big.Int).Or(hi, lo), true
			}
		}
		return nil, false
	}
	seen := map[string]cand{} // fingerprint -> first list
	collisions := 0
	witness := ""
	for _, cd := range cands {
		res, err := hf.EvalFn([]Val{cd.list}, ext)
		if err != nil || len(res) != 1 {
			c.Failf("LocalNode.hash: hand-written fingerprint not evaluable (undecided): %v", err)
		}
		fp, ok := res[0].(*big.Int)
		if !ok {
			c.Failf("LocalNode.hash: non-integer fingerprint (undecided)")
		}
		if prev, dup := seen[fp.String()]; dup && prev.key != cd.key {
			collisions++
			if witness == "" {
				witness = fmt.Sprintf("hash(%s) == hash(%s) == %s", prev.show, cd.show, fp)
			}
			continue
		}
		if _, dup := seen[fp.String()]; !dup {
			seen[fp.String()] = cd
		}
	}
	c.Ob("list-fingerprint", "LocalNode.hash#no-collision-on-small-lists", hf.Decl.Pos(), collisions == 0, fmt.Sprintf("the hand-written successor-list fingerprint was executed on all %d lists of up to 3 entries over ids {0,1,2,2^47,nil}: %d pairs of different ID sequences share a fingerprint (stabilize would skip the update and keep the stale list); first witness: %s", len(cands), collisions, witness))
}
