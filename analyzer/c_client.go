package main

import (
	"fmt"
	"go/ast"
	"go/token"
	"go/types"
	"math/big"
	"strings"
)

func init() {
	register(&propDef{ID: "C43", Level: "other",
		Decides:    "the assignment structure of SyncConfigTunnels: a registered hostname becomes available for reuse only if it has no dot and is not used by a configured tunnel; a tunnel's hostname is written only when it was empty, and the value comes from popping the available list (the re-slice consumes it, so no name is handed out twice) or from a successful requestHostname; when the request fails the tunnel is skipped; the whole pass runs under syncMu on a copy of the configured tunnels.",
		NotDecided: "distinctness when the configuration itself already lists a hostname twice, or when the server hands out a name twice.",
		Run:        runC43})
	register(&propDef{ID: "C44", Level: "other",
		Decides:    "guarded-by for the routed-target state (Config.router + the proxy cache Client.proxies, one logical map): every writer (router Store/Delete through buildRouter, proxies LoadAndDelete through closeOutdatedProxies) runs with configMu write-held in every caller; the reader holds configMu.RLock across router.Load and the LoadOrStoreLazy that captures the loaded route; writers invalidate the proxies of exactly the tunnels diffTunnels reports before rebuilding the router, and diffTunnels compares every field of Tunnel that buildRouter copies into a route.",
		NotDecided: "connections already being served when the change happens.",
		Run:        runC44})
	register(&propDef{ID: "C45", Level: "other",
		Decides:    "atomic-replace discipline for the client configuration: the function that persists Config must write a temporary file in the destination directory, sync and close it, and rename it onto Config.path, the rename being cut by the success of encode/sync/close; opening the final path with O_TRUNC / os.Create / os.WriteFile replaces it in place and a crash after the truncation loses the identity.",
		NotDecided: "file-system rename atomicity itself.",
		Run:        runC45})
	register(&propDef{ID: "C50", Level: "other",
		Decides:    "getConnectedNodes: the only growth of the result is an append guarded by len(nodes) < NumRedundantLinks (3); the comparator, executed on the evaluator with a modelled measurement table for every measured/unmeasured x order type of the two averages (a literal or a helper alike), puts measured before unmeasured and smaller averages first, and is a strict weak order (irreflexive, asymmetric); the lookup table is filled under the same key function the comparator uses, from Snapshot(key, 10s).Average; the sorted slice is what is returned.",
		NotDecided: "the measurements themselves (rtt package).",
		Run:        runC50})
	addSelfTests("C43",
		mutation{"reuse-custom-domains", "tun/client/tunnel.go", "		if strings.Contains(hostname, \".\") {\n			continue\n		}\n		// filter out hostnames currently in used", "		// filter out hostnames currently in used", "sync"},
		mutation{"reuse-inused", "tun/client/tunnel.go", "		if _, ok := inused[hostname]; ok {\n			continue\n		}\n		available = append(available, hostname)", "		available = append(available, hostname)", "sync"},
		mutation{"name-not-consumed", "tun/client/tunnel.go", "				name, available = available[0], available[1:]", "				name = available[0]", "sync"},
		mutation{"failed-request-still-assigned", "tun/client/tunnel.go", "					c.Logger.Error(\"Failed to request new hostname\", zap.String(\"target\", tunnel.Target), zap.Error(err))\n					continue", "					c.Logger.Error(\"Failed to request new hostname\", zap.String(\"target\", tunnel.Target), zap.Error(err))", "sync"},
		mutation{"overwrite-configured-hostname", "tun/client/tunnel.go", "		if tunnel.Hostname == \"\" {\n			if len(available) > 0 {", "		if tunnel.Hostname == \"\" || !strings.Contains(tunnel.Hostname, \".\") {\n			if len(available) > 0 {", "sync"},
	)
	addSelfTests("C44",
		mutation{"removal-through-element-pointer", "tun/client/tunnel.go", "	c.closeOutdatedProxies(tunnel)\n\n	c.Configuration.Tunnels = append(c.Configuration.Tunnels[:index], c.Configuration.Tunnels[index+1:]...)", "	removed := &c.Configuration.Tunnels[index]\n	c.closeOutdatedProxies(*removed)\n\n	c.Configuration.Tunnels = append(c.Configuration.Tunnels[:index], c.Configuration.Tunnels[index+1:]...)\n	tunnel = *removed", "invalidate"},
		mutation{"removal-through-element-copy", "tun/client/tunnel.go", "	c.closeOutdatedProxies(tunnel)\n\n	c.Configuration.Tunnels = append(c.Configuration.Tunnels[:index], c.Configuration.Tunnels[index+1:]...)", "	tunnel = c.Configuration.Tunnels[index]\n	c.closeOutdatedProxies(tunnel)\n\n	c.Configuration.Tunnels = append(c.Configuration.Tunnels[:index], c.Configuration.Tunnels[index+1:]...)", "!invalidate"},
		mutation{"reader-without-lock", "tun/client/client.go", "	c.configMu.RLock()\n	u, ok := c.Configuration.router.Load(hostname)\n	if ok && link.GetAlpn() == protocol.Link_HTTP {\n		proxy = c.getHTTPProxy(ctx, hostname, u)\n	}\n	c.configMu.RUnlock()", "	u, ok := c.Configuration.router.Load(hostname)\n	if ok && link.GetAlpn() == protocol.Link_HTTP {\n		proxy = c.getHTTPProxy(ctx, hostname, u)\n	}", "guarded-by"},
		mutation{"proxy-created-after-unlock", "tun/client/client.go", "	if ok && link.GetAlpn() == protocol.Link_HTTP {\n		proxy = c.getHTTPProxy(ctx, hostname, u)\n	}\n	c.configMu.RUnlock()", "	c.configMu.RUnlock()\n	if ok && link.GetAlpn() == protocol.Link_HTTP {\n		proxy = c.getHTTPProxy(ctx, hostname, u)\n	}", "guarded-by"},
		mutation{"diff-ignores-header-host", "tun/client/tunnel.go", "			oldTunnel.ProxyHeaderHost != tunnel.ProxyHeaderHost ||\n", "", "diff-fields"},
		mutation{"router-before-invalidate", "tun/client/tunnel.go", "	diff := diffTunnels(c.Configuration.Tunnels, tunnels)\n	c.closeOutdatedProxies(diff...)\n\n	c.Configuration.Tunnels = tunnels", "	diff := diffTunnels(c.Configuration.Tunnels, tunnels)\n\n	c.Configuration.Tunnels = tunnels", "invalidate"},
		mutation{"reload-unlocked-callback", "tun/client/reload.go", "	c.configMu.Lock()\n	if err := c.Configuration.reloadFile(onReload); err != nil {\n		c.Logger.Error(\"Error reloading config file\", zap.Error(err))\n		c.configMu.Unlock()\n		return\n	}\n	c.configMu.Unlock()", "	if err := c.Configuration.reloadFile(onReload); err != nil {\n		c.Logger.Error(\"Error reloading config file\", zap.Error(err))\n		return\n	}", "guarded-by"},
	)
	addSelfTests("C45",
		// the repaired shape must be accepted (the tree itself carries the finding, see KNOWN_FINDINGS.json)
		mutation{"repair-temp-and-rename", "tun/client/config.go", "	f, err := os.OpenFile(c.path, os.O_RDWR|os.O_CREATE|os.O_TRUNC, 0644)\n	if err != nil {\n		return fmt.Errorf(\"error opening config file for writing: %w\", err)\n	}\n	defer f.Close()\n	defer f.Sync()\n\n	encoder := yaml.NewEncoder(f)\n	encoder.SetIndent(2)\n	defer encoder.Close()\n	return encoder.Encode(c)", "	f, err := os.CreateTemp(filepath.Dir(c.path), \"specter-*.yaml\")\n	if err != nil {\n		return fmt.Errorf(\"error opening config file for writing: %w\", err)\n	}\n	defer os.Remove(f.Name())\n\n	encoder := yaml.NewEncoder(f)\n	encoder.SetIndent(2)\n	if err := encoder.Encode(c); err != nil {\n		f.Close()\n		return err\n	}\n	if err := encoder.Close(); err != nil {\n		f.Close()\n		return err\n	}\n	if err := f.Sync(); err != nil {\n		f.Close()\n		return err\n	}\n	if err := f.Close(); err != nil {\n		return err\n	}\n	return os.Rename(f.Name(), c.path)", "!atomic-replace"},
		mutation{"rename-without-sync", "tun/client/config.go", "	f, err := os.OpenFile(c.path, os.O_RDWR|os.O_CREATE|os.O_TRUNC, 0644)\n	if err != nil {\n		return fmt.Errorf(\"error opening config file for writing: %w\", err)\n	}\n	defer f.Close()\n	defer f.Sync()\n\n	encoder := yaml.NewEncoder(f)\n	encoder.SetIndent(2)\n	defer encoder.Close()\n	return encoder.Encode(c)", "	f, err := os.CreateTemp(filepath.Dir(c.path), \"specter-*.yaml\")\n	if err != nil {\n		return fmt.Errorf(\"error opening config file for writing: %w\", err)\n	}\n	defer os.Remove(f.Name())\n\n	encoder := yaml.NewEncoder(f)\n	encoder.SetIndent(2)\n	if err := encoder.Encode(c); err != nil {\n		f.Close()\n		return err\n	}\n	if err := encoder.Close(); err != nil {\n		f.Close()\n		return err\n	}\n	if err := f.Close(); err != nil {\n		return err\n	}\n	return os.Rename(f.Name(), c.path)", "rename-after-encode-sync-close"},
	)
	mutExtra["repair-temp-and-rename"] = [2]string{"	\"os\"\n", "	\"os\"\n	\"path/filepath\"\n"}
	mutExtra["rename-without-sync"] = [2]string{"	\"os\"\n", "	\"os\"\n	\"path/filepath\"\n"}
	addSelfTests("C50",
		mutation{"four-gateways", "tun/client/connection.go", "		if len(nodes) < tun.NumRedundantLinks {\n			nodes = append(nodes, node)\n		}", "		if len(nodes) <= tun.NumRedundantLinks {\n			nodes = append(nodes, node)\n		}", "bound"},
		mutation{"slowest-first", "tun/client/connection.go", "		return l < r\n	})", "		return l > r\n	})", "comparator"},
		mutation{"unmeasured-first", "tun/client/connection.go", "		if lOK && !rOK {\n			return true\n		}\n		if !lOK && rOK {\n			return false\n		}", "		if lOK && !rOK {\n			return false\n		}\n		if !lOK && rOK {\n			return true\n		}", "comparator"},
		mutation{"not-irreflexive", "tun/client/connection.go", "		return l < r\n	})", "		return l <= r\n	})", "comparator"},
		mutation{"lookup-key-mismatch", "tun/client/connection.go", "		rttLookup[rtt.MakeMeasurementKey(n)] = m.Average", "		rttLookup[n.GetAddress()] = m.Average", "lookup"},
	)
}

func cliFn(c *Ctx, recv, name string) *Fn { return c.Func("tun/client", recv, name) }

func runC43(c *Ctx) {
	sy := cliFn(c, "Client", "SyncConfigTunnels")
	// Roles, not names. A *hostname write* assigns a tunnel's Hostname field. The *available
	// list* is the slice whose head such a write takes (directly or through a local); when it
	// is produced by an invoked literal (an inlined helper) the slice that literal returns is
	// the same list. The *in-use set* is the map whose comma-ok lookup guards the appends.
	type hwrite struct {
		as  *ast.AssignStmt
		rhs ast.Expr
	}
	var writes []hwrite
	for _, nd := range shallowNodes(sy.Body) {
		as, ok := nd.(*ast.AssignStmt)
		if !ok || len(as.Lhs) != len(as.Rhs) {
			continue
		}
		for i, l := range as.Lhs {
			if se, ok := ast.Unparen(l).(*ast.SelectorExpr); ok && se.Sel.Name == "Hostname" && sy.Info.Selections[se] != nil {
				writes = append(writes, hwrite{as, as.Rhs[i]})
			}
		}
	}
	avail := map[*types.Var]bool{}
	headOf := func(g *Fn, e ast.Expr) *types.Var {
		if ix, ok := ast.Unparen(e).(*ast.IndexExpr); ok {
			if v, _ := g.ConstVal(ix.Index); v == "0" {
				return g.varOf(ix.X)
			}
		}
		return nil
	}
	for _, w := range writes {
		if v := headOf(sy, w.rhs); v != nil {
			avail[v] = true
		}
		if lv := sy.varOf(w.rhs); lv != nil {
			for _, d := range sy.defsOf(lv) {
				if d.rhs != nil {
					if v := headOf(sy.enclosing(d.rhs), d.rhs); v != nil {
						avail[v] = true
					}
				}
			}
		}
	}
	for changed := true; changed; {
		changed = false
		for v := range avail {
			for _, d := range sy.defsOf(v) {
				if d.rhs == nil {
					continue
				}
				g := sy.enclosing(d.rhs)
				if lc, ok := ast.Unparen(d.rhs).(*ast.CallExpr); ok {
					if lit := g.litOfCallee(lc); lit != nil {
						h := g.enclosing(lit).Closure(lit)
						for _, r := range h.Returns() {
							if d.idx < len(r.Results) {
								if rv := h.varOf(r.Results[d.idx]); rv != nil && !avail[rv] {
									avail[rv] = true
									changed = true
								}
							}
						}
					}
				}
			}
		}
	}
	c.Floor("available lists", len(avail), 1)
	isAvail := func(g *Fn, e ast.Expr) bool { v := g.varOf(e); return v != nil && avail[v] }
	// appends to the available list
	nav := 0
	var inuse *types.Var
	for _, call := range sy.Calls(true, func(call *ast.CallExpr) bool {
		id, ok := call.Fun.(*ast.Ident)
		if !ok || id.Name != "append" || len(call.Args) != 2 {
			return false
		}
		return isAvail(sy.enclosing(call), call.Args[0])
	}) {
		nav++
		g := sy.enclosing(call)
		fs := sy.FactsAt(call)
		noDot := fs.Has(func(fa *Fact) bool {
			if fa.Kind != FFalse || !g.IsCall(fa.Call, "strings.Contains") {
				return false
			}
			v, _ := g.ConstVal(fa.Call.Args[1])
			return v == "\".\"" && g.varOf(fa.Call.Args[0]) != nil && g.varOf(fa.Call.Args[0]) == g.varOf(call.Args[1])
		})
		// the candidate is known absent from a map: that map is the in-use set
		notUsed := false
		for _, nd := range shallowNodes(g.Body) {
			ix, ok := nd.(*ast.IndexExpr)
			if !ok {
				continue
			}
			m := g.varOf(ix.X)
			if m == nil {
				continue
			}
			if _, isMap := m.Type().Underlying().(*types.Map); !isMap {
				continue
			}
			if g.varOf(ix.Index) != nil && g.varOf(ix.Index) == g.varOf(call.Args[1]) && g.notInSeen(fs, m, g.Prov(ix.Index)) {
				notUsed = true
				inuse = m
			}
		}
		c.Ob("sync", "SyncConfigTunnels#available<-registered-without-dot", call.Pos(), noDot, "only auto-generated names (no dot) are reused, never a custom domain")
		c.Ob("sync", "SyncConfigTunnels#available<-not-in-use", call.Pos(), notUsed, "a name already used by a configured tunnel is not offered again")
		c.Ob("sync", "SyncConfigTunnels#available-from-registered", call.Pos(), strings.Contains(g.Prov(call.Args[1]), "GetRegisteredHostnames()#0"), "candidates come from the hostnames registered to this client; found "+g.Prov(call.Args[1]))
	}
	c.Floor("available append sites", nav, 1)
	// the in-use set is filled from every configured tunnel's hostname
	okIn := false
	if inuse != nil {
		for _, in := range sy.seenInserts(sy.Body) {
			if in.m == inuse && strings.HasSuffix(in.key, ".Hostname") {
				okIn = true
			}
		}
	}
	c.Ob("sync", "SyncConfigTunnels#inused-covers-configured-hostnames", sy.Decl.Pos(), okIn, "the in-use set is built from the hostnames of all configured tunnels")
	// hostname writes
	nwr := 0
	okPop := false
	for _, w := range writes {
		as := w.as
		nwr++
		fs := sy.FactsAt(as)
		wasEmpty := fs.Cmp(func(e, tag ast.Expr, truth bool, fa *Fact) bool {
			be, ok := ast.Unparen(e).(*ast.BinaryExpr)
			if !ok || tag != nil {
				return false
			}
			x, y := be.X, be.Y
			if v, _ := sy.ConstVal(x); v == "\"\"" {
				x, y = y, x
			}
			v, _ := sy.ConstVal(y)
			se, isSel := ast.Unparen(x).(*ast.SelectorExpr)
			if v != "\"\"" || !isSel || se.Sel.Name != "Hostname" {
				return false
			}
			return be.Op == token.EQL && truth || be.Op == token.NEQ && !truth
		})
		c.Ob("sync", "SyncConfigTunnels#assign-only-when-empty", as.Pos(), wasEmpty, "a hostname is assigned only to a tunnel that has none (configured names are never overwritten)")
		// provenance of the value: the head of the available list (taken under len > 0 and
		// removed from the list in the same statement), or a successful requestHostname
		nonEmptyList := func(at ast.Node, lv *types.Var) bool {
			return sy.FactsAt(at).Cmp(func(e, tag ast.Expr, truth bool, fa *Fact) bool {
				be, ok := ast.Unparen(e).(*ast.BinaryExpr)
				if !ok || tag != nil {
					return false
				}
				v, _ := sy.ConstVal(be.Y)
				if v != "0" || !isLenOf(sy, be.X, func(x ast.Expr) bool { return sy.varOf(x) == lv }) {
					return false
				}
				switch be.Op {
				case token.GTR, token.NEQ:
					return truth
				case token.EQL, token.LEQ:
					return !truth
				}
				return false
			})
		}
		popsIn := func(st *ast.AssignStmt, lv *types.Var) bool {
			if len(st.Lhs) != len(st.Rhs) {
				return false
			}
			for i, l := range st.Lhs {
				if sy.varOf(l) != lv {
					continue
				}
				if sl, ok := ast.Unparen(st.Rhs[i]).(*ast.SliceExpr); ok && sy.varOf(sl.X) == lv && sl.High == nil {
					if l0, _ := sy.ConstVal(sl.Low); l0 == "1" {
						return true
					}
				}
			}
			return false
		}
		okSrc := false
		if lv := headOf(sy, w.rhs); lv != nil && avail[lv] {
			okSrc = nonEmptyList(as, lv) && popsIn(as, lv)
			okPop = okPop || okSrc
		} else if v := sy.varOf(w.rhs); v != nil {
			okSrc = true
			bad, decided := sy.CutFromDefs(as, v, func(p string) bool {
				// a definition is bad unless it is available[0] or requestHostname()#0
				return !(strings.HasSuffix(p, "[const:0]") || strings.HasSuffix(p, ".requestHostname()#0"))
			}, func(at atom) bool { return false })
			okSrc = decided && bad == nil
			for _, d := range sy.defNodes(v) {
				da, ok := d.(*ast.AssignStmt)
				if !ok {
					continue
				}
				// a head taken into the local: under len > 0, popped in the same statement
				for i, r := range da.Rhs {
					if lv := headOf(sy, r); lv != nil && i < len(da.Lhs) && sy.varOf(da.Lhs[i]) == v {
						okHead := avail[lv] && nonEmptyList(da, lv) && popsIn(da, lv)
						okSrc = okSrc && okHead
						okPop = okPop || okHead
					}
				}
				// the request result is used only on its success edge
				if len(da.Rhs) == 1 {
					if call, ok := da.Rhs[0].(*ast.CallExpr); ok && sy.IsCall(call, "tun/client.Client.requestHostname") {
						reached, _ := sy.Reach(d, func(n ast.Node) bool { return false }, func(b *cfgBlock, si int) bool {
							for _, at := range sy.edgeAtoms(b, si) {
								if be, ok := at.e.(*ast.BinaryExpr); ok && be.Op == token.NEQ && isNilIdent(sy.Info, be.Y) && !at.truth {
									return true // cut the success edge: the write must then be unreachable from this def... within the iteration
								}
							}
							return false
						})
						for _, n := range reached {
							if n == ast.Node(as) {
								// reachable without passing the success edge: only acceptable through the loop back-edge where the name is re-defined first
								okSrc = okSrc && reachesOnlyThroughRedefinition(sy, d, as, v)
							}
						}
					}
				}
			}
		}
		c.Ob("sync", "SyncConfigTunnels#assigned-name-is-popped-or-freshly-requested", as.Pos(), okSrc, "the assigned name is the head of the available list or the result of a successful requestHostname")
	}
	c.Floor("hostname assignment sites", nwr, 1)
	c.Ob("sync", "SyncConfigTunnels#pop-consumes-the-name", sy.Decl.Pos(), okPop, "taking a name from the available list removes it (name, available = available[0], available[1:]), under len(available) > 0")
	// syncMu + copy
	okMu := false
	if len(sy.Body.List) > 0 {
		if es, ok := sy.Body.List[0].(*ast.ExprStmt); ok {
			if call, ok := es.X.(*ast.CallExpr); ok {
				if se, ok := call.Fun.(*ast.SelectorExpr); ok && se.Sel.Name == "Lock" && sy.Prov(se.X) == "recv.syncMu" {
					okMu = true
				}
			}
		}
	}
	c.Ob("sync", "SyncConfigTunnels#serialized-by-syncMu", sy.Decl.Pos(), okMu, "concurrent synchronisations are serialized (two passes could otherwise hand the same available name to different tunnels)")
	okCopy := false
	ast.Inspect(sy.Body, func(n ast.Node) bool {
		if as, ok := n.(*ast.AssignStmt); ok && len(as.Rhs) == 1 && sy.Prov(as.Rhs[0]) == "builtin:append(lit:[]Tunnel)" {
			okCopy = sy.FactsAt(as).Held("c.configMu", 'R')
		}
		return true
	})
	c.Ob("sync", "SyncConfigTunnels#works-on-a-copy-taken-under-configMu", sy.Decl.Pos(), okCopy, "the pass edits a copy of the tunnel list taken under the configuration lock")
}

// reachesOnlyThroughRedefinition: `use` is reachable from def without passing the success
// edge only via paths that redefine v first (the next loop iteration).
func reachesOnlyThroughRedefinition(f *Fn, def ast.Node, use ast.Node, v *types.Var) bool {
	defs := map[ast.Node]bool{}
	for _, d := range f.defNodes(v) {
		defs[d] = true
	}
	reached, _ := f.Reach(def, func(n ast.Node) bool { return defs[n] && n != def }, func(b *cfgBlock, si int) bool {
		for _, at := range f.edgeAtoms(b, si) {
			if be, ok := at.e.(*ast.BinaryExpr); ok && be.Op == token.NEQ && isNilIdent(f.Info, be.Y) && !at.truth {
				return true
			}
		}
		return false
	})
	for _, n := range reached {
		if n == use {
			return false
		}
	}
	return true
}

// ---------------------------------------------------------------------------------------

func runC44(c *Ctx) {
	// writers of router / proxies
	writerOK := func(fn *Fn, call *ast.CallExpr, what string) {
		c.Ob("guarded-by", fmt.Sprintf("%s#%s-under-configMu", fn.Name, what), call.Pos(), lockHeldAtDeep(c, fn, call, "configMu", 'W', 0), "the routed-target state is modified only with configMu write-held (in this function or in every caller, transitively)")
	}
	nw := 0
	for _, fn := range c.AllFuncs("tun/client") {
		for _, call := range fn.Calls(true, func(call *ast.CallExpr) bool {
			se, ok := call.Fun.(*ast.SelectorExpr)
			if !ok {
				return false
			}
			pv := fn.enclosing(call).Prov(se.X)
			if strings.HasSuffix(pv, ".router") && (se.Sel.Name == "Store" || se.Sel.Name == "Delete") {
				return true
			}
			if strings.HasSuffix(pv, ".proxies") && (se.Sel.Name == "LoadAndDelete" || se.Sel.Name == "Delete" || se.Sel.Name == "Store") {
				return true
			}
			return false
		}) {
			if fn.Decl.Name.Name == "clone" || fn.Decl.Name.Name == "NewConfig" {
				continue
			}
			nw++
			writerOK(fn, call, fn.Str(call.Fun))
		}
	}
	c.Floor("writers of router/proxies", nw, 3)
	// reader: router.Load and the LoadOrStoreLazy capturing it, one RLock region
	nrd := 0
	for _, fn := range c.AllFuncs("tun/client") {
		for _, load := range fn.Calls(true, func(call *ast.CallExpr) bool {
			se, ok := call.Fun.(*ast.SelectorExpr)
			return ok && se.Sel.Name == "Load" && strings.HasSuffix(fn.enclosing(call).Prov(se.X), ".router")
		}) {
			nrd++
			g := fn.enclosing(load)
			held := g.FactsAt(load).Has(func(fa *Fact) bool { return fa.Kind == FHeld && strings.HasSuffix(fa.Lock, ".configMu") })
			c.Ob("guarded-by", fn.Name+"#router.Load-under-configMu", load.Pos(), held, "the route is read with configMu held")
			// every proxy creation from that route happens before the lock is released
			for _, gp := range g.CallsTo(false, "tun/client.Client.getHTTPProxy") {
				fs := g.FactsAt(gp)
				sameRegion := fs.Has(func(fa *Fact) bool { return fa.Kind == FHeld && strings.HasSuffix(fa.Lock, ".configMu") })
				// no unlock between: the held fact at the proxy call must be the same acquisition as at the load
				var acqLoad, acqProxy *ast.CallExpr
				for _, fa := range g.FactsAt(load).Facts {
					if fa.Kind == FHeld && strings.HasSuffix(fa.Lock, ".configMu") {
						acqLoad = fa.Call
					}
				}
				for _, fa := range fs.Facts {
					if fa.Kind == FHeld && strings.HasSuffix(fa.Lock, ".configMu") {
						acqProxy = fa.Call
					}
				}
				c.Ob("guarded-by", fn.Name+"#proxy-created-in-the-same-critical-section", gp.Pos(), sameRegion && acqLoad != nil && acqLoad == acqProxy, "the proxy built from the loaded route is created before configMu is released: otherwise a connection arriving between proxy invalidation and router rebuild caches a proxy for the old target")
			}
		}
	}
	c.Floor("router readers", nrd, 1)
	gp := cliFn(c, "Client", "getHTTPProxy")
	okLazy := false
	for _, call := range methodCalls(gp, false, "LoadOrStoreLazy") {
		okLazy = strings.HasSuffix(gp.Prov(call.Fun.(*ast.SelectorExpr).X), ".proxies") && gp.Prov(call.Args[0]) == "param#1"
	}
	c.Ob("guarded-by", "getHTTPProxy#caches-by-hostname", gp.Decl.Pos(), okLazy, "the proxy cache is keyed by the hostname and filled lazily from the route argument")
	// writers: invalidate(diff) before buildRouter(diff), diff from diffTunnels
	for _, name := range []string{"RebuildTunnels", "tunnelRemovalWrapper"} {
		fn := cliFn(c, "Client", name)
		inv := fn.CallsTo(false, "tun/client.Client.closeOutdatedProxies")
		bld := fn.CallsTo(false, "tun/client.Config.buildRouter")
		ok := len(inv) == 1 && len(bld) == 1
		if ok {
			reached, _ := fn.Reach(nil, func(n ast.Node) bool { return containsNode(n, inv[0]) }, nil)
			for _, n := range reached {
				if containsNode(n, bld[0]) {
					ok = false
				}
			}
			ok = ok && fn.Prov(inv[0].Args[0]) == fn.Prov(bld[0].Args[0])
		}
		c.Ob("invalidate", name+"#proxies-invalidated-before-router-rebuilt", fn.Decl.Pos(), ok, "the proxies of the changed tunnels are closed, then the router is rebuilt for the same set")
	}
	// the removed / changed tunnels handed to the invalidation and to the router rebuild are
	// values, not pointers into Configuration.Tunnels: removing an entry shifts the slice in
	// place (append(s[:i], s[i+1:]...)), after which &s[i] denotes the NEXT tunnel
	nshift := 0
	for _, fn := range c.AllFuncs("tun/client") {
		type ptr struct {
			v     *types.Var
			slice string
			at    *ast.AssignStmt
		}
		var ptrs []ptr
		var shifts []struct {
			slice string
			at    ast.Node
		}
		ast.Inspect(fn.Body, func(n ast.Node) bool {
			as, ok := n.(*ast.AssignStmt)
			if !ok || len(as.Lhs) != 1 || len(as.Rhs) != 1 {
				return true
			}
			g := fn.enclosing(as)
			if u, ok := ast.Unparen(as.Rhs[0]).(*ast.UnaryExpr); ok && u.Op == token.AND {
				if ix, ok := ast.Unparen(u.X).(*ast.IndexExpr); ok {
					if _, isSlice := g.Info.Types[ix.X].Type.Underlying().(*types.Slice); isSlice {
						if v := g.varOf(as.Lhs[0]); v != nil {
							ptrs = append(ptrs, ptr{v, g.Prov(ix.X), as})
						}
					}
				}
			}
			if call, ok := ast.Unparen(as.Rhs[0]).(*ast.CallExpr); ok && len(call.Args) >= 2 {
				if id, ok := call.Fun.(*ast.Ident); ok && id.Name == "append" {
					if sl, ok := ast.Unparen(call.Args[0]).(*ast.SliceExpr); ok && g.Prov(sl.X) == g.Prov(as.Lhs[0]) {
						shifts = append(shifts, struct {
							slice string
							at    ast.Node
						}{g.Prov(as.Lhs[0]), as})
					}
				}
			}
			return true
		})
		nshift += len(shifts)
		for _, sh := range shifts {
			g := fn.enclosing(sh.at)
			after, _ := g.Reach(sh.at, nil, nil)
			for _, pt := range ptrs {
				if pt.slice != sh.slice {
					continue
				}
				used := token.NoPos
				for _, m := range after {
					if m == ast.Node(pt.at) {
						continue
					}
					ast.Inspect(m, func(x ast.Node) bool {
						if id, ok := x.(*ast.Ident); ok && g.varOf(id) == pt.v && !used.IsValid() {
							used = id.Pos()
						}
						return true
					})
				}
				c.Ob("invalidate", strings.TrimPrefix(fn.Name, "tun/client.")+"#no-element-pointer-used-after-in-place-removal:"+pt.v.Name(), pt.at.Pos(), !used.IsValid(), "a pointer into "+sh.slice+" is not used after the slice was shifted in place: it then denotes the following element (the router would drop and re-add the wrong hostname and keep forwarding the removed one); used at "+c.pos(used))
			}
		}
	}
	c.Floor("in-place slice removals in tun/client", nshift, 1)
	dr := cliFn(c, "Client", "doReload")
	okCb := false
	for _, lit := range dr.Lits() {
		g := dr.Closure(lit)
		inv := g.CallsTo(false, "tun/client.Client.closeOutdatedProxies")
		bld := g.CallsTo(false, "tun/client.Config.buildRouter")
		dt := g.CallsTo(false, "tun/client.diffTunnels")
		okCb = len(inv) == 1 && len(bld) == 1 && len(dt) == 1 && inv[0].Pos() < bld[0].Pos()
	}
	c.Ob("invalidate", "doReload#callback-invalidates-then-rebuilds", dr.Decl.Pos(), okCb, "the reload callback closes the outdated proxies and rebuilds the router for diffTunnels(prev, curr)")
	for _, call := range methodCalls(dr, false, "reloadFile") {
		c.Ob("guarded-by", "doReload#reloadFile-under-configMu", call.Pos(), dr.FactsAt(call).Held("c.configMu", 'W'), "the reload (and its callback) run with configMu write-held")
	}
	// diff fields ⊇ fields buildRouter copies
	br := cliFn(c, "Config", "buildRouter")
	routed := map[string]bool{}
	ast.Inspect(br.Body, func(n ast.Node) bool {
		kv, ok := n.(*ast.KeyValueExpr)
		if !ok {
			return true
		}
		if se, ok := kv.Value.(*ast.SelectorExpr); ok && br.FieldKey(se) != "" && strings.HasPrefix(br.FieldKey(se), "tun/client.Tunnel.") {
			f := strings.TrimPrefix(br.FieldKey(se), "tun/client.Tunnel.")
			if f == "parsed" {
				f = "Target" // parsed is derived from Target by validate()
			}
			routed[f] = true
		}
		return true
	})
	c.Floor("Tunnel fields copied into a route", len(routed), 5)
	df := c.Func("tun/client", "", "diffTunnels")
	compared := map[string]bool{}
	ast.Inspect(df.Body, func(n ast.Node) bool {
		be, ok := n.(*ast.BinaryExpr)
		if !ok || be.Op != token.NEQ {
			return true
		}
		l, r := df.FieldKey(be.X), df.FieldKey(be.Y)
		if l != "" && l == r && strings.HasPrefix(l, "tun/client.Tunnel.") {
			compared[strings.TrimPrefix(l, "tun/client.Tunnel.")] = true
		}
		return true
	})
	for f := range routed {
		c.Ob("diff-fields", "diffTunnels#compares-"+f, df.Decl.Pos(), compared[f], "a change of Tunnel."+f+" changes the route, so it must mark the tunnel as changed (its cached proxy is then invalidated)")
	}
}

// lockHeldAtDeep: recv.<lockField> held at n in fn, or - for a function that does not take
// it itself - at every call site, recursively (depth <= 3).
func lockHeldAtDeep(c *Ctx, fn *Fn, n ast.Node, lockField string, mode byte, depth int) bool {
	g := fn.enclosing(n)
	held := func(fs *FactSet) bool {
		return fs.Has(func(fa *Fact) bool {
			return fa.Kind == FHeld && strings.HasSuffix(fa.Lock, "."+lockField) && (mode == 'R' || fa.Mode == 'W')
		})
	}
	if held(g.FactsAt(n)) {
		return true
	}
	// a literal invoked synchronously by a function that is called under the lock
	// (e.g. the reload callback): decide at the literal's creation site
	if g.Lit != nil && g.Parent != nil {
		if held(g.Parent.FactsAt(g.Lit)) {
			return true
		}
		// passed as an argument to a call made under the lock?
		for _, call := range g.Parent.Calls(false, func(call *ast.CallExpr) bool { return true }) {
			for _, a := range call.Args {
				if v := g.Parent.varOf(a); v != nil {
					for _, d := range g.Parent.defsOf(v) {
						if ast.Unparen(d.rhs) == ast.Expr(g.Lit) && held(g.Parent.FactsAt(call)) {
							return true
						}
					}
				}
				if ast.Unparen(a) == ast.Expr(g.Lit) && held(g.Parent.FactsAt(call)) {
					return true
				}
			}
		}
	}
	if depth >= 3 {
		return false
	}
	root := fn.root()
	if root.Obj == nil {
		return false
	}
	callers, all := 0, true
	for _, cf := range c.AllFuncs(relPkg(root.Pkg.PkgPath)) {
		for _, call := range cf.Calls(true, func(call *ast.CallExpr) bool { return cf.Callee(call) == root.Obj }) {
			callers++
			if !lockHeldAtDeep(c, cf, call, lockField, mode, depth+1) {
				all = false
			}
		}
	}
	return callers > 0 && all
}

// ---------------------------------------------------------------------------------------

func runC45(c *Ctx) {
	wf := cliFn(c, "Config", "writeFile")
	// in-place openers of the final path
	inPlace := 0
	var firstBad token.Pos
	for _, call := range wf.Calls(true, func(call *ast.CallExpr) bool { return true }) {
		g := wf.enclosing(call)
		k := g.CallKey(call)
		pathArg := func(i int) bool { return i < len(call.Args) && g.Prov(call.Args[i]) == "recv.path" }
		switch k {
		case "os.OpenFile":
			if pathArg(0) && len(call.Args) >= 2 {
				flags := types_ExprString(call.Args[1])
				writable := strings.Contains(flags, "O_WRONLY") || strings.Contains(flags, "O_RDWR")
				if strings.Contains(flags, "O_TRUNC") {
					inPlace++
					firstBad = call.Pos()
				} else if writable {
					// a different defect from the recorded one: without O_TRUNC the new
					// content is laid over the old bytes, and until a later truncate the
					// file is the new text followed by the tail of the old one
					c.Ob("atomic-replace", "tun/client.(*Config).writeFile#final-path-overwritten-without-truncation", call.Pos(), false, "Config.path is opened writable without O_TRUNC ("+flags+"): the new configuration is written over the previous bytes, so a crash (or a failing truncate) leaves new text followed by the tail of the old file - unparseable, the identity is lost even though the encode completed")
				}
			}
		case "os.Create", "os.WriteFile", "io/ioutil.WriteFile":
			if pathArg(0) {
				inPlace++
				firstBad = call.Pos()
			}
		case "os.File.Truncate", "os.Truncate", "os.File.Seek", "os.File.WriteAt":
			c.Ob("atomic-replace", "tun/client.(*Config).writeFile#no-"+strings.TrimPrefix(strings.TrimPrefix(k, "os.File."), "os.")+"-in-writeFile", call.Pos(), false, "writeFile repositions or cuts the file it writes ("+g.Str(call)+"): a second step after the encode that can fail or be interrupted leaves a file that is neither the old nor the new configuration")
		}
	}
	c.Ob("atomic-replace", "tun/client.(*Config).writeFile#open-trunc-final-path", firstBad, inPlace == 0, "the configuration (certificate, private key, tunnels) is written by opening Config.path itself with O_TRUNC: a crash after the truncation and before the encode completes leaves an empty or partial file - the identity is lost. Required: write a temporary file in the same directory, sync, close, rename over the path")
	// the in-place writer at least reports a failed encode to its caller (the caller must
	// not go on believing the identity was persisted)
	for _, enc := range wf.Calls(true, func(call *ast.CallExpr) bool {
		return strings.HasSuffix(wf.enclosing(call).CallKey(call), "yaml.v3.Encoder.Encode")
	}) {
		g := wf.enclosing(enc)
		returned := false
		for _, r := range g.Returns() {
			if containsNode(r, enc) {
				returned = true
			}
			for _, res := range r.Results {
				if strings.HasSuffix(g.Prov(res), "Encoder.Encode()#0") || strings.Contains(g.Prov(res), ".Encode()") {
					returned = true
				}
			}
		}
		c.Ob("atomic-replace", "tun/client.(*Config).writeFile#encode-error-returned", enc.Pos(), returned, "a failed encode is reported to the caller")
	}
	ren := wf.CallsTo(true, "os.Rename")
	okRen := false
	for _, r := range ren {
		g := wf.enclosing(r)
		if g.Prov(r.Args[1]) != "recv.path" {
			continue
		}
		fs := g.FactsAt(r)
		okRen = fs.Has(func(fa *Fact) bool {
			return fa.Kind == FCallOK && strings.HasSuffix(g.CallKey(fa.Call), ".Encode")
		}) && fs.Has(func(fa *Fact) bool { return fa.Kind == FCallOK && strings.HasSuffix(g.CallKey(fa.Call), "os.File.Sync") }) &&
			fs.Has(func(fa *Fact) bool { return fa.Kind == FCallOK && strings.HasSuffix(g.CallKey(fa.Call), "os.File.Close") })
	}
	c.Ob("atomic-replace", "tun/client.(*Config).writeFile#rename-after-encode-sync-close", wf.Decl.Pos(), okRen, "the new content replaces the old file by a rename that happens only after encode, sync and close all succeeded")
	// all persisters go through writeFile
	n := 0
	for _, fn := range c.AllFuncs("tun/client") {
		if fn == wf {
			continue
		}
		for _, call := range fn.Calls(true, func(call *ast.CallExpr) bool {
			k := fn.enclosing(call).CallKey(call)
			return k == "os.OpenFile" || k == "os.Create" || k == "os.WriteFile"
		}) {
			g := fn.enclosing(call)
			if strings.HasSuffix(g.Prov(call.Args[0]), ".path") && strings.Contains(typeStr(g, call.Args[0]), "string") && strings.Contains(g.Prov(call.Args[0]), "recv") && recvName(fn.Decl) == "Config" {
				n++
				c.Ob("atomic-replace", fn.Name+"#writes-config-path-directly", call.Pos(), false, "the configuration path is written outside writeFile")
			}
		}
	}
	c.Ob("atomic-replace", "tun/client#single-persister", 0, n == 0, "only writeFile writes Config.path")
}

// ---------------------------------------------------------------------------------------

func runC50(c *Ctx) {
	gn := cliFn(c, "Client", "getConnectedNodes")
	nap := 0
	// the result slice: the named result, or the local every value-returning exit returns
	var resVar *types.Var
	if rl := gn.Type.Results; rl != nil && len(rl.List) == 1 && len(rl.List[0].Names) == 1 {
		resVar, _ = gn.Info.Defs[rl.List[0].Names[0]].(*types.Var)
	}
	for _, r := range gn.Returns() {
		if len(r.Results) == 1 && resVar == nil {
			resVar = gn.varOf(r.Results[0])
		}
	}
	isRes := func(x ast.Expr) bool { return resVar != nil && gn.enclosing(x).varOf(x) == resVar }
	lenBelow3 := func(g *Fn, e ast.Expr) bool {
		be, ok := ast.Unparen(e).(*ast.BinaryExpr)
		if !ok {
			return false
		}
		v, _ := g.ConstVal(be.Y)
		return be.Op == token.LSS && v == "3" && isLenOf(g, be.X, isRes)
	}
	for _, call := range gn.Calls(true, func(call *ast.CallExpr) bool {
		id, ok := call.Fun.(*ast.Ident)
		return ok && id.Name == "append"
	}) {
		g := gn.enclosing(call)
		if !isRes(call.Args[0]) {
			continue
		}
		nap++
		ok := g.FactsAt(call).Cmp(func(e, tag ast.Expr, truth bool, fa *Fact) bool {
			return truth && lenBelow3(g, e)
		})
		if !ok && g != gn && len(call.Args) == 2 && !call.Ellipsis.IsValid() {
			// grow-then-stop: the iteration callback adds one entry per invocation
			// (the only append, outside any loop) and every exit after it answers
			// "continue" with the very test len(result) < 3 (or stops), so the
			// iteration ends with the third entry
			one := true
			for _, nd := range shallowNodes(g.Body) {
				switch x := nd.(type) {
				case *ast.ForStmt, *ast.RangeStmt:
					one = false
				case *ast.CallExpr:
					if id, isID := x.Fun.(*ast.Ident); isID && id.Name == "append" && x != call {
						one = false
					}
				}
			}
			rets := g.Returns()
			for _, r := range rets {
				if len(r.Results) != 1 {
					one = false
					continue
				}
				if v, isConst := g.ConstVal(r.Results[0]); isConst && v == "false" {
					continue
				}
				if !lenBelow3(g, r.Results[0]) {
					one = false
				}
			}
			isRangeCB := false
			for _, rc := range methodCalls(gn, false, "Range") {
				if len(rc.Args) == 1 && ast.Unparen(rc.Args[0]) == ast.Expr(g.Lit) {
					isRangeCB = true
				}
			}
			ok = one && len(rets) > 0 && isRangeCB
		}
		c.Ob("bound", "getConnectedNodes#append-under-len<NumRedundantLinks", call.Pos(), ok, "the result grows only while it has fewer than NumRedundantLinks (3) entries")
	}
	c.Floor("result append sites", nap, 1)
	// comparator
	var cmpLit *ast.FuncLit
	var sortCall *ast.CallExpr
	// (sort.Slice*: less over positions; slices.Sort*Func: three-way over elements, of
	// which the sort only ever asks "negative?")
	threeWay := false
	for _, call := range gn.CallsTo(false, "sort.SliceStable", "sort.Slice", "slices.SortStableFunc", "slices.SortFunc") {
		sortCall = call
		cmpLit, _ = call.Args[1].(*ast.FuncLit)
		threeWay = strings.HasPrefix(gn.CallKey(call), "slices.")
	}
	if cmpLit == nil {
		c.Failf("getConnectedNodes: sort comparator not found (undecided)")
	}
	c.Ob("comparator", "getConnectedNodes#sorts-the-result", sortCall.Pos(), isRes(sortCall.Args[0]), "the slice sorted is the result slice")
	g := gn.Closure(cmpLit)
	// sort.Slice permutes only the slice it is given: a comparator that uses its positions
	// i, j to index anything else reads data of the wrong elements after the first swap
	sortedObj := gn.ObjOf(sortCall.Args[0])
	npos := 0
	ast.Inspect(cmpLit.Body, func(m ast.Node) bool {
		ix, ok := m.(*ast.IndexExpr)
		if !ok {
			return true
		}
		pv := g.Prov(ix.Index)
		if pv != "lit.param#0" && pv != "lit.param#1" {
			return true
		}
		npos++
		c.Ob("comparator", "getConnectedNodes#positions-index-only-the-sorted-slice", ix.Pos(), sortedObj != nil && g.ObjOf(ix.X) == sortedObj, "inside the comparator the positions i, j index only the slice being sorted (sort.SliceStable swaps that slice alone; a parallel slice indexed by position goes stale at the first swap); found "+g.Str(ix))
		return true
	})
	if !threeWay {
		c.Floor("comparator position uses", npos, 2)
	}
	// the comparator is executed on the evaluator for every valuation: the sorted slice holds
	// two opaque nodes, the measurement table is a map with an entry for a node exactly when
	// it is measured, keys are produced by whatever one-argument key function the code
	// applies to a node (recorded, and compared with the key the table is filled under).
	var tableVar *types.Var
	for _, nd := range shallowNodes(gn.Body) {
		var names []*ast.Ident
		switch x := nd.(type) {
		case *ast.AssignStmt:
			if x.Tok == token.DEFINE {
				for _, l := range x.Lhs {
					if id, ok := l.(*ast.Ident); ok {
						names = append(names, id)
					}
				}
			}
		case *ast.ValueSpec:
			names = x.Names
		}
		for _, id := range names {
			if v, ok := gn.Info.Defs[id].(*types.Var); ok {
				if mt, ok := v.Type().Underlying().(*types.Map); ok && strings.HasSuffix(mt.Elem().String(), "time.Duration") {
					tableVar = v
				}
			}
		}
	}
	if tableVar == nil {
		c.Failf("getConnectedNodes: measurement table (a local map to time.Duration) not found (undecided)")
	}
	keyFnSeen := ""
	eval := func(lOK, rOK bool, l, r *big.Int) bool {
		env := &evalEnv{f: g, vars: map[types.Object]Val{}}
		env.vars[sortedObj] = sliceVal{objVal{id: big.NewInt(1)}, objVal{id: big.NewInt(2)}}
		entries := map[string]Val{}
		if lOK {
			entries["k1"] = l
		}
		if rOK {
			entries["k2"] = r
		}
		env.vars[tableVar] = mapVal{entries: entries, zero: big.NewInt(0)}
		env.ext = func(f *Fn, call *ast.CallExpr, recv Val, args []Val) (Val, bool) {
			if len(args) == 2 && f.CallKey(call) == "cmp.Compare" {
				a, aok := args[0].(*big.Int)
				b, bok := args[1].(*big.Int)
				if aok && bok {
					return big.NewInt(int64(a.Cmp(b))), true
				}
			}
			if len(args) != 1 {
				return nil, false
			}
			o, isNode := args[0].(objVal)
			if !isNode {
				return nil, false
			}
			if t := typeOf(f.Info, call); t == nil || t.Underlying().String() != "string" {
				return nil, false
			}
			keyFnSeen = f.CallKey(call)
			return "k" + o.id.String(), true
		}
		i := 0
		for _, fld := range cmpLit.Type.Params.List {
			for _, nm := range fld.Names {
				if threeWay {
					env.vars[g.Info.Defs[nm]] = objVal{id: big.NewInt(int64(i + 1))}
				} else {
					env.vars[g.Info.Defs[nm]] = big.NewInt(int64(i))
				}
				i++
			}
		}
		var res *returned
		func() {
			defer func() {
				if rec := recover(); rec != nil {
					if u, isU := rec.(evalUndecided); isU {
						c.Failf("gateway comparator not evaluable: %s", u.msg)
					}
					panic(rec)
				}
			}()
			res = env.block(cmpLit.Body.List)
		}()
		if res == nil || len(res.vals) != 1 {
			c.Failf("gateway comparator: no return reached")
		}
		if threeWay {
			v, isInt := res.vals[0].(*big.Int)
			if !isInt {
				c.Failf("gateway comparator: three-way result not evaluable")
			}
			return v.Sign() < 0
		}
		b, _ := res.vals[0].(bool)
		return b
	}
	n := 0
	okAll := true
	var firstBad string
	for _, lOK := range []bool{true, false} {
		for _, rOK := range []bool{true, false} {
			for _, ord := range weakOrderings(2) {
				l, r := rankVal(ord[0]), rankVal(ord[1])
				got := eval(lOK, rOK, l, r)
				var want bool
				switch {
				case lOK && !rOK:
					want = true
				case !lOK && rOK:
					want = false
				case lOK && rOK:
					want = l.Cmp(r) < 0
				default:
					want = false // both unmeasured: equivalent
				}
				n++
				if got != want {
					okAll = false
					if firstBad == "" {
						firstBad = fmt.Sprintf("measured(i)=%v measured(j)=%v avg(i)=%v avg(j)=%v: less=%v, expected %v", lOK, rOK, l, r, got, want)
					}
				}
				// asymmetry / irreflexivity
				back := eval(rOK, lOK, r, l)
				if got && back {
					okAll = false
					if firstBad == "" {
						firstBad = fmt.Sprintf("not asymmetric at measured=%v/%v avg=%v/%v", lOK, rOK, l, r)
					}
				}
			}
		}
	}
	c.Ob("comparator", "getConnectedNodes#measured-first-then-ascending-strict-weak-order", cmpLit.Pos(), okAll, fmt.Sprintf("%d valuations (measured flags x order types): measured before unmeasured, ascending average otherwise, asymmetric. %s", n, firstBad))
	c.Extra("comparator_valuations", n)
	c.Extra("exhaustive", true)
	// lookup table: same key function, Snapshot(key, 10s).Average
	keyFn := keyFnSeen
	keyCallOf := func(e ast.Expr) string {
		e = ast.Unparen(e)
		if call, ok := e.(*ast.CallExpr); ok {
			return gn.CallKey(call)
		}
		if v := gn.varOf(e); v != nil {
			if defs := gn.defsOf(v); len(defs) == 1 && !defs[0].multi && defs[0].rhs != nil {
				if call, ok := ast.Unparen(defs[0].rhs).(*ast.CallExpr); ok {
					return gn.CallKey(call)
				}
			}
		}
		return ""
	}
	okFill := false
	ast.Inspect(gn.Body, func(n ast.Node) bool {
		as, ok := n.(*ast.AssignStmt)
		if !ok || len(as.Lhs) != 1 || gn.enclosing(as) != gn {
			return true
		}
		ix, ok := as.Lhs[0].(*ast.IndexExpr)
		if !ok || gn.varOf(ix.X) != tableVar {
			return true
		}
		okFill = keyCallOf(ix.Index) == keyFn && keyFn != "" && strings.HasSuffix(gn.Prov(as.Rhs[0]), ".Snapshot().Average")
		return true
	})
	c.Ob("lookup", "getConnectedNodes#table-filled-under-the-comparator's-key", gn.Decl.Pos(), okFill, "the measurement table is written under the same key function the comparator reads it with ("+keyFn+"), from Snapshot(...).Average")
	for _, call := range methodCalls(gn, false, "Snapshot") {
		v, _ := gn.ConstVal(call.Args[1])
		c.Ob("lookup", "getConnectedNodes#snapshot-window", call.Pos(), v == "10000000000" && keyCallOf(call.Args[0]) == keyFn, "measurements are the 10 s snapshot of the node's own key")
	}
	for _, r := range gn.Returns() {
		if len(r.Results) == 1 {
			c.Ob("bound", "getConnectedNodes#returns-the-bounded-slice", r.Pos(), isRes(r.Results[0]), "the returned slice is the bounded, sorted one")
		}
	}
}
