package main

import (
	"fmt"
	"go/ast"
	"go/token"
	"go/types"
	"math/big"
	"regexp"
	"sort"
	"strings"
)

func init() {
	register(&propDef{ID: "C20", Level: "other",
		Decides:    "the write-ahead discipline of the AOF writer: a mutation kind whose application the in-memory state can reject (for a reason other than a lost CAS, which the single writer excludes) is refused by a validation that cuts appendLog on every path, or replay tolerates exactly that rejection - otherwise a crash between append and rollback leaves a log that replay refuses; the index counter advances only after a successful log write, rollback truncates to counter-1 after decrementing, replay resumes at LastIndex+1; and nothing in package kv/aof other than the WAL library creates, renames, truncates or deletes files.",
		NotDecided: "the crash images produced by tidwall/wal's own file operations.",
		Run:        runC20})
	register(&propDef{ID: "C21", Level: "other",
		Decides:    "restart reproduces state as far as the code shape decides it: between applying one replayed entry and decoding the next, both reused messages are reset with the allocation-dropping Reset (the in-memory store retains the decoded byte slices and UnmarshalVT reuses backing arrays) or are allocated per iteration; the version written is a version accepted; the checksum is computed over the very buffer stored as Data, with the table used for verification; Stop waits for the writer goroutine, then syncs, then closes; a closed store refuses before enqueuing; every mutating API logs a type handleMutation handles (shared with C16).",
		NotDecided: "equality of snapshots before/after a restart.",
		Run:        runC21})
	register(&propDef{ID: "C22", Level: "other",
		Decides:    "in replayLogs an entry is applied only on the success edges of: log read, entry decoding, checksum equality over the entry's data, known version, mutation decoding; entries are visited 1..LastIndex in order with no skip; every failure aborts opening with an error.",
		NotDecided: "which torn files tidwall/wal itself accepts.",
		Run:        runC22})
	register(&propDef{ID: "C23", Level: "other",
		Decides:    "atomicity structure of the sqlite store: every mutating method runs all its statements and the key-tracker update inside one withWriteTx closure; withWriteTx commits only when the closure returned nil and rolls back otherwise, and success is reported only from Commit's result; every statement on a data table is followed, on every success path of the same closure, by updateKeyTracker with that table's flag in the add (INSERT/UPSERT) or remove (DELETE) position, or by direct tracker SQL; the DSN keeps journal_mode(WAL), synchronous >= NORMAL and _txlock=immediate.",
		NotDecided: "SQLite's own crash recovery.",
		Run:        runC23})
	register(&propDef{ID: "C24", Level: "other",
		Decides:    "opening never damages an existing database: in migrate every refusal (newer user_version, partial schema, inspection error) is returned before any mutating call can have run; the legacy branch only sets user_version; the two schema probes, executed in all 2^5 existence states of the objects migration 0001 creates (they observe the schema only through tableExists/indexExists), answer 'complete legacy schema' exactly when every object exists and 'partial' exactly when at least one does; each migration and its version bump share one transaction that is rolled back on error; the embedded migration SQL contains only non-destructive DDL (CREATE ... IF NOT EXISTS) and versions are contiguous from 1.",
		NotDecided: "byte-identity of a refused file (opening in WAL mode is SQLite's business).",
		Run:        runC24})

	addSelfTests("C20",
		mutation{"no-validation", "kv/aof/kv.go", "			if mutError = d.validateMutation(m.mut); mutError != nil {\n				// rejected by the current state: it must never reach the log\n			} else if logError := d.appendLog(m.mut); logError == nil {", "			if logError := d.appendLog(m.mut); logError == nil {", "wal-discipline"},
		mutation{"validation-wrong-kind", "kv/aof/mutation.go", "	case proto.MutationType_PREFIX_APPEND:\n		exists, err", "	case proto.MutationType_PREFIX_REMOVE:\n		exists, err", "wal-discipline"},
		mutation{"import-split-into-chunks", "kv/aof/mutation.go", "func (d *DiskKV) Import(ctx context.Context, keys [][]byte, values []*protocol.KVTransfer) error {\n	return d.mutationHandler(func(mut *proto.Mutation) {", "func (d *DiskKV) Import(ctx context.Context, keys [][]byte, values []*protocol.KVTransfer) error {\n	for len(keys) > 64 {\n		if err := d.importKeys(keys[:64], values[:64]); err != nil {\n			return err\n		}\n		keys, values = keys[64:], values[64:]\n	}\n	return d.importKeys(keys, values)\n}\n\nfunc (d *DiskKV) importKeys(keys [][]byte, values []*protocol.KVTransfer) error {\n	return d.mutationHandler(func(mut *proto.Mutation) {", "wal-discipline"},
		mutation{"import-through-helper", "kv/aof/mutation.go", "func (d *DiskKV) Import(ctx context.Context, keys [][]byte, values []*protocol.KVTransfer) error {\n	return d.mutationHandler(func(mut *proto.Mutation) {", "func (d *DiskKV) Import(ctx context.Context, keys [][]byte, values []*protocol.KVTransfer) error {\n	return d.importKeys(keys, values)\n}\n\nfunc (d *DiskKV) importKeys(keys [][]byte, values []*protocol.KVTransfer) error {\n	return d.mutationHandler(func(mut *proto.Mutation) {", "!wal-discipline"},
		mutation{"validation-by-if", "kv/aof/mutation.go", "	switch mut.GetType() {\n	case proto.MutationType_PREFIX_APPEND:\n		exists, err := d.memKv.PrefixContains(context.Background(), mut.GetKey(), mut.GetValue())\n		if err != nil {\n			return err\n		}\n		if exists {\n			return chord.ErrKVPrefixConflict\n		}\n	}\n	return nil", "	if mut.GetType() != proto.MutationType_PREFIX_APPEND {\n		return nil\n	}\n	exists, err := d.memKv.PrefixContains(context.Background(), mut.GetKey(), mut.GetValue())\n	if err != nil {\n		return err\n	}\n	if exists {\n		return chord.ErrKVPrefixConflict\n	}\n	return nil", "!wal-discipline"},
		mutation{"validation-ignores-answer", "kv/aof/mutation.go", "		if exists {\n			return chord.ErrKVPrefixConflict\n		}", "		_ = exists", "wal-discipline"},
		mutation{"counter-before-write", "kv/aof/log.go", "	if err := d.log.Write(d.counter, logBuf); err != nil {", "	d.counter += 1\n	if err := d.log.Write(d.counter-1, logBuf); err != nil {", "counter"},
		mutation{"rollback-wrong-index", "kv/aof/log.go", "	if err := d.log.TruncateBack(d.counter - 1); err != nil {", "	if err := d.log.TruncateBack(d.counter); err != nil {", "rollback"},
		mutation{"cleanup-in-log-dir", "kv/aof/kv.go", "	l, err := wal.Open(logPath(cfg.DataDir), &wal.Options{", "	if stale, _ := filepath.Glob(filepath.Join(logPath(cfg.DataDir), \"*.*\")); len(stale) > 0 {\n		for _, f := range stale {\n			os.Remove(f)\n		}\n	}\n	l, err := wal.Open(logPath(cfg.DataDir), &wal.Options{", "log-dir-owner"},
	)
	mutExtra["cleanup-in-log-dir"] = [2]string{"	\"io/fs\"\n", "	\"io/fs\"\n	\"os\"\n"}
	addSelfTests("C21",
		mutation{"apply-without-log", "kv/aof/kv.go", "			} else if logError := d.appendLog(m.mut); logError == nil {", "			} else if m.mut.GetType() == proto.MutationType_REMOVE_KEYS {\n				mutError = d.handleMutation(m.mut)\n			} else if logError := d.appendLog(m.mut); logError == nil {", "write-ahead"},
		mutation{"repeated-fields-keep-backing-arrays", "kv/aof/log.go", "		entry.Reset()\n		mut.Reset()", "		entry.Reset()\n		keys, values := mut.Keys[:0], mut.Values[:0]\n		mut.Reset()\n		mut.Keys, mut.Values = keys, values", "fresh-decode"},
		mutation{"resetvt-reuses-buffers", "kv/aof/log.go", "		entry.Reset()\n		mut.Reset()", "		entry.ResetVT()\n		mut.ResetVT()", "fresh-decode"},
		mutation{"no-reset", "kv/aof/log.go", "		entry.Reset()\n		mut.Reset()", "		entry.Reset()", "fresh-decode"},
		mutation{"checksum-other-buffer", "kv/aof/log.go", "	entry.Checksum = crc64.Checksum(mutBuf, crcTable)", "	entry.Checksum = crc64.Checksum(mutBuf[:len(mutBuf)/2], crcTable)", "codec-agreement"},
		mutation{"close-before-sync", "kv/aof/kv.go", "	if err := d.log.Sync(); err != nil {\n		d.logger.Error(\"Error flushing logs to disk\", zap.Error(err))\n	}\n	if err := d.log.Close(); err != nil {\n		d.logger.Error(\"Error closing log file\", zap.Error(err))\n	}", "	if err := d.log.Close(); err != nil {\n		d.logger.Error(\"Error closing log file\", zap.Error(err))\n	}\n	if err := d.log.Sync(); err != nil {\n		d.logger.Error(\"Error flushing logs to disk\", zap.Error(err))\n	}", "stop-order"},
		mutation{"sync-before-writer-exits", "kv/aof/kv.go", "	close(d.closeCh)\n	d.closeWg.Wait()\n", "	close(d.closeCh)\n", "stop-order"},
	)
	addSelfTests("C22",
		mutation{"checksum-not-enforced", "kv/aof/log.go", "		err = fmt.Errorf(\"log entry checksum does not match, possibly corrupted log\")\n		return", "		err = fmt.Errorf(\"log entry checksum does not match, possibly corrupted log\")", "replay-guard"},
		mutation{"skip-undecodable", "kv/aof/log.go", "		if err := entry.UnmarshalVT(buf); err != nil {\n			return fmt.Errorf(\"error deserializing log at index %d: %w\", i, err)\n		}", "		if err := entry.UnmarshalVT(buf); err != nil {\n			continue\n		}", "replay-guard"},
		mutation{"replay-from-two", "kv/aof/log.go", "	for i := uint64(1); i <= index; i++ {", "	for i := uint64(2); i <= index; i++ {", "replay-order"},
		mutation{"entry-not-reset-between-records", "kv/aof/log.go", "		entry.Reset()\n		mut.Reset()", "		mut.Reset()", "replay-guard"},
		mutation{"version-by-if", "kv/aof/log.go", "	switch entry.GetVersion() {\n	case proto.LogVersion_V1:\n		// uncompressed\n		err = mut.UnmarshalVT(entry.Data)\n	default:\n		err = fmt.Errorf(\"unknown log version: %s\", entry.GetVersion())\n	}\n	return", "	if entry.GetVersion() != proto.LogVersion_V1 {\n		return fmt.Errorf(\"unknown log version: %s\", entry.GetVersion())\n	}\n	// uncompressed\n	err = mut.UnmarshalVT(entry.Data)\n	return", "!replay-guard"},
		mutation{"unknown-version-silently-ok", "kv/aof/log.go", "	default:\n		err = fmt.Errorf(\"unknown log version: %s\", entry.GetVersion())\n	}", "	}", "replay-guard"},
		mutation{"unknown-version-accepted", "kv/aof/log.go", "	default:\n		err = fmt.Errorf(\"unknown log version: %s\", entry.GetVersion())", "	default:\n		err = mut.UnmarshalVT(entry.Data)", "replay-guard"},
	)
	addSelfTests("C23",
		mutation{"tracker-dropped-before-children-counted", "kv/sqlite3/key_tracker.go", "	// Check for remaining values before removing flags\n	if removeFlags&PrefixFlag != 0 {", "	if (flags|addFlags)&^removeFlags == 0 {\n		_, err := tx.StmtContext(ctx, s.stmts.trackerDelete).Exec(key)\n		return err\n	}\n	// Check for remaining values before removing flags\n	if removeFlags&PrefixFlag != 0 {", "tracker-pairing"},
		mutation{"tracker-outside-tx", "kv/sqlite3/simple.go", "	return withWriteTx(ctx, s.writer, func(tx *sql.Tx) error {\n		_, err := tx.StmtContext(ctx, s.stmts.simplePut).Exec(key, value)\n		if err != nil {\n			return err\n		}\n		return s.updateKeyTracker(ctx, tx, key, SimpleFlag, 0)\n	})", "	return withWriteTx(ctx, s.writer, func(tx *sql.Tx) error {\n		_, err := tx.StmtContext(ctx, s.stmts.simplePut).Exec(key, value)\n		return err\n	})", "tracker-pairing"},
		mutation{"wrong-flag", "kv/sqlite3/prefix.go", "		return s.updateKeyTracker(ctx, tx, prefix, PrefixFlag, 0)", "		return s.updateKeyTracker(ctx, tx, prefix, SimpleFlag, 0)", "tracker-pairing"},
		mutation{"flag-position-swapped", "kv/sqlite3/simple.go", "		return s.updateKeyTracker(ctx, tx, key, 0, SimpleFlag)", "		return s.updateKeyTracker(ctx, tx, key, SimpleFlag, 0)", "tracker-pairing"},
		mutation{"commit-on-error", "kv/sqlite3/sqlutil.go", "	if err := fn(tx); err != nil {\n		_ = tx.Rollback()\n		return err\n	}\n	return tx.Commit()\n}\n\n// withReadTx", "	if err := fn(tx); err != nil {\n		_ = tx.Commit()\n		return err\n	}\n	return tx.Commit()\n}\n\n// withReadTx", "tx-commit"},
		mutation{"synchronous-off", "kv/sqlite3/sqlite.go", "_pragma=synchronous(1)", "_pragma=synchronous(0)", "dsn"},
	)
	addSelfTests("C24",
		mutation{"legacy-probe-ignores-index", "kv/sqlite3/schema.go", "	ok, err := indexExists(db, \"idx_hash\")\n	if err != nil {\n		return false, err\n	}\n	if !ok {\n		return false, nil\n	}\n	return true, nil", "	return true, nil", "refuse-before-touch"},
		mutation{"refuse-after-touch", "kv/sqlite3/schema.go", "	if uv > latestVersion {\n		return fmt.Errorf(\"database user_version %d is newer than supported version %d\", uv, latestVersion)\n	}\n", "	if uv > latestVersion {\n		if err := setUserVersion(db, latestVersion); err != nil {\n			return err\n		}\n		return fmt.Errorf(\"database user_version %d is newer than supported version %d\", uv, latestVersion)\n	}\n", "refuse-before-touch"},
		mutation{"migration-no-rollback", "kv/sqlite3/schema.go", "		if err != nil {\n			_ = tx.Rollback()\n		}", "		if err != nil {\n			_ = tx.Commit()\n		}", "migration-tx"},
		mutation{"partial-schema-migrated", "kv/sqlite3/schema.go", "			if hasObjects {\n				return fmt.Errorf(\"database user_version %d has unexpected partial sqlite schema\", uv)\n			}", "			_ = hasObjects", "refuse-before-touch"},
	)
}

// rejectable computes, for a kv/memory mutator, the sentinels it can return for a reason
// other than a lost CompareAndSwap (contention is excluded by the AOF's single writer).
func stateRejections(c *Ctx, method string) []string {
	fn := c.Func("kv/memory", "MemoryKV", method)
	set := map[string]bool{}
	for _, r := range fn.Returns() {
		if len(r.Results) == 0 {
			continue
		}
		pv := fn.Prov(r.Results[len(r.Results)-1])
		if !strings.HasPrefix(pv, "global:spec/chord.Err") {
			continue
		}
		fs := fn.FactsAt(r)
		lostCAS := fs.Has(func(fa *Fact) bool {
			if fa.Kind != FFalse || fa.Call == nil {
				return false
			}
			se, ok := fa.Call.Fun.(*ast.SelectorExpr)
			return ok && se.Sel.Name == "CompareAndSwap"
		})
		if !lostCAS {
			set[strings.TrimPrefix(pv, "global:spec/chord.")] = true
		}
	}
	var out []string
	for s := range set {
		out = append(out, s)
	}
	sort.Strings(out)
	return out
}

// oneEntryPerMutation: prefix-consistency after a crash is a statement about issued
// mutations; it holds only if each issued mutation is ONE log entry. Every mutating method
// of the AOF store hands exactly one request to the single writer - one mutationHandler
// call site (its own or a helper's), not inside a loop.
func oneEntryPerMutation(c *Ctx, rule string) {
	n := 0
	for _, m := range []string{"Put", "Delete", "PrefixAppend", "PrefixRemove", "Import", "RemoveKeys"} {
		fn := c.FuncOpt("kv/aof", "DiskKV", m)
		if fn == nil {
			continue
		}
		n++
		sites, inLoop := 0, false
		var visit func(f *Fn, depth int, loop bool)
		visit = func(f *Fn, depth int, loop bool) {
			var stack []ast.Node
			ast.Inspect(f.Body, func(x ast.Node) bool {
				if x == nil {
					stack = stack[:len(stack)-1]
					return true
				}
				stack = append(stack, x)
				call, ok := x.(*ast.CallExpr)
				if !ok {
					return true
				}
				within := loop
				for _, s := range stack {
					switch s.(type) {
					case *ast.ForStmt, *ast.RangeStmt:
						within = true
					}
				}
				g := f.enclosing(call)
				if g.IsCall(call, "kv/aof.DiskKV.mutationHandler") {
					sites++
					if within {
						inLoop = true
					}
					return true
				}
				if depth < 3 {
					if o := g.Callee(call); o != nil && o.Pkg() != nil && strings.HasSuffix(o.Pkg().Path(), "kv/aof") {
						if h := c.FnOfObj(o); h != nil && h != f {
							visit(h, depth+1, within)
						}
					}
				}
				return true
			})
		}
		visit(fn, 0, false)
		c.Ob(rule, "aof."+m+"#one-log-entry-per-issued-mutation", fn.Decl.Pos(), sites == 1 && !inLoop, fmt.Sprintf("the method hands exactly one request to the writer (one log entry): %d mutationHandler call site(s) reachable, in a loop: %v - a mutation split over several entries can be recovered half-applied, which no prefix of the issued history produces", sites, inLoop))
	}
	c.Floor("aof mutating methods", n, 6)
}

func runC20(c *Ctx) {
	oneEntryPerMutation(c, "wal-discipline")
	hm := c.Func("kv/aof", "DiskKV", "handleMutation")
	start := c.Func("kv/aof", "DiskKV", "Start")
	replay := c.Func("kv/aof", "DiskKV", "replayLogs")
	appendSites := aofWriterSites(c, "kv/aof.DiskKV.appendLog")
	c.Floor("appendLog call sites in the writer", len(appendSites), 1)
	_ = start
	// kinds and the memory method applied
	kinds := map[string]string{}
	// read from the path facts at each store call (switch and if-chain alike)
	isKind := func(e ast.Expr) bool { return hm.Prov(e) == "param#0.GetType()" }
	for _, cl := range hm.Calls(false, func(cl *ast.CallExpr) bool {
		se, ok := cl.Fun.(*ast.SelectorExpr)
		return ok && hm.Prov(se.X) == "recv.memKv"
	}) {
		pos, _ := hm.FactsAt(cl).EqConsts(hm, isKind)
		for _, k := range pos {
			kinds[k] = cl.Fun.(*ast.SelectorExpr).Sel.Name
		}
	}
	c.Floor("mutation kinds applied by handleMutation", len(kinds), 6)
	nrej := 0
	var kindNames []string
	for k := range kinds {
		kindNames = append(kindNames, k)
	}
	sort.Strings(kindNames)
	for _, k := range kindNames {
		m := kinds[k]
		rej := stateRejections(c, m)
		if len(rej) == 0 {
			c.Ob("wal-discipline", k+"#not-state-rejectable", hm.Decl.Pos(), true, "memory."+m+" can only fail on a lost CAS, which a single writer excludes: appending before applying is safe")
			continue
		}
		nrej++
		for _, s := range rej {
			// (i) validation cuts appendLog
			okValidate := false
			var det []string
			for _, site := range appendSites {
				g, ac := site.g, site.call
				fs := g.FactsAt(ac)
				for _, fa := range fs.Facts {
					if fa.Kind != FCallOK || fa.Sem {
						continue
					}
					v := c.FnOfObj(g.Callee(fa.Call))
					if v == nil || v.Pkg != g.Pkg {
						continue
					}
					if validatorRejects(v, k, s) {
						okValidate = true
						det = append(det, "validated by "+v.Name)
					}
				}
			}
			// (iii) replay tolerates exactly this rejection
			okReplay := false
			for _, r := range replay.Returns() {
				fs := replay.FactsAt(r)
				if fs.CallFail("kv/aof.DiskKV.handleMutation") && !fs.Unreachable {
					if fs.Has(func(fa *Fact) bool {
						return fa.Kind == FFalse && replay.IsCall(fa.Call, "errors.Is") && len(fa.Call.Args) == 2 && replay.Prov(fa.Call.Args[1]) == "global:spec/chord."+s
					}) {
						okReplay = true
						det = append(det, "replay tolerates "+s)
					}
				}
			}
			c.Ob("wal-discipline", fmt.Sprintf("%s#rejected-with-%s-never-durable", k, s), appendSites[0].call.Pos(), okValidate || okReplay,
				fmt.Sprintf("memory.%s rejects by state with %s; the mutation is appended to the log before it is applied and replay aborts on any rejection, so it must be refused before appendLog (or tolerated by replay). Otherwise: crash after log.Write and before TruncateBack -> the store never opens again. %v", m, s, det))
		}
	}
	c.Extra("state_rejectable_kinds", nrej)

	applyAfterAppend(c, "wal-discipline")

	// counter discipline
	al := c.Func("kv/aof", "DiskKV", "appendLog")
	writes := al.Calls(false, func(call *ast.CallExpr) bool {
		se, ok := call.Fun.(*ast.SelectorExpr)
		return ok && se.Sel.Name == "Write" && al.FieldKey(se.X) == "kv/aof.DiskKV.log"
	})
	c.Floor("log.Write sites", len(writes), 1)
	for _, w := range writes {
		c.Ob("counter", "appendLog#write-at-counter", w.Pos(), al.Prov(w.Args[0]) == "recv.counter", "entries are written at index d.counter; found "+al.Prov(w.Args[0]))
	}
	ast.Inspect(al.Body, func(n ast.Node) bool {
		as, ok := n.(*ast.AssignStmt)
		if !ok || len(as.Lhs) != 1 || al.FieldKey(as.Lhs[0]) != "kv/aof.DiskKV.counter" {
			return true
		}
		ok2 := len(writes) > 0 && al.FactsAt(as).Has(func(fa *Fact) bool { return fa.Kind == FCallOK && fa.Call == writes[0] })
		v, _ := al.ConstVal(as.Rhs[0])
		c.Ob("counter", "appendLog#advance-after-write-ok", as.Pos(), ok2 && as.Tok == token.ADD_ASSIGN && v == "1", "the counter advances by one only on the success edge of log.Write")
		return true
	})
	rb := c.Func("kv/aof", "DiskKV", "rollbackOne")
	// decided by executing rollbackOne for several counter values: afterwards the counter
	// is one less and the log was truncated back to counter-2 (the entry before the
	// rejected one) - however the arithmetic is spelled
	{
		var counterField types.Object
		ast.Inspect(rb.Body, func(n ast.Node) bool {
			if se, ok := n.(*ast.SelectorExpr); ok && rb.FieldKey(se) == "kv/aof.DiskKV.counter" {
				counterField = rb.Info.ObjectOf(se.Sel)
			}
			return true
		})
		okRb, det := counterField != nil, ""
		for _, c0 := range []int64{2, 3, 7, 1000} {
			if !okRb {
				break
			}
			var truncs []*big.Int
			pre := func(f *Fn, call *ast.CallExpr) (Val, bool) {
				if se, ok := ast.Unparen(call.Fun).(*ast.SelectorExpr); ok {
					if f.FieldKey(se.X) == "kv/aof.DiskKV.logger" || strings.HasSuffix(f.Prov(se.X), ".logger") {
						return nilVal{}, true
					}
				}
				return nil, false
			}
			ext := func(f *Fn, call *ast.CallExpr, recv Val, args []Val) (Val, bool) {
				if se, ok := ast.Unparen(call.Fun).(*ast.SelectorExpr); ok && se.Sel.Name == "TruncateBack" && f.FieldKey(se.X) == "kv/aof.DiskKV.log" && len(args) == 1 {
					if v, ok := args[0].(*big.Int); ok {
						truncs = append(truncs, v)
						return nilVal{}, true
					}
				}
				return nil, false
			}
			_, final, err := rb.EvalFnWith([]Val{objVal{big.NewInt(1)}, nilVal{}}, ext, pre, map[types.Object]Val{counterField: big.NewInt(c0)})
			if err != nil {
				c.Failf("rollbackOne not evaluable (undecided): %v", err)
			}
			nc, _ := final[counterField].(*big.Int)
			if nc == nil || nc.Int64() != c0-1 || len(truncs) != 1 || truncs[0].Int64() != c0-2 {
				okRb = false
				det = fmt.Sprintf("counter %d: counter afterwards %v, TruncateBack%v", c0, nc, truncs)
			}
		}
		c.Ob("rollback", "rollbackOne#truncate-to-counter-1-after-decrement", rb.Decl.Pos(), okRb, "the rejected entry is the last one: afterwards the counter is one less and the log is truncated back to the entry before it; "+det)
	}
	okResume := false
	ast.Inspect(replay.Body, func(n ast.Node) bool {
		if as, ok := n.(*ast.AssignStmt); ok && len(as.Lhs) == 1 && replay.FieldKey(as.Lhs[0]) == "kv/aof.DiskKV.counter" {
			okResume = replay.Prov(as.Rhs[0]) == "(recv.log.LastIndex()#0+const:1)"
		}
		return true
	})
	c.Ob("counter", "replayLogs#resume-at-LastIndex+1", replay.Decl.Pos(), okResume, "after replay the next index is LastIndex+1")

	// who may touch files
	nfs := 0
	for _, fn := range c.AllFuncs("kv/aof") {
		for _, call := range fn.Calls(true, func(*ast.CallExpr) bool { return true }) {
			o := fn.enclosing(call).Callee(call)
			if o == nil || o.Pkg() == nil {
				continue
			}
			p, nme := o.Pkg().Path(), o.Name()
			mut := false
			switch p {
			case "os":
				switch nme {
				case "Remove", "RemoveAll", "Rename", "Truncate", "WriteFile", "Create", "OpenFile", "Mkdir", "MkdirAll", "Symlink", "Link", "Chmod":
					mut = true
				}
			case "io/ioutil":
				mut = nme == "WriteFile" || nme == "TempFile"
			}
			if mut {
				nfs++
				c.Ob("log-dir-owner", fmt.Sprintf("%s#%s.%s", fn.Name, p, nme), call.Pos(), false, "only the WAL library creates, renames, truncates or deletes files of the log: its .START/.END files are the authoritative copy during a truncation, foreign cleanup loses acknowledged entries")
			}
		}
	}
	c.Ob("log-dir-owner", "kv/aof#no-foreign-file-mutation", token.NoPos, nfs == 0, fmt.Sprintf("%d file-system mutating calls outside the WAL library in package kv/aof", nfs))
}

// validatorRejects: v returns the sentinel on a path on which the mutation kind is known
// to be `kind` and a read-only inner-store call was answered "true" (or "ok" with a
// non-trivial comparison) - read from the path facts at the return, so a switch arm, an
// if-chain and an early return are all accepted.
func validatorRejects(v *Fn, kind, sentinel string) bool {
	isKind := func(e ast.Expr) bool { return strings.HasSuffix(v.Prov(e), ".GetType()") }
	for _, r := range v.Returns() {
		if len(r.Results) == 0 || v.Prov(r.Results[len(r.Results)-1]) != "global:spec/chord."+sentinel {
			continue
		}
		fs := v.FactsAt(r)
		pos, _ := fs.EqConsts(v, isKind)
		hit := false
		for _, k := range pos {
			if k == kind {
				hit = true
			}
		}
		if !hit {
			continue
		}
		// the return depends on a read of the inner store
		dep := fs.Has(func(fa *Fact) bool {
			if fa.Call == nil || (fa.Kind != FTrue && fa.Kind != FNonNil) {
				return false
			}
			se, ok := fa.Call.Fun.(*ast.SelectorExpr)
			if !ok || v.Prov(se.X) != "recv.memKv" {
				return false
			}
			switch se.Sel.Name {
			case "PrefixContains", "Get", "PrefixList":
				return true
			}
			return false
		})
		if dep {
			return true
		}
	}
	return false
}

// ---------------------------------------------------------------------------------------

// freshDecodeRule: the two messages replayLogs decodes into are reused across entries.
// UnmarshalVT merges into whatever the message already holds (fields absent from the
// record keep their old value, repeated fields append into old backing arrays) and the
// in-memory store retains the decoded slices, so each decode must start from an all-zero
// message: allocated per iteration, or reset with the allocation-dropping Reset() on every
// path from the apply back to the next decode, with no field of it assigned in between.
// Shared by C21 (restart reproduces the state) and C22 (a zero-filled record must not
// inherit the previous entry's version, data and checksum).
func freshDecodeRule(c *Ctx, rule string) {
	replay := c.Func("kv/aof", "DiskKV", "replayLogs")
	var loop *ast.ForStmt
	ast.Inspect(replay.Body, func(n ast.Node) bool {
		if f, ok := n.(*ast.ForStmt); ok && loop == nil {
			loop = f
		}
		return true
	})
	if loop == nil {
		c.Failf("replayLogs: loop not found (undecided)")
	}
	apply := replay.CallsTo(false, "kv/aof.DiskKV.handleMutation")
	c.Floor("replay apply sites", len(apply), 1)
	// the decoded messages: arguments of decodeEntry / UnmarshalVT receivers
	type msg struct {
		name string
		expr ast.Expr
	}
	var msgs []msg
	seen := map[string]bool{}
	for _, call := range replay.Calls(false, func(call *ast.CallExpr) bool {
		se, ok := call.Fun.(*ast.SelectorExpr)
		return ok && se.Sel.Name == "UnmarshalVT"
	}) {
		x := call.Fun.(*ast.SelectorExpr).X
		if !seen[types_ExprString(x)] {
			seen[types_ExprString(x)] = true
			msgs = append(msgs, msg{types_ExprString(x), x})
		}
	}
	for _, call := range replay.CallsTo(false, "kv/aof.DiskKV.decodeEntry") {
		for _, a := range call.Args {
			if !seen[types_ExprString(a)] {
				seen[types_ExprString(a)] = true
				msgs = append(msgs, msg{types_ExprString(a), a})
			}
		}
	}
	c.Floor("messages reused across replayed entries", len(msgs), 2)
	for _, m := range msgs {
		v := replay.varOf(m.expr)
		inLoop := false
		if v != nil {
			for _, d := range replay.defNodes(v) {
				if containsNode(loop.Body, d) {
					inLoop = true
				}
			}
		}
		ok := inLoop
		det := "allocated per iteration"
		if !inLoop && len(apply) > 0 {
			// every path from the apply back to the loop head passes X.Reset()
			isReset := func(n ast.Node) bool {
				for _, cl := range shallowCalls(n) {
					if se, ok := cl.Fun.(*ast.SelectorExpr); ok && se.Sel.Name == "Reset" && types_ExprString(se.X) == m.name && len(cl.Args) == 0 {
						return true
					}
				}
				return false
			}
			// a decode into this message: UnmarshalVT on it, or decodeEntry given it
			isDecode := func(n ast.Node) bool {
				for _, cl := range shallowCalls(n) {
					if se, ok := cl.Fun.(*ast.SelectorExpr); ok && se.Sel.Name == "UnmarshalVT" && types_ExprString(se.X) == m.name {
						return true
					}
					if replay.IsCall(cl, "kv/aof.DiskKV.decodeEntry") {
						for _, a := range cl.Args {
							if types_ExprString(a) == m.name {
								return true
							}
						}
					}
				}
				return false
			}
			reached, _ := replay.Reach(apply[0], isReset, nil)
			back := false
			for _, n := range reached {
				// reaching the next decode without a reset in between (whether the reset sits
				// at the end of an iteration or at the start of the next)
				if isDecode(n) && !isReset(n) {
					back = true
				}
			}
			ok = !back
			det = "reset with the allocation-dropping Reset() on every path from the apply to the next decode"
			// ... and nothing is put back into it afterwards
			for _, n := range shallowNodes(loop.Body) {
				as, isAs := n.(*ast.AssignStmt)
				if !isAs {
					continue
				}
				for _, l := range as.Lhs {
					if se, isSel := ast.Unparen(l).(*ast.SelectorExpr); isSel && types_ExprString(se.X) == m.name {
						ok = false
						det = "a field of the message is assigned in the replay loop (" + replay.Str(as) + "): the next decode does not start from a zero message"
					}
				}
			}
		}
		c.Ob(rule, "replayLogs#"+m.name, loop.Pos(), ok, "message "+m.name+" must not carry buffers of the previous entry into the next decode (the in-memory store keeps the decoded slices; UnmarshalVT appends into existing backing arrays; ResetVT/pool return keep them): "+det)
	}

}

func runC21(c *Ctx) {
	freshDecodeRule(c, "fresh-decode")
	applyAfterAppend(c, "write-ahead")

	// codec agreement
	al := c.Func("kv/aof", "DiskKV", "appendLog")
	de := c.Func("kv/aof", "DiskKV", "decodeEntry")
	var verW, dataW, sumW string
	var sumCall *ast.CallExpr
	ast.Inspect(al.Body, func(n ast.Node) bool {
		as, ok := n.(*ast.AssignStmt)
		if !ok || len(as.Lhs) != 1 {
			return true
		}
		se, ok := as.Lhs[0].(*ast.SelectorExpr)
		if !ok {
			return true
		}
		switch se.Sel.Name {
		case "Version":
			verW = constName(al, as.Rhs[0])
		case "Data":
			dataW = al.Prov(as.Rhs[0])
		case "Checksum":
			if cl, ok := as.Rhs[0].(*ast.CallExpr); ok && al.IsCall(cl, "hash/crc64.Checksum") {
				sumCall = cl
				sumW = al.Prov(cl.Args[0])
			}
		}
		return true
	})
	// the versions under which decodeEntry decodes (path facts at each decode site: a
	// switch case and an `if version == V1` are read alike)
	accepted := map[string]bool{}
	for _, u := range de.Calls(false, func(call *ast.CallExpr) bool {
		se, ok := call.Fun.(*ast.SelectorExpr)
		return ok && se.Sel.Name == "UnmarshalVT"
	}) {
		pos, _ := de.FactsAt(u).EqConsts(de, func(e ast.Expr) bool { return strings.HasSuffix(de.Prov(e), ".GetVersion()") })
		for _, k := range pos {
			accepted[k] = true
		}
	}
	c.Ob("codec-agreement", "version-written-is-accepted", al.Decl.Pos(), verW != "" && accepted[verW], "appendLog writes "+verW+"; decodeEntry accepts "+setStr(accepted))
	okSum := sumCall != nil && dataW != "" && sumW == dataW && al.Prov(sumCall.Args[1]) == "global:kv/aof.crcTable"
	c.Ob("codec-agreement", "checksum-over-stored-data", al.Decl.Pos(), okSum, fmt.Sprintf("the checksum is computed over the very buffer stored as Data (data: %s, checksummed: %s) with crcTable", dataW, sumW))
	okVer := false
	for _, cl := range de.CallsTo(false, "hash/crc64.Checksum") {
		okVer = de.Prov(cl.Args[0]) == "param#0.GetData()" && de.Prov(cl.Args[1]) == "global:kv/aof.crcTable"
	}
	c.Ob("codec-agreement", "verification-over-entry-data", de.Decl.Pos(), okVer, "decodeEntry verifies the checksum of entry.GetData() with the same table")

	// Stop order
	stop := c.Func("kv/aof", "DiskKV", "Stop")
	logCall := func(name string) []*ast.CallExpr {
		return stop.Calls(false, func(call *ast.CallExpr) bool {
			se, ok := call.Fun.(*ast.SelectorExpr)
			return ok && se.Sel.Name == name && stop.FieldKey(se.X) == "kv/aof.DiskKV.log"
		})
	}
	syncs, closes := logCall("Sync"), logCall("Close")
	waits := stop.Calls(false, func(call *ast.CallExpr) bool {
		se, ok := call.Fun.(*ast.SelectorExpr)
		return ok && se.Sel.Name == "Wait" && stop.FieldKey(se.X) == "kv/aof.DiskKV.closeWg"
	})
	c.Floor("Stop sync/close/wait sites", len(syncs)+len(closes)+len(waits), 3)
	before := func(first, second []*ast.CallExpr) bool {
		if len(first) == 0 || len(second) == 0 {
			return false
		}
		// second unreachable from entry without passing first
		reached, _ := stop.Reach(nil, func(n ast.Node) bool {
			for _, f := range first {
				if containsNode(n, f) {
					return true
				}
			}
			return false
		}, nil)
		for _, n := range reached {
			for _, s := range second {
				if containsNode(n, s) {
					skip := false
					for _, f := range first {
						if containsNode(n, f) {
							skip = true
						}
					}
					if !skip {
						return false
					}
				}
			}
		}
		return true
	}
	c.Ob("stop-order", "Stop#writer-exited-before-sync", stop.Decl.Pos(), before(waits, syncs), "Stop waits for the writer goroutine before the final sync")
	c.Ob("stop-order", "Stop#sync-before-close", stop.Decl.Pos(), before(syncs, closes), "the log is synced before it is closed")
	// closed store refuses before enqueuing (shared shape with C18)
	mh := c.Func("kv/aof", "DiskKV", "mutationHandler")
	ast.Inspect(mh.Body, func(n ast.Node) bool {
		if ss, ok := n.(*ast.SendStmt); ok && mh.FieldKey(ss.Chan) == "kv/aof.DiskKV.queue" {
			okClosed := mh.FactsAt(ss).Has(func(fa *Fact) bool {
				return fa.Kind == FFalse && fa.Call != nil && strings.HasSuffix(mh.Prov(fa.Call), ".closed.Load()")
			})
			c.Ob("stop-order", "mutationHandler#refuse-after-stop", ss.Pos(), okClosed, "mutations after Stop are refused (fs.ErrClosed) instead of being enqueued to a writer that no longer runs")
		}
		return true
	})
}

func types_ExprString(e ast.Expr) string {
	var b strings.Builder
	ast.Inspect(e, func(n ast.Node) bool {
		if id, ok := n.(*ast.Ident); ok {
			b.WriteString(id.Name)
			b.WriteString(".")
		}
		return true
	})
	return strings.TrimSuffix(b.String(), ".")
}

// ---------------------------------------------------------------------------------------

func runC22(c *Ctx) {
	freshDecodeRule(c, "replay-guard")
	replay := c.Func("kv/aof", "DiskKV", "replayLogs")
	de := c.Func("kv/aof", "DiskKV", "decodeEntry")
	apply := replay.CallsTo(false, "kv/aof.DiskKV.handleMutation")
	c.Floor("replay apply sites", len(apply), 1)
	for _, call := range apply {
		fs := replay.FactsAt(call)
		okRead := fs.Has(func(fa *Fact) bool {
			se, ok := fa.Call, false
			if fa.Kind == FCallOK && se != nil {
				if s, isSel := fa.Call.Fun.(*ast.SelectorExpr); isSel && s.Sel.Name == "Read" && replay.FieldKey(s.X) == "kv/aof.DiskKV.log" {
					ok = true
				}
			}
			return ok
		})
		okEntry := fs.Has(func(fa *Fact) bool {
			if fa.Kind != FCallOK || fa.Call == nil {
				return false
			}
			s, isSel := fa.Call.Fun.(*ast.SelectorExpr)
			return isSel && s.Sel.Name == "UnmarshalVT"
		})
		okDecode := fs.CallOK("kv/aof.DiskKV.decodeEntry")
		c.Ob("replay-guard", "replayLogs#apply-after-read-ok", call.Pos(), okRead, "an entry is applied only if the log read succeeded")
		c.Ob("replay-guard", "replayLogs#apply-after-entry-decoded", call.Pos(), okEntry, "an entry is applied only if its envelope decoded")
		c.Ob("replay-guard", "replayLogs#apply-after-decodeEntry-ok", call.Pos(), okDecode, "an entry is applied only if decodeEntry (checksum, version, mutation decoding) succeeded")
		// the decoded buffer is the one read for this index
		_ = call
	}
	// decodeEntry: nil result only via checksum ok + known version + UnmarshalVT
	named := namedErrResult(de)
	um := de.Calls(false, func(call *ast.CallExpr) bool {
		s, ok := call.Fun.(*ast.SelectorExpr)
		return ok && s.Sel.Name == "UnmarshalVT"
	})
	c.Floor("decodeEntry mutation decode sites", len(um), 1)
	for _, call := range um {
		fs := de.FactsAt(call)
		okSum := fs.Cmp(func(e, tag ast.Expr, truth bool, fa *Fact) bool {
			be, ok := e.(*ast.BinaryExpr)
			if !ok || tag != nil {
				return false
			}
			s := types_ExprString(be)
			return strings.Contains(s, "GetChecksum") && strings.Contains(s, "Checksum") && ((be.Op == token.NEQ && !truth) || (be.Op == token.EQL && truth))
		})
		vpos, _ := fs.EqConsts(de, func(e ast.Expr) bool { return strings.HasSuffix(de.Prov(e), ".GetVersion()") })
		okVer := false
		for _, k := range vpos {
			if strings.HasPrefix(k, "LogVersion_") {
				okVer = true
			}
		}
		c.Ob("replay-guard", "decodeEntry#decode-after-checksum-ok", call.Pos(), okSum, "the mutation is decoded only when the checksum matched")
		c.Ob("replay-guard", "decodeEntry#decode-only-known-version", call.Pos(), okVer, "the mutation is decoded only under a known version case")
		c.Ob("replay-guard", "decodeEntry#decodes-entry-data", call.Pos(), strings.HasSuffix(de.Prov(call.Args[0]), ".Data") || strings.HasSuffix(de.Prov(call.Args[0]), ".GetData()"), "the decoded bytes are the entry's data")
	}
	// every exit of decodeEntry on which the checksum mismatched or the version is unknown returns a non-nil error
	if named != nil {
		for _, as := range assignsTo(de, named.Name) {
			_ = as
		}
		// the mismatch branch must return (not fall through to decoding)
		ast.Inspect(de.Body, func(n ast.Node) bool {
			ifs, ok := n.(*ast.IfStmt)
			if !ok || !strings.Contains(types_ExprString(ifs.Cond), "GetChecksum") {
				return true
			}
			_, exits := de.Reach(ifs.Cond, func(m ast.Node) bool {
				for _, u := range um {
					if containsNode(m, u) {
						return true
					}
				}
				return false
			}, func(b *cfgBlock, si int) bool { return si == 1 })
			assigned := false
			for _, st := range ifs.Body.List {
				if as, ok := st.(*ast.AssignStmt); ok && len(as.Lhs) == 1 && types_ExprString(as.Lhs[0]) == named.Name {
					if cl, ok := as.Rhs[0].(*ast.CallExpr); ok && de.IsCall(cl, "fmt.Errorf", "errors.New") {
						assigned = true
					}
				}
			}
			reachedDecode := false
			reached, _ := de.Reach(ifs.Cond, nil, func(b *cfgBlock, si int) bool {
				return si == 1 && len(b.Nodes) > 0 && b.Nodes[len(b.Nodes)-1] == ast.Node(ifs.Cond)
			})
			for _, m := range reached {
				for _, u := range um {
					if containsNode(m, u) {
						reachedDecode = true
					}
				}
			}
			c.Ob("replay-guard", "decodeEntry#mismatch-aborts", ifs.Pos(), assigned && !reachedDecode && len(exits) > 0, "on a checksum mismatch an error is set and the function returns without decoding")
			return true
		})
		// an unknown version is an error: with the edges on which the version equals a
		// recognised constant removed, and stopping at assignments of a fresh error to the
		// result, no exit of decodeEntry is reachable once the checksum matched
		isVer := func(e ast.Expr) bool { return strings.HasSuffix(de.Prov(e), ".GetVersion()") }
		isErrAssign := func(m ast.Node) bool {
			switch x := m.(type) {
			case *ast.AssignStmt:
				if len(x.Lhs) == 1 && len(x.Rhs) == 1 && types_ExprString(x.Lhs[0]) == named.Name {
					if cl, ok := x.Rhs[0].(*ast.CallExpr); ok && de.IsCall(cl, "fmt.Errorf", "errors.New") {
						return true
					}
				}
			case *ast.ReturnStmt:
				if len(x.Results) == 1 {
					if cl, ok := x.Results[0].(*ast.CallExpr); ok && de.IsCall(cl, "fmt.Errorf", "errors.New") {
						return true
					}
				}
			}
			return false
		}
		_, silent := de.Reach(nil, isErrAssign, func(b *cfgBlock, si int) bool {
			for _, at := range de.edgeAtoms(b, si) {
				if at.tag != nil && isVer(at.tag) && at.truth && strings.HasPrefix(constName(de, at.e), "LogVersion_") {
					return true
				}
				if be, ok := at.e.(*ast.BinaryExpr); ok && at.tag == nil {
					eq := be.Op == token.EQL && at.truth || be.Op == token.NEQ && !at.truth
					if eq && (isVer(be.X) && strings.HasPrefix(constName(de, be.Y), "LogVersion_") || isVer(be.Y) && strings.HasPrefix(constName(de, be.X), "LogVersion_")) {
						return true
					}
				}
			}
			return false
		})
		var at token.Pos = de.Decl.Pos()
		if len(silent) > 0 && silent[0].Ret != nil {
			at = silent[0].Ret.Pos()
		}
		c.Ob("replay-guard", "decodeEntry#unknown-version-rejected", at, len(silent) == 0, fmt.Sprintf("an entry whose version is none of the recognised constants leaves decodeEntry with an error (%d exit(s) reachable without one)", len(silent)))
	}
	// order 1..LastIndex, no skip, failures abort
	var loop *ast.ForStmt
	ast.Inspect(replay.Body, func(n ast.Node) bool {
		if f, ok := n.(*ast.ForStmt); ok && loop == nil {
			loop = f
		}
		return true
	})
	if loop == nil {
		c.Failf("replayLogs: loop not found")
	}
	okLoop := false
	if init, ok := loop.Init.(*ast.AssignStmt); ok && len(init.Rhs) == 1 {
		iv, _ := replay.ConstVal(init.Rhs[0])
		if cond, ok := loop.Cond.(*ast.BinaryExpr); ok && cond.Op == token.LEQ && iv == "1" && replay.Prov(cond.Y) == "recv.log.LastIndex()#0" {
			if post, ok := loop.Post.(*ast.IncDecStmt); ok && post.Tok == token.INC {
				okLoop = true
			}
		}
	}
	c.Ob("replay-order", "replayLogs#1..LastIndex-ascending", loop.Pos(), okLoop, "entries are replayed from index 1 to LastIndex inclusive, in order")
	skips := 0
	ast.Inspect(loop.Body, func(n ast.Node) bool {
		if br, ok := n.(*ast.BranchStmt); ok && (br.Tok == token.CONTINUE || br.Tok == token.BREAK || br.Tok == token.GOTO) {
			skips++
		}
		return true
	})
	c.Ob("replay-guard", "replayLogs#no-skip", loop.Pos(), skips == 0, fmt.Sprintf("no entry is skipped or the replay cut short (%d continue/break statements in the loop)", skips))
	for _, r := range replay.Returns() {
		if containsNode(loop.Body, r) {
			ok := len(r.Results) == 1 && errorResultIsNonNil(replay, r, r.Results[0], replay.FactsAt(r))
			c.Ob("replay-guard", "replayLogs#failure-aborts-open", r.Pos(), ok, "any failure during replay aborts opening with an error")
		}
	}
	for _, call := range replay.Calls(false, func(call *ast.CallExpr) bool {
		s, ok := call.Fun.(*ast.SelectorExpr)
		return ok && s.Sel.Name == "Read" && replay.FieldKey(s.X) == "kv/aof.DiskKV.log"
	}) {
		c.Ob("replay-order", "replayLogs#reads-index-i", call.Pos(), strings.HasPrefix(replay.Prov(call.Args[0]), "const:1") || strings.Contains(replay.Prov(call.Args[0]), "const:1"), "the entry read is the loop index; found "+replay.Prov(call.Args[0]))
	}
	nw := c.Func("kv/aof", "", "New")
	for _, call := range nw.CallsTo(false, "kv/aof.DiskKV.replayLogs") {
		bad := 0
		for _, r := range nw.Returns() {
			fs := nw.FactsAt(r)
			if !fs.Unreachable && fs.Has(func(fa *Fact) bool { return fa.Kind == FCallFail && fa.Call == call }) {
				if !errorResultIsNonNil(nw, r, r.Results[len(r.Results)-1], fs) || !isNilIdent(nw.Info, r.Results[0]) {
					bad++
				}
			}
		}
		c.Ob("replay-guard", "New#replay-failure-returned", call.Pos(), bad == 0, "New returns no store when replay failed")
	}
}

// ---------------------------------------------------------------------------------------

var flagOfTable = map[string]string{"simple_entries": "SimpleFlag", "prefix_entries": "PrefixFlag", "lease_entries": "LeaseFlag"}

func runC23(c *Ctx) {
	trackerDropAfterCount(c, "tracker-pairing")
	stmts := sqliteStatements(c)
	// withWriteTx
	wt := c.Func("kv/sqlite3", "", "withWriteTx")
	commits := methodCalls(wt, false, "Commit")
	rollbacks := methodCalls(wt, false, "Rollback")
	cb := wt.Calls(false, func(call *ast.CallExpr) bool {
		id, ok := call.Fun.(*ast.Ident)
		return ok && wt.paramIndex(wt.Info.ObjectOf(id)) == 2
	})
	c.Floor("withWriteTx commit/rollback/callback sites", len(commits)+len(rollbacks)+len(cb), 3)
	for _, cm := range commits {
		ok := len(cb) == 1 && wt.FactsAt(cm).Has(func(fa *Fact) bool { return fa.Kind == FCallOK && fa.Call == cb[0] })
		c.Ob("tx-commit", "withWriteTx#commit-only-on-nil", cm.Pos(), ok, "the transaction commits only when the closure returned nil")
	}
	for _, rb := range rollbacks {
		ok := len(cb) == 1 && wt.FactsAt(rb).Has(func(fa *Fact) bool { return fa.Kind == FCallFail && fa.Call == cb[0] })
		c.Ob("tx-commit", "withWriteTx#rollback-on-error", rb.Pos(), ok, "a failing closure rolls the transaction back")
	}
	for _, r := range wt.Returns() {
		fs := wt.FactsAt(r)
		if len(cb) == 1 && fs.Has(func(fa *Fact) bool { return fa.Kind == FCallOK && fa.Call == cb[0] }) && !fs.Unreachable {
			call, isCall := ast.Unparen(r.Results[0]).(*ast.CallExpr)
			ok := isCall && len(commits) > 0 && call == commits[0]
			c.Ob("tx-commit", "withWriteTx#success-is-commit-result", r.Pos(), ok, "success is reported only as the result of Commit")
		}
	}
	// mutators
	for _, m := range kvMutators {
		fn := c.Func("kv/sqlite3", "SqliteKV", m)
		wcalls := fn.CallsTo(false, "kv/sqlite3.withWriteTx")
		// one call site that runs once: not inside a loop
		inLoop := false
		for _, wc := range wcalls {
			var stack []ast.Node
			ast.Inspect(fn.Body, func(x ast.Node) bool {
				if x == nil {
					stack = stack[:len(stack)-1]
					return true
				}
				stack = append(stack, x)
				if x == ast.Node(wc) {
					for _, s := range stack {
						switch s.(type) {
						case *ast.ForStmt, *ast.RangeStmt:
							inLoop = true
						}
					}
				}
				return true
			})
		}
		c.Ob("tracker-pairing", "sqlite."+m+"#single-write-tx", fn.Decl.Pos(), len(wcalls) == 1 && !inLoop, fmt.Sprintf("all statements of a mutating method run in ONE write transaction (%d transaction site(s) found, inside a loop: %v)", len(wcalls), inLoop))
		if len(wcalls) != 1 {
			continue
		}
		lit, ok := wcalls[0].Args[2].(*ast.FuncLit)
		if !ok {
			c.Failf("sqlite.%s: transaction body is not a literal (undecided)", m)
		}
		g := fn.Closure(lit)
		// data statements executed in the closure
		type dataExec struct {
			call  *ast.CallExpr
			table string
			verb  string
		}
		var execs []dataExec
		trackerSQL := false
		for _, call := range g.Calls(false, func(call *ast.CallExpr) bool {
			se, ok := call.Fun.(*ast.SelectorExpr)
			return ok && (se.Sel.Name == "Exec" || se.Sel.Name == "ExecContext")
		}) {
			fld := stmtFieldOfCall(g, call)
			if st := stmts[fld]; st != nil {
				if flagOfTable[st.table] != "" && st.verb != "SELECT" {
					execs = append(execs, dataExec{call, st.table, st.verb})
				}
				continue
			}
			q := leftmostString(g, call.Args[0])
			v, t := classifySQL(q)
			if t == "key_trackers" && v == "DELETE" {
				trackerSQL = true
			} else if flagOfTable[t] != "" && v != "SELECT" {
				execs = append(execs, dataExec{call, t, v})
			}
		}
		// statements executed outside the closure are a violation for writer statements (C18 covers)
		upd := g.CallsTo(false, "kv/sqlite3.SqliteKV.updateKeyTracker")
		for _, ex := range execs {
			flag := flagOfTable[ex.table]
			pos := 3 // add
			if ex.verb == "DELETE" {
				pos = 4
			}
			// every success path from the exec to a nil return passes a matching updateKeyTracker
			matching := func(n ast.Node) bool {
				for _, u := range upd {
					if containsNode(n, u) && len(u.Args) == 5 {
						if flagArgHas(g, u.Args[pos], flag) {
							return true
						}
					}
				}
				return false
			}
			_, exits := g.Reach(ex.call, matching, nil)
			bad := 0
			for _, e := range exits {
				if e.Ret == nil {
					bad++
					continue
				}
				fs := g.FactsAt(e.Ret)
				if !errorResultIsNonNil(g, e.Ret, e.Ret.Results[0], fs) {
					// a return that may be nil without having updated the tracker
					if rc, ok := ast.Unparen(e.Ret.Results[0]).(*ast.CallExpr); ok && matching(rc) {
						continue
					}
					bad++
				}
			}
			ok := bad == 0 || (trackerSQL && ex.verb == "DELETE")
			c.Ob("tracker-pairing", fmt.Sprintf("sqlite.%s#%s:%s->%s", m, ex.verb, ex.table, flag), ex.call.Pos(), ok,
				fmt.Sprintf("a %s on %s is followed on every success path of the same transaction by updateKeyTracker with %s in the %s position (RangeKeys/ListKeys read only the tracker: a missed update hides or resurrects the key)", ex.verb, ex.table, flag, map[int]string{3: "add", 4: "remove"}[pos]))
		}
		if m != "Import" && m != "RemoveKeys" {
			c.Ob("tracker-pairing", "sqlite."+m+"#has-data-statement", fn.Decl.Pos(), len(execs) >= 1, "the method's data statement was recognised")
		}
	}
	// DSN
	op := c.Func("kv/sqlite3", "", "openSQLite")
	dsn := ""
	ast.Inspect(op.Body, func(n ast.Node) bool {
		if bl, ok := n.(*ast.BasicLit); ok && bl.Kind == token.STRING && strings.Contains(bl.Value, "file:") {
			dsn = bl.Value
		}
		return true
	})
	c.Ob("dsn", "journal_mode(WAL)", op.Decl.Pos(), strings.Contains(dsn, "journal_mode(WAL)"), "DSN: "+dsn)
	okSync := regexp.MustCompile(`synchronous\((1|2|3|NORMAL|FULL|EXTRA)\)`).MatchString(dsn)
	c.Ob("dsn", "synchronous>=NORMAL", op.Decl.Pos(), okSync, "with WAL, synchronous=NORMAL keeps committed transactions consistent across a crash; OFF does not. DSN: "+dsn)
	c.Ob("dsn", "_txlock=immediate", op.Decl.Pos(), strings.Contains(dsn, "_txlock=immediate"), "DSN: "+dsn)
}

func flagArgHas(g *Fn, e ast.Expr, flag string) bool {
	found := false
	ast.Inspect(e, func(n ast.Node) bool {
		if id, ok := n.(*ast.Ident); ok {
			if id.Name == flag {
				found = true
			}
			// a local accumulating flags: flag |= X
			if v := g.varOf(id); v != nil {
				root := g.root()
				ast.Inspect(root.Body, func(m ast.Node) bool {
					if as, ok := m.(*ast.AssignStmt); ok && len(as.Lhs) == 1 && root.enclosing(as).varOf(as.Lhs[0]) == v {
						ast.Inspect(as.Rhs[0], func(k ast.Node) bool {
							if id2, ok := k.(*ast.Ident); ok && id2.Name == flag {
								found = true
							}
							return true
						})
					}
					return true
				})
			}
		}
		return true
	})
	return found
}

// ---------------------------------------------------------------------------------------

func runC24(c *Ctx) {
	mg := c.Func("kv/sqlite3", "", "migrate")
	mutators := []string{"kv/sqlite3.setUserVersion", "kv/sqlite3.applyMigration", "kv/sqlite3.setTxUserVersion"}
	isMut := func(n ast.Node) bool {
		for _, call := range shallowCalls(n) {
			if mg.IsCall(call, mutators...) {
				return true
			}
			if se, ok := call.Fun.(*ast.SelectorExpr); ok && (se.Sel.Name == "Exec" || se.Sel.Name == "ExecContext") {
				return true
			}
		}
		return false
	}
	// refusal returns: non-nil error built by fmt.Errorf that is not the result of a mutator failing
	nref := 0
	gtr, partial := false, false
	// migrate's own returns and those of literals nested in it (the unversioned branch
	// moved into a helper is an invoked literal after normalisation): a refusal is a return
	// whose error is built on the spot
	var allReturns []*ast.ReturnStmt
	ast.Inspect(mg.Body, func(n ast.Node) bool {
		if r, ok := n.(*ast.ReturnStmt); ok {
			allReturns = append(allReturns, r)
		}
		return true
	})
	for _, r := range allReturns {
		rg := mg.enclosing(r)
		fs := mg.FactsAt(r)
		if len(r.Results) == 0 {
			continue
		}
		last := r.Results[len(r.Results)-1]
		if t := typeOf(rg.Info, last); t == nil || !isErrorType(t) || isNilIdent(rg.Info, last) {
			continue
		}
		if rg != mg {
			// inside a literal: only errors constructed here are refusals of their own
			if call, ok := ast.Unparen(last).(*ast.CallExpr); !ok || !rg.IsCall(call, "fmt.Errorf", "errors.New") {
				continue
			}
		}
		afterMutFail := fs.CallFail(mutators...)
		if afterMutFail {
			continue
		}
		nref++
		if fs.Cmp(func(e, tag ast.Expr, truth bool, fa *Fact) bool {
			be, ok := ast.Unparen(e).(*ast.BinaryExpr)
			if !ok || tag != nil {
				return false
			}
			x, y := rg.Prov(be.X), rg.Prov(be.Y)
			isUV := func(p string) bool { return strings.Contains(p, "getUserVersion()#0") }
			switch {
			case isUV(x) && !isUV(y):
				return be.Op == token.GTR && truth || be.Op == token.LEQ && !truth
			case isUV(y) && !isUV(x):
				return be.Op == token.LSS && truth || be.Op == token.GEQ && !truth
			}
			return false
		}) {
			gtr = true
		}
		if fs.Has(func(fa *Fact) bool { return fa.Kind == FTrue && rg.IsCall(fa.Call, "kv/sqlite3.schemaHasAnyV1Objects") }) {
			partial = true
		}
		// unreachable after any mutator
		reachable := false
		for _, b := range mg.CFG().Blocks {
			for _, n := range b.Nodes {
				if isMut(n) {
					reached, _ := mg.Reach(n, nil, nil)
					for _, m := range reached {
						if m == ast.Node(r) || rg != mg && containsNode(m, r) {
							reachable = true
						}
					}
				}
			}
		}
		c.Ob("refuse-before-touch", "migrate#refusal:"+strings.SplitN(mg.Str(last), "(", 2)[0]+"@"+firstString(mg, r), r.Pos(), !reachable, "a refusal (newer version, partial schema, inspection error) is returned before anything could have been written")
	}
	c.Floor("migrate refusal returns", nref, 5)
	// the refusals exist: newer-version and partial-schema (found above, from the path facts at
	// the refusal returns)
	c.Ob("refuse-before-touch", "migrate#refuses-newer-version", mg.Decl.Pos(), gtr, "a database with a newer user_version is refused")
	c.Ob("refuse-before-touch", "migrate#refuses-partial-schema", mg.Decl.Pos(), partial, "an unversioned database that has only part of the v1 objects is refused")
	// legacy branch only sets user_version
	for _, call := range mg.CallsTo(false, "kv/sqlite3.setUserVersion") {
		fs := mg.FactsAt(call)
		ok := fs.Has(func(fa *Fact) bool { return fa.Kind == FTrue && mg.IsCall(fa.Call, "kv/sqlite3.schemaLooksLikeV1") })
		c.Ob("refuse-before-touch", "migrate#legacy-only-stamps-version", call.Pos(), ok && mg.Prov(call.Args[1]) == "const:1", "an existing complete v1 schema is accepted by stamping user_version, nothing else")
	}
	// the legacy/partial-schema probes must look at every object the v1 migration creates
	objs := map[string]string{}
	reObj := regexp.MustCompile("(?i)CREATE\\s+(TABLE|(?:UNIQUE\\s+)?INDEX)\\s+(?:IF\\s+NOT\\s+EXISTS\\s+)?`?([a-z_]+)`?")
	for name, body := range readRepoGlob(c, "kv/sqlite3/migrations/*.sql") {
		if !strings.Contains(name, "/0001-") {
			continue
		}
		for _, m := range reObj.FindAllStringSubmatch(stripSQLComments(body), -1) {
			kind := "table"
			if strings.Contains(strings.ToUpper(m[1]), "INDEX") {
				kind = "index"
			}
			objs[m[2]] = kind
		}
	}
	c.Floor("objects created by migration 0001", len(objs), 5)
	for _, probe := range []string{"schemaLooksLikeV1", "schemaHasAnyV1Objects"} {
		fn := c.Func("kv/sqlite3", "", probe)
		probed := map[string]string{}
		for _, call := range fn.CallsTo(true, "kv/sqlite3.tableExists", "kv/sqlite3.indexExists") {
			kind := "table"
			if fn.IsCall(call, "kv/sqlite3.indexExists") {
				kind = "index"
			}
			g := fn.enclosing(call)
			if v, ok := g.ConstVal(call.Args[1]); ok {
				probed[strings.Trim(v, "\"")] = kind
				continue
			}
			// ranging over a literal list of names
			if id := g.varOf(call.Args[1]); id != nil {
				ast.Inspect(fn.Body, func(n ast.Node) bool {
					rs, ok := n.(*ast.RangeStmt)
					if !ok || rs.Value == nil || fn.varOf(rs.Value) != id {
						return true
					}
					// a literal list, or a package-level list with a literal initialiser
					cl, _ := ast.Unparen(rs.X).(*ast.CompositeLit)
					if cl == nil {
						if gv, ok := fn.ObjOf(rs.X).(*types.Var); ok && gv.Pkg() != nil && gv.Parent() == gv.Pkg().Scope() {
							cl = globalInit(c, gv)
						}
					}
					if cl != nil {
						for _, el := range cl.Elts {
							if v, ok := fn.ConstVal(el); ok {
								probed[strings.Trim(v, "\"")] = kind
							}
						}
					}
					return true
				})
			}
		}
		for name, kind := range objs {
			c.Ob("refuse-before-touch", probe+"#probes-"+kind+":"+name, fn.Decl.Pos(), probed[name] == kind, "the schema probe checks every object migration 0001 creates; a database lacking an unprobed object would be stamped as current and never completed (or a partial one not recognised)")
		}
	}
	// What the probes answer, for every state of the database as far as they can see it: the
	// probes observe the schema only through tableExists / indexExists (checked: no other
	// call takes the handle), so a state is the subset of migration 0001's objects that
	// exist - 2^n states. Each probe is executed on the evaluator in every state:
	// schemaLooksLikeV1 must answer true exactly when ALL objects exist (anything less is
	// not a complete legacy database and must not be stamped), schemaHasAnyV1Objects exactly
	// when at least one does. Counting, early returns and shared helpers are alike.
	var objNames []string
	for n := range objs {
		objNames = append(objNames, n)
	}
	sort.Strings(objNames)
	for _, probe := range []string{"schemaLooksLikeV1", "schemaHasAnyV1Objects"} {
		fn := c.Func("kv/sqlite3", "", probe)
		// only the two existence helpers receive the handle
		onlyProbes := true
		var visit func(g *Fn, depth int)
		seenFn := map[*Fn]bool{}
		visit = func(g *Fn, depth int) {
			if seenFn[g] || depth > 3 {
				return
			}
			seenFn[g] = true
			for _, call := range g.Calls(true, func(*ast.CallExpr) bool { return true }) {
				gg := g.enclosing(call)
				if gg.IsCall(call, "kv/sqlite3.tableExists", "kv/sqlite3.indexExists") {
					continue
				}
				takesDB := false
				for _, a := range call.Args {
					if strings.HasSuffix(typeStr(gg, a), "sql.DB") {
						takesDB = true
					}
				}
				if se, ok := ast.Unparen(call.Fun).(*ast.SelectorExpr); ok && strings.HasSuffix(typeStr(gg, se.X), "sql.DB") {
					takesDB = true
				}
				if !takesDB {
					continue
				}
				if h := c.FnOfObj(gg.Callee(call)); h != nil {
					visit(h, depth+1)
				} else {
					onlyProbes = false
				}
			}
		}
		visit(fn, 0)
		c.Ob("refuse-before-touch", probe+"#observes-only-existence", fn.Decl.Pos(), onlyProbes, "the probe looks at the database only through tableExists / indexExists")
		nstates, bad := 0, ""
		undec := ""
		for mask := 0; mask < 1<<len(objNames) && undec == ""; mask++ {
			exists := map[string]bool{}
			cnt := 0
			for i, n := range objNames {
				if mask&(1<<i) != 0 {
					exists[n] = true
					cnt++
				}
			}
			ext := func(f *Fn, call *ast.CallExpr, recv Val, args []Val) (Val, bool) {
				kind := ""
				switch {
				case f.IsCall(call, "kv/sqlite3.tableExists"):
					kind = "table"
				case f.IsCall(call, "kv/sqlite3.indexExists"):
					kind = "index"
				default:
					return nil, false
				}
				name, _ := args[1].(string)
				return tupleVal{exists[name] && objs[name] == kind, nilVal{}}, true
			}
			res, _, err := fn.EvalFnWith([]Val{objVal{id: big.NewInt(1)}}, ext, nil, nil)
			if err != nil || len(res) != 2 {
				undec = fmt.Sprintf("%v", err)
				break
			}
			got, isBool := res[0].(bool)
			if _, isNil := res[1].(nilVal); !isBool || !isNil {
				undec = "result is not (bool, nil)"
				break
			}
			want := cnt == len(objNames)
			if probe == "schemaHasAnyV1Objects" {
				want = cnt > 0
			}
			nstates++
			if got != want && bad == "" {
				var have []string
				for _, n := range objNames {
					if exists[n] {
						have = append(have, n)
					}
				}
				bad = fmt.Sprintf("with exactly %v present it answers %v", have, got)
			}
		}
		if undec != "" {
			// outside the evaluable subset: not decided, and never a silent pass
			c.Ob("refuse-before-touch", probe+"#answer-table", fn.Decl.Pos(), false, fmt.Sprintf("%s could not be executed on the evaluator (%s): its answer table is undecided", probe, undec))
			continue
		}
		what := "true exactly when every object of migration 0001 exists"
		if probe == "schemaHasAnyV1Objects" {
			what = "true exactly when at least one object of migration 0001 exists"
		}
		c.Ob("refuse-before-touch", probe+"#answer-table", fn.Decl.Pos(), bad == "", fmt.Sprintf("%s answers %s, in all %d existence states; %s", probe, what, nstates, bad))
		c.Extra("schema_probe_states_"+probe, nstates)
	}

	// applyMigration tx
	am := c.Func("kv/sqlite3", "", "applyMigration")
	execs := methodCalls(am, false, "Exec")
	okTx := len(execs) >= 1
	for _, e := range execs {
		se := e.Fun.(*ast.SelectorExpr)
		if !strings.HasSuffix(typeStr(am, se.X), "sql.Tx") {
			okTx = false
		}
	}
	bump := am.CallsTo(false, "kv/sqlite3.setTxUserVersion")
	okBump := len(bump) == 1 && strings.HasSuffix(typeStr(am, bump[0].Args[0]), "sql.Tx")
	c.Ob("migration-tx", "applyMigration#sql-and-version-in-one-tx", am.Decl.Pos(), okTx && okBump, "the migration SQL and its version bump execute on the same transaction")
	// deferred rollback when err != nil
	okRb := false
	for _, lit := range am.Lits() {
		g := am.Closure(lit)
		for _, rb := range methodCalls(g, false, "Rollback") {
			okRb = g.FactsAt(rb).Cmp(func(e, tag ast.Expr, truth bool, fa *Fact) bool {
				be, ok := e.(*ast.BinaryExpr)
				return ok && !fa.Inherited && truth && be.Op == token.NEQ && isNilIdent(g.Info, be.Y)
			})
		}
		for _, cm := range methodCalls(g, false, "Commit") {
			_ = cm
			okRb = false
		}
	}
	if begins := methodCalls(am, false, "Begin"); !okRb && len(begins) == 1 && len(am.Lits()) == 0 {
		// explicit form: no exit is reachable from Begin without passing a Rollback, except
		// the success return, Begin's own failure and a failed Commit (the transaction is
		// finished either way)
		_, exits := am.Reach(begins[0], func(n ast.Node) bool {
			found := false
			ast.Inspect(n, func(m ast.Node) bool {
				if call, ok := m.(*ast.CallExpr); ok {
					if se, ok := call.Fun.(*ast.SelectorExpr); ok && se.Sel.Name == "Rollback" && strings.HasSuffix(typeStr(am, se.X), "sql.Tx") {
						found = true
					}
				}
				return !found
			})
			return found
		}, nil)
		okRb = len(exits) > 0
		for _, ex := range exits {
			if ex.Ret == nil || len(ex.Ret.Results) != 1 {
				okRb = false
				continue
			}
			if isNilIdent(am.Info, ex.Ret.Results[0]) {
				continue
			}
			fs := am.FactsAt(ex.Ret)
			if fs.Has(func(fa *Fact) bool {
				return fa.Kind == FCallFail && (fa.Call == begins[0] || isMethodCall(fa.Call, "Commit"))
			}) {
				continue
			}
			okRb = false
		}
	}
	c.Ob("migration-tx", "applyMigration#rollback-on-error", am.Decl.Pos(), okRb, "a failing migration is rolled back (deferred when err != nil, or explicitly before every failing exit)")
	for _, cm := range methodCalls(am, false, "Commit") {
		fs := am.FactsAt(cm)
		ok := len(bump) == 1 && fs.Has(func(fa *Fact) bool { return fa.Kind == FCallOK && fa.Call == bump[0] })
		c.Ob("migration-tx", "applyMigration#commit-after-both-ok", cm.Pos(), ok, "commit only after the SQL and the version bump succeeded")
	}
	// embedded SQL lint
	files := readRepoGlob(c, "kv/sqlite3/migrations/*.sql")
	c.Floor("embedded migration files", len(files), 1)
	var names []string
	for n := range files {
		names = append(names, n)
	}
	sort.Strings(names)
	reVer := regexp.MustCompile(`/(\d+)-[^/]*\.sql$`)
	for i, n := range names {
		m := reVer.FindStringSubmatch(n)
		okV := m != nil && strings.TrimLeft(m[1], "0") == fmt.Sprint(i+1)
		c.Ob("migration-sql", n+"#contiguous-version", token.NoPos, okV, fmt.Sprintf("migration versions are contiguous from 1 (file %d)", i+1))
		for _, stmt := range strings.Split(stripSQLComments(files[n]), ";") {
			s := strings.TrimSpace(stmt)
			if s == "" {
				continue
			}
			up := strings.ToUpper(strings.Join(strings.Fields(s), " "))
			ok := strings.HasPrefix(up, "CREATE TABLE IF NOT EXISTS ") || strings.HasPrefix(up, "CREATE INDEX IF NOT EXISTS ") || strings.HasPrefix(up, "CREATE UNIQUE INDEX IF NOT EXISTS ")
			if i > 0 && (strings.HasPrefix(up, "ALTER TABLE ") && strings.Contains(up, " ADD COLUMN ")) {
				ok = true
			}
			head := up
			if len(head) > 60 {
				head = head[:60]
			}
			c.Ob("migration-sql", n+"#"+head, token.NoPos, ok, "embedded migrations contain only non-destructive DDL (CREATE ... IF NOT EXISTS / ADD COLUMN); DROP, DELETE, UPDATE, REPLACE, RENAME would damage existing data")
		}
	}
}

func stripSQLComments(s string) string {
	var out []string
	for _, l := range strings.Split(s, "\n") {
		if i := strings.Index(l, "--"); i >= 0 {
			l = l[:i]
		}
		out = append(out, l)
	}
	return strings.Join(out, "\n")
}

func firstString(f *Fn, n ast.Node) string {
	s := ""
	ast.Inspect(n, func(m ast.Node) bool {
		if bl, ok := m.(*ast.BasicLit); ok && bl.Kind == token.STRING && s == "" {
			s = strings.Trim(bl.Value, "\"")
			if len(s) > 40 {
				s = s[:40]
			}
		}
		return true
	})
	return s
}

// applyAfterAppend: in the writer goroutine a mutation reaches the in-memory state only on
// the success edge of appendLog for that same mutation (write-ahead). Shared by C20 and C21:
// a mutation applied without a log record is lost (or undone) by the next restart.
func applyAfterAppend(c *Ctx, rule string) {
	applies := aofWriterSites(c, "kv/aof.DiskKV.handleMutation")
	c.Floor("writer apply sites", len(applies), 1)
	for _, site := range applies {
		g, call := site.g, site.call
		fs := g.FactsAt(call)
		ok := fs.Has(func(fa *Fact) bool {
			return fa.Kind == FCallOK && g.IsCall(fa.Call, "kv/aof.DiskKV.appendLog") && len(fa.Call.Args) == 1 && types_ExprString(fa.Call.Args[0]) == types_ExprString(call.Args[0])
		})
		c.Ob(rule, "Start#apply-only-after-append-ok", call.Pos(), ok, "the writer applies a mutation to memory only after appendLog of that mutation succeeded; a mutation applied without a log record does not survive a restart")
	}
}

func isMethodCall(call *ast.CallExpr, name string) bool {
	if call == nil {
		return false
	}
	se, ok := call.Fun.(*ast.SelectorExpr)
	return ok && se.Sel.Name == name
}
