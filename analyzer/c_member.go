package main

import (
	"math/big"
	"fmt"
	"go/ast"
	"go/token"
	"go/types"
	"sort"
	"strings"
)

func init() {
	register(&propDef{ID: "C03", Level: "other",
		Decides:    "the key hand-off protocol order on every path of transferKeysUpward/transferKeysDownward: RangeKeys -> Export -> peer.Import -> RemoveKeys, each step only on the success edge of the previous one, the same key slice flowing through all four; a failed step reaches the caller as a non-nil error; the callers (RequestToJoin, executeLeave) publish the hand-off (joined flag, surrogate pointer) only on the success edge, call the transfer only with surrogateMu write-held and after their own lifecycle CAS; LocalNode.Import takes surrogateMu exclusively and refuses in Inactive/Leaving/Left; in Join and Leave the pointer advisory to the predecessor is never sent after the successor's membership lock was released (a predecessor leaving in that window hands its keys to a node that no longer owns them); the sqlite donor-side removal deletes the moved keys from every table by the table's key column (a leftover row makes removed data reappear when the range comes back).",
		NotDecided: "that acknowledged writes survive arbitrary interleavings (needs executions); RemoveKeys errors are only logged.",
		Run:        runC03})
	register(&propDef{ID: "C04", Level: "other",
		Decides:    "the locking/state gate linearizability relies on: every use of LocalNode.kv is one of the enumerated gated sites - kvMiddleware's local branch (surrogateMu and predecessorMu read-held, state==Active on every path), the replication bypass (only under the KV_REPLICATION request target), ListKeys' direct-target branch (surrogateMu read-held, Active), Import (surrogateMu write-held), the transfer functions (caller holds surrogateMu for writing), or the read-only stats handler; refusals at the gate are retryable sentinels and ErrNodeGone from the lookup is mapped to ErrKVStaleOwnership; the ten KV methods all route through kvMiddleware with their own key and call the same-named backend method with their own arguments in order; the maintenance paths (Notify, checkPredecessor) write the predecessor / surrogate pointers, which decide where a request is served, only by compare-and-set against the snapshot they decided on, inside one critical section.",
		NotDecided: "linearizability of histories.",
		Run:        runC04})
	register(&propDef{ID: "C06", Level: "other",
		Decides:    "the membership lock discipline on every path: a node enters a membership role only through CAS Transition(Active,Transferring|Leaving); transfers and pointer hand-off are cut by that CAS's success edge (and, for a leave, by the successor's RequestToLeave success); a failed CAS is answered with the retryable Err{Join,Leave}InvalidState; every failing exit after an acquisition releases what was acquired (deferred revert in RequestToJoin, FinishLeave(false,true) + Set(Active) in executeLeave, Set(Inactive) in Join); releases are the CAS Transferring->Active only; all 15 transition sites are the enumerated ones.",
		NotDecided: "mutual exclusion as observed over real interleavings; effects on remote nodes when a response is lost (C07).",
		Run:        runC06})
	register(&propDef{ID: "C13", Level: "other",
		Decides:    "nodeState is mutated only by the CompareAndSwap in Transition (constructor Store aside); the history entry is written only on the CAS success edge under the index encoded in the swapped word; shift/mask packing is consistent (4 bits, every chord.State constant < 16); Set only loops over Transition(Get(), val); LocalNode.state is used only through Transition/Set/Get/History; every transition site in package chord is an edge of the lifecycle graph.",
		NotDecided: "that exactly one of several concurrent attempts succeeds is delegated to atomic.Uint64.CompareAndSwap (trusted).",
		Run:        runC13})

	addSelfTests("C03",
		mutation{"downward-early-return-restructured", "chord/local_chord.go", "	values, err := n.kv.Export(ctx, keys)\n	if err != nil {\n		return err\n	}\n\n	// TODO: split into batches\n	if err := successor.Import(ctx, keys, values); err != nil {\n		return fmt.Errorf(\"storing KV to successor: %w\", err)\n	}", "	values, exportErr := n.kv.Export(ctx, keys)\n	if exportErr != nil {\n		return exportErr\n	}\n\n	importErr := successor.Import(ctx, keys, values)\n	if importErr != nil {\n		return fmt.Errorf(\"storing KV to successor: %w\", importErr)\n	}", "!transfer-order"},
		mutation{"upward-remove-error-returned", "chord/local_chord.go", "	if err := n.kv.RemoveKeys(ctx, keys); err != nil {\n		n.logger.Error(\"Failed to remove keys from KV\", zap.Error(err))\n	}\n	return\n}", "	if rmErr := n.kv.RemoveKeys(ctx, keys); rmErr != nil {\n		n.logger.Error(\"Failed to remove keys from KV\", zap.Error(rmErr))\n	}\n	return nil\n}", "!transfer-order"},
		mutation{"remove-before-import-checked", "chord/local_chord.go", "	err = newPredecessor.Import(ctx, keys, values)\n	if err != nil {\n		return\n	}\n", "	err = newPredecessor.Import(ctx, keys, values)\n", "transfer-order"},
		mutation{"downward-import-error-dropped", "chord/local_chord.go", "		return fmt.Errorf(\"storing KV to successor: %w\", err)", "		n.logger.Error(fmt.Sprintf(\"storing KV to successor: %v\", err))", "transfer-order"},
		mutation{"joined-before-transfer", "chord/local_membership.go", "	if err := n.transferKeysUpward(ctx, prevPredecessor, joiner); err != nil {\n		return nil, nil, chord.ErrJoinTransferFailure\n	}\n	joined = true", "	joined = true\n	if err := n.transferKeysUpward(ctx, prevPredecessor, joiner); err != nil {\n		return nil, nil, chord.ErrJoinTransferFailure\n	}", "publish-after-transfer"},
		mutation{"import-read-lock", "chord/local_kv.go", "	n.surrogateMu.Lock()\n	defer n.surrogateMu.Unlock()\n\n	n.logger.Debug(\"KV Import\"", "	n.surrogateMu.RLock()\n	defer n.surrogateMu.RUnlock()\n\n	n.logger.Debug(\"KV Import\"", "import-gate"},
		mutation{"import-while-leaving", "chord/local_kv.go", "	case chord.Inactive, chord.Leaving, chord.Left:\n		return chord.ErrNodeGone\n	}\n	n.surrogateMu.Lock()", "	case chord.Inactive, chord.Left:\n		return chord.ErrNodeGone\n	}\n	n.surrogateMu.Lock()", "import-gate"},
		mutation{"remove-other-keys", "chord/local_chord.go", "	if err := n.kv.RemoveKeys(ctx, keys); err != nil {\n		n.logger.Error(\"Failed to remove keys from KV\", zap.Error(err))\n	}\n	return\n}", "	if all, rerr := n.kv.RangeKeys(ctx, 0, 0); rerr == nil {\n		n.kv.RemoveKeys(ctx, all)\n	}\n	return\n}", "same-keys"},
	)
	addSelfTests("C04",
		mutation{"dead-predecessor-cleared-unconditionally", "chord/local_tasks.go", "		if n.predecessor == pre {\n			n.predecessor = nil\n			n.logger.Info(\"Discovered dead predecessor\",\n				zap.Object(\"old\", pre.Identity()),\n				zap.String(\"new\", \"nil\"),\n			)\n		}", "		n.predecessor = nil\n		n.logger.Info(\"Discovered dead predecessor\",\n			zap.Object(\"old\", pre.Identity()),\n			zap.String(\"new\", \"nil\"),\n		)", "snapshot-cas"},
		mutation{"state-gate-dropped", "chord/local_kv.go", "		if state != chord.Active {\n			l.Debug(", "		if state == chord.Inactive {\n			l.Debug(", "kv-gate"},
		mutation{"gate-refusal-nonretryable", "chord/local_kv.go", "			n.kvStaleCount.Inc()\n			return zeroV, chord.ErrKVStaleOwnership\n		}\n\n		if n.surrogate != nil {", "			n.kvStaleCount.Inc()\n			return zeroV, chord.ErrNodeGone\n		}\n\n		if n.surrogate != nil {", "gate-refusal"},
		mutation{"unlock-before-handler", "chord/local_kv.go", "		n.predecessorMu.RLock()\n		defer n.predecessorMu.RUnlock()\n\n		if n.predecessor != nil {\n			l = l.With", "		n.predecessorMu.RLock()\n		n.predecessorMu.RUnlock()\n\n		if n.predecessor != nil {\n			l = l.With", "kv-gate"},
		mutation{"getter-under-own-lock", "chord/local_tasks.go", "		n.predecessorMu.Lock()\n		if n.predecessor == pre {", "		n.predecessorMu.Lock()\n		if n.getPredecessor() == pre {", "no-reentrant-lock"},
		mutation{"refusal-after-the-effect", "chord/local_kv.go", "		return handler(ctx, n.kv, targetLocal, id)\n	}()", "		v, err := handler(ctx, n.kv, targetLocal, id)\n		if n.state.Get() != chord.Active {\n			return zeroV, chord.ErrKVPendingTransfer\n		}\n		return v, err\n	}()", "kv-gate"},
		mutation{"local-result-through-variables", "chord/local_kv.go", "		return handler(ctx, n.kv, targetLocal, id)\n	}()", "		v, err := handler(ctx, n.kv, targetLocal, id)\n		return v, err\n	}()", "!kv-gate"},
		mutation{"surrogate-forward-under-read-locks", "chord/local_kv.go", "			forward = n.surrogate\n			return zeroV, nil", "			return handler(ctx, n.surrogate, targetSurrogate, id)", "forward-unlocked"},
		mutation{"sibling-wrong-method", "chord/local_kv.go", "			return nil, kv.PrefixRemove(ctx, prefix, child)", "			return nil, kv.PrefixAppend(ctx, prefix, child)", "kv-sibling"},
		mutation{"sibling-wrong-key", "chord/local_kv.go", "	return kvMiddleware(ctx, n, prefix,\n		func(ctx context.Context, kv chord.KV, target kvTargetType, id uint64) (bool, error) {", "	return kvMiddleware(ctx, n, child,\n		func(ctx context.Context, kv chord.KV, target kvTargetType, id uint64) (bool, error) {", "kv-sibling"},
		mutation{"listkeys-no-state-gate", "chord/local_kv.go", "			if state != chord.Active {\n				n.kvStaleCount.Inc()\n				return nil, chord.ErrKVStaleOwnership\n			}\n", "			_ = state\n", "kv-gate"},
	)
	addSelfTests("C06",
		mutation{"leave-no-local-revert", "chord/local_membership.go", "		if err := succ.RequestToLeave(n); err != nil {\n			n.state.Set(chord.Active) // release local lock and try again\n			return nil, nil, err", "		if err := succ.RequestToLeave(n); err != nil {\n			return nil, nil, err", "release-on-failure"},
		mutation{"leave-no-remote-release", "chord/local_membership.go", "		n.state.Set(chord.Active)\n		if err := succ.FinishLeave(false, true); err != nil {\n			n.logger.Warn(\"error releasing leave lock in successor\", zap.Error(err))\n		}\n		return nil, nil, err", "		n.state.Set(chord.Active)\n		return nil, nil, err", "release-on-failure"},
		mutation{"join-from-any-state", "chord/local_membership.go", "	if curr, ok := n.state.Transition(chord.Active, chord.Transferring); !ok {\n		n.logger.Info(\"Rejecting join request", "	if curr, ok := n.state.Transition(n.state.Get(), chord.Transferring); !ok {\n		n.logger.Info(\"Rejecting join request", "transition-site"},
		mutation{"release-by-set", "chord/local_membership.go", "		n.logger.Info(\"Join completed, joiner has requested to release membership lock\")\n		if curr, ok := n.state.Transition(chord.Transferring, chord.Active); !ok {", "		n.logger.Info(\"Join completed, joiner has requested to release membership lock\")\n		n.state.Set(chord.Active)\n		if curr, ok := n.state.Transition(chord.Transferring, chord.Active); !ok {", "transition-site"},
		mutation{"revert-also-when-joined", "chord/local_membership.go", "		if joined {\n			n.predecessor = joiner\n			return\n		}", "		if joined {\n			n.predecessor = joiner\n		}", "set-owner"},
		mutation{"join-failure-stays-joining", "chord/local_membership.go", "	if err != nil {\n		n.state.Set(chord.Inactive)\n		return err\n	}", "	if err != nil {\n		return err\n	}", "release-on-failure"},
	)
	mutExtra["pack-helpers"] = [2]string{"func newNodeState(", "func packNodeState(index uint64, st chord.State) uint64 {\n	return (index << 4) | uint64(st)\n}\n\nfunc newNodeState("}
	mutExtra["pack-helpers-index-not-advanced"] = mutExtra["pack-helpers"]
	addSelfTests("C13",
		mutation{"history-before-cas", "chord/node_state.go", "	if s.state.CompareAndSwap(prev, next) {\n		s.history.Store(nextIndex, nxt)", "	s.history.Store(nextIndex, nxt)\n	if s.state.CompareAndSwap(prev, next) {", "history-on-cas"},
		mutation{"mask-three-bits-still-decodes-every-state", "chord/node_state.go", "	return chord.State(s.state.Load() & 0b1111)\n}", "	return chord.State(s.state.Load() & 0b111)\n}", "!packing"},
		mutation{"mask-two-bits", "chord/node_state.go", "	return chord.State(s.state.Load() & 0b1111)\n}", "	return chord.State(s.state.Load() & 0b11)\n}", "packing"},
		mutation{"pack-helpers", "chord/node_state.go", "	curr := s.state.Load()\n	currIndex := curr >> 4\n	prev := (currIndex << 4) | (uint64)(exp)\n	nextIndex := currIndex + 1\n	next := (nextIndex << 4) | (uint64)(nxt)", "	curr := s.state.Load()\n	currIndex := curr >> 4\n	prev := packNodeState(currIndex, exp)\n	nextIndex := currIndex + 1\n	next := packNodeState(nextIndex, nxt)", "!packing"},
		mutation{"pack-helpers-index-not-advanced", "chord/node_state.go", "	curr := s.state.Load()\n	currIndex := curr >> 4\n	prev := (currIndex << 4) | (uint64)(exp)\n	nextIndex := currIndex + 1\n	next := (nextIndex << 4) | (uint64)(nxt)", "	curr := s.state.Load()\n	currIndex := curr >> 4\n	prev := packNodeState(currIndex, exp)\n	nextIndex := currIndex + 1\n	next := packNodeState(currIndex, nxt)", "packing"},
		mutation{"set-stores-directly", "chord/node_state.go", "		if _, ok := s.Transition(s.Get(), val); ok {\n			break\n		}", "		s.state.Store((s.state.Load()>>4+1)<<4 | uint64(val))\n		break", "state-writers"},
	)
}

func constName(f *Fn, e ast.Expr) string { return constNameD(f, e, 0) }

func constNameD(f *Fn, e ast.Expr, depth int) string {
	if o := f.ObjOf(e); o != nil {
		if _, ok := o.(*types.Const); ok {
			return o.Name()
		}
	}
	// a local that is declared with its only value (`kind := X`, `var kind T = X`): what an
	// inlined helper's parameter looks like
	if v := f.varOf(e); v != nil && depth < 4 {
		for g := f; g != nil; g = g.Parent {
			if g.paramIndex(v) != -2 {
				return ""
			}
		}
		defs := f.defsOf(v)
		if len(defs) == 1 && !defs[0].multi && defs[0].rhs != nil && defs[0].pos <= v.Pos() && v.Pos() < defs[0].rhs.Pos() {
			return constNameD(f.enclosing(defs[0].rhs), defs[0].rhs, depth+1)
		}
	}
	return ""
}

// stateSite is one n.state.Transition / n.state.Set call.
type stateSite struct {
	fn       *Fn // root function
	g        *Fn // innermost function
	call     *ast.CallExpr
	kind     string // Transition | Set
	from, to string // constant names ("" = not a constant)
}

// transitionHelper recognises a function that IS one lifecycle transition: its body makes
// exactly one state.Transition(from, to) call (constants), no Set, and every return yields
// that call's ok result. A call to such a helper is treated as the transition itself (same
// site table entry for the caller, same success/failure facts), so extracting
// "acquireLocalLeaveLock()" does not change a verdict.
type transSummary struct{ from, to string }

func transitionHelper(c *Ctx, o *types.Func) (transSummary, bool) {
	if o == nil {
		return transSummary{}, false
	}
	h := c.FnOfObj(o)
	if h == nil || h.Type.Results == nil || len(h.Type.Results.List) != 1 || len(h.Type.Results.List[0].Names) > 1 {
		return transSummary{}, false
	}
	if b, ok := h.Info.Types[h.Type.Results.List[0].Type].Type.Underlying().(*types.Basic); !ok || b.Kind() != types.Bool {
		return transSummary{}, false
	}
	tr := h.CallsTo(true, "chord.nodeState.Transition")
	if len(tr) != 1 || len(h.CallsTo(true, "chord.nodeState.Set")) != 0 || h.enclosing(tr[0]) != h {
		return transSummary{}, false
	}
	rets := h.Returns()
	if len(rets) == 0 {
		return transSummary{}, false
	}
	for _, r := range rets {
		if len(r.Results) != 1 || !strings.HasSuffix(h.Prov(r.Results[0]), ".state.Transition()#1") {
			return transSummary{}, false
		}
	}
	from, to := constName(h, tr[0].Args[0]), constName(h, tr[0].Args[1])
	if from == "" || to == "" {
		return transSummary{}, false
	}
	return transSummary{from, to}, true
}

func stateSites(c *Ctx) []*stateSite {
	var out []*stateSite
	for _, fn := range c.AllFuncs("chord") {
		if recvName(fn.Decl) == "nodeState" {
			continue
		}
		if _, isHelper := transitionHelper(c, fn.Obj); isHelper {
			continue // its single transition is accounted for at its call sites
		}
		for _, call := range fn.Calls(true, func(call *ast.CallExpr) bool { return true }) {
			g := fn.enclosing(call)
			if sum, ok := transitionHelper(c, g.Callee(call)); ok {
				out = append(out, &stateSite{fn: fn, g: g, call: call, kind: "Transition", from: sum.from, to: sum.to})
			}
		}
		for _, call := range fn.CallsTo(true, "chord.nodeState.Transition", "chord.nodeState.Set") {
			g := fn.enclosing(call)
			s := &stateSite{fn: fn, g: g, call: call}
			if g.IsCall(call, "chord.nodeState.Transition") {
				s.kind = "Transition"
				s.from, s.to = constName(g, call.Args[0]), constName(g, call.Args[1])
			} else {
				s.kind = "Set"
				s.to = constName(g, call.Args[0])
			}
			out = append(out, s)
		}
	}
	return out
}

func (s *stateSite) key() string {
	return fmt.Sprintf("%s:%s(%s->%s)", s.fn.Name, s.kind, s.from, s.to)
}

// hasTransition: fact "Transition(from,to) succeeded" (ok result true) holds.
func hasTransition(g *Fn, fs *FactSet, from, to string, truth bool) bool {
	return fs.Has(func(fa *Fact) bool {
		if fa.Call == nil {
			return false
		}
		if (truth && fa.Kind != FTrue) || (!truth && fa.Kind != FFalse) {
			return false
		}
		if sum, ok := transitionHelper(g.C, g.Callee(fa.Call)); ok {
			return sum.from == from && sum.to == to
		}
		if !g.IsCall(fa.Call, "chord.nodeState.Transition") || len(fa.Call.Args) != 2 {
			return false
		}
		return constName(g, fa.Call.Args[0]) == from && constName(g, fa.Call.Args[1]) == to
	})
}

func methodCalls(f *Fn, deep bool, name string) []*ast.CallExpr {
	return f.Calls(deep, func(call *ast.CallExpr) bool {
		se, ok := ast.Unparen(call.Fun).(*ast.SelectorExpr)
		return ok && se.Sel.Name == name && f.Info.Selections[se] != nil
	})
}

// errorResultIsNonNil: the error expression of a return is certainly non-nil: a sentinel,
// a constructor call, or a variable bound to a call known to have failed here.
func errorResultIsNonNil(g *Fn, r *ast.ReturnStmt, e ast.Expr, fs *FactSet) bool {
	e = ast.Unparen(e)
	if isNilIdent(g.Info, e) {
		return false
	}
	pv := g.Prov(e)
	if strings.HasPrefix(pv, "global:") && strings.Contains(pv, ".Err") {
		return true
	}
	if call, ok := e.(*ast.CallExpr); ok {
		k := g.CallKey(call)
		if k == "fmt.Errorf" || k == "errors.New" || strings.HasPrefix(k, "spec/rpc.Wrap") || strings.HasPrefix(k, "github.com/twitchtv/twirp.") {
			return true
		}
	}
	if call, idx, ok := fs.BindingOf(e); ok {
		if fs.Has(func(fa *Fact) bool { return fa.Kind == FCallFail && fa.Call == call && fa.Idx == idx }) {
			return true
		}
	}
	// tested non-nil on every path here (e.g. a field: if ret.err != nil { return nil, ret.err })
	want := types_ExprString(e)
	return fs.Cmp(func(x, tag ast.Expr, truth bool, fa *Fact) bool {
		be, ok := x.(*ast.BinaryExpr)
		if !ok || tag != nil || (be.Op != token.NEQ && be.Op != token.EQL) || !isNilIdent(g.Info, be.Y) {
			return false
		}
		return types_ExprString(be.X) == want && (be.Op == token.NEQ) == truth
	})
}

// namedErrResult returns the named error result variable of g (nil if none).
func namedErrResult(g *Fn) *ast.Ident {
	if g.Type.Results == nil {
		return nil
	}
	for _, fld := range g.Type.Results.List {
		for _, nm := range fld.Names {
			if isErrorType(g.Info.Defs[nm].Type()) {
				return nm
			}
		}
	}
	return nil
}

func runC03(c *Ctx) {
	jflag, jdone := joinCompletionFlag(c)
	advisoryBeforeRelease(c)
	removeKeysCoverage(c, "handoff-removal")
	kvKeys := func(m string) []string { return []string{"spec/chord.KVProvider." + m, "spec/chord.KV." + m} }
	for _, name := range []string{"transferKeysUpward", "transferKeysDownward"} {
		fn := chordFn(c, "LocalNode", name)
		rk := fn.CallsTo(false, kvKeys("RangeKeys")...)
		ex := fn.CallsTo(false, kvKeys("Export")...)
		im := methodCalls(fn, false, "Import")
		rm := fn.CallsTo(false, kvKeys("RemoveKeys")...)
		c.Floor(name+" transfer call sites", len(rk)+len(ex)+len(im)+len(rm), 4)
		isOK := func(fs *FactSet, calls []*ast.CallExpr) bool {
			return fs.Has(func(fa *Fact) bool {
				if fa.Kind != FCallOK {
					return false
				}
				for _, cl := range calls {
					if fa.Call == cl {
						return true
					}
				}
				return false
			})
		}
		// one key slice flows through all four steps: the variable (a single RangeKeys
		// result) Export, Import and RemoveKeys are given is the same object
		var keyVar *types.Var
		sameSlice := func(e ast.Expr) bool {
			v := fn.varOf(e)
			if v == nil {
				return false
			}
			if keyVar == nil {
				keyVar = v
			}
			if v != keyVar {
				return false
			}
			n := 0
			for _, d := range fn.defsOf(v) {
				if d.rhs != nil {
					n++
				}
			}
			return n == 1
		}
		for _, call := range ex {
			c.Ob("transfer-order", name+"#Export-after-RangeKeys-ok", call.Pos(), isOK(fn.FactsAt(call), rk), "Export runs only after RangeKeys succeeded")
			c.Ob("same-keys", name+"#Export(keys)", call.Pos(), len(call.Args) == 2 && strings.HasSuffix(fn.Prov(call.Args[1]), ".RangeKeys()#0") && sameSlice(call.Args[1]), "Export is given the key slice RangeKeys returned; found "+fn.Prov(call.Args[1]))
		}
		for _, call := range im {
			fs := fn.FactsAt(call)
			c.Ob("transfer-order", name+"#Import-after-Export-ok", call.Pos(), isOK(fs, ex) && isOK(fs, rk), "the peer Import runs only after RangeKeys and Export succeeded")
			okArgs := len(call.Args) == 3 && strings.HasSuffix(fn.Prov(call.Args[1]), ".RangeKeys()#0") && sameSlice(call.Args[1]) && strings.HasSuffix(fn.Prov(call.Args[2]), ".Export()#0")
			c.Ob("same-keys", name+"#Import(keys,values)", call.Pos(), okArgs, "the peer imports exactly the selected keys with their exported values")
			se := call.Fun.(*ast.SelectorExpr)
			c.Ob("same-keys", name+"#Import-target", call.Pos(), strings.HasPrefix(fn.Prov(se.X), "param#"), "the import goes to the peer passed by the caller (new predecessor / successor); found "+fn.Prov(se.X))
		}
		for _, call := range rm {
			fs := fn.FactsAt(call)
			c.Ob("transfer-order", name+"#RemoveKeys-after-Import-ok", call.Pos(), isOK(fs, im), "local copies are removed only on the success edge of the peer's Import")
			c.Ob("same-keys", name+"#RemoveKeys(keys)", call.Pos(), len(call.Args) == 2 && strings.HasSuffix(fn.Prov(call.Args[1]), ".RangeKeys()#0") && sameSlice(call.Args[1]), "exactly the imported keys are removed; found "+fn.Prov(call.Args[1]))
		}
		// a failed step reaches the caller
		named := namedErrResult(fn)
		for _, r := range fn.Returns() {
			fs := fn.FactsAt(r)
			var failed *ast.CallExpr
			for _, group := range [][]*ast.CallExpr{rk, ex, im} {
				for _, cl := range group {
					if fs.Has(func(fa *Fact) bool { return fa.Kind == FCallFail && fa.Call == cl }) {
						failed = cl
					}
				}
			}
			if failed == nil {
				continue
			}
			ok := false
			if len(r.Results) == 0 && named != nil {
				cl, _, bound := fs.BindingOf(named)
				ok = bound && cl == failed
			} else if len(r.Results) > 0 {
				ok = errorResultIsNonNil(fn, r, r.Results[len(r.Results)-1], fs)
			}
			c.Ob("transfer-order", fmt.Sprintf("%s#error-of-%s-returned", name, fn.Str(failed.Fun)), r.Pos(), ok, "when a transfer step fails the function returns a non-nil error to its caller")
		}
	}

	// callers
	rj := chordFn(c, "LocalNode", "RequestToJoin")
	up := rj.CallsTo(false, "chord.LocalNode.transferKeysUpward")
	c.Floor("RequestToJoin transfer sites", len(up), 1)
	for _, call := range up {
		fs := rj.FactsAt(call)
		c.Ob("transfer-locked", "RequestToJoin#transferKeysUpward-under-surrogateMu", call.Pos(), fs.Held("n.surrogateMu", 'W'), "the upward transfer runs with surrogateMu write-held (KV requests are blocked)")
		c.Ob("transfer-locked", "RequestToJoin#transferKeysUpward-after-CAS", call.Pos(), hasTransition(rj, fs, "Active", "Transferring", true), "the upward transfer runs only after CAS Active->Transferring succeeded")
	}
	pub := 0
	ast.Inspect(rj.Body, func(n ast.Node) bool {
		as, ok := n.(*ast.AssignStmt)
		if !ok || len(as.Lhs) != 1 {
			return true
		}
		g := rj.enclosing(as)
		if g != rj {
			return true
		}
		isJoined := false
		if v := rj.varOf(as.Lhs[0]); v != nil && v == jflag {
			if cv, ok := rj.ConstVal(as.Rhs[0]); ok && (cv == "true") == jdone {
				isJoined = true
			}
		}
		if isJoined || rj.FieldKey(as.Lhs[0]) == "chord.LocalNode.surrogate" {
			pub++
			c.Ob("publish-after-transfer", "RequestToJoin#"+rj.Str(as.Lhs[0]), as.Pos(), rj.FactsAt(as).CallOK("chord.LocalNode.transferKeysUpward"), "the hand-off is published (joined flag / surrogate pointer) only after the key transfer succeeded")
		}
		return true
	})
	c.Floor("RequestToJoin publish sites", pub, 2)
	for _, r := range rj.Returns() {
		fs := rj.FactsAt(r)
		if fs.CallFail("chord.LocalNode.transferKeysUpward") && !fs.Unreachable {
			c.Ob("transfer-order", "RequestToJoin#transfer-failure-returned", r.Pos(), len(r.Results) == 3 && rj.Prov(r.Results[2]) == "global:spec/chord.ErrJoinTransferFailure", "a failed transfer is answered with ErrJoinTransferFailure")
		}
	}
	el := chordFn(c, "LocalNode", "executeLeave")
	down := el.CallsTo(false, "chord.LocalNode.transferKeysDownward")
	c.Floor("executeLeave transfer sites", len(down), 1)
	for _, call := range down {
		fs := el.FactsAt(call)
		c.Ob("transfer-locked", "executeLeave#transferKeysDownward-under-surrogateMu", call.Pos(), fs.Held("n.surrogateMu", 'W'), "the downward transfer runs with surrogateMu write-held")
		c.Ob("transfer-locked", "executeLeave#transferKeysDownward-after-CAS", call.Pos(), hasTransition(el, fs, "Active", "Leaving", true), "the downward transfer runs only after CAS Active->Leaving succeeded (on both lock orders)")
	}
	for _, w := range fieldWrites(c, "chord", "chord.LocalNode.surrogate") {
		if w.fn != el {
			continue
		}
		c.Ob("publish-after-transfer", "executeLeave#surrogate", w.stmt.Pos(), el.FactsAt(w.stmt).CallOK("chord.LocalNode.transferKeysDownward"), "the surrogate pointer is set only after the downward transfer succeeded")
	}
	for _, r := range el.Returns() {
		fs := el.FactsAt(r)
		if fs.CallFail("chord.LocalNode.transferKeysDownward") && !fs.Unreachable {
			c.Ob("transfer-order", "executeLeave#transfer-failure-returned", r.Pos(), len(r.Results) == 3 && errorResultIsNonNil(el, r, r.Results[2], fs), "a failed downward transfer makes executeLeave return the error (Leave retries)")
		}
	}

	releaseOwnerRule(c)

	// LocalNode.Import gate
	imp := chordFn(c, "LocalNode", "Import")
	ic := imp.CallsTo(false, kvKeys("Import")...)
	c.Floor("LocalNode.Import backend sites", len(ic), 1)
	for _, call := range ic {
		fs := imp.FactsAt(call)
		c.Ob("import-gate", "LocalNode.Import#surrogateMu-exclusive", call.Pos(), fs.Held("n.surrogateMu", 'W'), "incoming key transfers exclude concurrent KV operations (surrogateMu write lock)")
		for _, st := range []string{"Inactive", "Leaving", "Left"} {
			ok := fs.Cmp(func(e, tag ast.Expr, truth bool, fa *Fact) bool {
				if truth {
					return false
				}
				if tag != nil {
					return constName(imp, e) == st && strings.HasSuffix(imp.Prov(tag), ".state.Get()")
				}
				be, okb := e.(*ast.BinaryExpr)
				return okb && be.Op == token.EQL && constName(imp, be.Y) == st
			})
			c.Ob("import-gate", "LocalNode.Import#refuses-"+st, call.Pos(), ok, "a node that is "+st+" refuses imports (it would lose them)")
		}
	}
}

// ---------------------------------------------------------------------------------------

func runC04(c *Ctx) {
	snapshotCASRule(c)
	noReentrantLockRule(c)
	uses := 0
	stateActive := func(g *Fn, fs *FactSet) bool {
		return fs.Cmp(func(e, tag ast.Expr, truth bool, fa *Fact) bool {
			be, ok := e.(*ast.BinaryExpr)
			if !ok || tag != nil {
				return false
			}
			if !strings.HasSuffix(g.Prov(be.X), ".state.Get()") || constName(g, be.Y) != "Active" {
				return false
			}
			return (be.Op == token.NEQ && !truth) || (be.Op == token.EQL && truth)
		})
	}
	for _, fn := range c.AllFuncs("chord") {
		ast.Inspect(fn.Body, func(n ast.Node) bool {
			se, ok := n.(*ast.SelectorExpr)
			if !ok {
				return true
			}
			g := fn.enclosing(se)
			if g.FieldKey(se) != "chord.LocalNode.kv" {
				return true
			}
			uses++
			fs := g.FactsAt(se)
			base := types.ExprString(se.X)
			held := func(lock string, mode byte) bool { return fs.Held(base+"."+lock, mode) }
			site := fmt.Sprintf("%s#%s", fn.Name, g.C.pos(se.Pos()))
			_ = site
			switch fn.Name {
			case "chord.kvMiddleware":
				// which branch?
				isRepl := fs.Cmp(func(e, tag ast.Expr, truth bool, fa *Fact) bool {
					be, ok := e.(*ast.BinaryExpr)
					return ok && truth && be.Op == token.EQL && constName(g, be.Y) == "Context_KV_REPLICATION" && strings.HasSuffix(g.Prov(be.X), ".GetRequestTarget()")
				})
				if isRepl {
					c.Ob("kv-gate", "kvMiddleware#replication-bypass", se.Pos(), true, "direct store access under the KV_REPLICATION request target only")
					return true
				}
				c.Ob("kv-gate", "kvMiddleware#local:surrogateMu", se.Pos(), held("surrogateMu", 'R'), "local KV access holds surrogateMu (read) so a membership transfer cannot interleave")
				c.Ob("kv-gate", "kvMiddleware#local:predecessorMu", se.Pos(), held("predecessorMu", 'R'), "local KV access holds predecessorMu (read) across the ownership test and the operation")
				c.Ob("kv-gate", "kvMiddleware#local:state-active", se.Pos(), stateActive(g, fs), "local KV access only when the node state is Active on every path")
			case "chord.(LocalNode).ListKeys":
				c.Ob("kv-gate", "ListKeys#direct:surrogateMu", se.Pos(), held("surrogateMu", 'R'), "direct-target listing holds surrogateMu (read)")
				c.Ob("kv-gate", "ListKeys#direct:state-active", se.Pos(), stateActive(g, fs), "direct-target listing only in state Active")
			case "chord.(LocalNode).Import":
				c.Ob("kv-gate", "Import#surrogateMu", se.Pos(), held("surrogateMu", 'W'), "Import holds surrogateMu (write)")
			case "chord.(LocalNode).transferKeysUpward", "chord.(LocalNode).transferKeysDownward":
				c.Ob("kv-gate", fn.Name+"#caller-holds-surrogateMu", se.Pos(), lockHeldAt(g, se, "surrogateMu", 'W'), "transfer functions run with surrogateMu write-held by every caller")
			case "chord.NewLocalNode":
				// constructor assigns the field
			case "chord.(LocalNode).StatsHandler", "chord.(LocalNode).statsHandler":
				c.Ob("kv-gate", "stats-handler#read-only", se.Pos(), statsReadOnly(g, se), "listed exception: the admin stats page reads the store without the gate, read-only calls only")
			default:
				if strings.Contains(c.FileOf(se), "local_stats_handler.go") {
					c.Ob("kv-gate", "stats-handler#read-only", se.Pos(), statsReadOnly(g, se), "listed exception: the admin stats page reads the store without the gate, read-only calls only")
					return true
				}
				c.Ob("kv-gate", fn.Name+"#unlisted-kv-use", se.Pos(), false, "LocalNode.kv used outside the enumerated gated sites")
			}
			return true
		})
	}
	c.Floor("uses of LocalNode.kv", uses, 9)

	// forwarded requests leave this node without its pointer locks: the receiving node may
	// route the request back here (while the ring settles the surrogate's lookup can still
	// name us), and sync.RWMutex is not reentrant - a second RLock queued behind a waiting
	// membership change (RequestToJoin / Leave take the write lock) never returns
	kvOps := map[string]bool{"Put": true, "Get": true, "Delete": true, "PrefixAppend": true, "PrefixList": true, "PrefixContains": true, "PrefixRemove": true, "Acquire": true, "Renew": true, "Release": true, "ListKeys": true}
	nfwd := 0
	for _, fn := range c.AllFuncs("chord") {
		for _, call := range fn.Calls(true, func(call *ast.CallExpr) bool { return true }) {
			g := fn.enclosing(call)
			what := ""
			if id, ok := ast.Unparen(call.Fun).(*ast.Ident); ok && fn.Name == "chord.kvMiddleware" && len(call.Args) == 4 {
				if _, isVar := g.Info.ObjectOf(id).(*types.Var); isVar && g.FieldKey(call.Args[1]) != "chord.LocalNode.kv" {
					what = "handler(" + g.Str(call.Args[1]) + ")"
				}
			}
			if se, ok := ast.Unparen(call.Fun).(*ast.SelectorExpr); ok && kvOps[se.Sel.Name] {
				if tv, ok := g.Info.Types[se.X]; ok && g.FieldKey(se.X) != "chord.LocalNode.kv" {
					ts := tv.Type.String()
					if strings.HasSuffix(ts, "spec/chord.VNode") || strings.HasSuffix(ts, "spec/chord.KV") {
						if fd := fn.root().Decl; fd != nil && fd.Type.Params != nil {
							// the handler literals handed to kvMiddleware call kv.<op> on
							// their parameter: the forward is decided where kvMiddleware
							// invokes the handler
							if lit := g.Lit; lit != nil && len(lit.Type.Params.List) == 4 {
								continue
							}
						}
						what = g.Str(se.X) + "." + se.Sel.Name
					}
				}
			}
			if what == "" {
				continue
			}
			nfwd++
			fs := g.FactsAt(call)
			var held []string
			for _, fa := range fs.Facts {
				if fa.Kind == FHeld && (strings.HasSuffix(fa.Lock, ".surrogateMu") || strings.HasSuffix(fa.Lock, ".predecessorMu")) {
					held = append(held, fmt.Sprintf("%s(%c)", fa.Lock, fa.Mode))
				}
			}
			sort.Strings(held)
			c.Ob("forward-unlocked", strings.TrimPrefix(fn.Name, "chord.")+"#"+what, call.Pos(), len(held) == 0, "a KV request is handed to another node only with this node's surrogateMu / predecessorMu released (the request can come back: a recursive RLock behind a waiting writer deadlocks the node); held here: "+strings.Join(held, ", "))
		}
	}
	c.Floor("forwarded KV request sites", nfwd, 2)

	// once the local store ran the operation, its verdict is the request's verdict: no
	// return reachable after the local handler call yields anything but that call's
	// results (a retryable refusal issued AFTER the effect makes the caller retry an
	// operation that already happened - "failed with a retryable error but took effect")
	nloc := 0
	{
		kvm0 := c.Func("chord", "", "kvMiddleware")
		for _, call := range kvm0.Calls(true, func(call *ast.CallExpr) bool {
			id, ok := call.Fun.(*ast.Ident)
			return ok && kvm0.paramIndex(kvm0.Info.ObjectOf(id)) == 3 && len(call.Args) == 4
		}) {
			g := kvm0.enclosing(call)
			if g.FieldKey(call.Args[1]) != "chord.LocalNode.kv" {
				continue
			}
			if o := g.ObjOf(call.Args[2]); o != nil && o.Name() == "targetReplication" {
				continue
			}
			nloc++
			reached, _ := g.Reach(call, nil, nil)
			bad := ""
			check := func(r *ast.ReturnStmt) {
				if len(r.Results) == 1 && ast.Unparen(r.Results[0]) == ast.Expr(call) {
					return
				}
				for _, res := range r.Results {
					fromCall := false
					if v := g.varOf(res); v != nil {
						defs := g.defsOf(v)
						fromCall = len(defs) > 0
						for _, d := range defs {
							if d.rhs == nil || ast.Unparen(d.rhs) != ast.Expr(call) {
								fromCall = false
							}
						}
					}
					if !fromCall {
						bad = c.pos(r.Pos()) + " returns " + g.Prov(res)
					}
				}
			}
			for _, m := range reached {
				if r, ok := m.(*ast.ReturnStmt); ok && !containsNode(r, call) {
					check(r)
				}
			}
			c.Ob("kv-gate", "kvMiddleware#local-result-returned-as-is", call.Pos(), bad == "", "every return reachable after the local store handled the request yields the handler's own results; "+bad)
		}
	}
	c.Floor("local handler invocations in kvMiddleware", nloc, 1)

	// gate refusals
	kvm := c.Func("chord", "", "kvMiddleware")
	retry := retryableSentinels(c)
	nref := 0
	// the gate may sit in the function itself or in a literal it runs (the locked section)
	gates := []*Fn{kvm}
	for _, lit := range kvm.Lits() {
		gates = append(gates, kvm.Closure(lit))
	}
	for _, g := range gates {
		for _, r := range g.Returns() {
			if len(r.Results) != 2 {
				continue
			}
			pv := g.Prov(r.Results[1])
			if !strings.HasPrefix(pv, "global:spec/chord.Err") {
				continue
			}
			nref++
			name := strings.TrimPrefix(pv, "global:spec/chord.")
			c.Ob("gate-refusal", "kvMiddleware#returns-"+name, r.Pos(), retry[name], "a refusal at the KV gate must be retryable so callers re-route instead of failing")
			fs := g.FactsAt(r)
			if fs.Cmp(func(e, tag ast.Expr, truth bool, fa *Fact) bool {
				return tag != nil && truth && constName(g, e) == "ErrNodeGone"
			}) {
				c.Ob("gate-refusal", "kvMiddleware#ErrNodeGone-mapped", r.Pos(), name == "ErrKVStaleOwnership", "a leaving owner (ErrNodeGone from the lookup) is reported as stale ownership (retryable)")
			}
		}
	}
	c.Floor("kvMiddleware sentinel refusals", nref, 3)

	// siblings
	methods := []string{"Put", "Get", "Delete", "PrefixAppend", "PrefixList", "PrefixContains", "PrefixRemove", "Acquire", "Renew", "Release"}
	found := 0
	for _, m := range methods {
		fn := c.FuncOpt("chord", "LocalNode", m)
		if fn == nil {
			c.Ob("kv-sibling", "LocalNode."+m, token.NoPos, false, "KV method missing")
			continue
		}
		calls := fn.CallsTo(false, "chord.kvMiddleware")
		ok := len(calls) == 1
		det := ""
		if ok {
			call := calls[0]
			ok = len(call.Args) == 4 && fn.Prov(call.Args[0]) == "param#0" && fn.Prov(call.Args[1]) == "recv" && fn.Prov(call.Args[2]) == "param#1"
			det = fmt.Sprintf("kvMiddleware(%s, %s, %s, ...)", fn.Prov(call.Args[0]), fn.Prov(call.Args[1]), fn.Prov(call.Args[2]))
			lit, isLit := call.Args[3].(*ast.FuncLit)
			if ok && isLit {
				g := fn.Closure(lit)
				var inner []*ast.CallExpr
				for _, ic := range g.Calls(false, func(ic *ast.CallExpr) bool {
					se, ok := ic.Fun.(*ast.SelectorExpr)
					return ok && g.Prov(se.X) == "lit.param#1"
				}) {
					inner = append(inner, ic)
				}
				if len(inner) != 1 {
					ok = false
					det += fmt.Sprintf("; %d calls on the kv argument", len(inner))
				} else {
					ic := inner[0]
					name := ic.Fun.(*ast.SelectorExpr).Sel.Name
					if name != m {
						ok = false
						det += "; calls kv." + name
					}
					nparams := 0
					for _, fld := range fn.Type.Params.List {
						nparams += len(fld.Names)
					}
					if len(ic.Args) != nparams {
						ok = false
					}
					for i, a := range ic.Args {
						want := fmt.Sprintf("param#%d", i)
						if i == 0 {
							want = "lit.param#0"
						}
						if g.Prov(a) != want {
							ok = false
							det += fmt.Sprintf("; arg %d is %s", i, g.Prov(a))
						}
					}
				}
			} else if ok {
				ok = false
				det += "; handler is not a literal"
			}
			found++
		}
		c.Ob("kv-sibling", "LocalNode."+m, fn.Decl.Pos(), ok, "routes through kvMiddleware keyed by its own key/prefix/lease and calls kv."+m+" with its own arguments in order: "+det)
	}
	c.Floor("KV methods routed through kvMiddleware", found, 10)
}

func statsReadOnly(g *Fn, se *ast.SelectorExpr) bool {
	// the selector must be the receiver of a read-only KVProvider method call
	ok := false
	ast.Inspect(g.Body, func(n ast.Node) bool {
		call, isCall := n.(*ast.CallExpr)
		if !isCall {
			return true
		}
		if fse, isSel := call.Fun.(*ast.SelectorExpr); isSel && fse.X == ast.Expr(se) {
			switch fse.Sel.Name {
			case "Get", "PrefixList", "PrefixContains", "RangeKeys", "Export", "ListKeys":
				ok = true
			}
		}
		return true
	})
	return ok
}

// ---------------------------------------------------------------------------------------

var allowedStateSites = map[string]string{
	"chord.(LocalNode).Create:Transition(Inactive->Joining)":           "start",
	"chord.(LocalNode).Create:Set(->Active)":                           "Joining->Active",
	"chord.(LocalNode).Join:Transition(Inactive->Joining)":             "start",
	"chord.(LocalNode).Join:Set(->Inactive)":                           "Joining->Inactive (join failed)",
	"chord.(LocalNode).Join:Set(->Active)":                             "Joining->Active",
	"chord.(LocalNode).RequestToJoin:Transition(Active->Transferring)": "membership lock (join)",
	"chord.(LocalNode).RequestToJoin:Set(->Active)":                    "Transferring->Active (revert on failure)",
	"chord.(LocalNode).FinishJoin:Transition(Transferring->Active)":    "release",
	"chord.(LocalNode).RequestToLeave:Transition(Active->Transferring)": "membership lock (leave of predecessor)",
	"chord.(LocalNode).FinishLeave:Transition(Transferring->Active)":   "release",
	"chord.(LocalNode).Leave:Set(->Left)":                              "Leaving->Left / Active->Left (sole node)",
	"chord.(LocalNode).executeLeave:Transition(Active->Leaving)":       "membership lock (own leave)",
	"chord.(LocalNode).executeLeave:Set(->Active)":                     "Leaving->Active (revert on failure)",
}

func runC06(c *Ctx) {
	jflag, jdone := joinCompletionFlag(c)
	sites := stateSites(c)
	c.Floor("state transition sites in package chord", len(sites), 15)
	retry := retryableSentinels(c)
	for _, s := range sites {
		_, ok := allowedStateSites[s.key()]
		c.Ob("transition-site", s.key(), s.call.Pos(), ok, "every lifecycle transition site is one of the enumerated edges (a CAS from a named state, or a Set on a path that owns the lock)")
		if !ok {
			continue
		}
		fs := s.g.FactsAt(s.call)
		switch s.key() {
		case "chord.(LocalNode).Create:Set(->Active)", "chord.(LocalNode).Join:Set(->Active)":
			c.Ob("set-owner", s.key(), s.call.Pos(), hasTransition(s.g, fs, "Inactive", "Joining", true), "Set(Active) only on the path that won Inactive->Joining")
		case "chord.(LocalNode).Join:Set(->Inactive)":
			c.Ob("set-owner", s.key(), s.call.Pos(), hasTransition(s.g, fs, "Inactive", "Joining", true) && fs.CallFail("chord.LocalNode.executeJoin"), "Set(Inactive) only after this node won Inactive->Joining and the join failed")
		case "chord.(LocalNode).RequestToJoin:Set(->Active)":
			// inside the deferred literal: only when joined is false; the defer is registered after the CAS
			inLit := s.g.Lit != nil
			okJoined := inLit && fs.Cmp(func(e, tag ast.Expr, truth bool, fa *Fact) bool {
				id, ok := e.(*ast.Ident)
				return ok && !fa.Inherited && jflag != nil && s.g.varOf(id) == jflag && truth != jdone
			})
			okCAS := inLit && fs.Has(func(fa *Fact) bool {
				return fa.Inherited && fa.Kind == FTrue && s.fn.IsCall(fa.Call, "chord.nodeState.Transition") && constName(s.fn, fa.Call.Args[0]) == "Active" && constName(s.fn, fa.Call.Args[1]) == "Transferring"
			})
			c.Ob("set-owner", s.key(), s.call.Pos(), okJoined && okCAS, "the revert to Active runs only when the join did not complete, in a deferred block registered after the CAS succeeded")
		case "chord.(LocalNode).executeLeave:Set(->Active)":
			// decided below at the effect sites (helper closures / functions are followed)
		case "chord.(LocalNode).Leave:Set(->Left)":
			c.Ob("set-owner", s.key(), s.call.Pos(), fs.CallOK("github.com/avast/retry-go/v4.Do"), "Set(Left) only after executeLeave succeeded (retry.Do returned nil)")
		}
	}

	releaseOwnerRule(c)

	// (c) failed CAS -> retryable refusal
	for _, name := range []string{"RequestToJoin", "RequestToLeave", "executeLeave", "FinishJoin", "FinishLeave"} {
		fn := chordFn(c, "LocalNode", name)
		for _, r := range fn.Returns() {
			fs := fn.FactsAt(r)
			if fs.Unreachable {
				continue
			}
			failedCAS := fs.Has(func(fa *Fact) bool {
				return fa.Kind == FFalse && !fa.Sem && fa.Call != nil && fn.IsCall(fa.Call, "chord.nodeState.Transition")
			})
			if !failedCAS || len(r.Results) == 0 {
				continue
			}
			pv := fn.Prov(r.Results[len(r.Results)-1])
			nm := strings.TrimPrefix(pv, "global:spec/chord.")
			c.Ob("cas-refusal", fmt.Sprintf("%s#returns-%s", name, nm), r.Pos(), (nm == "ErrJoinInvalidState" || nm == "ErrLeaveInvalidState") && retry[nm], "a lost membership CAS is answered with the retryable Err{Join,Leave}InvalidState")
		}
	}

	// (b) work is cut by the CAS
	rj := chordFn(c, "LocalNode", "RequestToJoin")
	for _, w := range fieldWrites(c, "chord", "chord.LocalNode.predecessor") {
		if w.fn != rj {
			continue
		}
		g := rj.enclosing(w.stmt)
		fs := g.FactsAt(w.stmt)
		ok := fs.Cmp(func(e, tag ast.Expr, truth bool, fa *Fact) bool {
			id, ok := e.(*ast.Ident)
			return ok && jflag != nil && g.varOf(id) == jflag && truth == jdone
		})
		c.Ob("cas-cut", "RequestToJoin#predecessor<-joiner", w.stmt.Pos(), ok && g.Prov(w.stmt.Rhs[0]) == "param#0", "the joiner becomes predecessor only when the join completed (joined == true)")
	}
	el := chordFn(c, "LocalNode", "executeLeave")
	for _, call := range el.CallsTo(false, "chord.LocalNode.transferKeysDownward") {
		fs := el.FactsAt(call)
		c.Ob("cas-cut", "executeLeave#transfer-after-both-locks", call.Pos(), hasTransition(el, fs, "Active", "Leaving", true) && fs.CallOK("*.RequestToLeave"), "keys move only with both membership locks held (local CAS and successor's RequestToLeave), whichever order they were taken in")
	}

	// (d) pairing: release on every failing exit
	// RequestToJoin: deferred revert literal
	var deferLit *ast.FuncLit
	var deferStmt *ast.DeferStmt
	ast.Inspect(rj.Body, func(n ast.Node) bool {
		if d, ok := n.(*ast.DeferStmt); ok {
			if lit, ok := d.Call.Fun.(*ast.FuncLit); ok {
				for _, s := range sites {
					if s.g.Lit == lit {
						deferLit, deferStmt = lit, d
					}
				}
			}
		}
		return true
	})
	if deferLit == nil {
		c.Ob("release-on-failure", "RequestToJoin#deferred-revert", rj.Body.Pos(), false, "no deferred block reverting the state was found")
	} else {
		g := rj.Closure(deferLit)
		// every path through the literal on which joined is false passes Set(Active)
		_, exits := g.Reach(nil, func(n ast.Node) bool {
			return g.nodeHasCall(n, "chord.nodeState.Set") != nil
		}, func(b *cfgBlock, si int) bool {
			for _, at := range g.edgeAtoms(b, si) {
				if id, ok := at.e.(*ast.Ident); ok && jflag != nil && g.varOf(id) == jflag && at.truth == jdone {
					return true
				}
			}
			return false
		})
		c.Ob("release-on-failure", "RequestToJoin#revert-unless-joined", deferLit.Pos(), len(exits) == 0, fmt.Sprintf("in the deferred block every path with joined == false passes state.Set(Active); %d path(s) skip it", len(exits)))
		// no return between the CAS success and the defer registration
		reached, _ := rj.Reach(nil, func(n ast.Node) bool { return n == ast.Node(deferStmt) }, nil)
		bad := 0
		for _, n := range reached {
			if r, ok := n.(*ast.ReturnStmt); ok && hasTransition(rj, rj.FactsAt(r), "Active", "Transferring", true) {
				bad++
			}
		}
		c.Ob("release-on-failure", "RequestToJoin#defer-registered-right-after-CAS", deferStmt.Pos(), bad == 0, "no exit lies between the successful CAS and the registration of the revert")
	}
	// executeLeave: error exits after RequestToLeave ok pass FinishLeave(false,true); after local CAS ok pass Set(Active)
	isErrRet := func(r *ast.ReturnStmt) bool {
		if len(r.Results) != 3 {
			return false
		}
		return errorResultIsNonNil(el, r, r.Results[2], el.FactsAt(r))
	}
	for _, rl := range methodCalls(el, false, "RequestToLeave") {
		var st ast.Node = rl
		reached, _ := el.Reach(st, func(n ast.Node) bool { return el.nodePerforms(n, finishRelease("FinishLeave"), true, 0) }, nil)
		bad := 0
		nerr := 0
		for _, n := range reached {
			r, ok := n.(*ast.ReturnStmt)
			if !ok || !isErrRet(r) {
				continue
			}
			fs := el.FactsAt(r)
			if !fs.Has(func(fa *Fact) bool { return fa.Kind == FCallOK && fa.Call == rl }) {
				continue // the request itself failed: nothing to release remotely
			}
			nerr++
			bad++
			c.Ob("release-on-failure", "executeLeave#successor-lock-released", r.Pos(), false, "an error exit after the successor granted RequestToLeave does not pass succ.FinishLeave(false, true)")
		}
		if bad == 0 {
			c.Ob("release-on-failure", "executeLeave#successor-lock-released", rl.Pos(), true, "every error exit after this RequestToLeave succeeded passes succ.FinishLeave(false, true)")
		}
	}
	for _, s := range sites {
		if s.fn != el || s.kind != "Transition" || s.g != el {
			continue
		}
		reached, _ := el.Reach(s.call, func(n ast.Node) bool { return el.nodePerforms(n, setActive, true, 0) }, nil)
		bad := 0
		for _, n := range reached {
			r, ok := n.(*ast.ReturnStmt)
			if !ok || !isErrRet(r) {
				continue
			}
			fs := el.FactsAt(r)
			if !fs.Has(func(fa *Fact) bool { return fa.Kind == FTrue && fa.Call == s.call }) {
				continue
			}
			bad++
			c.Ob("release-on-failure", "executeLeave#local-lock-released", r.Pos(), false, "an error exit after the local CAS Active->Leaving succeeded does not pass state.Set(Active)")
		}
		if bad == 0 {
			c.Ob("release-on-failure", "executeLeave#local-lock-released", s.call.Pos(), true, "every error exit after this CAS succeeded passes state.Set(Active)")
		}
	}
	// Join: failure path sets Inactive before returning
	jn := chordFn(c, "LocalNode", "Join")
	for _, ej := range jn.CallsTo(false, "chord.LocalNode.executeJoin") {
		reached, _ := jn.Reach(ej, func(n ast.Node) bool {
			cl := jn.nodeHasCall(n, "chord.nodeState.Set")
			return cl != nil && constName(jn, cl.Args[0]) == "Inactive"
		}, nil)
		bad := 0
		for _, n := range reached {
			if r, ok := n.(*ast.ReturnStmt); ok && jn.FactsAt(r).Has(func(fa *Fact) bool { return fa.Kind == FCallFail && fa.Call == ej }) {
				bad++
			}
		}
		c.Ob("release-on-failure", "Join#failure-returns-to-Inactive", ej.Pos(), bad == 0, "a failed join puts the node back to Inactive before returning (it can retry)")
	}
}

// ---------------------------------------------------------------------------------------

func runC13(c *Ctx) {
	ns := "chord.nodeState."
	tr := chordFn(c, "nodeState", "Transition")
	// (a) writers of nodeState.state
	writers := map[string][]string{}
	for _, fn := range c.AllFuncs("chord") {
		for _, call := range fn.Calls(true, func(call *ast.CallExpr) bool {
			se, ok := call.Fun.(*ast.SelectorExpr)
			if !ok {
				return false
			}
			g := fn.enclosing(call)
			return g.FieldKey(se.X) == "chord.nodeState.state"
		}) {
			m := call.Fun.(*ast.SelectorExpr).Sel.Name
			switch m {
			case "Load":
			default:
				writers[m] = append(writers[m], fn.Name)
				allowed := (m == "CompareAndSwap" && fn.Name == "chord.(nodeState).Transition") || (m == "Store" && fn.Name == "chord.newNodeState")
				c.Ob("state-writers", fmt.Sprintf("%s<-%s", ns+"state."+m, fn.Name), call.Pos(), allowed, "the packed state word is written only by the CAS in Transition (and the constructor's initial Store)")
			}
		}
		// the field itself must not be reassigned or address-taken elsewhere
	}
	c.Floor("CAS sites on nodeState.state", len(writers["CompareAndSwap"]), 1)
	// (a') history written on the CAS success edge with the swapped index
	cas := tr.Calls(false, func(call *ast.CallExpr) bool {
		se, ok := call.Fun.(*ast.SelectorExpr)
		return ok && se.Sel.Name == "CompareAndSwap" && tr.FieldKey(se.X) == "chord.nodeState.state"
	})
	for _, fn := range c.AllFuncs("chord") {
		for _, call := range fn.Calls(true, func(call *ast.CallExpr) bool {
			se, ok := call.Fun.(*ast.SelectorExpr)
			return ok && se.Sel.Name == "Store" && fn.enclosing(call).FieldKey(se.X) == "chord.nodeState.history"
		}) {
			if fn.Name == "chord.newNodeState" {
				continue
			}
			ok := fn == tr && len(cas) == 1 && tr.FactsAt(call).Has(func(fa *Fact) bool { return fa.Kind == FTrue && fa.Call == cas[0] })
			c.Ob("history-on-cas", "nodeState.history.Store<-"+fn.Name, call.Pos(), ok, "a history entry is recorded only by the attempt whose CAS succeeded")
		}
	}
	nodeStateSemantics(c)
	// (that every State constant survives the packing is part of nodeStateSemantics)
	sc := c.P("spec/chord").Types.Scope()
	nconst := 0
	var names []string
	for _, nm := range sc.Names() {
		if k, ok := sc.Lookup(nm).(*types.Const); ok {
			if named, ok := k.Type().(*types.Named); ok && named.Obj().Name() == "State" {
				nconst++
				names = append(names, nm)
			}
		}
	}
	sort.Strings(names)
	c.Floor("chord.State constants", nconst, 6)

	// Set only loops over Transition(Get(), val)
	set := chordFn(c, "nodeState", "Set")
	trCalls := set.CallsTo(false, "chord.nodeState.Transition")
	// every attempt is Transition(Get(), val) (one call in a loop, or a first attempt followed
	// by the same call in a retry loop), and the function returns only after an attempt won
	okSet := len(trCalls) >= 1
	for _, tc := range trCalls {
		if set.Prov(tc.Args[0]) != "recv.Get()" || set.Prov(tc.Args[1]) != "param#0" {
			okSet = false
		}
	}
	if okSet {
		// no exit is reachable without passing the success edge of an attempt
		_, exits := set.Reach(nil, nil, func(b *cfgBlock, si int) bool {
			for _, at := range set.edgeAtoms(b, si) {
				if at.tag != nil {
					continue
				}
				// ok true / !ok false, where ok is bound to an attempt
				e := ast.Unparen(at.e)
				truth := at.truth
				if u, isNot := e.(*ast.UnaryExpr); isNot && u.Op == token.NOT {
					e, truth = ast.Unparen(u.X), !truth
				}
				if truth && strings.Contains(set.Prov(e), ".Transition()#1") {
					return true
				}
			}
			return false
		})
		okSet = len(exits) == 0
	}
	c.Ob("state-writers", "nodeState.Set#via-Transition", set.Decl.Pos(), okSet, "Set retries Transition(Get(), val) until it wins; it never stores directly")
	if okSet {
		// (decided above: no exit of Set is reachable without passing the success edge of an attempt)
		okExit := true
		c.Ob("state-writers", "nodeState.Set#exits-only-on-success", set.Decl.Pos(), okExit, "the retry loop is left only when the transition succeeded")
	}

	// (c) LocalNode.state only through its methods
	nuse := 0
	for _, fn := range c.AllFuncs("chord") {
		var stack []ast.Node
		ast.Inspect(fn.Body, func(n ast.Node) bool {
			if n == nil {
				stack = stack[:len(stack)-1]
				return true
			}
			stack = append(stack, n)
			se, ok := n.(*ast.SelectorExpr)
			if !ok || fn.enclosing(se).FieldKey(se) != "chord.LocalNode.state" {
				return true
			}
			nuse++
			okUse := false
			if len(stack) >= 2 {
				if p, ok := stack[len(stack)-2].(*ast.SelectorExpr); ok && p.X == ast.Expr(se) {
					switch p.Sel.Name {
					case "Transition", "Set", "Get", "History":
						okUse = true
					}
				}
				if kv, ok := stack[len(stack)-2].(*ast.KeyValueExpr); ok && fn.Name == "chord.NewLocalNode" && kv.Key == ast.Expr(se) {
					okUse = true
				}
			}
			c.Ob("state-encapsulated", fmt.Sprintf("%s#%s", fn.Name, types.ExprString(se)), se.Pos(), okUse, "LocalNode.state is used only through Transition/Set/Get/History")
			return true
		})
	}
	c.Floor("uses of LocalNode.state", nuse, 15)

	// (d) lifecycle table
	allowedEdges := map[string]bool{
		"Inactive->Joining": true, "Active->Transferring": true, "Transferring->Active": true, "Active->Leaving": true,
	}
	allowedSets := map[string]bool{"Active": true, "Inactive": true, "Left": true}
	for _, s := range stateSites(c) {
		if s.kind == "Transition" {
			c.Ob("lifecycle-edge", s.key(), s.call.Pos(), allowedEdges[s.from+"->"+s.to], "CAS edges of the lifecycle graph: Inactive->Joining, Active->Transferring, Transferring->Active, Active->Leaving")
		} else {
			_, listed := allowedStateSites[s.key()]
			c.Ob("lifecycle-edge", s.key(), s.call.Pos(), allowedSets[s.to] && listed, "Set is used only for Joining->Active, Joining->Inactive, revert ->Active and ->Left at the enumerated sites")
		}
	}
}

func viaStr(es effSite) string {
	if es.via != "" {
		return " (through helper " + es.via + ")"
	}
	return ""
}

// releaseOwnerRule: the local revert and the remote release happen only on paths that own
// the corresponding membership lock. Shared by C06 (mutual exclusion) and C03 (a transfer
// interleaved with another membership change loses data).
func releaseOwnerRule(c *Ctx) {
	for _, nm := range []string{"executeLeave", "executeJoin", "RequestToJoin", "RequestToLeave", "Leave", "Join", "FinishJoin", "FinishLeave", "stabilize", "fixFinger"} {
		c.noFollow["chord.(LocalNode)."+nm] = true
	}
	elx := chordFn(c, "LocalNode", "executeLeave")

	nrel := 0
	for _, es := range elx.effectSites(setActive) {
		nrel++
		fs := es.g.FactsAt(es.call)
		okLock := hasTransition(es.g, fs, "Active", "Leaving", true)
		okFail := fs.CallFail("*.RequestToLeave") || fs.CallFail("chord.LocalNode.transferKeysDownward")
		c.Ob("set-owner", "executeLeave#revert-to-Active", es.call.Pos(), okLock && okFail, "the revert to Active runs only on a failure path that holds the local leave lock (CAS Active->Leaving succeeded)"+viaStr(es))
	}
	for _, es := range elx.effectSites(finishRelease("FinishLeave")) {
		nrel++
		fs := es.g.FactsAt(es.call)
		c.Ob("release-owner", "executeLeave#successor-release", es.call.Pos(), fs.CallOK("*.RequestToLeave"), "the successor's membership lock is released only on paths where this node's RequestToLeave was granted - releasing a lock someone else holds admits a second membership change"+viaStr(es))
	}
	c.Floor("executeLeave release sites", nrel, 4)
	lv := chordFn(c, "LocalNode", "Leave")
	for _, es := range lv.effectSites(finishRelease("FinishLeave")) {
		c.Ob("release-owner", "Leave#successor-release", es.call.Pos(), es.g.FactsAt(es.call).CallOK("github.com/avast/retry-go/v4.Do"), "Leave releases the successor only after executeLeave succeeded"+viaStr(es))
	}
	jnx := chordFn(c, "LocalNode", "Join")
	for _, es := range jnx.effectSites(finishRelease("FinishJoin")) {
		c.Ob("release-owner", "Join#successor-release", es.call.Pos(), es.g.FactsAt(es.call).CallOK("chord.LocalNode.executeJoin"), "the joiner releases its successor's join lock only after its own RequestToJoin succeeded"+viaStr(es))
	}

}

func setActive(g *Fn, call *ast.CallExpr) bool {
	return g.IsCall(call, "chord.nodeState.Set") && constName(g, call.Args[0]) == "Active"
}

func finishRelease(name string) effPred {
	return func(g *Fn, call *ast.CallExpr) bool {
		se, ok := ast.Unparen(call.Fun).(*ast.SelectorExpr)
		if !ok || se.Sel.Name != name || len(call.Args) != 2 || g.Info.Selections[se] == nil {
			return false
		}
		b, _ := g.ConstVal(call.Args[1])
		return b != "false"
	}
}

// lockAcquisitions lists the mutex fields fn locks, itself or through statically resolved
// callees (depth 4), as "fieldKey:Lock|RLock".
func lockAcquisitions(c *Ctx, fn *Fn, depth int, seen map[string]bool) map[string]bool {
	out := map[string]bool{}
	if fn == nil || depth > 4 || seen[fn.Name] {
		return out
	}
	seen[fn.Name] = true
	for _, call := range fn.Calls(true, func(call *ast.CallExpr) bool { return true }) {
		g := fn.enclosing(call)
		if se, ok := ast.Unparen(call.Fun).(*ast.SelectorExpr); ok && (se.Sel.Name == "Lock" || se.Sel.Name == "RLock") {
			if k := g.FieldKey(se.X); k != "" {
				out[k+":"+se.Sel.Name] = true
			}
		}
		if o := g.Callee(call); o != nil {
			if cf := c.FnOfObj(o); cf != nil {
				for k := range lockAcquisitions(c, cf, depth+1, seen) {
					out[k] = true
				}
			}
		}
	}
	return out
}

// noReentrantLockRule: sync.Mutex and sync.RWMutex are not reentrant (a second RLock
// queues behind a waiting writer). No function of package chord calls, while holding one
// of the node's mutexes, a function that acquires the same mutex field of the same
// receiver again.
func noReentrantLockRule(c *Ctx) {
	sites := 0
	for _, fn := range c.AllFuncs("chord") {
		for _, call := range fn.Calls(true, func(call *ast.CallExpr) bool { return true }) {
			g := fn.enclosing(call)
			o := g.Callee(call)
			if o == nil {
				continue
			}
			cf := c.FnOfObj(o)
			if cf == nil || cf.Decl == nil || cf.Decl.Recv == nil {
				continue
			}
			se, ok := ast.Unparen(call.Fun).(*ast.SelectorExpr)
			if !ok {
				continue
			}
			var held []*Fact
			for _, fa := range g.FactsAt(call).Facts {
				if fa.Kind == FHeld && !fa.Sem {
					held = append(held, fa)
				}
			}
			if len(held) == 0 {
				continue
			}
			sites++
			base := types.ExprString(se.X)
			acq := lockAcquisitions(c, cf, 0, map[string]bool{})
			var again []string
			for _, h := range held {
				i := strings.LastIndex(h.Lock, ".")
				if i < 0 || h.Lock[:i] != base {
					continue // a lock of another object
				}
				for k := range acq {
					if strings.HasSuffix(strings.Split(k, ":")[0], "."+h.Lock[i+1:]) {
						again = append(again, fmt.Sprintf("%s held(%c), callee takes %s", h.Lock, h.Mode, k))
					}
				}
			}
			sort.Strings(again)
			if len(again) > 0 {
				c.Ob("no-reentrant-lock", strings.TrimPrefix(fn.Name, "chord.")+"#"+g.Str(call.Fun), call.Pos(), false, "the callee acquires a mutex the caller already holds on the same receiver: "+strings.Join(again, "; "))
			}
		}
	}
	c.Ob("no-reentrant-lock", "chord#calls-under-a-held-node-mutex", 0, true, fmt.Sprintf("%d method calls made under a held mutex were followed through statically resolved callees (depth 4); none re-acquires a held mutex", sites))
	c.Floor("method calls under a held mutex (package chord)", sites, 10)
}

// nodeStateSemantics decides the packing of (history index, lifecycle state) into one word
// by EXECUTING Transition, Get and newNodeState on a grid of words / states / CAS outcomes
// and comparing with what the property needs - independent of how the word is laid out or
// of whether packing lives in helpers:
//   D(w) := Get() with the word w loaded
//   (a) the expected word equals the loaded word exactly when D(loaded) == exp (a CAS from
//       the expected state, nothing else); (b) the new word differs from the loaded one and
//       decodes to nxt; (c) on success exactly one history entry (index, nxt) is recorded
//       and a following transition records index+1; on failure none; (d) the results are
//       (nxt, true) / (D(loaded), false); (e) the constructor's word decodes to the
//       initial state and records it at index 0, for every State constant.
func nodeStateSemantics(c *Ctx) {
	tr := chordFn(c, "nodeState", "Transition")
	get := chordFn(c, "nodeState", "Get")
	ctor := c.Func("chord", "", "newNodeState")
	type rec struct {
		cas   [][2]*big.Int
		hist  [][2]*big.Int
		store []*big.Int
	}
	run := func(fn *Fn, args []Val, word *big.Int, casOK bool) (*rec, []Val, error) {
		r := &rec{}
		ext := func(f *Fn, call *ast.CallExpr, recv Val, a []Val) (Val, bool) {
			se, ok := ast.Unparen(call.Fun).(*ast.SelectorExpr)
			if !ok {
				return nil, false
			}
			switch f.FieldKey(se.X) {
			case "chord.nodeState.state":
				switch se.Sel.Name {
				case "Load":
					return word, true
				case "CompareAndSwap":
					x, ok1 := a[0].(*big.Int)
					y, ok2 := a[1].(*big.Int)
					if ok1 && ok2 {
						r.cas = append(r.cas, [2]*big.Int{x, y})
						return casOK, true
					}
				case "Store":
					if x, ok := a[0].(*big.Int); ok {
						r.store = append(r.store, x)
						return nilVal{}, true
					}
				}
			case "chord.nodeState.history":
				if se.Sel.Name == "Store" {
					x, ok1 := a[0].(*big.Int)
					y, ok2 := a[1].(*big.Int)
					if ok1 && ok2 {
						r.hist = append(r.hist, [2]*big.Int{x, y})
						return nilVal{}, true
					}
				}
			}
			return nil, false
		}
		res, err := fn.EvalFn(args, ext)
		return r, res, err
	}
	decode := func(w *big.Int) (*big.Int, error) {
		_, res, err := run(get, nil, w, false)
		if err != nil || len(res) != 1 {
			return nil, fmt.Errorf("Get not evaluable: %v", err)
		}
		v, ok := res[0].(*big.Int)
		if !ok {
			return nil, fmt.Errorf("Get yields a non-integer")
		}
		return v, nil
	}
	// state constants
	sc := c.P("spec/chord").Types.Scope()
	var states []*big.Int
	for _, nm := range sc.Names() {
		if k, ok := sc.Lookup(nm).(*types.Const); ok {
			if named, ok := k.Type().(*types.Named); ok && named.Obj().Name() == "State" {
				if v, ok := constToVal(k.Val()).(*big.Int); ok {
					states = append(states, v)
				}
			}
		}
	}
	c.Floor("chord.State constants evaluated", len(states), 6)
	// words: produced by the code itself - the constructor's word for every state, then a
	// few transitions on from there (so the grid contains only well-formed words)
	var words []*big.Int
	bad := func(key, msg string) {
		c.Ob("packing", key, tr.Decl.Pos(), false, msg)
	}
	for _, st := range states {
		r, _, err := run(ctor, []Val{st}, big.NewInt(0), false)
		if err != nil || len(r.store) != 1 {
			c.Failf("newNodeState not evaluable (undecided): %v", err)
		}
		w0 := r.store[0]
		d, err := decode(w0)
		if err != nil {
			c.Failf("%v (undecided)", err)
		}
		okInit := d.Cmp(st) == 0 && len(r.hist) == 1 && r.hist[0][0].Sign() == 0 && r.hist[0][1].Cmp(st) == 0
		c.Ob("packing", fmt.Sprintf("newNodeState#initial-word-decodes-to-%v", st), ctor.Decl.Pos(), okInit, fmt.Sprintf("the constructor stores a word that Get() decodes to the initial state %v and records it at history index 0; word=%v decoded=%v history=%v", st, w0, d, r.hist))
		words = append(words, w0)
	}
	// grow the grid by successful transitions
	seen := map[string]bool{}
	for _, w := range words {
		seen[w.String()] = true
	}
	for gen := 0; gen < 3; gen++ {
		var next []*big.Int
		for _, w := range words {
			d, _ := decode(w)
			for _, nxt := range states[:min(3, len(states))] {
				r, _, err := run(tr, []Val{d, nxt}, w, true)
				if err == nil && len(r.cas) == 1 && !seen[r.cas[0][1].String()] {
					seen[r.cas[0][1].String()] = true
					next = append(next, r.cas[0][1])
				}
			}
		}
		words = append(words, next...)
		if len(words) > 60 {
			break
		}
	}
	nEval, fail := 0, map[string]string{}
	note := func(key, msg string) {
		if _, ok := fail[key]; !ok {
			fail[key] = msg
		}
	}
	for _, w := range words {
		d, err := decode(w)
		if err != nil {
			c.Failf("%v (undecided)", err)
		}
		for _, exp := range states {
			for _, nxt := range states {
				for _, casOK := range []bool{true, false} {
					r, res, err := run(tr, []Val{exp, nxt}, w, casOK)
					if err != nil {
						c.Failf("nodeState.Transition not evaluable (undecided): %v", err)
					}
					nEval++
					if len(r.cas) != 1 {
						note("Transition#one-cas", fmt.Sprintf("%d CAS calls", len(r.cas)))
						continue
					}
					old, nw := r.cas[0][0], r.cas[0][1]
					if (old.Cmp(w) == 0) != (d.Cmp(exp) == 0) {
						note("Transition#expected-word-matches-iff-state-is-expected", fmt.Sprintf("loaded word %v (state %v), exp %v: expected word %v", w, d, exp, old))
					}
					if nw.Cmp(w) == 0 {
						note("Transition#new-word-differs-from-loaded", fmt.Sprintf("word %v: new word equals it (a second attempt from the same snapshot would also succeed)", w))
					}
					if dn, err := decode(nw); err != nil || dn.Cmp(nxt) != 0 {
						note("Transition#new-word-decodes-to-next-state", fmt.Sprintf("word %v nxt %v: new word %v decodes to %v", w, nxt, nw, dn))
					}
					if casOK {
						if len(r.hist) != 1 || r.hist[0][1].Cmp(nxt) != 0 {
							note("Transition#success-records-one-history-entry-of-next-state", fmt.Sprintf("history writes %v", r.hist))
						} else {
							// the following transition records index+1
							r2, _, err2 := run(tr, []Val{nxt, exp}, nw, true)
							if err2 != nil || len(r2.hist) != 1 || new(big.Int).Sub(r2.hist[0][0], r.hist[0][0]).Cmp(big.NewInt(1)) != 0 {
								note("Transition#history-index-advances-by-one", fmt.Sprintf("index %v then %v", r.hist[0][0], r2.hist))
							}
						}
						okRes := len(res) == 2 && valEq(res[0], nxt) && valEq(res[1], true)
						if !okRes {
							note("Transition#success-result", fmt.Sprintf("returns %v", res))
						}
					} else {
						if len(r.hist) != 0 {
							note("Transition#failure-records-nothing", fmt.Sprintf("history writes %v on a failed CAS", r.hist))
						}
						okRes := len(res) == 2 && valEq(res[0], d) && valEq(res[1], false)
						if !okRes {
							note("Transition#failure-result", fmt.Sprintf("returns %v, current state is %v", res, d))
						}
					}
				}
			}
		}
	}
	for _, key := range []string{"Transition#one-cas", "Transition#expected-word-matches-iff-state-is-expected", "Transition#new-word-differs-from-loaded", "Transition#new-word-decodes-to-next-state", "Transition#success-records-one-history-entry-of-next-state", "Transition#history-index-advances-by-one", "Transition#success-result", "Transition#failure-records-nothing", "Transition#failure-result"} {
		msg, failed := fail[key]
		rule := "packing"
		if strings.Contains(key, "history") || strings.Contains(key, "records") {
			rule = "history-on-cas"
		}
		c.Ob(rule, "nodeState."+key, tr.Decl.Pos(), !failed, fmt.Sprintf("executed on %d (word, expected, next, CAS outcome) valuations over %d words produced by the code itself; %s", nEval, len(words), msg))
	}
	_ = bad
	c.Extra("nodestate_valuations", nEval)
}

// joinCompletionFlag finds the boolean local of RequestToJoin that records "the join
// completed" by what is done with it, whatever it is called and whichever polarity it has:
// it is assigned a boolean constant where transferKeysUpward is known to have succeeded.
// done is that constant (`joined = true` -> true; `revert = false` -> false).
func joinCompletionFlag(c *Ctx) (*types.Var, bool) {
	rj := chordFn(c, "LocalNode", "RequestToJoin")
	// by its use: the boolean local under whose test the deferred block makes the joiner the
	// predecessor; `done` is the truth value of that test there
	for _, w := range fieldWrites(c, "chord", "chord.LocalNode.predecessor") {
		if w.fn.root() != rj {
			continue
		}
		g := w.fn.enclosing(w.stmt)
		if g == rj {
			continue // only the deferred block's write
		}
		var flag *types.Var
		done := false
		g.FactsAt(w.stmt).Cmp(func(e, tag ast.Expr, truth bool, fa *Fact) bool {
			if tag != nil || fa.Inherited {
				return false
			}
			if v := g.varOf(e); v != nil && types.Identical(v.Type(), types.Typ[types.Bool]) && flag == nil {
				flag, done = v, truth
			}
			return false
		})
		if flag != nil {
			return flag, done
		}
	}
	// by its definition: assigned a boolean constant where the transfer is known to have succeeded
	var flag *types.Var
	done := false
	for _, nd := range shallowNodes(rj.Body) {
		as, ok := nd.(*ast.AssignStmt)
		if !ok || len(as.Lhs) != 1 || len(as.Rhs) != 1 {
			continue
		}
		v := rj.varOf(as.Lhs[0])
		if v == nil || !types.Identical(v.Type(), types.Typ[types.Bool]) {
			continue
		}
		cv, isConst := rj.ConstVal(as.Rhs[0])
		if !isConst || !rj.FactsAt(as).CallOK("chord.LocalNode.transferKeysUpward") {
			continue
		}
		flag, done = v, cv == "true"
	}
	return flag, done
}
