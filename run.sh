#!/bin/bash
# usage: run.sh <property-id> quick|thorough
# Decides one property by static analysis of /repo's current working tree.
set -u
HERE="$(cd "$(dirname "${BASH_SOURCE[0]}")" && pwd)"
export PATH=/opt/veriftools/go1.26.8/bin:$PATH
export GOFLAGS=-mod=mod GOPROXY=off GOSUMDB=off GOTOOLCHAIN=local
unset GOWORK
PROP="$1"; TIER="${2:-${VERIF_TIER:-quick}}"
REPO="${VERIF_REPO:-/repo}"
BIN="$HERE/bin/specterlint"
if [ ! -x "$BIN" ] || [ -n "$(find "$HERE/analyzer" -newer "$BIN" -name '*.go' -print -quit 2>/dev/null)" ]; then
  "$HERE/setup.sh" >/dev/null 2>"$HERE/bin/.build.log" || { cat "$HERE/bin/.build.log" >&2; echo "specterlint build failed" >&2; exit 2; }
fi
mkdir -p "$HERE/evidence"
exec "$BIN" -prop "$PROP" -tier "$TIER" -repo "$REPO" -verif "$HERE" -seed "${VERIF_SEED:-0}"
